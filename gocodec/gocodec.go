// Package gocodec relates three views of one Thrift value: the model's
// abstract value (idl.AV), the schema-less wire tree (tvalue.Value) and a Go
// value of a type emitted by the compiler under test (through reflection only:
// no naming rule of the generator is re-implemented; struct fields are matched
// to IDL fields by declaration order and the emitted IsSet<F> methods define
// "set" for optional fields).
package gocodec

import (
	"encoding/base64"
	"fmt"
	"reflect"
	"strconv"
	"strings"

	"github.com/apache/thrift/lib/go/thrift"

	"verif/idl"
	"verif/tvalue"
)

// TType maps a resolved kind to its wire type.
func TType(kind string) thrift.TType {
	switch kind {
	case "bool":
		return thrift.BOOL
	case "byte":
		return thrift.BYTE
	case "i16":
		return thrift.I16
	case "i32", "enum":
		return thrift.I32
	case "i64":
		return thrift.I64
	case "double":
		return thrift.DOUBLE
	case "string", "binary":
		return thrift.STRING
	case "struct":
		return thrift.STRUCT
	case "list":
		return thrift.LIST
	case "set":
		return thrift.SET
	case "map":
		return thrift.MAP
	}
	return thrift.STOP
}

// WireTree returns the encoding the IDL declares for av: field ids and wire
// types from the model, required/default fields always present, optional
// fields iff set.
func WireTree(p *idl.Program, av *idl.AV) tvalue.Value {
	v := tvalue.Value{T: TType(av.Kind)}
	switch av.Kind {
	case "bool":
		v.B = av.B
	case "byte", "i16", "i32", "i64", "enum":
		v.I = av.I
	case "double":
		v.D = av.D
	case "string":
		v.S = av.S
	case "binary":
		v.S, v.Bin = av.S, true
	case "struct":
		v.Name = av.St.Name
		for _, fl := range av.St.Fields {
			if x, ok := av.Fields[fl.ID]; ok {
				v.Fields = append(v.Fields, tvalue.Field{ID: int16(fl.ID), V: WireTree(p, x)})
			}
		}
	case "list", "set":
		k, _, _, _ := p.ResolveKind(av.ElemFile, av.ElemType)
		v.ElemT = TType(k)
		for _, e := range av.Elems {
			v.Elems = append(v.Elems, WireTree(p, e))
		}
	case "map":
		kk, _, _, _ := p.ResolveKind(av.ElemFile, av.KeyType)
		vk, _, _, _ := p.ResolveKind(av.ElemFile, av.ElemType)
		v.KeyT, v.ValT = TType(kk), TType(vk)
		for i := range av.Keys {
			v.Keys = append(v.Keys, WireTree(p, av.Keys[i]))
			v.Vals = append(v.Vals, WireTree(p, av.Vals[i]))
		}
	}
	return v
}

// AsRead transforms a tree into what a schema-less reader sees for the given
// protocol: the JSON protocol transmits binaries as base64 text.
func AsRead(v tvalue.Value, proto string) tvalue.Value {
	out := v
	if v.T == thrift.STRING && v.Bin {
		out.Bin = false
		if proto == "json" {
			out.S = []byte(base64.StdEncoding.EncodeToString(v.S))
		}
	}
	out.Fields = nil
	for _, f := range v.Fields {
		out.Fields = append(out.Fields, tvalue.Field{ID: f.ID, V: AsRead(f.V, proto)})
	}
	out.Elems, out.Keys, out.Vals = nil, nil, nil
	for _, e := range v.Elems {
		out.Elems = append(out.Elems, AsRead(e, proto))
	}
	for i := range v.Keys {
		out.Keys = append(out.Keys, AsRead(v.Keys[i], proto))
		out.Vals = append(out.Vals, AsRead(v.Vals[i], proto))
	}
	return out
}

// goFieldIsSet decides whether an optional field of a Go struct value is set,
// using the emitted IsSet<GoFieldName> method when there is one.
func goFieldIsSet(ptr reflect.Value, goName string, fv reflect.Value) bool {
	if m := ptr.MethodByName("IsSet" + goName); m.IsValid() && m.Type().NumIn() == 0 && m.Type().NumOut() == 1 && m.Type().Out(0).Kind() == reflect.Bool {
		return m.Call(nil)[0].Bool()
	}
	switch fv.Kind() {
	case reflect.Ptr, reflect.Slice, reflect.Map, reflect.Interface:
		return !fv.IsNil()
	}
	return true
}

// FromGo converts a Go value of an emitted type into the wire tree the IDL
// type t (written in file f) prescribes for it.
func FromGo(p *idl.Program, f *idl.File, t *idl.Type, rv reflect.Value) (tvalue.Value, error) {
	kind, u, uf, r := p.ResolveKind(f, t)
	v := tvalue.Value{T: TType(kind)}
	for rv.Kind() == reflect.Ptr && kind != "struct" {
		if rv.IsNil() {
			return v, fmt.Errorf("nil pointer for a %s value", kind)
		}
		rv = rv.Elem()
	}
	switch kind {
	case "bool":
		if rv.Kind() != reflect.Bool {
			return v, fmt.Errorf("Go kind %s for bool", rv.Kind())
		}
		v.B = rv.Bool()
	case "byte", "i16", "i32", "i64", "enum":
		switch rv.Kind() {
		case reflect.Int, reflect.Int8, reflect.Int16, reflect.Int32, reflect.Int64:
			v.I = rv.Int()
		default:
			return v, fmt.Errorf("Go kind %s for %s", rv.Kind(), kind)
		}
	case "double":
		if rv.Kind() != reflect.Float64 {
			return v, fmt.Errorf("Go kind %s for double", rv.Kind())
		}
		v.D = rv.Float()
	case "string":
		if rv.Kind() != reflect.String {
			return v, fmt.Errorf("Go kind %s for string", rv.Kind())
		}
		v.S = []byte(rv.String())
	case "binary":
		if rv.Kind() != reflect.Slice || rv.Type().Elem().Kind() != reflect.Uint8 {
			return v, fmt.Errorf("Go type %s for binary", rv.Type())
		}
		v.S, v.Bin = append([]byte{}, rv.Bytes()...), true
	case "struct":
		return StructFromGo(p, r.File, r.Struct, rv)
	case "list":
		ek, _, _, _ := p.ResolveKind(uf, u.Val)
		v.ElemT = TType(ek)
		if rv.Kind() != reflect.Slice {
			return v, fmt.Errorf("Go kind %s for list", rv.Kind())
		}
		for i := 0; i < rv.Len(); i++ {
			e, err := FromGo(p, uf, u.Val, rv.Index(i))
			if err != nil {
				return v, err
			}
			v.Elems = append(v.Elems, e)
		}
	case "set":
		ek, _, _, _ := p.ResolveKind(uf, u.Val)
		v.ElemT = TType(ek)
		if rv.Kind() != reflect.Map || rv.Type().Elem().Kind() != reflect.Bool {
			return v, fmt.Errorf("Go type %s for set", rv.Type())
		}
		for _, k := range rv.MapKeys() {
			e, err := FromGo(p, uf, u.Val, k)
			if err != nil {
				return v, err
			}
			v.Elems = append(v.Elems, e)
		}
	case "map":
		kk, _, _, _ := p.ResolveKind(uf, u.Key)
		vk, _, _, _ := p.ResolveKind(uf, u.Val)
		v.KeyT, v.ValT = TType(kk), TType(vk)
		if rv.Kind() != reflect.Map {
			return v, fmt.Errorf("Go kind %s for map", rv.Kind())
		}
		for _, k := range rv.MapKeys() {
			kv, err := FromGo(p, uf, u.Key, k)
			if err != nil {
				return v, err
			}
			vv, err := FromGo(p, uf, u.Val, rv.MapIndex(k))
			if err != nil {
				return v, err
			}
			v.Keys = append(v.Keys, kv)
			v.Vals = append(v.Vals, vv)
		}
	default:
		return v, fmt.Errorf("unresolved type %s", t)
	}
	return v, nil
}

// StructFromGo converts a Go struct value (pointer or value) of an emitted
// type into its wire tree.
func StructFromGo(p *idl.Program, f *idl.File, st *idl.Struct, rv reflect.Value) (tvalue.Value, error) {
	v := tvalue.Value{T: thrift.STRUCT, Name: st.Name}
	if rv.Kind() == reflect.Interface {
		rv = rv.Elem()
	}
	ptr := rv
	if rv.Kind() == reflect.Ptr {
		if rv.IsNil() {
			return v, fmt.Errorf("nil pointer for struct %s", st.Name)
		}
		rv = rv.Elem()
	} else if rv.CanAddr() {
		ptr = rv.Addr()
	}
	if rv.Kind() != reflect.Struct {
		return v, fmt.Errorf("Go kind %s for struct %s", rv.Kind(), st.Name)
	}
	if rv.NumField() != len(st.Fields) {
		return v, fmt.Errorf("emitted Go type %s has %d fields, the IDL declares %d", rv.Type(), rv.NumField(), len(st.Fields))
	}
	for i, fl := range st.Fields {
		fv := rv.Field(i)
		goName := rv.Type().Field(i).Name
		optional := fl.Req == idl.ReqOptional || st.Kind == idl.KindUnion
		if optional && !goFieldIsSet(ptr, goName, fv) {
			continue
		}
		x, err := FromGo(p, f, fl.Type, fv)
		if err != nil {
			return v, fmt.Errorf("%s.%s: %v", st.Name, fl.Name, err)
		}
		v.Fields = append(v.Fields, tvalue.Field{ID: int16(fl.ID), V: x})
	}
	return v, nil
}

// CheckTags compares the emitted `thrift:"name,id[,required]"` struct tags
// with the model (informative: Read/Write do not use them).
func CheckTags(st *idl.Struct, rt reflect.Type) []string {
	var out []string
	if rt.Kind() == reflect.Ptr {
		rt = rt.Elem()
	}
	if rt.Kind() != reflect.Struct || rt.NumField() != len(st.Fields) {
		return []string{fmt.Sprintf("%s: field count differs", st.Name)}
	}
	for i, fl := range st.Fields {
		tag := rt.Field(i).Tag.Get("thrift")
		parts := strings.Split(tag, ",")
		if len(parts) < 2 || parts[0] != fl.Name || parts[1] != strconv.Itoa(fl.ID) {
			out = append(out, fmt.Sprintf("%s.%s: tag %q, IDL says %s,%d", st.Name, fl.Name, tag, fl.Name, fl.ID))
		}
	}
	return out
}

// NewStruct, when set, constructs a struct value the way user code is meant
// to (through the emitted New<Type>() constructor, which installs the IDL
// defaults); it returns a pointer value. Without it reflect.New is used.
var NewStruct func(ptrType reflect.Type) (reflect.Value, bool)

// FillGo stores av into rv (which must be settable).
func FillGo(rv reflect.Value, av *idl.AV) error {
	switch rv.Kind() {
	case reflect.Ptr:
		n := reflect.New(rv.Type().Elem())
		if av.Kind == "struct" && NewStruct != nil {
			if c, ok := NewStruct(rv.Type()); ok {
				n = c
			}
		}
		if err := FillGo(n.Elem(), av); err != nil {
			return err
		}
		rv.Set(n)
		return nil
	case reflect.Interface:
		return fmt.Errorf("cannot fill interface")
	}
	switch av.Kind {
	case "bool":
		if rv.Kind() != reflect.Bool {
			return fmt.Errorf("Go kind %s for bool", rv.Kind())
		}
		rv.SetBool(av.B)
	case "byte", "i16", "i32", "i64", "enum":
		switch rv.Kind() {
		case reflect.Int, reflect.Int8, reflect.Int16, reflect.Int32, reflect.Int64:
			if rv.OverflowInt(av.I) {
				return fmt.Errorf("value %d overflows Go type %s", av.I, rv.Type())
			}
			rv.SetInt(av.I)
		default:
			return fmt.Errorf("Go kind %s for %s", rv.Kind(), av.Kind)
		}
	case "double":
		if rv.Kind() != reflect.Float64 {
			return fmt.Errorf("Go kind %s for double", rv.Kind())
		}
		rv.SetFloat(av.D)
	case "string":
		if rv.Kind() != reflect.String {
			return fmt.Errorf("Go kind %s for string", rv.Kind())
		}
		rv.SetString(string(av.S))
	case "binary":
		if rv.Kind() != reflect.Slice || rv.Type().Elem().Kind() != reflect.Uint8 {
			return fmt.Errorf("Go type %s for binary", rv.Type())
		}
		rv.SetBytes(append([]byte{}, av.S...))
	case "struct":
		if rv.Kind() != reflect.Struct {
			return fmt.Errorf("Go kind %s for struct", rv.Kind())
		}
		if rv.NumField() != len(av.St.Fields) {
			return fmt.Errorf("emitted Go type %s has %d fields, the IDL declares %d", rv.Type(), rv.NumField(), len(av.St.Fields))
		}
		for i, fl := range av.St.Fields {
			x, ok := av.Fields[fl.ID]
			if !ok || x.LeftAtDefault {
				continue
			}
			if err := FillGo(rv.Field(i), x); err != nil {
				return fmt.Errorf("%s.%s: %v", av.St.Name, fl.Name, err)
			}
		}
	case "list":
		if rv.Kind() != reflect.Slice {
			return fmt.Errorf("Go kind %s for list", rv.Kind())
		}
		s := reflect.MakeSlice(rv.Type(), len(av.Elems), len(av.Elems))
		for i, e := range av.Elems {
			if err := FillGo(s.Index(i), e); err != nil {
				return err
			}
		}
		rv.Set(s)
	case "set":
		if rv.Kind() != reflect.Map {
			return fmt.Errorf("Go kind %s for set", rv.Kind())
		}
		m := reflect.MakeMapWithSize(rv.Type(), len(av.Elems))
		for _, e := range av.Elems {
			k := reflect.New(rv.Type().Key()).Elem()
			if err := FillGo(k, e); err != nil {
				return err
			}
			m.SetMapIndex(k, reflect.ValueOf(true).Convert(rv.Type().Elem()))
		}
		rv.Set(m)
	case "map":
		if rv.Kind() != reflect.Map {
			return fmt.Errorf("Go kind %s for map", rv.Kind())
		}
		m := reflect.MakeMapWithSize(rv.Type(), len(av.Keys))
		for i := range av.Keys {
			k := reflect.New(rv.Type().Key()).Elem()
			if err := FillGo(k, av.Keys[i]); err != nil {
				return err
			}
			x := reflect.New(rv.Type().Elem()).Elem()
			if err := FillGo(x, av.Vals[i]); err != nil {
				return err
			}
			m.SetMapIndex(k, x)
		}
		rv.Set(m)
	default:
		return fmt.Errorf("cannot fill kind %s", av.Kind)
	}
	return nil
}
