package tvalue

import (
	"context"
	"fmt"
	"math"
	"sort"
	"strings"

	"github.com/apache/thrift/lib/go/thrift"
)

// Value is a schema-less Thrift value: what is on the wire, nothing more.
// It is read and written with the primitive TProtocol calls only and never
// looks at generated code or at the IDL.
type Value struct {
	T thrift.TType

	B bool
	I int64   // BYTE, I16, I32, I64
	D float64 // DOUBLE
	S []byte  // STRING (string or binary: the wire does not say)
	// Bin tells the writer to use WriteBinary instead of WriteString; a reader
	// never sets it (the JSON protocol base64-encodes binaries, and only the
	// schema knows which STRING is one).
	Bin bool

	Name   string  // STRUCT: name passed to WriteStructBegin (binary/compact do not transmit it)
	Fields []Field // STRUCT, in wire order

	ElemT thrift.TType // LIST, SET
	Elems []Value

	KeyT, ValT thrift.TType // MAP
	Keys, Vals []Value
}

// Field is one struct field on the wire.
type Field struct {
	ID int16
	V  Value
}

const maxDepth = 64

// ReadStruct reads one struct.
func ReadStruct(ctx context.Context, p thrift.TProtocol) (Value, error) { return readStruct(ctx, p, 0) }

func readStruct(ctx context.Context, p thrift.TProtocol, depth int) (Value, error) {
	v := Value{T: thrift.STRUCT}
	if depth > maxDepth {
		return v, fmt.Errorf("nesting deeper than %d", maxDepth)
	}
	if _, err := p.ReadStructBegin(ctx); err != nil {
		return v, err
	}
	for {
		_, t, id, err := p.ReadFieldBegin(ctx)
		if err != nil {
			return v, err
		}
		if t == thrift.STOP {
			break
		}
		fv, err := readValue(ctx, p, t, depth+1)
		if err != nil {
			return v, fmt.Errorf("field %d: %w", id, err)
		}
		v.Fields = append(v.Fields, Field{ID: id, V: fv})
		if err := p.ReadFieldEnd(ctx); err != nil {
			return v, err
		}
	}
	return v, p.ReadStructEnd(ctx)
}

func readValue(ctx context.Context, p thrift.TProtocol, t thrift.TType, depth int) (Value, error) {
	v := Value{T: t}
	if depth > maxDepth {
		return v, fmt.Errorf("nesting deeper than %d", maxDepth)
	}
	var err error
	switch t {
	case thrift.BOOL:
		v.B, err = p.ReadBool(ctx)
	case thrift.BYTE:
		var x int8
		x, err = p.ReadByte(ctx)
		v.I = int64(x)
	case thrift.I16:
		var x int16
		x, err = p.ReadI16(ctx)
		v.I = int64(x)
	case thrift.I32:
		var x int32
		x, err = p.ReadI32(ctx)
		v.I = int64(x)
	case thrift.I64:
		v.I, err = p.ReadI64(ctx)
	case thrift.DOUBLE:
		v.D, err = p.ReadDouble(ctx)
	case thrift.STRING:
		var s string
		s, err = p.ReadString(ctx)
		v.S = []byte(s)
	case thrift.STRUCT:
		return readStruct(ctx, p, depth)
	case thrift.LIST, thrift.SET:
		var n int
		if t == thrift.LIST {
			v.ElemT, n, err = p.ReadListBegin(ctx)
		} else {
			v.ElemT, n, err = p.ReadSetBegin(ctx)
		}
		if err != nil {
			return v, err
		}
		if n < 0 || n > 1<<24 {
			return v, fmt.Errorf("container size %d", n)
		}
		for i := 0; i < n; i++ {
			e, err := readValue(ctx, p, v.ElemT, depth+1)
			if err != nil {
				return v, err
			}
			v.Elems = append(v.Elems, e)
		}
		if t == thrift.LIST {
			err = p.ReadListEnd(ctx)
		} else {
			err = p.ReadSetEnd(ctx)
		}
	case thrift.MAP:
		var n int
		v.KeyT, v.ValT, n, err = p.ReadMapBegin(ctx)
		if err != nil {
			return v, err
		}
		if n < 0 || n > 1<<24 {
			return v, fmt.Errorf("map size %d", n)
		}
		for i := 0; i < n; i++ {
			k, err := readValue(ctx, p, v.KeyT, depth+1)
			if err != nil {
				return v, err
			}
			x, err := readValue(ctx, p, v.ValT, depth+1)
			if err != nil {
				return v, err
			}
			v.Keys = append(v.Keys, k)
			v.Vals = append(v.Vals, x)
		}
		err = p.ReadMapEnd(ctx)
	default:
		err = fmt.Errorf("unknown wire type %d", t)
	}
	return v, err
}

// WriteStruct writes a struct value.
func WriteStruct(ctx context.Context, p thrift.TProtocol, v Value) error {
	name := v.Name
	if name == "" {
		name = "s"
	}
	if err := p.WriteStructBegin(ctx, name); err != nil {
		return err
	}
	for _, f := range v.Fields {
		if err := p.WriteFieldBegin(ctx, fmt.Sprintf("f%d", f.ID), f.V.T, f.ID); err != nil {
			return err
		}
		if err := WriteValue(ctx, p, f.V); err != nil {
			return err
		}
		if err := p.WriteFieldEnd(ctx); err != nil {
			return err
		}
	}
	if err := p.WriteFieldStop(ctx); err != nil {
		return err
	}
	return p.WriteStructEnd(ctx)
}

// WriteValue writes any value.
func WriteValue(ctx context.Context, p thrift.TProtocol, v Value) error {
	switch v.T {
	case thrift.BOOL:
		return p.WriteBool(ctx, v.B)
	case thrift.BYTE:
		return p.WriteByte(ctx, int8(v.I))
	case thrift.I16:
		return p.WriteI16(ctx, int16(v.I))
	case thrift.I32:
		return p.WriteI32(ctx, int32(v.I))
	case thrift.I64:
		return p.WriteI64(ctx, v.I)
	case thrift.DOUBLE:
		return p.WriteDouble(ctx, v.D)
	case thrift.STRING:
		if v.Bin {
			return p.WriteBinary(ctx, v.S)
		}
		return p.WriteString(ctx, string(v.S))
	case thrift.STRUCT:
		return WriteStruct(ctx, p, v)
	case thrift.LIST, thrift.SET:
		var err error
		if v.T == thrift.LIST {
			err = p.WriteListBegin(ctx, v.ElemT, len(v.Elems))
		} else {
			err = p.WriteSetBegin(ctx, v.ElemT, len(v.Elems))
		}
		if err != nil {
			return err
		}
		for _, e := range v.Elems {
			if err := WriteValue(ctx, p, e); err != nil {
				return err
			}
		}
		if v.T == thrift.LIST {
			return p.WriteListEnd(ctx)
		}
		return p.WriteSetEnd(ctx)
	case thrift.MAP:
		if err := p.WriteMapBegin(ctx, v.KeyT, v.ValT, len(v.Keys)); err != nil {
			return err
		}
		for i := range v.Keys {
			if err := WriteValue(ctx, p, v.Keys[i]); err != nil {
				return err
			}
			if err := WriteValue(ctx, p, v.Vals[i]); err != nil {
				return err
			}
		}
		return p.WriteMapEnd(ctx)
	}
	return fmt.Errorf("cannot write wire type %d", v.T)
}

// Canon renders a value canonically: struct fields sorted by id, set elements
// and map entries sorted by their own canonical text, doubles bitwise.  Two
// values are the same Thrift value iff their canonical texts are equal.
func (v Value) Canon() string {
	var b strings.Builder
	v.canon(&b)
	return b.String()
}

func typeName(t thrift.TType) string {
	switch t {
	case thrift.BOOL:
		return "bool"
	case thrift.BYTE:
		return "byte"
	case thrift.I16:
		return "i16"
	case thrift.I32:
		return "i32"
	case thrift.I64:
		return "i64"
	case thrift.DOUBLE:
		return "double"
	case thrift.STRING:
		return "string"
	case thrift.STRUCT:
		return "struct"
	case thrift.LIST:
		return "list"
	case thrift.SET:
		return "set"
	case thrift.MAP:
		return "map"
	}
	return fmt.Sprintf("type%d", t)
}

func (v Value) canon(b *strings.Builder) {
	switch v.T {
	case thrift.BOOL:
		fmt.Fprintf(b, "bool:%v", v.B)
	case thrift.BYTE, thrift.I16, thrift.I32, thrift.I64:
		fmt.Fprintf(b, "%s:%d", typeName(v.T), v.I)
	case thrift.DOUBLE:
		fmt.Fprintf(b, "double:%016x", math.Float64bits(v.D))
	case thrift.STRING:
		fmt.Fprintf(b, "string:%x", v.S)
	case thrift.STRUCT:
		fs := append([]Field(nil), v.Fields...)
		sort.SliceStable(fs, func(i, j int) bool { return fs[i].ID < fs[j].ID })
		b.WriteString("struct{")
		for i, f := range fs {
			if i > 0 {
				b.WriteString(",")
			}
			fmt.Fprintf(b, "%d=", f.ID)
			f.V.canon(b)
		}
		b.WriteString("}")
	case thrift.LIST:
		fmt.Fprintf(b, "list<%s>[", typeName(v.ElemT))
		for i, e := range v.Elems {
			if i > 0 {
				b.WriteString(",")
			}
			e.canon(b)
		}
		b.WriteString("]")
	case thrift.SET:
		var parts []string
		for _, e := range v.Elems {
			parts = append(parts, e.Canon())
		}
		sort.Strings(parts)
		fmt.Fprintf(b, "set<%s>[%s]", typeName(v.ElemT), strings.Join(parts, ","))
	case thrift.MAP:
		if len(v.Keys) == 0 {
			// the compact protocol does not transmit the key/value types of an empty map
			b.WriteString("map[]")
			return
		}
		var parts []string
		for i := range v.Keys {
			parts = append(parts, v.Keys[i].Canon()+"->"+v.Vals[i].Canon())
		}
		sort.Strings(parts)
		fmt.Fprintf(b, "map<%s,%s>[%s]", typeName(v.KeyT), typeName(v.ValT), strings.Join(parts, ","))
	default:
		fmt.Fprintf(b, "?%d", v.T)
	}
}

// FieldIDs lists the ids present in a struct value (wire order).
func (v Value) FieldIDs() []int16 {
	var out []int16
	for _, f := range v.Fields {
		out = append(out, f.ID)
	}
	return out
}

// Field returns the first field with the id.
func (v Value) Field(id int16) (Value, bool) {
	for _, f := range v.Fields {
		if f.ID == id {
			return f.V, true
		}
	}
	return Value{}, false
}
