package rig

import (
	"bytes"
	"context"
	"encoding/base64"
	"encoding/binary"
	"fmt"
	"io"
	"net"
	"net/http"
	"net/http/httptest"
	"sync"
	"sync/atomic"
	"time"

	frugal "github.com/Workiva/frugal/lib/go"
	"github.com/apache/thrift/lib/go/thrift"
	"github.com/nats-io/nats.go"
)

// Protocols lists the Thrift protocols of the matrix.
var Protocols = []string{"binary", "compact", "json"}

// ProtocolFactory returns the FProtocolFactory for a protocol name.
func ProtocolFactory(name string) *frugal.FProtocolFactory {
	switch name {
	case "compact":
		return frugal.NewFProtocolFactory(thrift.NewTCompactProtocolFactoryConf(nil))
	case "json":
		return frugal.NewFProtocolFactory(thrift.NewTJSONProtocolFactory())
	default:
		return frugal.NewFProtocolFactory(thrift.NewTBinaryProtocolFactoryConf(nil))
	}
}

// TProtocolFactory returns the plain Thrift factory for a protocol name.
func TProtocolFactory(name string) thrift.TProtocolFactory {
	switch name {
	case "compact":
		return thrift.NewTCompactProtocolFactoryConf(nil)
	case "json":
		return thrift.NewTJSONProtocolFactory()
	default:
		return thrift.NewTBinaryProtocolFactoryConf(nil)
	}
}

// RPCKinds lists the transports of the matrix.
var RPCKinds = []string{"pipe", "tcp", "http", "nats"}

// WireTap records whole frames (size prefix included) at the transport
// boundary, in both directions.
type WireTap struct {
	mu       sync.Mutex
	Requests [][]byte
	Replies  [][]byte
}

func (w *WireTap) addReq(b []byte) {
	w.mu.Lock()
	w.Requests = append(w.Requests, append([]byte(nil), b...))
	w.mu.Unlock()
}
func (w *WireTap) addRep(b []byte) {
	w.mu.Lock()
	w.Replies = append(w.Replies, append([]byte(nil), b...))
	w.mu.Unlock()
}

// Snapshot returns copies of what has been recorded so far.
func (w *WireTap) Snapshot() (reqs, reps [][]byte) {
	w.mu.Lock()
	defer w.mu.Unlock()
	return append([][]byte(nil), w.Requests...), append([][]byte(nil), w.Replies...)
}

// Reset forgets everything recorded.
func (w *WireTap) Reset() { w.mu.Lock(); w.Requests, w.Replies = nil, nil; w.mu.Unlock() }

// tapTransport wraps a client TTransport and splits both byte streams into frames.
type tapTransport struct {
	thrift.TTransport
	tap *WireTap
	mu  sync.Mutex
	out []byte
	in  []byte
}

func (t *tapTransport) Write(p []byte) (int, error) {
	n, err := t.TTransport.Write(p)
	if n > 0 {
		t.mu.Lock()
		t.out = append(t.out, p[:n]...)
		for len(t.out) >= 4 {
			sz := int(binary.BigEndian.Uint32(t.out))
			if len(t.out) < 4+sz {
				break
			}
			t.tap.addReq(t.out[:4+sz])
			t.out = t.out[4+sz:]
		}
		t.mu.Unlock()
	}
	return n, err
}

func (t *tapTransport) Read(p []byte) (int, error) {
	n, err := t.TTransport.Read(p)
	if n > 0 {
		t.mu.Lock()
		t.in = append(t.in, p[:n]...)
		for len(t.in) >= 4 {
			sz := int(binary.BigEndian.Uint32(t.in))
			if len(t.in) < 4+sz {
				break
			}
			t.tap.addRep(t.in[:4+sz])
			t.in = t.in[4+sz:]
		}
		t.mu.Unlock()
	}
	return n, err
}

// RawConn sends reference-built request frames to a server and collects the
// reply frames, bypassing the Frugal client completely.
type RawConn interface {
	// Send transmits one size-prefixed request frame.
	Send(frame []byte) error
	// Replies delivers size-prefixed reply frames (HTTP: an empty-body reply is
	// delivered as the 4-byte frame 00000000; errors as nil-length marker frames
	// are never produced — see Errs).
	Replies() <-chan []byte
	// Errs reports transport-level failures (connection closed, HTTP status).
	Errs() <-chan error
	Close()
}

// RPCLeg is one (transport, protocol) pair with a running server.
type RPCLeg struct {
	Kind, Proto string
	PF          *frugal.FProtocolFactory
	Tap         *WireTap
	// NewClient returns an opened client transport (a new connection where the
	// transport has connections).
	NewClient func() (frugal.FTransport, error)
	OpenRaw   func() (RawConn, error)
	stop      []func()
}

// Stop shuts the leg down.
func (l *RPCLeg) Stop() {
	for i := len(l.stop) - 1; i >= 0; i-- {
		l.stop[i]()
	}
}

// LegOptions tunes a leg.
type LegOptions struct {
	NatsWorkers       uint
	NatsQueueLen      uint
	HTTPRequestLimit  uint
	HTTPResponseLimit uint
	// PreConnect (tcp leg) establishes that many client connections before
	// the server starts serving, so that its accept loop finds them all
	// waiting and accepts them back to back; NewClient hands them out first.
	PreConnect int
	// HTTPNoTap gives the HTTP client a plain http.Client: the wire tap reads
	// every response body completely before the transport sees it, which hides
	// how the transport itself reads a body that arrives in pieces.
	HTTPNoTap bool
	// NatsInstances > 1 starts that many FNatsServer instances for the one
	// processor, all on the leg's subject and in one queue group (a scaled-out
	// deployment): the broker hands each request to exactly one of them.
	NatsInstances int
	// TCPFirstConnPartial (tcp leg) puts a relay in front of the server whose
	// FIRST connection is answered by the relay itself with the beginning of a
	// reply frame (a size prefix announcing 200 bytes, 10 bytes of body) and then
	// closed — a connection lost in the middle of a reply; every later
	// connection is relayed to the real server.
	TCPFirstConnPartial bool
}

// ---- in-memory server transport --------------------------------------------

type pipeServerTransport struct {
	conns chan net.Conn
	quit  chan struct{}
	once  sync.Once
}

func newPipeServerTransport() *pipeServerTransport {
	return &pipeServerTransport{conns: make(chan net.Conn, 64), quit: make(chan struct{})}
}
func (p *pipeServerTransport) Listen() error { return nil }
func (p *pipeServerTransport) Accept() (thrift.TTransport, error) {
	select {
	case c := <-p.conns:
		return thrift.NewTSocketFromConnConf(c, nil), nil
	case <-p.quit:
		return nil, thrift.NewTTransportException(thrift.NOT_OPEN, "pipe server transport closed")
	}
}
func (p *pipeServerTransport) Close() error     { p.once.Do(func() { close(p.quit) }); return nil }
func (p *pipeServerTransport) Interrupt() error { return p.Close() }
func (p *pipeServerTransport) dial() net.Conn {
	a, b := net.Pipe()
	p.conns <- b
	return a
}

// streamRaw is a RawConn over a byte stream.
type streamRaw struct {
	c    net.Conn
	reps chan []byte
	errs chan error
}

func newStreamRaw(c net.Conn) *streamRaw {
	s := &streamRaw{c: c, reps: make(chan []byte, 1024), errs: make(chan error, 4)}
	go func() {
		for {
			hdr := make([]byte, 4)
			if _, err := io.ReadFull(c, hdr); err != nil {
				s.errs <- err
				close(s.reps)
				return
			}
			n := binary.BigEndian.Uint32(hdr)
			if n > 64<<20 {
				s.errs <- fmt.Errorf("reply frame size %d", n)
				close(s.reps)
				return
			}
			body := make([]byte, n)
			if _, err := io.ReadFull(c, body); err != nil {
				s.errs <- err
				close(s.reps)
				return
			}
			s.reps <- append(hdr, body...)
		}
	}()
	return s
}
func (s *streamRaw) Send(frame []byte) error { _, err := s.c.Write(frame); return err }
func (s *streamRaw) Replies() <-chan []byte  { return s.reps }
func (s *streamRaw) Errs() <-chan error      { return s.errs }
func (s *streamRaw) Close()                  { s.c.Close() }

var legSeq uint64

// StartRPCLeg starts a server of the given kind for processor and returns the
// client-side factories.
func StartRPCLeg(kind, proto string, processor frugal.FProcessor, nsrv *NatsServer, opt LegOptions) (*RPCLeg, error) {
	leg := &RPCLeg{Kind: kind, Proto: proto, PF: ProtocolFactory(proto), Tap: &WireTap{}}
	switch kind {
	case "pipe":
		st := newPipeServerTransport()
		srv := frugal.NewFSimpleServer(processor, st, leg.PF)
		go srv.Serve()
		leg.stop = append(leg.stop, func() { srv.Stop() })
		leg.NewClient = func() (frugal.FTransport, error) {
			sock := thrift.NewTSocketFromConnConf(st.dial(), nil)
			tr := frugal.NewAdapterTransport(&tapTransport{TTransport: sock, tap: leg.Tap})
			return tr, tr.Open()
		}
		leg.OpenRaw = func() (RawConn, error) { return newStreamRaw(st.dial()), nil }
	case "tcp":
		ss, err := thrift.NewTServerSocket("127.0.0.1:0")
		if err != nil {
			return nil, err
		}
		if err := ss.Listen(); err != nil {
			return nil, err
		}
		addr := ss.Addr().String()
		realAddr := addr
		if opt.TCPFirstConnPartial {
			ln, err := net.Listen("tcp", "127.0.0.1:0")
			if err != nil {
				return nil, err
			}
			addr = ln.Addr().String()
			leg.stop = append(leg.stop, func() { ln.Close() })
			go func() {
				for n := 0; ; n++ {
					c, err := ln.Accept()
					if err != nil {
						return
					}
					if n == 0 {
						go func() {
							buf := make([]byte, 4096)
							c.Read(buf) // the request
							c.Write(append([]byte{0, 0, 0, 200}, bytes.Repeat([]byte{0x2a}, 10)...))
							c.Close()
						}()
						continue
					}
					go func() {
						up, err := net.Dial("tcp", realAddr)
						if err != nil {
							c.Close()
							return
						}
						go func() { io.Copy(up, c); up.Close() }()
						io.Copy(c, up)
						c.Close()
					}()
				}
			}()
		}
		srv := frugal.NewFSimpleServer(processor, ss, leg.PF)
		var preMu sync.Mutex
		var pre []net.Conn
		for i := 0; i < opt.PreConnect; i++ {
			c, err := net.Dial("tcp", addr)
			if err != nil {
				return nil, err
			}
			pre = append(pre, c)
		}
		go srv.Serve()
		leg.stop = append(leg.stop, func() { srv.Stop() })
		leg.NewClient = func() (frugal.FTransport, error) {
			var sock thrift.TTransport = thrift.NewTSocketConf(addr, nil)
			preMu.Lock()
			if len(pre) > 0 {
				sock = thrift.NewTSocketFromConnConf(pre[0], nil)
				pre = pre[1:]
			}
			preMu.Unlock()
			tr := frugal.NewAdapterTransport(&tapTransport{TTransport: sock, tap: leg.Tap})
			return tr, tr.Open()
		}
		leg.OpenRaw = func() (RawConn, error) {
			c, err := net.Dial("tcp", addr)
			if err != nil {
				return nil, err
			}
			return newStreamRaw(c), nil
		}
	case "http":
		hs := httptest.NewServer(frugal.NewFrugalHandlerFunc(processor, leg.PF))
		leg.stop = append(leg.stop, hs.Close)
		client := &http.Client{Transport: &tapRoundTripper{tap: leg.Tap, rt: http.DefaultTransport}}
		if opt.HTTPNoTap {
			client = &http.Client{Transport: &http.Transport{}}
		}
		leg.NewClient = func() (frugal.FTransport, error) {
			b := frugal.NewFHTTPTransportBuilder(client, hs.URL)
			if opt.HTTPRequestLimit > 0 {
				b = b.WithRequestSizeLimit(opt.HTTPRequestLimit)
			}
			if opt.HTTPResponseLimit > 0 {
				b = b.WithResponseSizeLimit(opt.HTTPResponseLimit)
			}
			tr := b.Build()
			return tr, tr.Open()
		}
		leg.OpenRaw = func() (RawConn, error) {
			return &httpRaw{url: hs.URL, reps: make(chan []byte, 1024), errs: make(chan error, 1024)}, nil
		}
	case "nats":
		if nsrv == nil {
			return nil, fmt.Errorf("nats leg needs a broker")
		}
		sconn, err := nsrv.Connect()
		if err != nil {
			return nil, err
		}
		id := atomic.AddUint64(&legSeq, 1)
		subject := fmt.Sprintf("verif.rpc.%d", id)
		b := frugal.NewFNatsServerBuilder(sconn, processor, leg.PF, []string{subject})
		if opt.NatsWorkers > 0 {
			b = b.WithWorkerCount(opt.NatsWorkers)
		}
		if opt.NatsQueueLen > 0 {
			b = b.WithQueueLength(opt.NatsQueueLen)
		}
		if opt.NatsInstances > 1 {
			b = b.WithQueueGroup("verif-group")
		}
		srv := b.Build()
		served := make(chan struct{})
		go func() { srv.Serve(); close(served) }()
		for extra := 1; extra < opt.NatsInstances; extra++ {
			econn, err := nsrv.Connect()
			if err != nil {
				return nil, err
			}
			subsBefore := nsrv.S.NumSubscriptions()
			eb := frugal.NewFNatsServerBuilder(econn, processor, leg.PF, []string{subject}).WithQueueGroup("verif-group")
			esrv := eb.Build()
			edone := make(chan struct{})
			go func() { esrv.Serve(); close(edone) }()
			leg.stop = append(leg.stop, func() {
				esrv.Stop()
				select {
				case <-edone:
				case <-time.After(10 * time.Second):
				}
				econn.Close()
			})
			// wait until this instance is subscribed too
			for i := 0; i < 2000; i++ {
				econn.Flush()
				if nsrv.S.NumSubscriptions() > subsBefore {
					break
				}
				time.Sleep(2 * time.Millisecond)
			}
		}
		// Serve subscribes asynchronously: wait until the broker routes to it
		deadline := time.Now().Add(10 * time.Second)
		for {
			sconn.Flush()
			if nsrv.HasInterest(subject) {
				break
			}
			if time.Now().After(deadline) {
				return nil, fmt.Errorf("nats server did not subscribe")
			}
			time.Sleep(2 * time.Millisecond)
		}
		tapc, err := nsrv.Connect()
		if err != nil {
			return nil, err
		}
		inboxRoot := fmt.Sprintf("_INBOX.verifleg%d", id)
		tapc.Subscribe(subject, func(m *nats.Msg) { leg.Tap.addReq(m.Data) })
		tapc.Subscribe(inboxRoot+".>", func(m *nats.Msg) {
			if m.Header.Get("Status") == "" {
				leg.Tap.addRep(m.Data)
			}
		})
		tapc.Flush()
		leg.stop = append(leg.stop, func() {
			srv.Stop()
			select {
			case <-served:
			case <-time.After(10 * time.Second):
			}
			sconn.Close()
			tapc.Close()
		})
		var cseq uint64
		leg.NewClient = func() (frugal.FTransport, error) {
			cc, err := nsrv.Connect()
			if err != nil {
				return nil, err
			}
			n := atomic.AddUint64(&cseq, 1)
			tr := frugal.NewFNatsTransport(cc, subject, fmt.Sprintf("%s.c%d", inboxRoot, n))
			if err := tr.Open(); err != nil {
				return nil, err
			}
			cc.Flush()
			leg.stop = append(leg.stop, cc.Close)
			return tr, nil
		}
		leg.OpenRaw = func() (RawConn, error) {
			cc, err := nsrv.Connect()
			if err != nil {
				return nil, err
			}
			n := atomic.AddUint64(&cseq, 1)
			r := &natsRaw{c: cc, subject: subject, reply: fmt.Sprintf("%s.raw%d", inboxRoot, n), reps: make(chan []byte, 4096), errs: make(chan error, 4)}
			if _, err := cc.Subscribe(r.reply+".*", func(m *nats.Msg) { r.reps <- m.Data }); err != nil {
				return nil, err
			}
			cc.Flush()
			return r, nil
		}
	default:
		return nil, fmt.Errorf("unknown leg kind %q", kind)
	}
	return leg, nil
}

// HasInterest reports whether the broker currently routes subject to a subscriber.
func (n *NatsServer) HasInterest(subject string) bool {
	return n.S.GlobalAccount().SubscriptionInterest(subject)
}

type natsRaw struct {
	c       *nats.Conn
	subject string
	reply   string
	seq     uint64
	reps    chan []byte
	errs    chan error
}

func (r *natsRaw) Send(frame []byte) error {
	n := atomic.AddUint64(&r.seq, 1)
	if err := r.c.PublishRequest(r.subject, fmt.Sprintf("%s.%d", r.reply, n), frame); err != nil {
		return err
	}
	return nil
}
func (r *natsRaw) Replies() <-chan []byte { return r.reps }
func (r *natsRaw) Errs() <-chan error     { return r.errs }
func (r *natsRaw) Close()                 { r.c.Close() }

type httpRaw struct {
	url  string
	reps chan []byte
	errs chan error
}

func (h *httpRaw) Send(frame []byte) error {
	body := base64.StdEncoding.EncodeToString(frame)
	req, err := http.NewRequestWithContext(context.Background(), "POST", h.url, bytes.NewBufferString(body))
	if err != nil {
		return err
	}
	req.Header.Set("content-type", "application/x-frugal")
	req.Header.Set("content-transfer-encoding", "base64")
	resp, err := http.DefaultClient.Do(req)
	if err != nil {
		h.errs <- err
		return nil
	}
	defer resp.Body.Close()
	b, _ := io.ReadAll(resp.Body)
	if resp.StatusCode != 200 {
		h.errs <- fmt.Errorf("http status %d: %s", resp.StatusCode, bytes.TrimSpace(b))
		return nil
	}
	dec, err := base64.StdEncoding.DecodeString(string(b))
	if err != nil {
		h.errs <- fmt.Errorf("reply is not base64: %v", err)
		return nil
	}
	h.reps <- dec
	return nil
}
func (h *httpRaw) Replies() <-chan []byte { return h.reps }
func (h *httpRaw) Errs() <-chan error     { return h.errs }
func (h *httpRaw) Close()                 {}

type tapRoundTripper struct {
	tap *WireTap
	rt  http.RoundTripper
}

func (t *tapRoundTripper) RoundTrip(req *http.Request) (*http.Response, error) {
	if req.Body != nil {
		b, _ := io.ReadAll(req.Body)
		req.Body.Close()
		if dec, err := base64.StdEncoding.DecodeString(string(b)); err == nil {
			t.tap.addReq(dec)
		}
		req.Body = io.NopCloser(bytes.NewReader(b))
	}
	resp, err := t.rt.RoundTrip(req)
	if err != nil {
		return resp, err
	}
	b, _ := io.ReadAll(resp.Body)
	resp.Body.Close()
	if resp.StatusCode == 200 {
		if dec, err := base64.StdEncoding.DecodeString(string(b)); err == nil {
			t.tap.addRep(dec)
		}
	}
	resp.Body = io.NopCloser(bytes.NewReader(b))
	return resp, nil
}
