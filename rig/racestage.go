package rig

import (
	"os"
	"os/exec"
	"path/filepath"
	"strings"
	"time"

	"verif/ev"
)

// RaceStage re-executes the -race twin of the running check (built by ./check
// into $VERIF_VRT_RACE) with the given arguments and GORACE=halt_on_error=0,
// counts the "WARNING: DATA RACE" blocks in its log files and returns them
// de-duplicated by their first frames.  ok=false when no race binary exists.
func RaceStage(watchdog time.Duration, args ...string) (reports []string, ok bool, err error) {
	bin := os.Getenv("VERIF_VRT_RACE")
	if bin == "" {
		return nil, false, nil
	}
	dir := filepath.Join(ev.ScratchDir(), "race-logs")
	os.MkdirAll(dir, 0o755)
	cmd := exec.Command(bin, args...)
	cmd.Env = append(os.Environ(), "GORACE=halt_on_error=0 log_path="+filepath.Join(dir, "race"), "VERIF_RACE_STAGE=1")
	out, _ := os.Create(filepath.Join(dir, "stdout"))
	cmd.Stdout, cmd.Stderr = out, out
	if err := cmd.Start(); err != nil {
		return nil, true, err
	}
	done := make(chan error, 1)
	go func() { done <- cmd.Wait() }()
	select {
	case <-done:
	case <-time.After(watchdog):
		cmd.Process.Kill()
		<-done
	}
	out.Close()
	files, _ := filepath.Glob(filepath.Join(dir, "race.*"))
	seen := map[string]bool{}
	for _, f := range files {
		b, _ := os.ReadFile(f)
		for _, blk := range strings.Split(string(b), "WARNING: DATA RACE")[1:] {
			var frames []string
			for _, l := range strings.Split(blk, "\n") {
				l = strings.TrimSpace(l)
				if strings.Contains(l, "(") && !strings.HasPrefix(l, "/") && !strings.HasPrefix(l, "Previous") && !strings.HasPrefix(l, "Read") && !strings.HasPrefix(l, "Write") && !strings.HasPrefix(l, "Goroutine") {
					frames = append(frames, l[:strings.Index(l, "(")])
				}
				if len(frames) == 2 {
					break
				}
			}
			k := strings.Join(frames, " <- ")
			if !seen[k] {
				seen[k] = true
				reports = append(reports, k)
			}
		}
	}
	return reports, true, nil
}
