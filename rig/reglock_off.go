//go:build verif && !veriflock

package rig

import frugal "github.com/Workiva/frugal/lib/go"

// LockRegistry: the tree under test predates the VerifLockRegistry hook.
func LockRegistry(tr frugal.FTransport) func() { return nil }
