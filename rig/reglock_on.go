//go:build verif && veriflock

package rig

import frugal "github.com/Workiva/frugal/lib/go"

// LockRegistry holds the write lock of the transport's client registry until
// the returned function is called (nil: the tree under test has no such hook).
func LockRegistry(tr frugal.FTransport) func() { return frugal.VerifLockRegistry(tr) }
