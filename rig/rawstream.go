package rig

import "net"

// NewStreamRaw wraps an established byte-stream connection to a server as a
// RawConn (size-prefixed frames out, size-prefixed reply frames in).
func NewStreamRaw(c net.Conn) RawConn { return newStreamRaw(c) }
