//go:build verif

package rig

import (
	"fmt"
	"io"
	"math/big"
	"strconv"
	"sync"
	"sync/atomic"
	"time"

	frugal "github.com/Workiva/frugal/lib/go"

	"verif/wire"
)

// PromptResult is what one prompt-reply trial showed.
type PromptResult struct {
	Requests     int64
	Bad          string
	Inconclusive string
	Witness      interface{}
}

// PromptReplyTrial answers every request the instant it has been written: the
// scripted peer feeds the response from inside the transport's Flush, so the
// reader can hold the response before the calling goroutine has taken another
// step.  g goroutines issue per requests each on one adapter transport.  Every
// request must complete with its own response; a request is lost when every
// byte was read, the reader waits for more and the caller (120 s budget) is
// still waiting.
func PromptReplyTrial(g, per int) *PromptResult {
	res := &PromptResult{}
	a := NewAdapterLeg()
	a.St.OnFrame = func(frame []byte) {
		if len(frame) < 4 {
			return
		}
		pairs, _, err := wire.DecodeHeaders(frame[4:])
		if err != nil {
			return
		}
		m, _ := wire.PairsToMap(pairs)
		if op, err := strconv.ParseUint(m["_opid"], 10, 64); err == nil {
			a.St.Feed(FrameFor(op, "resp:"+m["_opid"]))
		}
	}
	tr, err := a.Open()
	if err != nil {
		res.Inconclusive = "open: " + err.Error()
		return res
	}
	defer a.Close()
	var wg sync.WaitGroup
	var bad atomic.Value
	var current [256]atomic.Uint64 // op id each goroutine is waiting for (0 = none)
	for w := 0; w < g; w++ {
		wg.Add(1)
		go func(w int) {
			defer wg.Done()
			for i := 0; i < per; i++ {
				if bad.Load() != nil {
					return
				}
				ctx := frugal.NewFContext("")
				ctx.SetTimeout(120 * time.Second)
				op := OpidOf(ctx)
				current[w].Store(op)
				rt, err := tr.Request(ctx, wire.BuildFrame(wire.MapToPairs(ctx.RequestHeaders()), []byte("req")))
				atomic.AddInt64(&res.Requests, 1)
				if err != nil {
					bad.CompareAndSwap(nil, fmt.Sprintf("request with op id %d, answered the instant it was written, returned error %q", op, err))
					return
				}
				body, _ := io.ReadAll(rt)
				_, used, perr := wire.DecodeHeaders(body)
				if perr != nil || string(body[used:]) != "resp:"+strconv.FormatUint(op, 10) {
					bad.CompareAndSwap(nil, fmt.Sprintf("request with op id %d completed with a frame that is not its own response", op))
					return
				}
				current[w].Store(0)
			}
		}(w)
	}
	done := make(chan struct{})
	go func() { wg.Wait(); close(done) }()
	idleSince, idleReads, lastReq := time.Time{}, -1, int64(-1)
	progressAt, progressReq := time.Now(), int64(-1)
	for {
		select {
		case <-done:
			if b, _ := bad.Load().(string); b != "" {
				res.Bad = b
			}
			return res
		case <-time.After(100 * time.Millisecond):
		}
		idle, reads := a.St.ReaderIdle()
		req := atomic.LoadInt64(&res.Requests)
		// no request completes any more although the reader is not waiting for
		// input: reader and callers may be parked on the registry's lock for good
		if req != progressReq {
			progressAt, progressReq = time.Now(), req
		} else if since := time.Since(progressAt); since > 10*time.Second {
			if d := LockDeadlock("lib/go.(*fRegistryImpl)"); d != "" {
				res.Bad = "registry lock deadlock: after " + strconv.FormatInt(req, 10) + " requests answered the instant they were written no request completes any more: " + d
				res.Witness = map[string]interface{}{"goroutines": g, "requests_completed": req}
				return res
			}
			if since > 150*time.Second {
				res.Inconclusive = fmt.Sprintf("no request completed for %s after %d requests (callers have a 120 s budget) and no lock deadlock could be established from the goroutine dump", since.Round(time.Second), req)
				return res
			}
		}
		if !idle || reads != idleReads || req != lastReq {
			idleSince, idleReads, lastReq = time.Now(), reads, req
			if !idle {
				idleReads = -1
			}
			continue
		}
		if time.Since(idleSince) > 15*time.Second {
			var stuck []uint64
			for w := 0; w < g; w++ {
				if op := current[w].Load(); op != 0 {
					stuck = append(stuck, op)
				}
			}
			res.Bad = fmt.Sprintf("%d request(s) were answered the instant they were written; every response byte was read, the reader waits for more, no request completes any more and the callers of op ids %v are still waiting: their responses were lost", len(stuck), stuck)
			res.Witness = map[string]interface{}{"goroutines": g, "requests_completed": req, "stuck_op_ids": stuck}
			return res
		}
	}
}

// DuplicateContextResult is what one duplicate-context trial showed.
type DuplicateContextResult struct {
	Bad          string
	Inconclusive string
	SecondErr    string
}

// DuplicateContextTrial (NATS): while request A is in flight its FContext is
// issued a second time; the transport refuses the second call ("context
// already registered").  The refusal must leave A alone: A's response, which
// arrives afterwards, is delivered to A.
func DuplicateContextTrial(nats *NatsServer) *DuplicateContextResult {
	res := &DuplicateContextResult{}
	leg := NewNatsLeg(nats)
	ctl := NewController()
	tr, err := leg.Open()
	if err != nil {
		res.Inconclusive = "open: " + err.Error()
		return res
	}
	ctx := frugal.NewFContext("")
	ctx.SetTimeout(120 * time.Second)
	op := OpidOf(ctx)
	ctl.Own(op)
	defer func() { ctl.Disown(op); leg.Close() }()
	type out struct {
		tok string
		err error
	}
	call := func() out {
		rt, err := tr.Request(ctx, wire.BuildFrame(wire.MapToPairs(ctx.RequestHeaders()), []byte("req")))
		if err != nil || rt == nil {
			return out{"", err}
		}
		body, _ := io.ReadAll(rt)
		_, used, perr := wire.DecodeHeaders(body)
		if perr != nil {
			return out{"", perr}
		}
		return out{string(body[used:]), nil}
	}
	adone := make(chan out, 1)
	go func() { adone <- call() }()
	if !ctl.Await(HookEvent{"request.registered", op}, 1, muxWatchdog) {
		res.Inconclusive = "request A did not register"
		return res
	}
	bdone := make(chan out, 1)
	go func() { bdone <- call() }()
	select {
	case b := <-bdone:
		if b.err == nil {
			// the second call was accepted: nothing to judge here
			res.Inconclusive = "the second call with the same FContext was not refused"
			return res
		}
		res.SecondErr = b.err.Error()
	case <-time.After(muxWatchdog):
		res.Inconclusive = "the second call with the same FContext neither failed nor returned"
		return res
	}
	if err := leg.Inject(op, FrameFor(op, "resp:A")); err != nil {
		res.Inconclusive = "inject: " + err.Error()
		return res
	}
	select {
	case a := <-adone:
		if a.err != nil || a.tok != "resp:A" {
			res.Bad = fmt.Sprintf("request A (op id %d) was in flight when a second call with its FContext was refused (%s); A's response arrived afterwards and A returned payload %q err=%v", op, res.SecondErr, a.tok, a.err)
		}
	case <-time.After(20 * time.Second):
		res.Bad = fmt.Sprintf("request A (op id %d) was in flight when a second call with its FContext was refused (%s); A's response was published afterwards and A, with a 120 s budget, has not returned: the refusal removed A's registration", op, res.SecondErr)
	}
	return res
}

// BeyondUint64Trial: a frame whose _opid is 2^64 + k (twenty digits, not a
// uint64) is nobody's response.  The transport may discard it or treat it as a
// protocol error and close; it must not complete request k with it.
func BeyondUint64Trial(leg MuxLeg, n int) (bad string, inconclusive string) {
	tr, err := leg.Open()
	if err != nil {
		return "", "open: " + err.Error()
	}
	defer leg.Close()
	ctl := NewController()
	type caller struct {
		op   uint64
		done chan struct{}
		tok  string
		err  error
	}
	cs := make([]*caller, n)
	var owned []uint64
	defer func() { ctl.Disown(owned...) }()
	for i := range cs {
		ctx := frugal.NewFContext("")
		ctx.SetTimeout(400 * time.Millisecond)
		c := &caller{op: OpidOf(ctx), done: make(chan struct{})}
		cs[i] = c
		ctl.Own(c.op)
		owned = append(owned, c.op)
		go func() {
			defer close(c.done)
			rt, err := tr.Request(ctx, wire.BuildFrame(wire.MapToPairs(ctx.RequestHeaders()), []byte("req")))
			c.err = err
			if err == nil && rt != nil {
				body, _ := io.ReadAll(rt)
				if _, used, perr := wire.DecodeHeaders(body); perr == nil {
					c.tok = string(body[used:])
				} else {
					c.tok = "<unparseable>"
				}
			}
		}()
	}
	for i, c := range cs {
		if !ctl.Await(HookEvent{"request.registered", c.op}, 1, muxWatchdog) {
			return "", fmt.Sprintf("caller %d did not register", i)
		}
	}
	two64 := new(big.Int).Lsh(big.NewInt(1), 64)
	for i, c := range cs {
		op := new(big.Int).Add(two64, new(big.Int).SetUint64(c.op)).String()
		leg.Inject(c.op, wire.BuildFrame([]wire.Pair{{Name: "_opid", Value: op}}, []byte(fmt.Sprintf("stray:c%d", i))))
	}
	for i, c := range cs {
		select {
		case <-c.done:
		case <-time.After(20 * time.Second):
			return "", fmt.Sprintf("caller %d did not return", i)
		}
		if c.err == nil {
			return fmt.Sprintf("caller %d (op id %d) completed successfully with payload %q: the only frame sent carried the op id 2^64+%d, which is not a uint64 and nobody's op id", i, c.op, c.tok, c.op), ""
		}
	}
	return "", ""
}

// RegistryBusyTrial: the client registry is busy (its lock is held, as by a
// slow Register/Unregister of another request) when a request is issued and
// while its response arrives; once the registry is free again the request must
// complete with its own response.  A transport that puts the request on the
// wire before it has registered it loses the response here: the reader, which
// waited for the registry too, looks the op id up first and finds nothing.
func RegistryBusyTrial(leg MuxLeg, seen <-chan uint64) (bad, inconclusive string, skipped bool) {
	tr, err := leg.Open()
	if err != nil {
		return "", "open: " + err.Error(), false
	}
	defer leg.Close()
	unlock := LockRegistry(tr)
	if unlock == nil {
		return "", "", true
	}
	released := false
	defer func() {
		if !released {
			unlock()
		}
	}()
	ctx := frugal.NewFContext("")
	ctx.SetTimeout(120 * time.Second)
	op := OpidOf(ctx)
	type out struct {
		tok string
		err error
	}
	done := make(chan out, 1)
	go func() {
		rt, err := tr.Request(ctx, wire.BuildFrame(wire.MapToPairs(ctx.RequestHeaders()), []byte("req")))
		if err != nil || rt == nil {
			done <- out{"", err}
			return
		}
		body, _ := io.ReadAll(rt)
		_, used, perr := wire.DecodeHeaders(body)
		if perr != nil {
			done <- out{"", perr}
			return
		}
		done <- out{string(body[used:]), nil}
	}()
	injected := false
	select {
	case got := <-seen: // the request went out although the registry was busy
		if got == op {
			leg.Inject(op, FrameFor(op, "resp:own"))
			injected = true
			time.Sleep(50 * time.Millisecond) // let the reader reach the registry
		}
	case <-time.After(150 * time.Millisecond):
	}
	unlock()
	released = true
	if !injected {
		wd := time.After(20 * time.Second)
		for got := false; !got; {
			select {
			case o := <-seen:
				got = o == op
			case <-wd:
				return "", "request did not reach the wire after the registry was released", false
			}
		}
		leg.Inject(op, FrameFor(op, "resp:own"))
	}
	select {
	case o := <-done:
		if o.err != nil || o.tok != "resp:own" {
			return fmt.Sprintf("request (op id %d) issued while the registry was busy returned payload %q err=%v, its own response was %q", op, o.tok, o.err, "resp:own"), "", false
		}
	case <-time.After(20 * time.Second):
		how := "after"
		if injected {
			how = "while the registry was still busy (the request had been put on the wire before it was registered), and"
		}
		return fmt.Sprintf("request (op id %d, 120 s budget) was issued while the client registry was busy; its response arrived %s the registry was released; the request has not returned: its response was lost", op, how), "", false
	}
	return "", "", false
}
