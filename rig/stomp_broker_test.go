package rig

import (
	"bytes"
	"fmt"
	"testing"
	"time"

	"github.com/go-stomp/stomp"
)

func recvN(t *testing.T, sub *stomp.Subscription, n int) []*stomp.Message {
	t.Helper()
	var out []*stomp.Message
	for len(out) < n {
		select {
		case m, ok := <-sub.C:
			if !ok {
				t.Fatalf("subscription channel closed after %d of %d", len(out), n)
			}
			if m.Err != nil {
				t.Fatalf("message error: %v", m.Err)
			}
			out = append(out, m)
		case <-time.After(5 * time.Second):
			t.Fatalf("timeout after %d of %d messages", len(out), n)
		}
	}
	return out
}

func TestStompBrokerTopicAckUnsubscribe(t *testing.T) {
	b, err := StartStompBroker()
	if err != nil {
		t.Fatal(err)
	}
	defer b.Stop()
	pub, err := b.Dial()
	if err != nil {
		t.Fatal(err)
	}
	if pub.Version() != stomp.V12 {
		t.Fatalf("negotiated version %s", pub.Version())
	}
	c1, _ := b.Dial()
	c2, _ := b.Dial()
	dest := "/topic/frugal.a.b"
	s1, err := c1.Subscribe(dest, stomp.AckClientIndividual)
	if err != nil {
		t.Fatal(err)
	}
	s2, err := c2.Subscribe(dest, stomp.AckAuto)
	if err != nil {
		t.Fatal(err)
	}
	other, _ := c2.Subscribe(dest+".x", stomp.AckAuto)
	if !b.WaitSubscribers(dest, 2, 5*time.Second) || !b.WaitSubscribers(dest+".x", 1, 5*time.Second) {
		t.Fatal("subscriptions not registered")
	}
	bodies := [][]byte{{}, {0}, {0, 0, 0, 0, 10, 13, ':', 0, 255}, bytes.Repeat([]byte{0xfe, 0, '\n'}, 50000)}
	for _, body := range bodies {
		if err := pub.Send(dest, "application/octet-stream", body); err != nil {
			t.Fatal(err)
		}
	}
	for deadline := time.Now().Add(5 * time.Second); len(b.Sends(dest)) < len(bodies); {
		if time.Now().After(deadline) {
			t.Fatal("tap did not see the SENDs")
		}
		time.Sleep(time.Millisecond)
	}
	b.Inject(dest, []byte("injected"))
	want := append(append([][]byte(nil), bodies...), []byte("injected"))
	for _, s := range []*stomp.Subscription{s1, s2} {
		got := recvN(t, s, len(want))
		for i, m := range got {
			if !bytes.Equal(m.Body, want[i]) {
				t.Fatalf("sub %s message %d differs (len %d vs %d)", s.Id(), i, len(m.Body), len(want[i]))
			}
			if m.Header.Get("subscription") != s.Id() || m.Header.Get("message-id") == "" || m.Destination != dest {
				t.Fatalf("bad MESSAGE headers: %v", m.Header)
			}
			if s == s1 && i%2 == 0 {
				if err := c1.Ack(m); err != nil {
					t.Fatal(err)
				}
			}
		}
	}
	select {
	case m := <-other.C:
		t.Fatalf("foreign destination got a message: %v", m)
	case <-time.After(50 * time.Millisecond):
	}
	// a receipt-ed SEND orders the ACKs before the check
	if err := c1.Send("/topic/none", "", nil, stomp.SendOpt.Receipt); err != nil {
		t.Fatal(err)
	}
	for _, s := range []*stomp.Subscription{s1, s2} {
		start := time.Now()
		done := make(chan error, 1)
		go func() { done <- s.Unsubscribe() }()
		select {
		case err := <-done:
			if err != nil {
				t.Fatal(err)
			}
		case <-time.After(5 * time.Second):
			t.Fatal("Unsubscribe did not return")
		}
		if d := time.Since(start); d > 2*time.Second {
			t.Fatalf("Unsubscribe took %v", d)
		}
	}
	if n := b.SubscriberCount(dest); n != 0 {
		t.Fatalf("%d subscribers left", n)
	}
	pub.Send(dest, "", []byte("late"), stomp.SendOpt.Receipt)
	infos := b.Subscriptions(dest)
	if len(infos) != 2 {
		t.Fatalf("infos: %+v", infos)
	}
	for _, i := range infos {
		if len(i.Delivered) != 5 || i.Active {
			t.Fatalf("delivered %d active %v", len(i.Delivered), i.Active)
		}
		if i.Ack == "client-individual" && (i.Acked != 3 || i.Unacked != 2) {
			t.Fatalf("ack bookkeeping: %+v", i)
		}
	}
	if got := b.Sends(dest); len(got) != 6 {
		t.Fatalf("tap has %d sends", len(got))
	}
	for _, c := range []*stomp.Conn{pub, c1, c2} {
		if err := c.Disconnect(); err != nil {
			t.Fatal(err)
		}
	}
}

func TestStompBrokerQueueRoundRobin(t *testing.T) {
	b, err := StartStompBroker()
	if err != nil {
		t.Fatal(err)
	}
	defer b.Stop()
	c, _ := b.Dial()
	dest := "/queue/q"
	s1, _ := c.Subscribe(dest, stomp.AckAuto)
	s2, _ := c.Subscribe(dest, stomp.AckAuto)
	for i := 0; i < 10; i++ {
		c.Send(dest, "", []byte(fmt.Sprint(i)))
	}
	a, bb := recvN(t, s1, 5), recvN(t, s2, 5)
	for i := 0; i < 5; i++ {
		if string(a[i].Body) != fmt.Sprint(2*i) || string(bb[i].Body) != fmt.Sprint(2*i+1) {
			t.Fatalf("round robin broken at %d: %s %s", i, a[i].Body, bb[i].Body)
		}
	}
}
