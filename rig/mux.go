//go:build verif

package rig

import (
	"bytes"
	"encoding/binary"
	"fmt"
	"io"
	"runtime"
	"strconv"
	"strings"
	"sync"
	"time"

	frugal "github.com/Workiva/frugal/lib/go"
	"github.com/apache/thrift/lib/go/thrift"
	"github.com/nats-io/nats.go"

	"verif/wire"
)

// MuxLeg is a client transport whose inbound side the scenario drives.
type MuxLeg interface {
	Name() string
	Open() (frugal.FTransport, error)
	// Inject delivers one response frame (size-prefixed) for opid to the client.
	Inject(opid uint64, frame []byte) error
	Close()
}

// ---- adapter leg -----------------------------------------------------------

type AdapterLeg struct {
	St *ScriptTransport
	tr frugal.FTransport
}

func NewAdapterLeg() *AdapterLeg   { return &AdapterLeg{St: NewScriptTransport()} }
func (a *AdapterLeg) Name() string { return "adapter" }
func (a *AdapterLeg) Open() (frugal.FTransport, error) {
	a.tr = frugal.NewAdapterTransport(a.St)
	return a.tr, a.tr.Open()
}
func (a *AdapterLeg) Inject(opid uint64, frame []byte) error { a.St.Feed(frame); return nil }
func (a *AdapterLeg) Close() {
	if a.tr != nil {
		done := make(chan struct{})
		go func() { a.tr.Close(); close(done) }()
		select {
		case <-done:
		case <-time.After(2 * time.Second): // a wedged transport must not wedge the monitor
		}
	}
}

// ---- NATS leg --------------------------------------------------------------

type NatsLeg struct {
	Srv     *NatsServer
	client  *nats.Conn
	raw     *nats.Conn
	inbox   string
	subject string
	tr      frugal.FTransport
	sub     *nats.Subscription
	// OnRequest, when set before Open, sees every request message published
	// by the client (the silent responder's view of the wire).
	OnRequest func(reply string, frame []byte)
}

var natsLegSeq uint64
var natsLegMu sync.Mutex

func NewNatsLeg(srv *NatsServer) *NatsLeg { return &NatsLeg{Srv: srv} }
func (n *NatsLeg) Name() string           { return "nats" }
func (n *NatsLeg) Open() (frugal.FTransport, error) {
	var err error
	if n.client, err = n.Srv.Connect(); err != nil {
		return nil, err
	}
	if n.raw, err = n.Srv.Connect(); err != nil {
		return nil, err
	}
	natsLegMu.Lock()
	natsLegSeq++
	id := natsLegSeq
	natsLegMu.Unlock()
	n.subject = fmt.Sprintf("verif.mux.%d", id)
	n.inbox = fmt.Sprintf("_INBOX.verif%d", id)
	// a silent responder so that requests do not get 503 no-responders
	if n.sub, err = n.raw.Subscribe(n.subject, func(m *nats.Msg) {
		if n.OnRequest != nil {
			n.OnRequest(m.Reply, m.Data)
		}
	}); err != nil {
		return nil, err
	}
	n.raw.Flush()
	n.tr = frugal.NewFNatsTransport(n.client, n.subject, n.inbox)
	if err := n.tr.Open(); err != nil {
		return nil, err
	}
	n.client.Flush()
	return n.tr, nil
}
func (n *NatsLeg) Inject(opid uint64, frame []byte) error {
	if err := n.raw.Publish(fmt.Sprintf("%s.%d", n.inbox, opid), frame); err != nil {
		return err
	}
	return n.raw.Flush()
}
func (n *NatsLeg) Close() {
	if n.tr != nil {
		done := make(chan struct{})
		go func() { n.tr.Close(); close(done) }()
		select {
		case <-done:
		case <-time.After(2 * time.Second):
		}
	}
	if n.client != nil {
		n.client.Close()
	}
	if n.raw != nil {
		n.raw.Close()
	}
}

// ---- schedules -------------------------------------------------------------

// Fate of a caller in a schedule.
const (
	FateAnswered = 0
	FateTimeout  = 1
)

// MuxFrame is a response frame of a plan: Target is a caller index or -1 for a
// never-issued op id; Copy distinguishes duplicates.
type MuxFrame struct {
	Target int
	Copy   int
}

// MuxPlan fixes callers, their fates and the response frames.
type MuxPlan struct {
	Fates  []int
	Frames []MuxFrame
}

// Action kinds.
const (
	ActStart   = "start"
	ActTimeout = "timeout"
	ActInject  = "inject"
	ActDeliver = "deliver"
	ActFinish  = "finish"
)

// MuxAction is one step of a schedule.
type MuxAction struct {
	Kind string
	Idx  int // caller index (start/timeout/finish) or frame index (inject/deliver)
}

func (a MuxAction) String() string { return a.Kind + strconv.Itoa(a.Idx) }

// ScheduleString renders a schedule compactly.
func ScheduleString(s []MuxAction) string {
	parts := make([]string, len(s))
	for i, a := range s {
		parts[i] = a.String()
	}
	return strings.Join(parts, " ")
}

type muxState struct {
	cs []int // 0 notStarted 1 waiting 2 parkedResult 3 parkedTimeout 4 done
	fs []int // 0 notInjected 1 atSendBegin 2 done
}

func (p *MuxPlan) enabled(st *muxState) []MuxAction {
	var out []MuxAction
	readerBusy := false
	for _, f := range st.fs {
		if f == 1 {
			readerBusy = true
		}
	}
	for i, c := range st.cs {
		switch c {
		case 0:
			out = append(out, MuxAction{ActStart, i})
		case 1:
			if p.Fates[i] == FateTimeout {
				out = append(out, MuxAction{ActTimeout, i})
			}
		case 2, 3:
			out = append(out, MuxAction{ActFinish, i})
		}
	}
	for j, f := range st.fs {
		t := p.Frames[j].Target
		switch f {
		case 0:
			if readerBusy {
				continue
			}
			if t >= 0 && p.Fates[t] == FateAnswered && st.cs[t] == 0 {
				// a frame that arrives before its request is sent is dropped as
				// unknown; an "answered" caller must keep one frame for later
				other := false
				for j2, f2 := range st.fs {
					if j2 != j && f2 == 0 && p.Frames[j2].Target == t {
						other = true
					}
				}
				if !other {
					continue
				}
			}
			out = append(out, MuxAction{ActInject, j})
		case 1:
			if t >= 0 && p.Fates[t] == FateTimeout && st.cs[t] == 1 {
				continue // a caller fated to time out is not answered while it waits
			}
			out = append(out, MuxAction{ActDeliver, j})
		}
	}
	return out
}

func (p *MuxPlan) apply(st *muxState, a MuxAction) {
	switch a.Kind {
	case ActStart:
		st.cs[a.Idx] = 1
	case ActTimeout:
		st.cs[a.Idx] = 3
	case ActFinish:
		st.cs[a.Idx] = 4
	case ActInject:
		t := p.Frames[a.Idx].Target
		if t < 0 || st.cs[t] == 0 || st.cs[t] == 4 {
			st.fs[a.Idx] = 2
		} else {
			st.fs[a.Idx] = 1
		}
	case ActDeliver:
		t := p.Frames[a.Idx].Target
		st.fs[a.Idx] = 2
		if st.cs[t] == 1 {
			st.cs[t] = 2
		}
	}
}

func (st *muxState) clone() *muxState {
	return &muxState{cs: append([]int(nil), st.cs...), fs: append([]int(nil), st.fs...)}
}

// Enumerate calls visit for every maximal schedule of the plan (DFS) until
// visit returns false or limit schedules have been produced; reports whether
// the enumeration was complete.
func (p *MuxPlan) Enumerate(limit int, visit func([]MuxAction) bool) (int, bool) {
	st := &muxState{cs: make([]int, len(p.Fates)), fs: make([]int, len(p.Frames))}
	count := 0
	complete := true
	var rec func(st *muxState, prefix []MuxAction) bool
	rec = func(st *muxState, prefix []MuxAction) bool {
		en := p.enabled(st)
		if len(en) == 0 {
			count++
			if !visit(append([]MuxAction(nil), prefix...)) {
				return false
			}
			if count >= limit {
				complete = false
				return false
			}
			return true
		}
		for _, a := range en {
			// symmetry reduction: copies of the same target are interchangeable
			// before injection — inject them in copy order only
			if a.Kind == ActInject {
				skip := false
				for j := 0; j < a.Idx; j++ {
					if st.fs[j] == 0 && p.Frames[j].Target == p.Frames[a.Idx].Target {
						skip = true
					}
				}
				if skip {
					continue
				}
			}
			ns := st.clone()
			p.apply(ns, a)
			if !rec(ns, append(prefix, a)) {
				return false
			}
		}
		return true
	}
	rec(st, nil)
	return count, complete
}

// RandomSchedule draws one maximal schedule with the given chooser.
func (p *MuxPlan) RandomSchedule(intn func(int) int) []MuxAction {
	st := &muxState{cs: make([]int, len(p.Fates)), fs: make([]int, len(p.Frames))}
	var out []MuxAction
	for {
		en := p.enabled(st)
		if len(en) == 0 {
			return out
		}
		a := en[intn(len(en))]
		p.apply(st, a)
		out = append(out, a)
	}
}

// ---- execution -------------------------------------------------------------

// CallerOutcome is what one caller observed.
type CallerOutcome struct {
	Opid     uint64
	Returned bool
	Err      string
	ErrType  int    // TTransportException type id, -1 otherwise
	GotOpid  string // _opid header of the returned frame
	GotToken string // payload of the returned frame
}

// MuxResult is what one executed schedule showed.
type MuxResult struct {
	Schedule      string
	Leg           string
	Outcomes      []CallerOutcome
	Expect        []string // expected payload per caller ("" = TIMED_OUT)
	RegistrySize  int
	Stalled       string // non-empty: the reader was established blocked forever (C06)
	StallDump     string
	Inconclusive  string
	HookEvents    int
	FreshOK       bool // a fresh request after the schedule was answered
	FreshErr      string
	CorrelationKO string // non-empty: C01 refuted
}

const muxWatchdog = 10 * time.Second

func tokenFor(caller, copyIdx int) string { return fmt.Sprintf("resp:c%d:k%d", caller, copyIdx) }

// ExecuteSchedule runs one schedule on a fresh transport of the leg.
func ExecuteSchedule(leg MuxLeg, plan *MuxPlan, sched []MuxAction) *MuxResult {
	res := &MuxResult{Schedule: ScheduleString(sched), Leg: leg.Name()}
	ctl := NewController("send.begin", "request.gotResult", "request.timedOut")
	tr, err := leg.Open()
	if err != nil {
		res.Inconclusive = "open: " + err.Error()
		return res
	}
	n := len(plan.Fates)
	ctxs := make([]frugal.FContext, n)
	opids := make([]uint64, n)
	var owned []uint64
	for i := range ctxs {
		ctxs[i] = frugal.NewFContext(fmt.Sprintf("cid-%d", i))
		if plan.Fates[i] == FateTimeout {
			ctxs[i].SetTimeout(25 * time.Millisecond)
		} else {
			ctxs[i].SetTimeout(60 * time.Second)
		}
		s, _ := ctxs[i].RequestHeader("_opid")
		opids[i], _ = strconv.ParseUint(s, 10, 64)
		ctl.Own(opids[i])
		owned = append(owned, opids[i])
	}
	// never-issued ids come from real contexts that are never sent
	unknown := map[int]uint64{}
	for j, f := range plan.Frames {
		if f.Target < 0 {
			c := frugal.NewFContext("unknown")
			s, _ := c.RequestHeader("_opid")
			u, _ := strconv.ParseUint(s, 10, 64)
			unknown[j] = u
			ctl.Own(u)
			owned = append(owned, u)
		}
	}
	freshCtx := frugal.NewFContext("fresh")
	freshCtx.SetTimeout(60 * time.Second)
	fs, _ := freshCtx.RequestHeader("_opid")
	freshOp, _ := strconv.ParseUint(fs, 10, 64)
	ctl.Own(freshOp)
	owned = append(owned, freshOp)
	defer func() {
		ctl.Disown(owned...)
		leg.Close()
	}()

	outcomes := make([]CallerOutcome, n)
	done := make([]chan struct{}, n)
	res.Expect = make([]string, n)
	callerState := make([]int, n)
	sendBeginSeen := map[uint64]int{}
	sendEndSeen := map[uint64]int{}
	unknownSeen := map[uint64]int{}
	gotDeliveredWhileWaiting := make([]bool, n)

	startCaller := func(i int, ctx frugal.FContext, out *CallerOutcome, ch chan struct{}) {
		go func() {
			defer close(ch)
			out.ErrType = -1
			req := wire.BuildFrame(wire.MapToPairs(ctx.RequestHeaders()), []byte(fmt.Sprintf("req:c%d", i)))
			rt, err := tr.Request(ctx, req)
			out.Returned = true
			if err != nil {
				out.Err = err.Error()
				if te, ok := err.(thrift.TTransportException); ok {
					out.ErrType = te.TypeId()
				}
				return
			}
			if rt == nil {
				out.Err = "nil transport and nil error"
				return
			}
			body, _ := io.ReadAll(rt)
			pairs, used, perr := wire.DecodeHeaders(body)
			if perr != nil {
				out.Err = "returned frame unparseable: " + perr.Error()
				return
			}
			m, _ := wire.PairsToMap(pairs)
			out.GotOpid = m["_opid"]
			out.GotToken = string(body[used:])
		}()
	}

	frameBytes := func(j int) (uint64, []byte) {
		f := plan.Frames[j]
		var op uint64
		if f.Target >= 0 {
			op = opids[f.Target]
		} else {
			op = unknown[j]
		}
		return op, wire.BuildFrame([]wire.Pair{{Name: "_opid", Value: strconv.FormatUint(op, 10)}}, []byte(tokenFor(f.Target, f.Copy)))
	}

	stall := func(what string) {
		res.Stalled = what
		buf := make([]byte, 1<<20)
		res.StallDump = filterDump(string(buf[:runtime.Stack(buf, true)]))
	}

	for step, a := range sched {
		switch a.Kind {
		case ActStart:
			i := a.Idx
			done[i] = make(chan struct{})
			outcomes[i].Opid = opids[i]
			startCaller(i, ctxs[i], &outcomes[i], done[i])
			if !ctl.Await(HookEvent{"request.registered", opids[i]}, 1, muxWatchdog) {
				res.Inconclusive = fmt.Sprintf("step %d %s: hook request.registered not reached", step, a)
				return res
			}
			callerState[i] = 1
		case ActTimeout:
			i := a.Idx
			if !ctl.Await(HookEvent{"request.timedOut", opids[i]}, 1, muxWatchdog) {
				// the caller neither timed out nor returned: decide logically
				select {
				case <-done[i]:
					res.CorrelationKO = fmt.Sprintf("caller %d (never answered) returned without passing the timeout branch: err=%q", i, outcomes[i].Err)
				default:
					res.Inconclusive = fmt.Sprintf("step %d %s: caller did not time out within the watchdog", step, a)
				}
				return res
			}
			callerState[i] = 3
		case ActInject:
			op, fb := frameBytes(a.Idx)
			beforeB, beforeU := ctl.Arrived(HookEvent{"send.begin", op}), ctl.Arrived(HookEvent{"dispatch.unknown", op})
			if err := leg.Inject(op, fb); err != nil {
				res.Inconclusive = "inject: " + err.Error()
				return res
			}
			k := ctl.AwaitAny([]HookEvent{{"send.begin", op}, {"dispatch.unknown", op}}, []int{beforeB + 1, beforeU + 1}, muxWatchdog)
			if k < 0 {
				// The reader did not pick the frame up. If an earlier deliver is
				// still in progress the stall was reported there; otherwise the
				// reader is stuck somewhere unknown.
				if d := LockDeadlock("lib/go.(*fRegistryImpl)"); d != "" {
					stall(fmt.Sprintf("step %d %s: registry lock deadlock: %s", step, a, d))
					return res
				}
				stall(fmt.Sprintf("step %d %s: reader did not process an injected frame", step, a))
				return res
			}
			if k == 0 {
				sendBeginSeen[op]++
			} else {
				unknownSeen[op]++
			}
			// cross-check the abstract model against the code's lookup result
			t := plan.Frames[a.Idx].Target
			wantFound := t >= 0 && (callerState[t] == 1 || callerState[t] == 2 || callerState[t] == 3)
			if wantFound != (k == 0) {
				res.CorrelationKO = fmt.Sprintf("step %d %s: lookup found=%v but the caller's registration state says %v", step, a, k == 0, wantFound)
				return res
			}
		case ActDeliver:
			op, _ := frameBytes(a.Idx)
			t := plan.Frames[a.Idx].Target
			before := ctl.Arrived(HookEvent{"send.end", op})
			if !ctl.Release(HookEvent{"send.begin", op}) {
				res.Inconclusive = fmt.Sprintf("step %d %s: nothing parked at send.begin", step, a)
				return res
			}
			if !ctl.Await(HookEvent{"send.end", op}, before+1, 3*time.Second) {
				// Blocked-forever criterion: the only goroutine that ever receives
				// from this op id's channel is its caller; it is past its single
				// receive (parked after it, or returned), so nobody can unblock
				// the reader.
				if callerState[t] != 1 {
					stall(fmt.Sprintf("reader parked in the delivery of a frame for op id of caller %d whose caller is %s (no goroutine can receive)", t, []string{"not started", "waiting", "parked after its receive", "parked after its timeout", "returned"}[callerState[t]]))
					return res
				}
				res.Inconclusive = fmt.Sprintf("step %d %s: delivery to a waiting caller did not complete", step, a)
				return res
			}
			sendEndSeen[op]++
			if callerState[t] == 1 {
				// the waiting caller must now receive exactly this copy
				if !ctl.Await(HookEvent{"request.gotResult", op}, 1, muxWatchdog) {
					res.Inconclusive = fmt.Sprintf("step %d %s: caller did not pick up its result", step, a)
					return res
				}
				callerState[t] = 2
				gotDeliveredWhileWaiting[t] = true
				res.Expect[t] = tokenFor(t, plan.Frames[a.Idx].Copy)
			}
		case ActFinish:
			i := a.Idx
			pt := "request.gotResult"
			if callerState[i] == 3 {
				pt = "request.timedOut"
			}
			if !ctl.Release(HookEvent{pt, opids[i]}) {
				res.Inconclusive = fmt.Sprintf("step %d %s: caller not parked at %s", step, a, pt)
				return res
			}
			select {
			case <-done[i]:
			case <-time.After(muxWatchdog):
				res.Inconclusive = fmt.Sprintf("step %d %s: caller did not return", step, a)
				return res
			}
			callerState[i] = 4
		}
	}
	res.Outcomes = outcomes
	res.RegistrySize = frugal.VerifRegistrySize(tr)
	res.HookEvents = len(ctl.Log())

	// C01 oracle
	for i := range outcomes {
		o := outcomes[i]
		want := res.Expect[i]
		switch {
		case !o.Returned:
			res.CorrelationKO = fmt.Sprintf("caller %d never returned", i)
		case want == "" && plan.Fates[i] == FateTimeout:
			if o.ErrType != frugal.TRANSPORT_EXCEPTION_TIMED_OUT {
				res.CorrelationKO = fmt.Sprintf("caller %d was never answered in time but returned err=%q got=%q instead of TIMED_OUT", i, o.Err, o.GotToken)
			}
		default:
			if o.Err != "" {
				res.CorrelationKO = fmt.Sprintf("caller %d was answered with %q but returned error %q", i, want, o.Err)
			} else if o.GotOpid != strconv.FormatUint(o.Opid, 10) {
				res.CorrelationKO = fmt.Sprintf("caller %d (op id %d) completed with a frame whose _opid is %q", i, o.Opid, o.GotOpid)
			} else if o.GotToken != want {
				res.CorrelationKO = fmt.Sprintf("caller %d completed with payload %q, the frame delivered to it was %q", i, o.GotToken, want)
			}
		}
		if res.CorrelationKO != "" {
			break
		}
	}
	if res.CorrelationKO == "" && res.RegistrySize != 0 {
		res.CorrelationKO = fmt.Sprintf("registry holds %d registrations after every caller returned", res.RegistrySize)
	}

	// C06 oracle: a fresh request after the adversarial history is answered.
	fdone := make(chan struct{})
	var fo CallerOutcome
	fo.Opid = freshOp
	go func() {
		defer close(fdone)
		req := wire.BuildFrame(wire.MapToPairs(freshCtx.RequestHeaders()), []byte("req:fresh"))
		rt, err := tr.Request(freshCtx, req)
		if err != nil {
			fo.Err = err.Error()
			return
		}
		body, _ := io.ReadAll(rt)
		_, used, perr := wire.DecodeHeaders(body)
		if perr == nil {
			fo.GotToken = string(body[used:])
		}
	}()
	if !ctl.Await(HookEvent{"request.registered", freshOp}, 1, muxWatchdog) {
		res.Inconclusive = "fresh request: hook request.registered not reached"
		return res
	}
	leg.Inject(freshOp, wire.BuildFrame([]wire.Pair{{Name: "_opid", Value: strconv.FormatUint(freshOp, 10)}}, []byte("resp:fresh")))
	if !ctl.Await(HookEvent{"send.begin", freshOp}, 1, 3*time.Second) {
		stall("the response of a fresh request injected after the history was never looked up by the reader")
		return res
	}
	ctl.Release(HookEvent{"send.begin", freshOp})
	if !ctl.Await(HookEvent{"request.gotResult", freshOp}, 1, muxWatchdog) {
		res.Inconclusive = "fresh request: result not picked up"
		return res
	}
	ctl.Release(HookEvent{"request.gotResult", freshOp})
	select {
	case <-fdone:
	case <-time.After(muxWatchdog):
		res.Inconclusive = "fresh request did not return"
		return res
	}
	res.FreshOK = fo.Err == "" && fo.GotToken == "resp:fresh"
	res.FreshErr = fo.Err
	return res
}

func filterDump(d string) string {
	var keep []string
	for _, g := range strings.Split(d, "\n\n") {
		if strings.Contains(g, "frugal/lib/go.") {
			keep = append(keep, g)
		}
	}
	s := strings.Join(keep, "\n\n")
	if len(s) > 6000 {
		s = s[:6000]
	}
	return s
}

// FrameFor builds a response frame for opid with the given payload.
func FrameFor(opid uint64, payload string) []byte {
	return wire.BuildFrame([]wire.Pair{{Name: "_opid", Value: strconv.FormatUint(opid, 10)}}, []byte(payload))
}

// FrameWithDecoy builds a response frame for opid whose first header is an
// ordinary user header whose VALUE happens to contain the serialised form of
// an _opid pair naming decoy (a server echoing a binary request header does
// that); the frame still belongs to opid.
func FrameWithDecoy(opid, decoy uint64, payload string) []byte {
	d := strconv.FormatUint(decoy, 10)
	v := "\x00\x00\x00\x05_opid" + string([]byte{0, 0, 0, byte(len(d))}) + d
	return wire.BuildFrame([]wire.Pair{{Name: "echo", Value: v}, {Name: "_opid", Value: strconv.FormatUint(opid, 10)}}, []byte(payload))
}

// OpidOf extracts the op id of a context.
func OpidOf(ctx frugal.FContext) uint64 {
	s, _ := ctx.RequestHeader("_opid")
	u, _ := strconv.ParseUint(s, 10, 64)
	return u
}

// SplitFrames splits a byte stream into size-prefixed frames.
func SplitFrames(b []byte) [][]byte {
	var out [][]byte
	for len(b) >= 4 {
		n := int(binary.BigEndian.Uint32(b))
		if len(b) < 4+n {
			break
		}
		out = append(out, b[:4+n])
		b = b[4+n:]
	}
	return out
}

var _ = bytes.Equal
