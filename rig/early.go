//go:build verif

package rig

import (
	"fmt"
	"io"
	"strconv"
	"time"

	frugal "github.com/Workiva/frugal/lib/go"

	"verif/wire"
)

// EarlyResult is what one early-response trial showed.
type EarlyResult struct {
	Callers      int
	Bad          string
	Inconclusive string
	Witness      interface{}
}

// EarlyResponseTrial enforces the interleaving in which the reader looks up
// and delivers the response of a request after the request was registered and
// written but before its caller has reached the point where it waits: every
// caller is parked at the yield point request.registered (right after
// Register), its response (and for some callers a duplicate or a frame of
// another caller first) is injected and the reader's delivery is observed to
// complete (send.end), and only then is the caller released.  It must return
// its own response: a response that arrived "too early" is still its response.
// Verdict is logical: the delivery completed while the caller was registered,
// no further frame will come, and the caller has a 120 s budget it cannot have
// used up.
func EarlyResponseTrial(leg MuxLeg, n int, copies int) *EarlyResult {
	res := &EarlyResult{Callers: n}
	ctl := NewController("request.registered")
	tr, err := leg.Open()
	if err != nil {
		res.Inconclusive = "open: " + err.Error()
		return res
	}
	var owned []uint64
	defer func() {
		ctl.Disown(owned...)
		leg.Close()
	}()
	type caller struct {
		ctx     frugal.FContext
		opid    uint64
		done    chan struct{}
		err     error
		gotOpid string
		gotTok  string
	}
	cs := make([]*caller, n)
	for i := range cs {
		ctx := frugal.NewFContext("")
		ctx.SetTimeout(120 * time.Second)
		c := &caller{ctx: ctx, opid: OpidOf(ctx), done: make(chan struct{})}
		cs[i] = c
		ctl.Own(c.opid)
		owned = append(owned, c.opid)
		go func(i int) {
			defer close(c.done)
			rt, err := tr.Request(c.ctx, wire.BuildFrame(wire.MapToPairs(c.ctx.RequestHeaders()), []byte(fmt.Sprintf("req:c%d", i))))
			if err != nil {
				c.err = err
				return
			}
			if rt == nil {
				c.err = fmt.Errorf("nil transport, nil error")
				return
			}
			body, _ := io.ReadAll(rt)
			pairs, used, perr := wire.DecodeHeaders(body)
			if perr != nil {
				c.err = fmt.Errorf("unparseable frame returned: %v", perr)
				return
			}
			m, _ := wire.PairsToMap(pairs)
			c.gotOpid, c.gotTok = m["_opid"], string(body[used:])
		}(i)
	}
	for i, c := range cs {
		if !ctl.Await(HookEvent{"request.registered", c.opid}, 1, muxWatchdog) {
			res.Inconclusive = fmt.Sprintf("caller %d did not reach request.registered", i)
			return res
		}
	}
	// every caller is registered and parked before its wait; deliver
	for i, c := range cs {
		for k := 0; k < copies; k++ {
			before := ctl.Arrived(HookEvent{"send.end", c.opid})
			if err := leg.Inject(c.opid, FrameFor(c.opid, fmt.Sprintf("resp:c%d:k%d", i, k))); err != nil {
				res.Inconclusive = "inject: " + err.Error()
				return res
			}
			if !ctl.Await(HookEvent{"send.end", c.opid}, before+1, muxWatchdog) {
				res.Inconclusive = fmt.Sprintf("delivery of the response of caller %d (copy %d) was not observed to complete", i, k)
				return res
			}
		}
	}
	witness := func() interface{} {
		var outs []map[string]interface{}
		for i, c := range cs {
			o := map[string]interface{}{"caller": i, "opid": c.opid, "got_opid": c.gotOpid, "got_payload": c.gotTok}
			if c.err != nil {
				o["err"] = c.err.Error()
			}
			outs = append(outs, o)
		}
		return map[string]interface{}{"leg": leg.Name(), "callers": outs, "copies_per_caller": copies, "schedule": "register all; deliver all responses (send.end observed); release the callers"}
	}
	for i, c := range cs {
		if !ctl.Release(HookEvent{"request.registered", c.opid}) {
			res.Inconclusive = fmt.Sprintf("caller %d was not parked at request.registered", i)
			return res
		}
	}
	for i, c := range cs {
		select {
		case <-c.done:
		case <-time.After(20 * time.Second):
			res.Bad = fmt.Sprintf("caller %d (op id %d) was registered when the reader delivered its response (delivery completed before the caller began to wait); released afterwards it does not return although its 120 s budget is untouched and no further frame will arrive: the response was lost", i, c.opid)
			res.Witness = witness()
			return res
		}
		switch {
		case c.err != nil:
			res.Bad = fmt.Sprintf("caller %d (op id %d) was delivered its response before it began to wait and returned error %q", i, c.opid, c.err)
		case c.gotOpid != strconv.FormatUint(c.opid, 10) || c.gotTok != fmt.Sprintf("resp:c%d:k0", i):
			res.Bad = fmt.Sprintf("caller %d (op id %d) completed with op id %q payload %q, the first frame delivered to it was %q", i, c.opid, c.gotOpid, c.gotTok, fmt.Sprintf("resp:c%d:k0", i))
		}
		if res.Bad != "" {
			res.Witness = witness()
			return res
		}
	}
	if sz := frugal.VerifRegistrySize(tr); sz != 0 {
		res.Bad = fmt.Sprintf("registry holds %d registrations after every caller returned", sz)
		res.Witness = witness()
	}
	return res
}
