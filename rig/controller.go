//go:build verif

package rig

import (
	"sync"
	"time"

	frugal "github.com/Workiva/frugal/lib/go"
)

// HookEvent is one arrival at a verif yield point.
type HookEvent struct {
	Point string
	Opid  uint64
}

// Controller parks goroutines of the code under test at chosen yield points
// and releases them on the scenario's command, so that a scenario enforces one
// exact interleaving on the real code.  Events are routed to controllers by op
// id (op ids are process-unique), so many scenarios run in parallel.
type Controller struct {
	mu      sync.Mutex
	cond    *sync.Cond
	parkAt  map[string]bool
	parked  map[HookEvent][]chan struct{}
	arrived map[HookEvent]int
	log     []HookEvent
	dead    bool
}

type hookRouter struct {
	mu     sync.RWMutex
	owners map[uint64]*Controller
}

var router = &hookRouter{owners: map[uint64]*Controller{}}

func init() { frugal.VerifSetHook(router.dispatch) }

func (r *hookRouter) dispatch(point string, opid uint64) {
	r.mu.RLock()
	c := r.owners[opid]
	r.mu.RUnlock()
	if c != nil {
		c.hook(point, opid)
	}
}

// NewController returns a controller that parks at the given points.
func NewController(parkAt ...string) *Controller {
	c := &Controller{parkAt: map[string]bool{}, parked: map[HookEvent][]chan struct{}{}, arrived: map[HookEvent]int{}}
	c.cond = sync.NewCond(&c.mu)
	for _, p := range parkAt {
		c.parkAt[p] = true
	}
	return c
}

// Own routes the hook events of opid to this controller.
func (c *Controller) Own(opid uint64) {
	router.mu.Lock()
	router.owners[opid] = c
	router.mu.Unlock()
}

// Disown stops routing and releases everything still parked.
func (c *Controller) Disown(opids ...uint64) {
	router.mu.Lock()
	for _, o := range opids {
		delete(router.owners, o)
	}
	router.mu.Unlock()
	c.mu.Lock()
	c.dead = true
	for ev, chs := range c.parked {
		for _, ch := range chs {
			close(ch)
		}
		delete(c.parked, ev)
	}
	c.cond.Broadcast()
	c.mu.Unlock()
}

func (c *Controller) hook(point string, opid uint64) {
	ev := HookEvent{point, opid}
	c.mu.Lock()
	c.arrived[ev]++
	c.log = append(c.log, ev)
	c.cond.Broadcast()
	if !c.parkAt[point] || c.dead {
		c.mu.Unlock()
		return
	}
	ch := make(chan struct{})
	c.parked[ev] = append(c.parked[ev], ch)
	c.mu.Unlock()
	<-ch
}

// Arrived returns how often ev has been reached.
func (c *Controller) Arrived(ev HookEvent) int {
	c.mu.Lock()
	defer c.mu.Unlock()
	return c.arrived[ev]
}

// Await waits until ev has been reached at least n times; false on watchdog.
func (c *Controller) Await(ev HookEvent, n int, watchdog time.Duration) bool {
	deadline := time.Now().Add(watchdog)
	t := time.AfterFunc(watchdog, func() { c.mu.Lock(); c.cond.Broadcast(); c.mu.Unlock() })
	defer t.Stop()
	c.mu.Lock()
	defer c.mu.Unlock()
	for c.arrived[ev] < n {
		if !time.Now().Before(deadline) {
			return false
		}
		c.cond.Wait()
	}
	return true
}

// AwaitAny waits until one of evs has count >= its n; returns index or -1.
func (c *Controller) AwaitAny(evs []HookEvent, ns []int, watchdog time.Duration) int {
	deadline := time.Now().Add(watchdog)
	t := time.AfterFunc(watchdog, func() { c.mu.Lock(); c.cond.Broadcast(); c.mu.Unlock() })
	defer t.Stop()
	c.mu.Lock()
	defer c.mu.Unlock()
	for {
		for i, ev := range evs {
			if c.arrived[ev] >= ns[i] {
				return i
			}
		}
		if !time.Now().Before(deadline) {
			return -1
		}
		c.cond.Wait()
	}
}

// Release lets one goroutine parked at ev continue; false if none is parked.
func (c *Controller) Release(ev HookEvent) bool {
	c.mu.Lock()
	defer c.mu.Unlock()
	chs := c.parked[ev]
	if len(chs) == 0 {
		return false
	}
	close(chs[0])
	if len(chs) == 1 {
		delete(c.parked, ev)
	} else {
		c.parked[ev] = chs[1:]
	}
	return true
}

// IsParked reports whether a goroutine is parked at ev.
func (c *Controller) IsParked(ev HookEvent) bool {
	c.mu.Lock()
	defer c.mu.Unlock()
	return len(c.parked[ev]) > 0
}

// Log returns a copy of the event log.
func (c *Controller) Log() []HookEvent {
	c.mu.Lock()
	defer c.mu.Unlock()
	return append([]HookEvent(nil), c.log...)
}
