package rig

// A small STOMP 1.2 broker built on go-stomp's frame codec.  The server that is
// bundled with go-stomp never answers UNSUBSCRIBE with the RECEIPT its own
// client waits for and rejects the client's 1.2 ACK, so it cannot be used to
// judge a subscriber.  This broker is also the STOMP wire tap (every SEND body
// per destination, every MESSAGE per subscription, ack bookkeeping) and the
// injector of arbitrary bodies.

import (
	"fmt"
	"net"
	"strconv"
	"strings"
	"sync"
	"time"

	"github.com/go-stomp/stomp"
	"github.com/go-stomp/stomp/frame"
)

// StompSubInfo is the bookkeeping of one SUBSCRIBE (kept after UNSUBSCRIBE).
type StompSubInfo struct {
	Conn        int    // broker-side connection number
	ID          string // the client's subscription id
	Destination string
	Ack         string // auto | client | client-individual
	Active      bool
	Delivered   [][]byte // bodies of the MESSAGE frames queued for it, in order
	Acked       int
	Nacked      int
	Unacked     int // delivered, ack expected, neither ACK nor NACK seen
}

type stompSub struct {
	c       *stompClient
	info    StompSubInfo
	pending map[string]struct{} // ack ids outstanding
}

type stompClient struct {
	b    *StompBroker
	n    int
	conn net.Conn
	subs map[string]*stompSub // by client subscription id

	qmu    sync.Mutex
	qcond  *sync.Cond
	queue  []*frame.Frame
	closed bool
	linger bool // close once the queue has been written (ERROR / DISCONNECT receipt)
}

// StompBroker is the running broker.
type StompBroker struct {
	ln net.Listener

	mu      sync.Mutex
	clients map[*stompClient]struct{}
	subs    map[string][]*stompSub // active subscriptions per destination, in SUBSCRIBE order
	all     []*stompSub            // every subscription ever made
	rr      map[string]int         // round-robin cursor per /queue/ destination
	sends   map[string][][]byte    // SEND (and injected) bodies per destination
	acks    map[string]*stompSub   // outstanding ack id -> subscription
	msgSeq  uint64
	connSeq int
	frames  map[string]int // client frames seen per command
	stopped bool
}

// StartStompBroker listens on 127.0.0.1:0 and serves until Stop.
func StartStompBroker() (*StompBroker, error) {
	ln, err := net.Listen("tcp", "127.0.0.1:0")
	if err != nil {
		return nil, err
	}
	b := &StompBroker{ln: ln, clients: map[*stompClient]struct{}{}, subs: map[string][]*stompSub{},
		rr: map[string]int{}, sends: map[string][][]byte{}, acks: map[string]*stompSub{}, frames: map[string]int{}}
	go b.acceptLoop()
	return b, nil
}

// Addr is the listening address (host:port).
func (b *StompBroker) Addr() string { return b.ln.Addr().String() }

// Dial connects a go-stomp client speaking STOMP 1.2 without heart-beats.
func (b *StompBroker) Dial(opts ...func(*stomp.Conn) error) (*stomp.Conn, error) {
	o := []func(*stomp.Conn) error{stomp.ConnOpt.AcceptVersion(stomp.V12), stomp.ConnOpt.HeartBeat(0, 0)}
	return stomp.Dial("tcp", b.Addr(), append(o, opts...)...)
}

// Stop closes the listener and every connection.
func (b *StompBroker) Stop() {
	b.mu.Lock()
	b.stopped = true
	cs := make([]*stompClient, 0, len(b.clients))
	for c := range b.clients {
		cs = append(cs, c)
	}
	b.mu.Unlock()
	b.ln.Close()
	for _, c := range cs {
		c.close()
	}
}

func (b *StompBroker) acceptLoop() {
	for {
		conn, err := b.ln.Accept()
		if err != nil {
			return
		}
		b.mu.Lock()
		if b.stopped {
			b.mu.Unlock()
			conn.Close()
			return
		}
		b.connSeq++
		c := &stompClient{b: b, n: b.connSeq, conn: conn, subs: map[string]*stompSub{}}
		c.qcond = sync.NewCond(&c.qmu)
		b.clients[c] = struct{}{}
		b.mu.Unlock()
		go c.writeLoop()
		go c.readLoop()
	}
}

func (c *stompClient) enqueue(f *frame.Frame) {
	c.qmu.Lock()
	if !c.closed {
		c.queue = append(c.queue, f)
		c.qcond.Signal()
	}
	c.qmu.Unlock()
}

func (c *stompClient) close() {
	c.qmu.Lock()
	c.closed = true
	c.qcond.Broadcast()
	c.qmu.Unlock()
	c.conn.Close()
}

// writeLoop is the only writer of the connection: frames leave in queue order
// and a consumer that stops reading never blocks the broker.
func (c *stompClient) writeLoop() {
	w := frame.NewWriterSize(c.conn, 64*1024)
	for {
		c.qmu.Lock()
		for len(c.queue) == 0 && !c.closed && !c.linger {
			c.qcond.Wait()
		}
		if c.closed {
			c.qmu.Unlock()
			return
		}
		batch := c.queue
		c.queue = nil
		linger := c.linger
		c.qmu.Unlock()
		for _, f := range batch {
			if err := w.Write(f); err != nil {
				c.close()
				return
			}
		}
		if linger {
			c.close()
			return
		}
	}
}

// finish queues a last frame (may be nil) and closes once it has been written.
func (c *stompClient) finish(f *frame.Frame) {
	c.qmu.Lock()
	if !c.closed {
		if f != nil {
			c.queue = append(c.queue, f)
		}
		c.linger = true
		c.qcond.Signal()
		time.AfterFunc(2*time.Second, c.close) // in case the peer never reads
	}
	c.qmu.Unlock()
}

func (c *stompClient) fail(msg string) {
	c.finish(frame.New(frame.ERROR, frame.Message, msg, frame.ContentLength, "0"))
}

func (c *stompClient) readLoop() {
	defer c.drop()
	r := frame.NewReaderSize(c.conn, 64*1024)
	connected := false
	for {
		f, err := r.Read()
		if err != nil {
			return
		}
		if f == nil {
			continue // heart-beat
		}
		c.b.mu.Lock()
		c.b.frames[f.Command]++
		c.b.mu.Unlock()
		if !connected {
			if f.Command != frame.CONNECT && f.Command != frame.STOMP {
				c.fail("expected CONNECT")
				return
			}
			connected = true
			c.enqueue(frame.New(frame.CONNECTED, frame.Version, "1.2", frame.HeartBeat, "0,0",
				frame.Server, "verif-stomp/1", frame.Session, strconv.Itoa(c.n)))
			continue
		}
		quit := false
		switch f.Command {
		case frame.SEND:
			dest := f.Header.Get(frame.Destination)
			if dest == "" {
				c.fail("missing header: destination")
				return
			}
			c.b.route(dest, f.Body, f.Header.Get(frame.ContentType))
		case frame.SUBSCRIBE:
			id, ok := f.Header.Contains(frame.Id)
			dest := f.Header.Get(frame.Destination)
			if !ok || dest == "" {
				c.fail("SUBSCRIBE needs id and destination")
				return
			}
			ack := f.Header.Get(frame.Ack)
			if ack == "" {
				ack = "auto"
			}
			c.b.subscribe(c, id, dest, ack)
		case frame.UNSUBSCRIBE:
			id, ok := f.Header.Contains(frame.Id)
			if !ok {
				c.fail("missing header: id")
				return
			}
			c.b.unsubscribe(c, id)
		case frame.ACK, frame.NACK:
			id, ok := f.Header.Contains(frame.Id)
			if !ok {
				c.fail("missing header: id")
				return
			}
			c.b.ack(id, f.Command == frame.ACK)
		case frame.DISCONNECT:
			quit = true
		case frame.BEGIN, frame.COMMIT, frame.ABORT:
			// transactions are not modelled; the frames are accepted
		default:
			c.fail("unexpected frame " + f.Command)
			return
		}
		// STOMP 1.2: any client frame may ask for a receipt
		if rid, ok := f.Header.Contains(frame.Receipt); ok {
			c.enqueue(frame.New(frame.RECEIPT, frame.ReceiptId, rid))
		}
		if quit {
			c.finish(nil)
			return
		}
	}
}

// drop forgets a connection and its subscriptions.
func (c *stompClient) drop() {
	b := c.b
	b.mu.Lock()
	for id := range c.subs {
		b.removeLocked(c, id)
	}
	delete(b.clients, c)
	b.mu.Unlock()
	c.qmu.Lock()
	linger := c.linger
	c.qmu.Unlock()
	if !linger {
		c.close()
	}
}

func (b *StompBroker) subscribe(c *stompClient, id, dest, ack string) {
	b.mu.Lock()
	defer b.mu.Unlock()
	if _, dup := c.subs[id]; dup {
		return
	}
	s := &stompSub{c: c, pending: map[string]struct{}{}, info: StompSubInfo{Conn: c.n, ID: id, Destination: dest, Ack: ack, Active: true}}
	c.subs[id] = s
	b.subs[dest] = append(b.subs[dest], s)
	b.all = append(b.all, s)
}

func (b *StompBroker) removeLocked(c *stompClient, id string) {
	s, ok := c.subs[id]
	if !ok {
		return
	}
	delete(c.subs, id)
	s.info.Active = false
	list := b.subs[s.info.Destination]
	for i, x := range list {
		if x == s {
			b.subs[s.info.Destination] = append(append([]*stompSub(nil), list[:i]...), list[i+1:]...)
			break
		}
	}
}

func (b *StompBroker) unsubscribe(c *stompClient, id string) {
	b.mu.Lock()
	b.removeLocked(c, id)
	b.mu.Unlock()
}

func (b *StompBroker) ack(id string, positive bool) {
	b.mu.Lock()
	defer b.mu.Unlock()
	s, ok := b.acks[id]
	if !ok {
		return
	}
	delete(b.acks, id)
	delete(s.pending, id)
	if positive {
		s.info.Acked++
	} else {
		s.info.Nacked++
	}
}

// route fans a body out: every subscriber of a /topic/ (or any other)
// destination, one subscriber in turn for /queue/.  Frames are queued under
// the broker lock, so every subscriber sees one destination's messages in the
// same order.
func (b *StompBroker) route(dest string, body []byte, contentType string) {
	body = append([]byte(nil), body...)
	if contentType == "" {
		contentType = "application/octet-stream"
	}
	b.mu.Lock()
	defer b.mu.Unlock()
	b.sends[dest] = append(b.sends[dest], body)
	targets := b.subs[dest]
	if len(targets) == 0 {
		return
	}
	if strings.HasPrefix(dest, "/queue/") {
		i := b.rr[dest] % len(targets)
		b.rr[dest] = i + 1
		targets = targets[i : i+1]
	}
	for _, s := range targets {
		b.msgSeq++
		mid := fmt.Sprintf("m-%d", b.msgSeq)
		f := frame.New(frame.MESSAGE, frame.Destination, dest, frame.MessageId, mid, frame.Subscription, s.info.ID,
			frame.ContentType, contentType, frame.ContentLength, strconv.Itoa(len(body)))
		if s.info.Ack != "auto" {
			f.Header.Add(frame.Ack, mid)
			b.acks[mid] = s
			s.pending[mid] = struct{}{}
		}
		f.Body = body
		s.info.Delivered = append(s.info.Delivered, body)
		s.c.enqueue(f)
	}
}

// Inject fans body out on destination as if a client had sent it.
func (b *StompBroker) Inject(destination string, body []byte) { b.route(destination, body, "") }

// Sends returns the bodies sent (or injected) to a destination so far.
func (b *StompBroker) Sends(destination string) [][]byte {
	b.mu.Lock()
	defer b.mu.Unlock()
	return append([][]byte(nil), b.sends[destination]...)
}

// SubscriberCount is the number of active subscriptions of a destination.
func (b *StompBroker) SubscriberCount(destination string) int {
	b.mu.Lock()
	defer b.mu.Unlock()
	return len(b.subs[destination])
}

// WaitSubscribers waits until destination has at least n active subscriptions.
func (b *StompBroker) WaitSubscribers(destination string, n int, timeout time.Duration) bool {
	deadline := time.Now().Add(timeout)
	for b.SubscriberCount(destination) < n {
		if time.Now().After(deadline) {
			return false
		}
		time.Sleep(200 * time.Microsecond)
	}
	return true
}

// Subscriptions returns the bookkeeping of every subscription ever made to a
// destination ("" = all destinations), unsubscribed ones included.
func (b *StompBroker) Subscriptions(destination string) []StompSubInfo {
	b.mu.Lock()
	defer b.mu.Unlock()
	var out []StompSubInfo
	for _, s := range b.all {
		if destination != "" && s.info.Destination != destination {
			continue
		}
		i := s.info
		i.Delivered = append([][]byte(nil), i.Delivered...)
		i.Unacked = len(s.pending)
		out = append(out, i)
	}
	return out
}

// Forget drops the recorded history of a destination (tap memory only).
func (b *StompBroker) Forget(destination string) {
	b.mu.Lock()
	defer b.mu.Unlock()
	delete(b.sends, destination)
	keep := b.all[:0]
	for _, s := range b.all {
		if s.info.Destination == destination && !s.info.Active {
			for id := range s.pending {
				delete(b.acks, id)
			}
			continue
		}
		keep = append(keep, s)
	}
	b.all = keep
}

// FrameCounts returns how many client frames of each command were received.
func (b *StompBroker) FrameCounts() map[string]int {
	b.mu.Lock()
	defer b.mu.Unlock()
	out := map[string]int{}
	for k, v := range b.frames {
		out[k] = v
	}
	return out
}
