package rig

import (
	"fmt"
	"regexp"
	"runtime"
	"sort"
	"strings"
	"time"
)

var goroutineHdr = regexp.MustCompile(`^goroutine (\d+) \[([^\]]+)\]:`)

type dumpG struct {
	id    string
	state string
	text  string
}

func parseDump() []dumpG {
	buf := make([]byte, 4<<20)
	n := runtime.Stack(buf, true)
	var out []dumpG
	for _, blk := range strings.Split(string(buf[:n]), "\n\n") {
		m := goroutineHdr.FindStringSubmatch(blk)
		if m == nil {
			continue
		}
		out = append(out, dumpG{id: m[1], state: m[2], text: blk})
	}
	return out
}

// LockDeadlock inspects goroutine dumps for a deadlock on a lock of the
// library code matching `site` (e.g. "lib/go.(*fRegistryImpl)"): it reports a
// description when, in two dumps one second apart, there is at least one
// goroutine inside that code, every such goroutine is parked acquiring a
// mutex (sync.Mutex / sync.RWMutex), and it is the same set of goroutines.
// A goroutine that holds the lock and is making progress would show up inside
// the code in another state, so nobody is left who could release it.
func LockDeadlock(site string) string {
	snap := func() (ids []string, all bool, sample string) {
		all = true
		for _, g := range parseDump() {
			if !strings.Contains(g.text, site) {
				continue
			}
			ids = append(ids, g.id)
			parked := strings.HasPrefix(g.state, "sync.Mutex.Lock") || strings.HasPrefix(g.state, "sync.RWMutex") || strings.HasPrefix(g.state, "semacquire")
			if !parked {
				all = false
			}
			if sample == "" || strings.Contains(g.text, "dispatch") {
				sample = g.text
			}
		}
		sort.Strings(ids)
		return
	}
	a, allA, _ := snap()
	if len(a) == 0 || !allA {
		return ""
	}
	time.Sleep(time.Second)
	b, allB, sample := snap()
	if !allB || strings.Join(a, ",") != strings.Join(b, ",") {
		return ""
	}
	if len(sample) > 1800 {
		sample = sample[:1800]
	}
	return fmt.Sprintf("%d goroutine(s) inside %s are all parked acquiring its mutex and stay so (nobody inside the critical section can release it); e.g.\n%s", len(b), site, sample)
}
