package rig

import (
	"fmt"
	"time"

	natsd "github.com/nats-io/nats-server/v2/server"
)

// StartNatsMaxPayload starts an embedded broker with the given max_payload
// (nats-server's default is 1 MiB, the value Frugal's natsMaxMessageSize
// mirrors; StartNats uses 8 MiB so that oversize frames can be injected).
func StartNatsMaxPayload(maxPayload int32) (*NatsServer, error) {
	s, err := natsd.NewServer(&natsd.Options{Host: "127.0.0.1", Port: -1, NoLog: true, NoSigs: true, MaxPayload: maxPayload})
	if err != nil {
		return nil, err
	}
	go s.Start()
	if !s.ReadyForConnections(10 * time.Second) {
		return nil, fmt.Errorf("embedded nats-server not ready")
	}
	return &NatsServer{S: s, URL: s.ClientURL()}, nil
}
