//go:build verif

package rig

import (
	"fmt"
	"io"
	"math/rand"
	"strconv"
	"sync"
	"time"

	frugal "github.com/Workiva/frugal/lib/go"
	"github.com/apache/thrift/lib/go/thrift"

	"verif/wire"
)

type stressCaller struct {
	kind    byte // 'A' answered, 'T' never answered, 'L' answered only after it returned
	copies  int
	opid    uint64
	err     error
	gotOpid string
	gotTok  string
	done    chan struct{}
	ctx     frugal.FContext
}

// StressResult is what one hook-free concurrent trial showed.
type StressResult struct {
	Callers, Frames int
	Retries         int    // timed-out callers that issued the same FContext again
	RetryBad        string // the retry of a timed-out request was not served (C01 and C06)
	Decoys          int    // frames with a header value embedding another caller's serialised _opid pair
	CrossSubject    int    // frames published on the reply subject of another request (NATS)
	Shape           string
	Bad             string // C01 refuted (correlation)
	Stall           string // C06 refuted: reader established blocked forever
	Inconclusive    string
	Witness         interface{}
}

// StressTrial runs n concurrent callers on one transport of the given leg
// against a PRNG response plan (duplicates up to maxCopies, permutations,
// unknown ids, late frames), without parking anything.  The verif hooks are
// only recorded, which gives a logical blocked-forever criterion: a delivery
// that began (send.begin) and did not end (send.end) for an op id whose caller
// has already returned can never complete.
func StressTrial(legName string, n int, seed int64, nats *NatsServer, maxCopies int) *StressResult {
	res := &StressResult{}
	rng := rand.New(rand.NewSource(seed))
	ctl := NewController() // records, never parks
	var owned []uint64
	defer func() { ctl.Disown(owned...) }()
	var leg MuxLeg
	seen := make(chan uint64, 4*n+8)
	onReq := func(frame []byte) {
		if len(frame) < 4 {
			return
		}
		pairs, _, err := wire.DecodeHeaders(frame[4:])
		if err != nil {
			return
		}
		m, _ := wire.PairsToMap(pairs)
		if op, err := strconv.ParseUint(m["_opid"], 10, 64); err == nil {
			seen <- op
		}
	}
	var adapter *AdapterLeg
	if legName == "adapter" {
		a := NewAdapterLeg()
		a.St.OnFrame = onReq
		leg = a
		adapter = a
	} else {
		nl := NewNatsLeg(nats)
		nl.OnRequest = func(_ string, f []byte) { onReq(f) }
		leg = nl
	}
	tr, err := leg.Open()
	if err != nil {
		res.Inconclusive = "open: " + err.Error()
		return res
	}
	defer leg.Close()
	closedC := tr.Closed() // fires if the transport closes itself: only well-formed frames are sent here

	cs := make([]*stressCaller, n)
	kinds := ""
	for i := range cs {
		c := &stressCaller{done: make(chan struct{})}
		switch r := rng.Intn(10); {
		case r < 6:
			c.kind, c.copies = 'A', 1+rng.Intn(maxCopies)
		case r < 8:
			c.kind = 'T'
		default:
			c.kind, c.copies = 'L', 1+rng.Intn(2)
		}
		kinds += string(c.kind) + strconv.Itoa(c.copies)
		cs[i] = c
	}
	res.Callers = n
	res.Shape = fmt.Sprintf("n=%d %s", n, kinds)
	// stalled decides whether the reader is established blocked forever
	stalled := func() string {
		for i, c := range cs {
			b, e := ctl.Arrived(HookEvent{"send.begin", c.opid}), ctl.Arrived(HookEvent{"send.end", c.opid})
			if b > e {
				select {
				case <-c.done:
					return fmt.Sprintf("reader parked in the delivery of frame #%d for the op id of caller %d, which has already returned (no goroutine can receive)", b, i)
				default:
				}
			}
		}
		return ""
	}
	var start sync.WaitGroup
	start.Add(1)
	for i, c := range cs {
		ctx := frugal.NewFContext("")
		if c.kind == 'A' {
			ctx.SetTimeout(60 * time.Second)
		} else {
			ctx.SetTimeout(time.Duration(30+rng.Intn(30)) * time.Millisecond)
		}
		c.opid = OpidOf(ctx)
		c.ctx = ctx
		ctl.Own(c.opid)
		owned = append(owned, c.opid)
		go func(i int, c *stressCaller, ctx frugal.FContext) {
			defer close(c.done)
			start.Wait()
			req := wire.BuildFrame(wire.MapToPairs(ctx.RequestHeaders()), []byte("req"))
			rt, err := tr.Request(ctx, req)
			if err != nil {
				c.err = err
				return
			}
			if rt == nil {
				c.err = fmt.Errorf("nil transport, nil error")
				return
			}
			body, _ := io.ReadAll(rt)
			pairs, used, perr := wire.DecodeHeaders(body)
			if perr != nil {
				c.err = fmt.Errorf("unparseable frame returned: %v", perr)
				return
			}
			m, _ := wire.PairsToMap(pairs)
			c.gotOpid, c.gotTok = m["_opid"], string(body[used:])
		}(i, c, ctx)
	}
	start.Done()
	// wait until every request is on the wire (so responses can be permuted freely)
	pendingReq := n
	wd := time.After(20 * time.Second)
	for pendingReq > 0 {
		select {
		case <-seen:
			pendingReq--
		case <-wd:
			res.Inconclusive = "not every request reached the wire"
			return res
		}
	}
	// subj is the op id the transport-level address names (the NATS reply
	// subject <inbox>.<subj>); a hostile responder may publish a frame on the
	// reply subject of another request, and the frame's own _opid must still
	// decide who completes.  The first copy for an answered caller always
	// travels on its own subject so that every 'A' caller can return.
	type fr struct {
		op    uint64
		tok   string
		subj  uint64
		decoy uint64 // != 0: a header value of the frame embeds an _opid pair naming this op id
	}
	build := func(f fr) []byte {
		if f.decoy != 0 {
			return FrameWithDecoy(f.op, f.decoy, f.tok)
		}
		return FrameFor(f.op, f.tok)
	}
	var plan []fr
	otherSubj := func(own uint64) uint64 {
		if legName != "nats" || rng.Intn(2) == 0 {
			return own
		}
		res.CrossSubject++
		return cs[rng.Intn(len(cs))].opid
	}
	for i, c := range cs {
		if c.kind == 'A' {
			for k := 0; k < c.copies; k++ {
				subj := c.opid
				if k > 0 {
					subj = otherSubj(c.opid)
				}
				var decoy uint64
				if rng.Intn(3) == 0 {
					decoy = cs[rng.Intn(len(cs))].opid
					if decoy != c.opid {
						res.Decoys++
					}
				}
				plan = append(plan, fr{c.opid, fmt.Sprintf("resp:c%d:k%d", i, k), subj, decoy})
			}
		}
	}
	for u := rng.Intn(4); u > 0; u-- {
		uctx := frugal.NewFContext("")
		uop := OpidOf(uctx)
		switch rng.Intn(4) { // op ids are uint64 on the wire: also ids no context of this process will ever carry
		case 0:
			uop = 1 << 63
		case 1:
			uop = ^uint64(0) - uint64(rng.Intn(1000))
		}
		plan = append(plan, fr{uop, "resp:unknown", otherSubj(uop), cs[rng.Intn(len(cs))].opid})
	}
	switch rng.Intn(3) {
	case 0: // any permutation
		rng.Shuffle(len(plan), func(i, j int) { plan[i], plan[j] = plan[j], plan[i] })
	case 1: // keep duplicates of one op id adjacent (back-to-back duplicates)
	default:
		rng.Shuffle(len(plan), func(i, j int) { plan[i], plan[j] = plan[j], plan[i] })
		// then make the copies of one random op id adjacent at the front
	}
	burst := rng.Intn(2) == 0
	if burst && legName == "adapter" {
		var all []byte
		for _, f := range plan {
			all = append(all, FrameFor(f.op, f.tok)...)
		}
		leg.Inject(0, all) // several frames in one read
	} else {
		for _, f := range plan {
			leg.Inject(f.subj, build(f))
		}
	}
	res.Frames = len(plan)
	witness := func(outs interface{}) interface{} {
		return map[string]interface{}{"leg": legName, "seed": seed, "shape": res.Shape, "callers": outs, "plan": fmt.Sprint(plan), "burst": burst}
	}
	awaitOrStall := func(ch <-chan struct{}, what string) bool {
		t := time.NewTimer(3 * time.Second)
		defer t.Stop()
		deadline := time.After(30 * time.Second)
		for {
			select {
			case <-ch:
				return true
			case <-closedC:
				res.Bad = "the transport closed itself while only well-formed responses (duplicates, late and unknown op ids) were arriving: every request in flight on it lost its response (" + what + ")"
				res.Witness = witness(nil)
				return false
			case <-t.C:
				if s := stalled(); s != "" {
					res.Stall = s
					res.Witness = witness(nil)
					return false
				}
				if d := LockDeadlock("lib/go.(*fRegistryImpl)"); d != "" {
					res.Stall = "registry lock deadlock: " + d
					res.Witness = witness(nil)
					return false
				}
				t.Reset(3 * time.Second)
			case <-deadline:
				res.Inconclusive = what + " within the watchdog, and no blocked delivery could be established"
				return false
			}
		}
	}
	for _, c := range cs {
		if !awaitOrStall(c.done, "a caller did not return") {
			return res
		}
	}
	// a caller that timed out tries again with the same FContext (same op id), before any late frame of the first attempt is on its way:
	// the earlier attempt is over, so the retry is an ordinary request and its
	// response, arriving in time, must be delivered to it
	retried := 0
	for i, c := range cs {
		if c.kind == 'A' || retried >= 2 || c.err == nil {
			continue
		}
		retried++
		c.ctx.SetTimeout(60 * time.Second)
		rdone := make(chan struct{})
		var rerr error
		var rtok string
		go func() {
			defer close(rdone)
			rt, err := tr.Request(c.ctx, wire.BuildFrame(wire.MapToPairs(c.ctx.RequestHeaders()), []byte("req")))
			rerr = err
			if err == nil && rt != nil {
				body, _ := io.ReadAll(rt)
				if _, used, perr := wire.DecodeHeaders(body); perr == nil {
					rtok = string(body[used:])
				}
			}
		}()
		wd = time.After(20 * time.Second)
		for got := false; !got; {
			select {
			case op := <-seen:
				got = op == c.opid
			case <-rdone:
				got = true
			case <-wd:
				res.Inconclusive = "retried request did not reach the wire"
				return res
			}
		}
		want := fmt.Sprintf("retry:c%d", i)
		leg.Inject(c.opid, FrameFor(c.opid, want))
		res.Frames++
		res.Retries++
		if !awaitOrStall(rdone, "retried request not answered") {
			idle := false
			if adapter != nil {
				idle, _ = adapter.St.ReaderIdle()
			}
			if res.Stall == "" && res.Bad == "" && res.Inconclusive != "" && idle {
				// every byte was read and the reader waits for more: the retry can only time out
				res.Inconclusive = ""
				res.RetryBad = fmt.Sprintf("caller %d timed out, then issued the same FContext (op id %d) again; the response to the retry arrived in time and was not delivered to it", i, c.opid)
				res.Witness = witness(nil)
			}
			return res
		}
		if rerr != nil || rtok != want {
			res.RetryBad = fmt.Sprintf("caller %d timed out, then issued the same FContext (op id %d) again; the retry completed with payload %q err=%v, the frame sent to it was %q", i, c.opid, rtok, rerr, want)
			res.Witness = witness(nil)
			return res
		}
	}
	// late frames for L callers and repeated frames for completed A callers
	for i, c := range cs {
		if c.kind == 'L' {
			for k := 0; k < c.copies; k++ {
				leg.Inject(c.opid, FrameFor(c.opid, fmt.Sprintf("late:c%d:k%d", i, k)))
				res.Frames++
			}
		} else if c.kind == 'A' && rng.Intn(3) == 0 {
			leg.Inject(c.opid, FrameFor(c.opid, fmt.Sprintf("again:c%d", i)))
			res.Frames++
		}
	}
	// a fresh request after everything must still be answered with its own frame
	fctx := frugal.NewFContext("")
	fctx.SetTimeout(60 * time.Second)
	fop := OpidOf(fctx)
	fdone := make(chan struct{})
	var ferr error
	var ftok string
	go func() {
		defer close(fdone)
		rt, err := tr.Request(fctx, wire.BuildFrame(wire.MapToPairs(fctx.RequestHeaders()), []byte("req")))
		ferr = err
		if err == nil && rt != nil {
			body, _ := io.ReadAll(rt)
			_, used, perr := wire.DecodeHeaders(body)
			if perr == nil {
				ftok = string(body[used:])
			}
		}
	}()
	wd = time.After(20 * time.Second)
	for got := false; !got; {
		select {
		case op := <-seen:
			got = op == fop
		case <-wd:
			res.Inconclusive = "fresh request did not reach the wire"
			return res
		}
	}
	leg.Inject(fop, FrameFor(fop, "resp:fresh"))
	if !awaitOrStall(fdone, "fresh request not answered") {
		if res.Stall != "" {
			res.Stall = "the response of a fresh request injected after the history was not delivered: " + res.Stall
		}
		return res
	}
	if ferr != nil || ftok != "resp:fresh" {
		res.Bad = fmt.Sprintf("caller fresh completed with payload %q err=%v, the frame delivered to it was %q", ftok, ferr, "resp:fresh")
	}
	// oracle
	outs := []map[string]interface{}{}
	for i, c := range cs {
		o := map[string]interface{}{"caller": i, "kind": string(c.kind), "opid": c.opid, "got_opid": c.gotOpid, "got_payload": c.gotTok}
		if c.err != nil {
			o["err"] = c.err.Error()
		}
		outs = append(outs, o)
		if res.Bad != "" {
			continue
		}
		switch c.kind {
		case 'A':
			if c.err != nil {
				res.Bad = fmt.Sprintf("caller %d was answered with its own frames but returned error %q", i, c.err)
			} else if c.gotOpid != strconv.FormatUint(c.opid, 10) {
				res.Bad = fmt.Sprintf("caller %d (op id %d) completed with a frame whose _opid is %q", i, c.opid, c.gotOpid)
			} else if want := fmt.Sprintf("resp:c%d:k", i); len(c.gotTok) < len(want) || c.gotTok[:len(want)] != want {
				res.Bad = fmt.Sprintf("caller %d completed with payload %q, the frame delivered to it was %q", i, c.gotTok, want+"*")
			}
		default:
			te, ok := c.err.(thrift.TTransportException)
			if !ok || te.TypeId() != frugal.TRANSPORT_EXCEPTION_TIMED_OUT {
				res.Bad = fmt.Sprintf("caller %d was never answered in time but returned err=%v got=%q instead of TIMED_OUT", i, c.err, c.gotTok)
			}
		}
	}
	if res.Bad == "" {
		if sz := frugal.VerifRegistrySize(tr); sz != 0 {
			res.Bad = fmt.Sprintf("registry holds %d registrations after every caller returned", sz)
		}
	}
	if res.Bad != "" {
		res.Witness = witness(outs)
	}
	return res
}
