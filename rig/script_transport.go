// Package rig holds workload machinery shared by the runtime monitors.
package rig

import (
	"context"
	"encoding/binary"
	"errors"
	"io"
	"sync"

	"github.com/apache/thrift/lib/go/thrift"
)

// ScriptTransport is a thrift.TTransport whose peer is the test: bytes the
// client writes are captured (and split into frames on Flush), bytes the
// client reads are whatever the script feeds, and every I/O operation can be
// made to fail or block at a chosen index.  All state is guarded by one mutex
// so that the monitor is never the race.
type ScriptTransport struct {
	mu   sync.Mutex
	cond *sync.Cond

	open        bool
	readWaiting int         // readers parked in Read waiting for bytes
	parked      map[int]int // generation -> readers of that generation parked in Read (see script_sessions.go)
	gen         int         // incremented by every successful Open
	inbuf       []byte
	inErr       error // delivered once inbuf is drained (sticky until next Open)
	outbuf      []byte
	OnFrame     func(frame []byte) // called (outside the lock) for every complete frame flushed by the client
	OnWrite     func(n int)        // called for every Write (outside the lock)

	// counters
	Opens, OpenCalls, Closes, Reads, Writes, Flushes int

	// fault plans: op index (1-based, counted over the life of the transport) -> error
	FailOpen  map[int]error
	FailClose map[int]error
	FailWrite map[int]error
	FailFlush map[int]error
	FailRead  map[int]error

	// blocking: when non-nil, Write / Flush wait on the channel (or ctx for Flush)
	BlockWrite chan struct{}
	BlockFlush chan struct{}
	// IgnoreFlushCtx makes a blocked Flush ignore its context (a peer that stalls for good)
	IgnoreFlushCtx bool
}

// NewScriptTransport returns a closed transport.
func NewScriptTransport() *ScriptTransport {
	s := &ScriptTransport{}
	s.cond = sync.NewCond(&s.mu)
	return s
}

var errClosed = thrift.NewTTransportException(thrift.NOT_OPEN, "script transport closed")

// Open implements TTransport.
func (s *ScriptTransport) Open() error {
	s.mu.Lock()
	defer s.mu.Unlock()
	s.OpenCalls++
	if err := s.FailOpen[s.OpenCalls]; err != nil {
		return err
	}
	if s.open {
		return thrift.NewTTransportException(thrift.ALREADY_OPEN, "script transport already open")
	}
	s.open = true
	s.gen++
	s.Opens++
	s.inbuf = nil
	s.inErr = nil
	s.outbuf = nil
	return nil
}

// IsOpen implements TTransport.
func (s *ScriptTransport) IsOpen() bool {
	s.mu.Lock()
	defer s.mu.Unlock()
	return s.open
}

// Close implements TTransport.
func (s *ScriptTransport) Close() error {
	s.mu.Lock()
	defer s.mu.Unlock()
	s.Closes++
	if err := s.FailClose[s.Closes]; err != nil {
		return err
	}
	if !s.open {
		return errClosed
	}
	s.open = false
	s.cond.Broadcast()
	return nil
}

// Read implements TTransport: blocks until bytes, an injected error, or Close.
func (s *ScriptTransport) Read(p []byte) (int, error) {
	s.mu.Lock()
	defer s.mu.Unlock()
	s.Reads++
	if err := s.FailRead[s.Reads]; err != nil {
		return 0, err
	}
	gen := s.gen
	for {
		if !s.open || s.gen != gen {
			return 0, errClosed
		}
		if len(s.inbuf) > 0 {
			n := copy(p, s.inbuf)
			s.inbuf = s.inbuf[n:]
			return n, nil
		}
		if s.inErr != nil {
			return 0, s.inErr
		}
		if len(p) == 0 {
			return 0, nil
		}
		s.readWaiting++
		s.park(gen, +1)
		s.cond.Wait()
		s.park(gen, -1)
		s.readWaiting--
	}
}

// Write implements TTransport.
func (s *ScriptTransport) Write(p []byte) (int, error) {
	s.mu.Lock()
	s.Writes++
	idx := s.Writes
	blk := s.BlockWrite
	cb := s.OnWrite
	s.mu.Unlock()
	if cb != nil {
		cb(idx)
	}
	if blk != nil {
		<-blk
	}
	s.mu.Lock()
	defer s.mu.Unlock()
	if err := s.FailWrite[idx]; err != nil {
		return 0, err
	}
	if !s.open {
		return 0, errClosed
	}
	s.outbuf = append(s.outbuf, p...)
	return len(p), nil
}

// Flush implements TTransport; complete frames are handed to OnFrame.
func (s *ScriptTransport) Flush(ctx context.Context) error {
	s.mu.Lock()
	s.Flushes++
	idx := s.Flushes
	blk := s.BlockFlush
	ignore := s.IgnoreFlushCtx
	s.mu.Unlock()
	if blk != nil {
		if ignore {
			<-blk
		} else {
			select {
			case <-blk:
			case <-ctx.Done():
				return thrift.NewTTransportExceptionFromError(ctx.Err())
			}
		}
	}
	s.mu.Lock()
	if err := s.FailFlush[idx]; err != nil {
		s.mu.Unlock()
		return err
	}
	if !s.open {
		s.mu.Unlock()
		return errClosed
	}
	var frames [][]byte
	for len(s.outbuf) >= 4 {
		n := int(binary.BigEndian.Uint32(s.outbuf))
		if len(s.outbuf) < 4+n {
			break
		}
		frames = append(frames, append([]byte(nil), s.outbuf[:4+n]...))
		s.outbuf = s.outbuf[4+n:]
	}
	cb := s.OnFrame
	s.mu.Unlock()
	if cb != nil {
		for _, f := range frames {
			cb(f)
		}
	}
	return nil
}

// RemainingBytes implements TTransport.
func (s *ScriptTransport) RemainingBytes() uint64 { return ^uint64(0) }

// Feed makes b readable by the client.
func (s *ScriptTransport) Feed(b []byte) {
	s.mu.Lock()
	s.inbuf = append(s.inbuf, b...)
	s.cond.Broadcast()
	s.mu.Unlock()
}

// FeedEOF makes the stream end (after the bytes already fed) the way a
// closed socket does in Apache Thrift: a TTransportException END_OF_FILE.
func (s *ScriptTransport) FeedEOF() {
	s.FeedError(thrift.NewTTransportExceptionFromError(io.EOF))
}

// FeedError makes reads fail with err after the bytes already fed.
func (s *ScriptTransport) FeedError(err error) {
	s.mu.Lock()
	s.inErr = err
	s.cond.Broadcast()
	s.mu.Unlock()
}

// SetBlockWrite makes every later Write wait on ch (nil: no blocking).
func (s *ScriptTransport) SetBlockWrite(ch chan struct{}) {
	s.mu.Lock()
	s.BlockWrite = ch
	s.mu.Unlock()
}

// ReaderIdle reports that every fed byte has been read and a reader is parked
// in Read waiting for more, together with the number of Reads so far.
func (s *ScriptTransport) ReaderIdle() (idle bool, reads int) {
	s.mu.Lock()
	defer s.mu.Unlock()
	return len(s.inbuf) == 0 && s.readWaiting > 0, s.Reads
}

// Pending returns the number of fed bytes not yet read.
func (s *ScriptTransport) Pending() int {
	s.mu.Lock()
	defer s.mu.Unlock()
	return len(s.inbuf)
}

// Snapshot returns the counters.
func (s *ScriptTransport) Snapshot() (opens, openCalls, closes, reads, writes, flushes int) {
	s.mu.Lock()
	defer s.mu.Unlock()
	return s.Opens, s.OpenCalls, s.Closes, s.Reads, s.Writes, s.Flushes
}

// ErrReset is a non-EOF stream failure.
var ErrReset = errors.New("read: connection reset by peer")
