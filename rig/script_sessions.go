package rig

// Session-exact views of a ScriptTransport.  A generation (gen) is one
// open..close span of the stream.  A Read binds to the generation that is
// current when it takes the stream's lock, exactly as a Read of a socket binds
// to the connection it finds; these helpers let a monitor ask questions that
// are exact about that binding instead of approximating it from outside.

func (s *ScriptTransport) park(gen, d int) {
	if s.parked == nil {
		s.parked = map[int]int{}
	}
	s.parked[gen] += d
	if s.parked[gen] == 0 {
		delete(s.parked, gen)
	}
}

// Gen returns the current generation (number of successful Opens).
func (s *ScriptTransport) Gen() int {
	s.mu.Lock()
	defer s.mu.Unlock()
	return s.gen
}

// ParkedReaders returns how many Read calls bound to the current generation
// are parked waiting for bytes, and whether fed bytes are still unread; both
// from one critical section.  A reader that has been handed bytes (or is on
// its way into or out of Read) is not counted: parked > 0 && pending == 0
// means "a reader of this session sits in Read and has consumed everything".
func (s *ScriptTransport) ParkedReaders() (parked, pending int) {
	s.mu.Lock()
	defer s.mu.Unlock()
	if !s.open {
		return 0, len(s.inbuf)
	}
	return s.parked[s.gen], len(s.inbuf)
}

// FeedGen makes b readable only if the stream is still in generation gen
// (a peer answers on the connection the request came in on; bytes for a
// connection that is gone are lost, they never show up on the next one).
func (s *ScriptTransport) FeedGen(b []byte, gen int) bool {
	s.mu.Lock()
	defer s.mu.Unlock()
	if !s.open || s.gen != gen {
		return false
	}
	s.inbuf = append(s.inbuf, b...)
	s.cond.Broadcast()
	return true
}
