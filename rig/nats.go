package rig

import (
	"fmt"
	"time"

	natsd "github.com/nats-io/nats-server/v2/server"
	"github.com/nats-io/nats.go"
)

// NatsServer is an embedded nats-server on a random port.
type NatsServer struct {
	S   *natsd.Server
	URL string
}

// StartNats starts an embedded broker.
func StartNats() (*NatsServer, error) {
	s, err := natsd.NewServer(&natsd.Options{Host: "127.0.0.1", Port: -1, NoLog: true, NoSigs: true, MaxPayload: 8 * 1024 * 1024})
	if err != nil {
		return nil, err
	}
	go s.Start()
	if !s.ReadyForConnections(10 * time.Second) {
		return nil, fmt.Errorf("embedded nats-server not ready")
	}
	return &NatsServer{S: s, URL: s.ClientURL()}, nil
}

// Connect opens a client connection.
func (n *NatsServer) Connect() (*nats.Conn, error) {
	return nats.Connect(n.URL, nats.MaxReconnects(-1), nats.Timeout(10*time.Second))
}

// Stop shuts the broker down.
func (n *NatsServer) Stop() {
	n.S.Shutdown()
	n.S.WaitForShutdown()
}
