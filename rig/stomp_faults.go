package rig

// Peer faults of the STOMP broker: what a broker (or the network) can do to a
// live subscription besides delivering MESSAGE frames.

// subscriberConns returns the connections with an active subscription on destination.
func (b *StompBroker) subscriberConns(destination string) []*stompClient {
	b.mu.Lock()
	defer b.mu.Unlock()
	seen := map[*stompClient]bool{}
	var out []*stompClient
	for _, s := range b.subs[destination] {
		if !seen[s.c] {
			seen[s.c] = true
			out = append(out, s.c)
		}
	}
	return out
}

// FailSubscribers sends an ERROR frame with the given message to every
// connection subscribed to destination and closes it once the frame has been
// written (what a broker does on shutdown or on a protocol violation).
// Returns the number of connections.
func (b *StompBroker) FailSubscribers(destination, message string) int {
	cs := b.subscriberConns(destination)
	for _, c := range cs {
		c.fail(message)
	}
	return len(cs)
}

// DropSubscribers closes the connections subscribed to destination without
// any frame (lost connection).  Returns the number of connections.
func (b *StompBroker) DropSubscribers(destination string) int {
	cs := b.subscriberConns(destination)
	for _, c := range cs {
		c.close()
	}
	return len(cs)
}
