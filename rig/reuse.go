//go:build verif

package rig

import (
	"fmt"
	"io"
	"strconv"
	"time"

	frugal "github.com/Workiva/frugal/lib/go"

	"verif/wire"
)

// ContextReuseTrial enforces, with the yield points, one history on a single
// op id ("An FContext can be reused for multiple requests"):
//
//	call 1 is delivered its response and is held before it returns
//	(request.gotResult); a duplicate refills its result channel; the reader
//	looks the channel up for a second duplicate and is held before the send
//	(send.begin); call 1 returns (unregisters); call 2 is issued with the same
//	FContext and registers; the reader resumes and discards the surplus
//	duplicate; the response of call 2 arrives.
//
// Call 2 is in flight, its response is received after everything above has
// completed, and it has a 120 s budget: it must return that response.
func ContextReuseTrial(leg MuxLeg) (bad, inconclusive string, witness interface{}) {
	ctl := NewController("request.gotResult", "send.begin")
	tr, err := leg.Open()
	if err != nil {
		return "", "open: " + err.Error(), nil
	}
	ctx := frugal.NewFContext("")
	ctx.SetTimeout(120 * time.Second)
	opid := OpidOf(ctx)
	ctl.Own(opid)
	disowned := false
	defer func() {
		if !disowned {
			ctl.Disown(opid)
		}
		leg.Close()
	}()
	type outcome struct {
		err     error
		gotOpid string
		gotTok  string
	}
	call := func(tag string) chan outcome {
		ch := make(chan outcome, 1)
		go func() {
			var o outcome
			rt, err := tr.Request(ctx, wire.BuildFrame(wire.MapToPairs(ctx.RequestHeaders()), []byte("req:"+tag)))
			switch {
			case err != nil:
				o.err = err
			case rt == nil:
				o.err = fmt.Errorf("nil transport, nil error")
			default:
				body, _ := io.ReadAll(rt)
				pairs, used, perr := wire.DecodeHeaders(body)
				if perr != nil {
					o.err = fmt.Errorf("unparseable frame returned: %v", perr)
				} else {
					m, _ := wire.PairsToMap(pairs)
					o.gotOpid, o.gotTok = m["_opid"], string(body[used:])
				}
			}
			ch <- o
		}()
		return ch
	}
	at := func(p string) HookEvent { return HookEvent{p, opid} }
	step := func(what string, ok bool) bool {
		if !ok {
			inconclusive = "history not established: " + what
		}
		return ok
	}
	want := strconv.FormatUint(opid, 10)

	c1 := call("1")
	if !step("call 1 did not register", ctl.Await(at("request.registered"), 1, muxWatchdog)) {
		return
	}
	// response of call 1: delivered, caller held before it returns
	if err := leg.Inject(opid, FrameFor(opid, "resp:1")); err != nil {
		return "", "inject: " + err.Error(), nil
	}
	if !step("reader did not reach the send of response 1", ctl.Await(at("send.begin"), 1, muxWatchdog)) {
		return
	}
	ctl.Release(at("send.begin"))
	if !step("delivery of response 1 not observed", ctl.Await(at("send.end"), 1, muxWatchdog)) {
		return
	}
	if !step("call 1 did not take its response", ctl.Await(at("request.gotResult"), 1, muxWatchdog)) {
		return
	}
	// duplicate A refills the (now empty) result channel of call 1
	if err := leg.Inject(opid, FrameFor(opid, "resp:1:dupA")); err != nil {
		return "", "inject: " + err.Error(), nil
	}
	if !step("reader did not reach the send of duplicate A", ctl.Await(at("send.begin"), 2, muxWatchdog)) {
		return
	}
	ctl.Release(at("send.begin"))
	if !step("delivery of duplicate A not observed", ctl.Await(at("send.end"), 2, muxWatchdog)) {
		return
	}
	// duplicate B: the reader has looked call 1's channel up and is held
	if err := leg.Inject(opid, FrameFor(opid, "resp:1:dupB")); err != nil {
		return "", "inject: " + err.Error(), nil
	}
	if !step("reader did not reach the send of duplicate B", ctl.Await(at("send.begin"), 3, muxWatchdog)) {
		return
	}
	// call 1 returns and unregisters
	ctl.Release(at("request.gotResult"))
	var o1 outcome
	select {
	case o1 = <-c1:
	case <-time.After(muxWatchdog):
		return "", "history not established: call 1 did not return after it was released", nil
	}
	if o1.err != nil || o1.gotOpid != want || o1.gotTok != "resp:1" {
		return "", fmt.Sprintf("history not established: call 1 returned err=%v op id %q payload %q", o1.err, o1.gotOpid, o1.gotTok), nil
	}
	// call 2 with the same FContext registers a new channel under the op id
	c2 := call("2")
	if !step("call 2 did not register", ctl.Await(at("request.registered"), 2, muxWatchdog)) {
		return
	}
	// the reader resumes with the stale channel: surplus duplicate discarded
	ctl.Release(at("send.begin"))
	if !step("the reader did not finish duplicate B", ctl.Await(at("send.end"), 3, muxWatchdog)) {
		return
	}
	// from here on nothing is held any more
	ctl.Disown(opid)
	disowned = true
	if err := leg.Inject(opid, FrameFor(opid, "resp:2")); err != nil {
		return "", "inject: " + err.Error(), nil
	}
	witness = map[string]interface{}{"leg": leg.Name(), "opid": opid, "history": []string{
		"call 1 registered", "response 1 delivered; call 1 held at request.gotResult",
		"duplicate A delivered into call 1's result channel", "duplicate B: reader held at send.begin (channel looked up)",
		"call 1 released, returned \"resp:1\", unregistered", "call 2 (same FContext) registered",
		"reader released: duplicate B discarded (send.end observed)", "response 2 injected"}}
	select {
	case o2 := <-c2:
		switch {
		case o2.err != nil:
			bad = fmt.Sprintf("call 2 (same FContext, op id %d) was in flight when its response was received, after a surplus duplicate of call 1's response had been discarded; it returned error %q", opid, o2.err)
		case o2.gotOpid != want || (o2.gotTok != "resp:2" && o2.gotTok != "resp:1:dupB"):
			bad = fmt.Sprintf("call 2 (op id %d) returned op id %q payload %q", opid, o2.gotOpid, o2.gotTok)
		}
	case <-time.After(20 * time.Second):
		bad = fmt.Sprintf("call 2 (same FContext, op id %d) is registered, its response was received after the reader had finished discarding a surplus duplicate of call 1's response, its 120 s budget is untouched and no further frame will come: it does not return, the response was dropped", opid)
	}
	if bad == "" {
		if sz := frugal.VerifRegistrySize(tr); sz != 0 {
			bad = fmt.Sprintf("registry holds %d registrations after both calls returned", sz)
		}
	}
	return
}
