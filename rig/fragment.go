//go:build verif

package rig

import (
	"fmt"
	"io"
	"math/rand"
	"strconv"
	"strings"
	"sync"
	"time"

	frugal "github.com/Workiva/frugal/lib/go"

	"verif/wire"
)

// FragResult is what one fragmented-stream trial showed.
type FragResult struct {
	Callers, Chunks, SplitPrefixes, Bytes int
	PreludeCut                            int // bytes of the broken session's last frame that arrived before end of stream
	BlockedWriter, Reopened, PokedOpen    bool
	Shape                                 string
	Bad                                   string // a caller completed with something else than its own frame
	Stall                                 string // reader established not consuming / not delivering
	Inconclusive                          string
	Witness                               interface{}
}

// readerParkedOnLock reports (from two goroutine dumps one second apart) that
// the adapter read loop is parked acquiring a mutex and stays so.
func readerParkedOnLock() string {
	find := func() (string, string) {
		for _, g := range parseDump() {
			if strings.Contains(g.text, "(*fAdapterTransport).readLoop") {
				parked := strings.HasPrefix(g.state, "sync.Mutex.Lock") || strings.HasPrefix(g.state, "sync.RWMutex") || strings.HasPrefix(g.state, "semacquire")
				if parked {
					return g.id, g.text
				}
			}
		}
		return "", ""
	}
	a, _ := find()
	if a == "" {
		return ""
	}
	time.Sleep(time.Second)
	b, text := find()
	if a != b {
		return ""
	}
	if len(text) > 1500 {
		text = text[:1500]
	}
	return text
}

// FragmentTrial answers n in-flight requests of one adapter transport with a
// response stream that the peer hands over in PRNG-chosen pieces (a socket
// delivers a byte stream, not frames): pieces end inside size prefixes, frames
// of very different sizes follow each other, many frames arrive in one piece
// and frames straddle the 4096-byte buffer of the reader.  Each piece is fed
// only after the previous one has been read, so every piece is one short read.
// With reopen the trial starts with an earlier session of the same transport
// that ended inside a frame (a PRNG-chosen number of bytes of a response, then
// end of stream): the transport closes, is opened again, and the responses of
// the new session must be delivered regardless of what the old one received.
// With blockedWriter one further request is blocked inside the underlying
// transport's Write for the whole delivery (a peer that does not drain its
// socket); the other requests' responses must be delivered all the same.
//
// Verdicts are logical: (1) bytes stay unread while the read loop is parked on
// a mutex in two dumps; (2) every byte of every response was read, the read
// loop is back in Read waiting for more, and a caller still has not returned.
func FragmentTrial(n int, seed int64, blockedWriter, reopen, pokeOpen bool) *FragResult {
	return fragmentTrial(n, seed, blockedWriter, reopen, pokeOpen, false)
}

// FragmentTrialBusyReopen is FragmentTrial on a transport that the application
// closed and opened again while the read loop of the earlier session was busy
// delivering a frame (held at the yield point send.begin, i.e. between two
// reads); the loop is released after the reopen.
func FragmentTrialBusyReopen(n int, seed int64) *FragResult {
	return fragmentTrial(n, seed, false, false, false, true)
}

func fragmentTrial(n int, seed int64, blockedWriter, reopen, pokeOpen, busyReopen bool) *FragResult {
	res := &FragResult{Callers: n, BlockedWriter: blockedWriter, Reopened: reopen}
	rng := rand.New(rand.NewSource(seed))
	a := NewAdapterLeg()
	seen := make(chan uint64, n+8)
	a.St.OnFrame = func(frame []byte) {
		if len(frame) < 4 {
			return
		}
		pairs, _, err := wire.DecodeHeaders(frame[4:])
		if err != nil {
			return
		}
		m, _ := wire.PairsToMap(pairs)
		if op, err := strconv.ParseUint(m["_opid"], 10, 64); err == nil {
			seen <- op
		}
	}
	wrote := make(chan int, n+8)
	a.St.OnWrite = func(i int) {
		select {
		case wrote <- i:
		default:
		}
	}
	tr, err := a.Open()
	if err != nil {
		res.Inconclusive = "open: " + err.Error()
		return res
	}
	closedC := tr.Closed() // taken now: a wedged transport lock must not wedge the monitor later
	selfClosed := func() bool {
		select {
		case <-closedC:
			return true
		default:
			return false
		}
	}
	const closedMsg = "the transport closed itself although only well-formed responses were received; every in-flight request is left without its response"
	var unblock chan struct{}
	defer func() {
		if unblock != nil {
			select {
			case <-unblock:
			default:
				close(unblock)
			}
		}
		a.Close()
	}()

	type caller struct {
		opid    uint64
		tok     string
		done    chan struct{}
		err     error
		gotOpid string
		gotTok  string
	}
	call := func(c *caller, ctx frugal.FContext) {
		defer close(c.done)
		rt, err := tr.Request(ctx, wire.BuildFrame(wire.MapToPairs(ctx.RequestHeaders()), []byte("req")))
		if err != nil {
			c.err = err
			return
		}
		if rt == nil {
			c.err = fmt.Errorf("nil transport, nil error")
			return
		}
		body, _ := io.ReadAll(rt)
		pairs, used, perr := wire.DecodeHeaders(body)
		if perr != nil {
			c.err = fmt.Errorf("unparseable frame returned: %v", perr)
			return
		}
		m, _ := wire.PairsToMap(pairs)
		c.gotOpid, c.gotTok = m["_opid"], string(body[used:])
	}
	newCaller := func(i int) (*caller, frugal.FContext) {
		ctx := frugal.NewFContext("")
		ctx.SetTimeout(120 * time.Second)
		// payload sizes: mostly small, some large enough to straddle the reader's buffer
		pad := 0
		switch r := rng.Intn(10); {
		case r < 5:
			pad = rng.Intn(40)
		case r < 8:
			pad = 200 + rng.Intn(400)
		default:
			pad = 3000 + rng.Intn(3000)
		}
		return &caller{opid: OpidOf(ctx), tok: fmt.Sprintf("resp:c%d:", i) + strings.Repeat("p", pad), done: make(chan struct{})}, ctx
	}
	if reopen {
		pc, pctx := newCaller(-1)
		pctx.SetTimeout(300 * time.Millisecond)
		pc.tok += strings.Repeat("q", 200+rng.Intn(600))
		go call(pc, pctx)
		select {
		case <-seen:
		case <-time.After(30 * time.Second):
			res.Inconclusive = "prelude request did not reach the wire"
			return res
		}
		full := FrameFor(pc.opid, pc.tok)
		cut := 1 + rng.Intn(len(full)-1)
		if rng.Intn(3) == 0 {
			cut = 1 + rng.Intn(8) // inside the size prefix or the header preamble
		}
		a.St.Feed(full[:cut])
		a.St.FeedEOF()
		select {
		case <-closedC:
		case <-time.After(30 * time.Second):
			res.Inconclusive = "the transport did not close after the stream ended inside a frame"
			return res
		}
		// the request of the broken session is left to its own (short) timeout:
		// whether a close fails in-flight requests early is not C06's business
		if err := tr.Open(); err != nil {
			res.Inconclusive = "reopen: " + err.Error()
			return res
		}
		closedC = tr.Closed()
		res.PreludeCut = cut
	}
	if busyReopen {
		pc, pctx := newCaller(-1)
		ctl := NewController("send.begin")
		ctl.Own(pc.opid)
		defer ctl.Disown(pc.opid)
		go call(pc, pctx)
		select {
		case <-seen:
		case <-time.After(30 * time.Second):
			res.Inconclusive = "prelude request did not reach the wire"
			return res
		}
		a.St.Feed(FrameFor(pc.opid, pc.tok))
		if !ctl.Await(HookEvent{"send.begin", pc.opid}, 1, muxWatchdog) {
			res.Inconclusive = "the read loop did not reach the delivery of the prelude response"
			return res
		}
		// the read loop of session 1 is between two reads; the application
		// cycles the transport
		if err := tr.Close(); err != nil {
			res.Inconclusive = "close: " + err.Error()
			return res
		}
		if err := tr.Open(); err != nil {
			res.Inconclusive = "reopen: " + err.Error()
			return res
		}
		closedC = tr.Closed()
		ctl.Release(HookEvent{"send.begin", pc.opid})
		select {
		case <-pc.done:
		case <-time.After(30 * time.Second):
			res.Inconclusive = "the prelude request did not return after its delivery was released"
			return res
		}
		res.Reopened = true
	}
	cs := make([]*caller, n)
	var start sync.WaitGroup
	start.Add(1)
	for i := range cs {
		c, ctx := newCaller(i)
		cs[i] = c
		go func() { start.Wait(); call(c, ctx) }()
	}
	start.Done()
	wd := time.After(30 * time.Second)
	for pending := n; pending > 0; {
		select {
		case <-seen:
			pending--
		case <-wd:
			res.Inconclusive = "not every request reached the wire"
			return res
		}
	}
	var slow *caller
	if blockedWriter {
		for len(wrote) > 0 {
			<-wrote
		}
		unblock = make(chan struct{})
		a.St.SetBlockWrite(unblock)
		var sctx frugal.FContext
		slow, sctx = newCaller(n)
		go call(slow, sctx)
		select {
		case <-wrote: // the slow request is now inside the underlying Write
		case <-time.After(30 * time.Second):
			res.Inconclusive = "the blocked request never reached the underlying Write"
			return res
		}
	}

	if pokeOpen {
		// an "ensure open" helper calls Open() on the already open transport
		// while the requests are in flight (ALREADY_OPEN is the expected answer);
		// it must not come between the reader and the responses
		opened := make(chan error, 1)
		go func() { opened <- tr.Open() }()
		select {
		case err := <-opened:
			if err == nil {
				res.Bad = "Open() on an already open transport with requests in flight returned nil"
				return res
			}
		case <-time.After(50 * time.Millisecond): // still inside Open: the responses are delivered all the same
		}
		res.PokedOpen = true
	}
	// the response stream and its pieces
	order := rng.Perm(n)
	var stream []byte
	var prefixAt []int
	for _, i := range order {
		prefixAt = append(prefixAt, len(stream))
		stream = append(stream, FrameFor(cs[i].opid, cs[i].tok)...)
	}
	res.Bytes = len(stream)
	cuts := map[int]bool{}
	mode := rng.Intn(4)
	switch mode {
	case 0: // one piece
	case 1: // every size prefix split
		for _, p := range prefixAt {
			cuts[p+1+rng.Intn(3)] = true
		}
	case 2: // random pieces, small ones frequent
		for p := 0; p < len(stream); {
			if rng.Intn(3) == 0 {
				p += 1 + rng.Intn(6)
			} else {
				p += 1 + rng.Intn(700)
			}
			if p < len(stream) {
				cuts[p] = true
			}
		}
	default: // some prefixes split, some frames glued
		for _, p := range prefixAt {
			switch rng.Intn(3) {
			case 0:
				cuts[p+1+rng.Intn(3)] = true
			case 1:
				if p > 0 {
					cuts[p] = true
				}
			}
		}
	}
	for _, p := range prefixAt {
		for k := 1; k <= 3; k++ {
			if cuts[p+k] {
				res.SplitPrefixes++
				break
			}
		}
	}
	res.Shape = fmt.Sprintf("n=%d mode=%d blocked=%v reopened=%v open-poked=%v busy-reopen=%v", n, mode, blockedWriter, reopen, pokeOpen, busyReopen)
	witness := func(extra string) interface{} {
		var cl []int
		for c := range cuts {
			cl = append(cl, c)
		}
		return map[string]interface{}{"seed": seed, "shape": res.Shape, "stream_bytes": len(stream), "prefix_offsets": prefixAt, "cuts": cl, "note": extra, "earlier_session_ended_after_bytes": res.PreludeCut}
	}
	// consumed waits until every fed byte was read; on a stuck reader it
	// establishes the lock criterion.
	consumed := func() bool {
		deadline := time.Now().Add(40 * time.Second)
		for i := 0; ; i++ {
			if a.St.Pending() == 0 {
				return true
			}
			if selfClosed() {
				res.Bad = closedMsg
				res.Witness = witness("transport closed while responses were pending")
				return false
			}
			if i > 0 && i%300 == 0 {
				if text := readerParkedOnLock(); text != "" && a.St.Pending() > 0 {
					res.Stall = fmt.Sprintf("%d response bytes are waiting in the connection and the read loop does not read them: it is parked acquiring a mutex and stays so:\n%s", a.St.Pending(), text)
					res.Witness = witness("reader parked on a lock")
					return false
				}
			}
			if time.Now().After(deadline) {
				res.Inconclusive = "fed bytes not consumed within the watchdog and no lock wait could be established"
				return false
			}
			time.Sleep(time.Millisecond)
		}
	}
	prev := 0
	for p := 1; p <= len(stream); p++ {
		if p == len(stream) || cuts[p] {
			a.St.Feed(stream[prev:p])
			res.Chunks++
			prev = p
			if !consumed() {
				return res
			}
		}
	}
	// every byte was read; callers must now return
	for i, c := range cs {
		idleSince, idleReads := time.Time{}, -1
		for tick := 1; ; tick++ {
			select {
			case <-c.done:
			case <-time.After(50 * time.Millisecond):
			}
			select {
			case <-c.done:
			default:
				if selfClosed() {
					res.Bad = closedMsg
					res.Witness = witness("transport closed before every caller had its response")
					return res
				}
				if tick%20 == 0 {
					if idle, _ := a.St.ReaderIdle(); !idle {
						if text := readerParkedOnLock(); text != "" {
							res.Stall = fmt.Sprintf("the responses were handed to the connection, caller %d (op id %d) has not been given its response and the read loop is parked acquiring a mutex and stays so:\n%s", i, c.opid, text)
							res.Witness = witness("reader parked on a lock")
							return res
						}
					}
				}
				idle, reads := a.St.ReaderIdle()
				if !idle || reads != idleReads {
					idleSince, idleReads = time.Now(), reads
					if !idle {
						idleReads = -1
					}
					continue
				}
				if time.Since(idleSince) > 15*time.Second {
					res.Stall = fmt.Sprintf("all %d bytes of the %d responses were read and the read loop waits for more bytes, yet caller %d (op id %d) has not been given its response", len(stream), n, i, c.opid)
					res.Witness = witness("response read but not delivered")
					return res
				}
				continue
			}
			break
		}
	}
	if slow != nil {
		close(unblock)
		a.St.SetBlockWrite(nil)
		wd := time.After(30 * time.Second)
		for got := false; !got; {
			select {
			case op := <-seen:
				got = op == slow.opid
			case <-slow.done:
				got = true
			case <-wd:
				res.Inconclusive = "released request did not reach the wire"
				return res
			}
		}
		a.St.Feed(FrameFor(slow.opid, slow.tok))
		select {
		case <-slow.done:
		case <-time.After(30 * time.Second):
			res.Inconclusive = "released request not answered within the watchdog"
			return res
		}
		cs = append(cs, slow)
	}
	for i, c := range cs {
		switch {
		case c.err != nil:
			res.Bad = fmt.Sprintf("caller %d (op id %d) was sent its response but returned error %q", i, c.opid, c.err)
		case c.gotOpid != strconv.FormatUint(c.opid, 10) || c.gotTok != c.tok:
			res.Bad = fmt.Sprintf("caller %d (op id %d) completed with a frame of op id %q and %d payload bytes, its own response has %d", i, c.opid, c.gotOpid, len(c.gotTok), len(c.tok))
		}
		if res.Bad != "" {
			res.Witness = witness("")
			return res
		}
	}
	if selfClosed() {
		res.Bad = closedMsg
		res.Witness = witness("")
	}
	return res
}
