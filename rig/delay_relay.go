package rig

// DelayRelay is a plain TCP relay that delays the client->server byte stream
// by a fixed duration.  Nothing is dropped, duplicated or reordered and the
// server->client direction is immediate: the connection stays healthy, it just
// has a one-way latency (as every real network connection has).

import (
	"net"
	"sync"
	"time"
)

type DelayRelay struct {
	ln     net.Listener
	target string
	delay  time.Duration
	mu     sync.Mutex
	conns  []net.Conn
}

// StartDelayRelay listens on 127.0.0.1:0 and relays to target (host:port).
func StartDelayRelay(target string, clientToServerDelay time.Duration) (*DelayRelay, error) {
	ln, err := net.Listen("tcp", "127.0.0.1:0")
	if err != nil {
		return nil, err
	}
	r := &DelayRelay{ln: ln, target: target, delay: clientToServerDelay}
	go r.accept()
	return r, nil
}

// Addr is the relay's listening address.
func (r *DelayRelay) Addr() string { return r.ln.Addr().String() }

// Stop closes the listener and every relayed connection.
func (r *DelayRelay) Stop() {
	r.ln.Close()
	r.mu.Lock()
	for _, c := range r.conns {
		c.Close()
	}
	r.mu.Unlock()
}

func (r *DelayRelay) accept() {
	for {
		c, err := r.ln.Accept()
		if err != nil {
			return
		}
		s, err := net.Dial("tcp", r.target)
		if err != nil {
			c.Close()
			continue
		}
		r.mu.Lock()
		r.conns = append(r.conns, c, s)
		r.mu.Unlock()
		go r.delayed(c, s)
		go func() { // server -> client: immediate
			buf := make([]byte, 64*1024)
			for {
				n, err := s.Read(buf)
				if n > 0 {
					if _, werr := c.Write(buf[:n]); werr != nil {
						break
					}
				}
				if err != nil {
					break
				}
			}
			c.Close()
			s.Close()
		}()
	}
}

type relayChunk struct {
	due  time.Time
	data []byte
}

// delayed forwards client->server chunks in order, each not before its
// arrival time plus the delay.
func (r *DelayRelay) delayed(c, s net.Conn) {
	q := make(chan relayChunk, 4096)
	go func() {
		for ch := range q {
			if d := time.Until(ch.due); d > 0 {
				time.Sleep(d)
			}
			if _, err := s.Write(ch.data); err != nil {
				break
			}
		}
		c.Close()
		s.Close()
		for range q { // drain so that the reader never blocks
		}
	}()
	buf := make([]byte, 64*1024)
	for {
		n, err := c.Read(buf)
		if n > 0 {
			q <- relayChunk{due: time.Now().Add(r.delay), data: append([]byte(nil), buf[:n]...)}
		}
		if err != nil {
			break
		}
	}
	close(q)
}
