package rig

import (
	"io"

	frugal "github.com/Workiva/frugal/lib/go"
	"github.com/sirupsen/logrus"
)

// Quiet silences the library's logger (no verdict depends on log text).
func Quiet() {
	l := logrus.New()
	l.SetOutput(io.Discard)
	l.SetLevel(logrus.PanicLevel)
	frugal.SetLogger(l)
}

func init() { Quiet() }
