// Package genreg is the run-time registry that the zz_verif.go files added to
// emitted packages (by verif/stubgen) register themselves with.
package genreg

import (
	"sort"
	"sync"

	frugal "github.com/Workiva/frugal/lib/go"
	"github.com/apache/thrift/lib/go/thrift"
)

// Recorder receives every call made on a stub handler and decides its results
// (one entry per declared result, the last one being the error).
type Recorder func(iface, method string, args []interface{}) []interface{}

// Service describes one emitted F<Service> interface.
type Service struct {
	GoName       string
	NewClient    func(p *frugal.FServiceProvider, mw ...frugal.ServiceMiddleware) interface{}
	NewProcessor func(handler interface{}, mw ...frugal.ServiceMiddleware) frugal.FProcessor
	NewStub      func(r Recorder) interface{}
}

// Scope describes one emitted scope.
type Scope struct {
	GoName        string
	NewPublisher  func(p *frugal.FScopeProvider, mw ...frugal.ServiceMiddleware) interface{}
	NewSubscriber func(p *frugal.FScopeProvider, mw ...frugal.ServiceMiddleware) interface{}
}

// Package is what one emitted Go package offers.
type Package struct {
	ImportPath string
	Types      map[string]func() thrift.TStruct // Go type name -> constructor
	Services   map[string]*Service              // Go interface name -> service
	Scopes     map[string]*Scope                // Go scope name -> scope
}

var (
	mu   sync.Mutex
	pkgs []*Package
)

// Register is called from init() of every zz_verif.go.
func Register(p *Package) { mu.Lock(); pkgs = append(pkgs, p); mu.Unlock() }

// Packages returns the registered packages sorted by import path.
func Packages() []*Package {
	mu.Lock()
	defer mu.Unlock()
	out := append([]*Package(nil), pkgs...)
	sort.Slice(out, func(i, j int) bool { return out[i].ImportPath < out[j].ImportPath })
	return out
}
