#!/bin/bash
# setup_cmd: offline; warms the Go build cache for the harness (plain and
# -race) and for the frugal compiler, compiles the javac parse-only oracle.
set -u
cd "$(dirname "$0")"
export GOFLAGS=-mod=mod GOPROXY=off GOSUMDB=off GOTOOLCHAIN=local
REPO="${VERIF_REPO:-/repo}"
cat "$REPO/go.sum" "$REPO/lib/go/go.sum" go.sum.extra 2>/dev/null | sort -u > go.sum
T="$(mktemp -d "${VERIF_SCRATCH:-/var/tmp}/verif-setup-XXXXXX")"
trap 'rm -rf "$T"' EXIT
set -e
for d in cmd/*/; do go build -tags verif -o "$T/vrt" "./$d"; done
for d in c01 c06 c07 c14 c15 c17 c20; do
  if [ -d "cmd/$d" ]; then go build -race -tags verif -o "$T/vrt-race" "./cmd/$d"; fi
done
(cd "$REPO" && go build -o "$T/frugal" .)
if [ -f java/ParseOnly.java ]; then
  mkdir -p java/classes && javac -d java/classes java/ParseOnly.java
fi
echo "setup ok"
