#!/bin/bash
# setup_cmd: offline; warms the Go build cache for every check's command
# (plain and, where used, -race), for the frugal compiler and for one harness
# module built from emitted code; compiles the javac parse-only oracle.
set -u
cd "$(dirname "$0")"
export GOFLAGS=-mod=mod GOPROXY=off GOSUMDB=off GOTOOLCHAIN=local
REPO="${VERIF_REPO:-/repo}"
cat "$REPO/go.sum" "$REPO/lib/go/go.sum" go.sum.extra 2>/dev/null | sort -u > go.sum
T="$(mktemp -d "${VERIF_SCRATCH:-/var/tmp}/verif-setup-XXXXXX")"
trap 'rm -rf "$T"' EXIT
fail=0
for d in cmd/*/; do
  n=$(basename "$d")
  if ! go build -tags verif -o "$T/bin-$n" "./$d" > "$T/log" 2>&1; then
    echo "setup: WARNING ./$d does not build:"; head -5 "$T/log"; fail=1
  fi
done
for n in c01 c06 c07 c14 c15 c17 c20; do
  if [ -d "cmd/$n" ]; then go build -race -tags verif -o "$T/race-$n" "./cmd/$n" > "$T/log" 2>&1 || { echo "setup: WARNING -race ./cmd/$n does not build"; head -5 "$T/log"; }; fi
done
(cd "$REPO" && go build -o "$T/frugal" .) || fail=1
# warm the cache for harness modules built from emitted code
if [ -x "$T/bin-smoke" ]; then
  VERIF_ROOT="$PWD" VERIF_SCRATCH_DIR="$T/smoke" "$T/bin-smoke" > "$T/log" 2>&1 || { echo "setup: WARNING smoke harness failed"; tail -5 "$T/log"; }
fi
if [ -f java/ParseOnly.java ]; then
  mkdir -p java/classes && javac -d java/classes java/ParseOnly.java || echo "setup: WARNING javac oracle did not compile"
fi
echo "setup done (fail=$fail)"
exit 0
