// Package wire contains codecs that are independent of the code under test:
// a reference codec for the Frugal frame written from
// documentation/protocol.md, and a schema-less Thrift value tree.
package wire

import (
	"encoding/binary"
	"errors"
	"fmt"
	"sort"
)

// Pair is one header (name, value); byte strings, not text.
type Pair struct{ Name, Value string }

// EncodeHeaders writes `0x00 | m | (k name v value)*` exactly as documented.
func EncodeHeaders(pairs []Pair) []byte {
	m := 0
	for _, p := range pairs {
		m += 8 + len(p.Name) + len(p.Value)
	}
	out := make([]byte, 0, m+5)
	out = append(out, 0)
	out = binary.BigEndian.AppendUint32(out, uint32(m))
	for _, p := range pairs {
		out = binary.BigEndian.AppendUint32(out, uint32(len(p.Name)))
		out = append(out, p.Name...)
		out = binary.BigEndian.AppendUint32(out, uint32(len(p.Value)))
		out = append(out, p.Value...)
	}
	return out
}

// DecodeHeaders parses a header block at the start of b and returns the pairs
// in wire order and the number of bytes consumed.
func DecodeHeaders(b []byte) ([]Pair, int, error) {
	if len(b) < 5 {
		return nil, 0, fmt.Errorf("header block shorter than 5 bytes (%d)", len(b))
	}
	if b[0] != 0 {
		return nil, 0, fmt.Errorf("version byte %d, want 0", b[0])
	}
	m := int(binary.BigEndian.Uint32(b[1:5]))
	if m > len(b)-5 {
		return nil, 0, fmt.Errorf("headers size %d exceeds available %d", m, len(b)-5)
	}
	body := b[5 : 5+m]
	var pairs []Pair
	i := 0
	for i < len(body) {
		if len(body)-i < 4 {
			return nil, 0, errors.New("truncated name size")
		}
		k := int(binary.BigEndian.Uint32(body[i:]))
		i += 4
		if k > len(body)-i {
			return nil, 0, fmt.Errorf("name size %d exceeds block", k)
		}
		name := string(body[i : i+k])
		i += k
		if len(body)-i < 4 {
			return nil, 0, errors.New("truncated value size")
		}
		v := int(binary.BigEndian.Uint32(body[i:]))
		i += 4
		if v > len(body)-i {
			return nil, 0, fmt.Errorf("value size %d exceeds block", v)
		}
		val := string(body[i : i+v])
		i += v
		pairs = append(pairs, Pair{name, val})
	}
	return pairs, 5 + m, nil
}

// PairsToMap converts pairs to a map and reports duplicate names.
func PairsToMap(pairs []Pair) (map[string]string, bool) {
	m := make(map[string]string, len(pairs))
	dup := false
	for _, p := range pairs {
		if _, ok := m[p.Name]; ok {
			dup = true
		}
		m[p.Name] = p.Value
	}
	return m, dup
}

// Frame prepends the 4-byte big-endian frame size.
func Frame(body []byte) []byte {
	out := make([]byte, 4, 4+len(body))
	binary.BigEndian.PutUint32(out, uint32(len(body)))
	return append(out, body...)
}

// BuildFrame returns size | headers | payload.
func BuildFrame(pairs []Pair, payload []byte) []byte {
	return Frame(append(EncodeHeaders(pairs), payload...))
}

// ParseFrame parses size | headers | payload and checks the size field.
func ParseFrame(frame []byte) (map[string]string, []byte, error) {
	if len(frame) < 4 {
		return nil, nil, fmt.Errorf("frame shorter than 4 bytes (%d)", len(frame))
	}
	n := int(binary.BigEndian.Uint32(frame))
	if n != len(frame)-4 {
		return nil, nil, fmt.Errorf("frame size field %d, actual %d", n, len(frame)-4)
	}
	pairs, used, err := DecodeHeaders(frame[4:])
	if err != nil {
		return nil, nil, err
	}
	m, dup := PairsToMap(pairs)
	if dup {
		return nil, nil, errors.New("duplicate header name in frame")
	}
	return m, frame[4+used:], nil
}

// MapToPairs lists the map in a deterministic (sorted) order.
func MapToPairs(m map[string]string) []Pair {
	out := make([]Pair, 0, len(m))
	for k, v := range m {
		out = append(out, Pair{k, v})
	}
	sortPairs(out)
	return out
}

func sortPairs(p []Pair) {
	sort.Slice(p, func(i, j int) bool { return p[i].Name < p[j].Name })
}
