package wire

// Schema-less Thrift value tree.  A Value is what a Thrift protocol carries on
// the wire without any knowledge of the IDL: {field id -> (ttype, value)} for
// structs, element lists for containers.  The tree is written and read through
// a plain thrift.TProtocol using primitive Write*/Read* calls only, so it is
// independent of every piece of generated code and of the Frugal runtime.
//
// Things a schema-less reader cannot know and therefore does not decide:
//   - string vs binary (both are TType STRING).  The reader stores what
//     ReadString returns (for the JSON protocol a binary field therefore reads
//     back as its base64 text; use DecodeJSONBinary); the writer calls
//     WriteBinary when Value.Binary is set.
//   - field and struct names (not on the wire for binary/compact; JSON carries
//     none either).
//
// Re-encoding a tree that was read with ReadStruct through the same protocol
// reproduces the original bytes for binary, compact and JSON (no doubles are
// reformatted differently by the same library), which gives a "parsed
// completely, nothing trailing" test: see Reencode.

import (
	"bytes"
	"context"
	"encoding/base64"
	"fmt"
	"sort"
	"strings"

	"github.com/apache/thrift/lib/go/thrift"
)

// Value is one Thrift value.
type Value struct {
	T thrift.TType

	B bool    // BOOL
	I int64   // BYTE, I16, I32, I64
	D float64 // DOUBLE
	S string  // STRING (bytes as a Go string), UUID (16 raw bytes)
	// Binary makes the writer use WriteBinary for a STRING value.
	Binary bool

	Fields []Field // STRUCT, in wire order

	ET    thrift.TType // LIST, SET element type
	Elems []Value

	KT, VT thrift.TType // MAP key / value types
	Keys   []Value
	Vals   []Value
}

// Field is one struct member.
type Field struct {
	ID int16
	V  Value
}

// Constructors ---------------------------------------------------------------

func Bool(b bool) Value      { return Value{T: thrift.BOOL, B: b} }
func Byte(i int8) Value      { return Value{T: thrift.BYTE, I: int64(i)} }
func I16(i int16) Value      { return Value{T: thrift.I16, I: int64(i)} }
func I32(i int32) Value      { return Value{T: thrift.I32, I: int64(i)} }
func I64(i int64) Value      { return Value{T: thrift.I64, I: i} }
func Double(d float64) Value { return Value{T: thrift.DOUBLE, D: d} }
func Str(s string) Value     { return Value{T: thrift.STRING, S: s} }
func Bin(b []byte) Value     { return Value{T: thrift.STRING, S: string(b), Binary: true} }

// Struct builds a struct value from (id, value) pairs in the given order.
func Struct(fields ...Field) Value { return Value{T: thrift.STRUCT, Fields: fields} }

// F is shorthand for a Field.
func F(id int16, v Value) Field { return Field{ID: id, V: v} }

// List builds a list value.
func List(et thrift.TType, elems ...Value) Value {
	return Value{T: thrift.LIST, ET: et, Elems: elems}
}

// Set builds a set value.
func Set(et thrift.TType, elems ...Value) Value {
	return Value{T: thrift.SET, ET: et, Elems: elems}
}

// Map builds a map value from parallel key / value slices.
func Map(kt, vt thrift.TType, keys, vals []Value) Value {
	return Value{T: thrift.MAP, KT: kt, VT: vt, Keys: keys, Vals: vals}
}

// Get returns the first field with the given id of a struct value.
func (v *Value) Get(id int16) (*Value, bool) {
	for i := range v.Fields {
		if v.Fields[i].ID == id {
			return &v.Fields[i].V, true
		}
	}
	return nil, false
}

// FieldIDs lists the ids of a struct value in wire order.
func (v *Value) FieldIDs() []int16 {
	out := make([]int16, len(v.Fields))
	for i, f := range v.Fields {
		out[i] = f.ID
	}
	return out
}

// Writing --------------------------------------------------------------------

// WriteValue writes v (without any field header) to p.
func WriteValue(ctx context.Context, p thrift.TProtocol, v *Value) error {
	switch v.T {
	case thrift.BOOL:
		return p.WriteBool(ctx, v.B)
	case thrift.BYTE:
		return p.WriteByte(ctx, int8(v.I))
	case thrift.I16:
		return p.WriteI16(ctx, int16(v.I))
	case thrift.I32:
		return p.WriteI32(ctx, int32(v.I))
	case thrift.I64:
		return p.WriteI64(ctx, v.I)
	case thrift.DOUBLE:
		return p.WriteDouble(ctx, v.D)
	case thrift.STRING:
		if v.Binary {
			return p.WriteBinary(ctx, []byte(v.S))
		}
		return p.WriteString(ctx, v.S)
	case thrift.UUID:
		var u thrift.Tuuid
		copy(u[:], v.S)
		return p.WriteUUID(ctx, u)
	case thrift.STRUCT:
		return WriteStruct(ctx, p, v)
	case thrift.LIST:
		if err := p.WriteListBegin(ctx, v.ET, len(v.Elems)); err != nil {
			return err
		}
		for i := range v.Elems {
			if err := WriteValue(ctx, p, &v.Elems[i]); err != nil {
				return err
			}
		}
		return p.WriteListEnd(ctx)
	case thrift.SET:
		if err := p.WriteSetBegin(ctx, v.ET, len(v.Elems)); err != nil {
			return err
		}
		for i := range v.Elems {
			if err := WriteValue(ctx, p, &v.Elems[i]); err != nil {
				return err
			}
		}
		return p.WriteSetEnd(ctx)
	case thrift.MAP:
		if len(v.Keys) != len(v.Vals) {
			return fmt.Errorf("thriftvalue: map with %d keys and %d values", len(v.Keys), len(v.Vals))
		}
		if err := p.WriteMapBegin(ctx, v.KT, v.VT, len(v.Keys)); err != nil {
			return err
		}
		for i := range v.Keys {
			if err := WriteValue(ctx, p, &v.Keys[i]); err != nil {
				return err
			}
			if err := WriteValue(ctx, p, &v.Vals[i]); err != nil {
				return err
			}
		}
		return p.WriteMapEnd(ctx)
	}
	return fmt.Errorf("thriftvalue: cannot write ttype %d", v.T)
}

// WriteStruct writes a STRUCT value: begin, every field in order, stop, end.
func WriteStruct(ctx context.Context, p thrift.TProtocol, v *Value) error {
	if err := p.WriteStructBegin(ctx, "s"); err != nil {
		return err
	}
	for i := range v.Fields {
		f := &v.Fields[i]
		if err := p.WriteFieldBegin(ctx, "f", f.V.T, f.ID); err != nil {
			return err
		}
		if err := WriteValue(ctx, p, &f.V); err != nil {
			return err
		}
		if err := p.WriteFieldEnd(ctx); err != nil {
			return err
		}
	}
	if err := p.WriteFieldStop(ctx); err != nil {
		return err
	}
	return p.WriteStructEnd(ctx)
}

// Reading --------------------------------------------------------------------

// MaxDepth bounds recursion of the reader.
const MaxDepth = 64

// ReadValue reads one value of type t.
func ReadValue(ctx context.Context, p thrift.TProtocol, t thrift.TType) (Value, error) {
	return readValue(ctx, p, t, 0)
}

// ReadStruct reads a struct value.
func ReadStruct(ctx context.Context, p thrift.TProtocol) (Value, error) {
	return readValue(ctx, p, thrift.STRUCT, 0)
}

func readValue(ctx context.Context, p thrift.TProtocol, t thrift.TType, depth int) (Value, error) {
	v := Value{T: t}
	if depth > MaxDepth {
		return v, fmt.Errorf("thriftvalue: nesting deeper than %d", MaxDepth)
	}
	var err error
	switch t {
	case thrift.BOOL:
		v.B, err = p.ReadBool(ctx)
	case thrift.BYTE:
		var x int8
		x, err = p.ReadByte(ctx)
		v.I = int64(x)
	case thrift.I16:
		var x int16
		x, err = p.ReadI16(ctx)
		v.I = int64(x)
	case thrift.I32:
		var x int32
		x, err = p.ReadI32(ctx)
		v.I = int64(x)
	case thrift.I64:
		v.I, err = p.ReadI64(ctx)
	case thrift.DOUBLE:
		v.D, err = p.ReadDouble(ctx)
	case thrift.STRING:
		v.S, err = p.ReadString(ctx)
	case thrift.UUID:
		var u thrift.Tuuid
		u, err = p.ReadUUID(ctx)
		v.S = string(u[:])
	case thrift.STRUCT:
		if _, err = p.ReadStructBegin(ctx); err != nil {
			return v, err
		}
		for {
			_, ft, id, e := p.ReadFieldBegin(ctx)
			if e != nil {
				return v, e
			}
			if ft == thrift.STOP {
				break
			}
			fv, e := readValue(ctx, p, ft, depth+1)
			if e != nil {
				return v, fmt.Errorf("field %d: %w", id, e)
			}
			v.Fields = append(v.Fields, Field{ID: id, V: fv})
			if e := p.ReadFieldEnd(ctx); e != nil {
				return v, e
			}
		}
		err = p.ReadStructEnd(ctx)
	case thrift.LIST, thrift.SET:
		var n int
		if t == thrift.LIST {
			v.ET, n, err = p.ReadListBegin(ctx)
		} else {
			v.ET, n, err = p.ReadSetBegin(ctx)
		}
		if err != nil {
			return v, err
		}
		for i := 0; i < n; i++ {
			ev, e := readValue(ctx, p, v.ET, depth+1)
			if e != nil {
				return v, fmt.Errorf("element %d: %w", i, e)
			}
			v.Elems = append(v.Elems, ev)
		}
		if t == thrift.LIST {
			err = p.ReadListEnd(ctx)
		} else {
			err = p.ReadSetEnd(ctx)
		}
	case thrift.MAP:
		var n int
		v.KT, v.VT, n, err = p.ReadMapBegin(ctx)
		if err != nil {
			return v, err
		}
		for i := 0; i < n; i++ {
			kv, e := readValue(ctx, p, v.KT, depth+1)
			if e != nil {
				return v, fmt.Errorf("key %d: %w", i, e)
			}
			vv, e := readValue(ctx, p, v.VT, depth+1)
			if e != nil {
				return v, fmt.Errorf("value %d: %w", i, e)
			}
			v.Keys = append(v.Keys, kv)
			v.Vals = append(v.Vals, vv)
		}
		err = p.ReadMapEnd(ctx)
	default:
		err = fmt.Errorf("thriftvalue: cannot read ttype %d", t)
	}
	return v, err
}

// Messages -------------------------------------------------------------------

// Message is one Thrift message: envelope plus one struct.
type Message struct {
	Name string
	Type thrift.TMessageType
	Seq  int32
	Body Value // STRUCT
}

// EncodeMessage serializes m with the given plain Thrift protocol factory.
func EncodeMessage(pf thrift.TProtocolFactory, m *Message) ([]byte, error) {
	b, _, _, err := EncodeMessageSplit(pf, m)
	return b, err
}

// EncodeMessageSplit is EncodeMessage and also returns where the body struct
// lies: bytes[:begin] is the message-begin envelope, bytes[begin:end] the
// struct (for JSON including the separating comma), bytes[end:] the message
// end (empty for binary and compact).
func EncodeMessageSplit(pf thrift.TProtocolFactory, m *Message) (b []byte, begin, end int, err error) {
	ctx := context.Background()
	buf := thrift.NewTMemoryBuffer()
	p := pf.GetProtocol(buf)
	if err = p.WriteMessageBegin(ctx, m.Name, m.Type, m.Seq); err != nil {
		return
	}
	if err = p.Flush(ctx); err != nil {
		return
	}
	begin = buf.Len()
	body := m.Body
	body.T = thrift.STRUCT
	if err = WriteStruct(ctx, p, &body); err != nil {
		return
	}
	if err = p.Flush(ctx); err != nil {
		return
	}
	end = buf.Len()
	if err = p.WriteMessageEnd(ctx); err != nil {
		return
	}
	if err = p.Flush(ctx); err != nil {
		return
	}
	return append([]byte(nil), buf.Bytes()...), begin, end, nil
}

// DecodeMessage parses one message from b and demands that re-encoding the
// parsed tree reproduces b exactly (so nothing is left over, nothing was
// skipped and no byte is out of place).
func DecodeMessage(pf thrift.TProtocolFactory, b []byte) (*Message, error) {
	ctx := context.Background()
	buf := thrift.NewTMemoryBuffer()
	buf.Write(b)
	p := pf.GetProtocol(buf)
	name, mt, seq, err := p.ReadMessageBegin(ctx)
	if err != nil {
		return nil, fmt.Errorf("message begin: %w", err)
	}
	m := &Message{Name: name, Type: mt, Seq: seq}
	body, err := ReadStruct(ctx, p)
	if err != nil {
		return m, fmt.Errorf("message body: %w", err)
	}
	m.Body = body
	if err := p.ReadMessageEnd(ctx); err != nil {
		return m, fmt.Errorf("message end: %w", err)
	}
	re, err := EncodeMessage(pf, m)
	if err != nil {
		return m, fmt.Errorf("re-encoding the parsed message: %w", err)
	}
	if !bytes.Equal(re, b) {
		return m, fmt.Errorf("message does not re-encode to the received bytes (received %d bytes, canonical %d bytes, first difference at %d)", len(b), len(re), firstDiff(re, b))
	}
	return m, nil
}

func firstDiff(a, b []byte) int {
	n := len(a)
	if len(b) < n {
		n = len(b)
	}
	for i := 0; i < n; i++ {
		if a[i] != b[i] {
			return i
		}
	}
	return n
}

// DecodeJSONBinary decodes what the schema-less reader returns for a binary
// field read through the JSON protocol (base64, padding optional).
func DecodeJSONBinary(s string) ([]byte, error) {
	s = strings.TrimRight(s, "=")
	return base64.RawStdEncoding.DecodeString(s)
}

// Comparison and printing ----------------------------------------------------

// Equal compares two values structurally.  Struct fields are compared as a
// set keyed by id (order-insensitive), maps as key->value sets, sets as sets,
// lists in order.  The Binary flag is ignored.
func Equal(a, b *Value) bool { return canon(a) == canon(b) }

func canon(v *Value) string {
	var sb strings.Builder
	canonTo(&sb, v)
	return sb.String()
}

func canonTo(sb *strings.Builder, v *Value) {
	switch v.T {
	case thrift.BOOL:
		fmt.Fprintf(sb, "b%v", v.B)
	case thrift.BYTE, thrift.I16, thrift.I32, thrift.I64:
		fmt.Fprintf(sb, "i%d:%d", v.T, v.I)
	case thrift.DOUBLE:
		fmt.Fprintf(sb, "d%v", v.D)
	case thrift.STRING, thrift.UUID:
		fmt.Fprintf(sb, "s%d:%q", v.T, v.S)
	case thrift.STRUCT:
		parts := make([]string, len(v.Fields))
		for i := range v.Fields {
			parts[i] = fmt.Sprintf("%06d=%s", int(v.Fields[i].ID)+40000, canon(&v.Fields[i].V))
		}
		sort.Strings(parts)
		sb.WriteString("{" + strings.Join(parts, ",") + "}")
	case thrift.LIST:
		fmt.Fprintf(sb, "l%d[", v.ET)
		for i := range v.Elems {
			canonTo(sb, &v.Elems[i])
			sb.WriteByte(',')
		}
		sb.WriteByte(']')
	case thrift.SET:
		parts := make([]string, len(v.Elems))
		for i := range v.Elems {
			parts[i] = canon(&v.Elems[i])
		}
		sort.Strings(parts)
		fmt.Fprintf(sb, "S%d[%s]", v.ET, strings.Join(parts, ","))
	case thrift.MAP:
		parts := make([]string, len(v.Keys))
		for i := range v.Keys {
			parts[i] = canon(&v.Keys[i]) + "=>" + canon(&v.Vals[i])
		}
		sort.Strings(parts)
		fmt.Fprintf(sb, "m%d,%d[%s]", v.KT, v.VT, strings.Join(parts, ","))
	default:
		fmt.Fprintf(sb, "?%d", v.T)
	}
}

// String renders a value compactly (long strings abbreviated).
func (v Value) String() string {
	switch v.T {
	case thrift.BOOL:
		return fmt.Sprint(v.B)
	case thrift.BYTE, thrift.I16, thrift.I32, thrift.I64:
		return fmt.Sprint(v.I)
	case thrift.DOUBLE:
		return fmt.Sprint(v.D)
	case thrift.STRING, thrift.UUID:
		if len(v.S) > 48 {
			return fmt.Sprintf("%q...(%d bytes)", v.S[:32], len(v.S))
		}
		return fmt.Sprintf("%q", v.S)
	case thrift.STRUCT:
		parts := make([]string, len(v.Fields))
		for i, f := range v.Fields {
			parts[i] = fmt.Sprintf("%d:%s", f.ID, f.V.String())
		}
		return "{" + strings.Join(parts, " ") + "}"
	case thrift.LIST, thrift.SET:
		parts := make([]string, 0, len(v.Elems))
		for i, e := range v.Elems {
			if i == 8 {
				parts = append(parts, fmt.Sprintf("...(%d)", len(v.Elems)))
				break
			}
			parts = append(parts, e.String())
		}
		return "[" + strings.Join(parts, " ") + "]"
	case thrift.MAP:
		parts := make([]string, 0, len(v.Keys))
		for i := range v.Keys {
			if i == 8 {
				parts = append(parts, fmt.Sprintf("...(%d)", len(v.Keys)))
				break
			}
			parts = append(parts, v.Keys[i].String()+"->"+v.Vals[i].String())
		}
		return "map[" + strings.Join(parts, " ") + "]"
	}
	return fmt.Sprintf("?ttype%d", v.T)
}
