# Minimal stand-in for the one class lib/python/frugal/util/headers.py imports
# from the (absent) Apache Thrift Python package.
class TProtocolException(Exception):
    UNKNOWN = 0
    INVALID_DATA = 1
    NEGATIVE_SIZE = 2
    SIZE_LIMIT = 3
    BAD_VERSION = 4
    NOT_IMPLEMENTED = 5
    DEPTH_LIMIT = 6

    def __init__(self, type=UNKNOWN, message=None):
        Exception.__init__(self, message)
        self.type = type
