# -*- coding: utf-8 -*-
"""Stub environment for executing emitted Python scope code (C08).

Installs a permissive finder for every module under thrift.*, frugal.* and
tornado.*: any attribute of such a module is an object that accepts every
call / attribute access, except for the handful of names whose behaviour the
emitted publishers and subscribers rely on (frugal.middleware.Method,
frugal.subscription.FSubscription, tornado.gen.coroutine / Return).
Works under CPython 2.7 and 3.x.  Deliberately separate from py/stubs (C04).
"""
import functools
import sys
import types

ROOTS = ("thrift", "frugal", "tornado")


class Any(object):
    """Accepts everything, remembers nothing."""

    def __init__(self, *a, **k):
        pass

    def __getattr__(self, name):
        if name.startswith("__") and name.endswith("__"):
            raise AttributeError(name)
        return Any()

    def __call__(self, *a, **k):
        return Any()

    def __iter__(self):
        return iter(())

    def __await__(self):
        return iter(())


class Awaitable(object):
    """Returned by the recording transports: awaitable (asyncio flavour),
    yieldable (tornado flavour), ignorable (plain flavour)."""

    value = None

    def __await__(self):
        return iter(())


class Done(Awaitable):
    def __init__(self, value=None):
        self.value = value


class Return(Exception):
    """tornado.gen.Return"""

    def __init__(self, value=None):
        Exception.__init__(self)
        self.value = value


def run_generator(g):
    try:
        v = next(g)
        while True:
            v = g.send(getattr(v, "value", None))
    except StopIteration as e:
        return getattr(e, "value", None)
    except Return as r:
        return r.value


def coroutine(f):
    """tornado.gen.coroutine: runs the generator to completion at once (every
    stub future is already resolved) and returns a resolved future."""

    @functools.wraps(f)
    def wrapper(*a, **k):
        try:
            r = f(*a, **k)
        except Return as ret:
            return Done(ret.value)
        if isinstance(r, types.GeneratorType):
            r = run_generator(r)
        return Done(r)

    wrapper.__wrapped__ = f  # Python 2's functools.wraps does not set it
    return wrapper


class Method(object):
    """frugal.middleware.Method without middleware: calls the handler."""

    def __init__(self, handler, middleware=None):
        self._handler = handler

    def __call__(self, args):
        return self._handler(*args)


class FSubscription(object):
    def __init__(self, topic, transport):
        self.topic = topic
        self.transport = transport

    def get_topic(self):
        return self.topic


EXPLICIT = {
    "frugal.middleware": {"Method": Method},
    "frugal.subscription": {"FSubscription": FSubscription},
    "tornado.gen": {"coroutine": coroutine, "Return": Return},
}


class StubModule(types.ModuleType):
    def __getattr__(self, name):
        if name.startswith("__") and name.endswith("__"):
            raise AttributeError(name)
        full = self.__name__ + "." + name
        if full in EXPLICIT:
            __import__(full)
            return sys.modules[full]
        if name.endswith("Exception") or name.endswith("Error"):
            cls = type(name, (Exception,), {})
        else:
            cls = Any()
        setattr(self, name, cls)
        return cls


def _make(fullname):
    mod = StubModule(fullname)
    mod.__path__ = []
    mod.__package__ = fullname
    mod.__dict__.update(EXPLICIT.get(fullname, {}))
    return mod


class Finder(object):
    # Python 3
    def find_spec(self, fullname, path=None, target=None):
        if fullname.split(".")[0] not in ROOTS:
            return None
        from importlib.machinery import ModuleSpec
        return ModuleSpec(fullname, self, is_package=True)

    def create_module(self, spec):
        return _make(spec.name)

    def exec_module(self, module):
        pass

    # Python 2
    def find_module(self, fullname, path=None):
        if fullname.split(".")[0] not in ROOTS:
            return None
        return self

    def load_module(self, fullname):
        if fullname in sys.modules:
            return sys.modules[fullname]
        mod = _make(fullname)
        mod.__loader__ = self
        sys.modules[fullname] = mod
        return mod


sys.meta_path.insert(0, Finder())


# ---- recording fakes handed to the emitted code -------------------------

class Ctx(object):
    def __init__(self):
        self.headers = {}

    def set_request_header(self, k, v):
        self.headers[k] = v
        return self

    def __getattr__(self, name):
        if name.startswith("__"):
            raise AttributeError(name)
        return Any()


class Payload(Any):
    pass


class _PubTransport(object):
    def __init__(self, prov):
        self._prov = prov

    def open(self):
        return Awaitable()

    def close(self):
        return Awaitable()

    def is_open(self):
        return True

    def get_publish_size_limit(self):
        return 0

    def publish(self, topic, data):
        self._prov.published.append(topic)
        return Awaitable()


class _SubTransport(object):
    def __init__(self, prov):
        self._prov = prov

    def subscribe(self, topic, callback):
        self._prov.subscribed.append(topic)
        return Awaitable()

    def unsubscribe(self):
        return Awaitable()

    def is_subscribed(self):
        return True


class Provider(object):
    """FScopeProvider stand-in."""

    def __init__(self):
        self.published = []
        self.subscribed = []

    def get_middleware(self):
        return []

    def new_publisher(self):
        return _PubTransport(self), Any()

    def new_subscriber(self):
        return _SubTransport(self), Any()
