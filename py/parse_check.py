# Syntax oracle for emitted Python and HTML; runs under CPython 2.7 and 3.x.
#
# usage: python parse_check.py <mode> <listfile>
#   mode "py"   : every listed file must compile (compile(src, path, 'exec'),
#                 plus ast.parse under Python 3) with the running interpreter
#   mode "html" : every listed file must be tag balanced for html.parser
#                 (Python 3 only)
# One line per rejected file on stdout: "ERROR\t<path>\t<line>\t<message>";
# last line "CHECKED\t<n>\t<python version>".  Exit status 1 when anything was
# rejected, 2 on usage errors.
from __future__ import print_function

import io
import sys

VOID = set("area base br col embed hr img input link meta param source track wbr".split())


def check_py(path):
    with io.open(path, "rb") as f:
        src = f.read()
    try:
        compile(src, path, "exec", 0, True)
        if sys.version_info[0] >= 3:
            import ast
            ast.parse(src, path)
    except SyntaxError as e:
        return (e.lineno or 0, "SyntaxError: %s | %s" % (e.msg, (e.text or "").strip()))
    except Exception as e:  # e.g. ValueError: source code string cannot contain null bytes
        return (0, "%s: %s" % (type(e).__name__, e))
    return None


def check_html(path):
    from html.parser import HTMLParser

    class P(HTMLParser):
        def __init__(self):
            HTMLParser.__init__(self, convert_charrefs=True)
            self.stack = []
            self.problem = None
            self.seen = 0

        def handle_starttag(self, tag, attrs):
            self.seen += 1
            if tag not in VOID:
                self.stack.append((tag, self.getpos()[0]))

        def handle_startendtag(self, tag, attrs):
            self.seen += 1

        def handle_endtag(self, tag):
            if tag in VOID or self.problem:
                return
            if not self.stack:
                self.problem = (self.getpos()[0], "closing tag </%s> with nothing open" % tag)
                return
            top, line = self.stack.pop()
            if top != tag:
                self.problem = (self.getpos()[0], "closing tag </%s> does not match <%s> opened on line %d" % (tag, top, line))

    with io.open(path, "r", encoding="utf-8") as f:
        text = f.read()
    p = P()
    p.feed(text)
    p.close()
    if p.problem:
        return p.problem
    if p.stack:
        tag, line = p.stack[-1]
        return (line, "<%s> opened on line %d is never closed" % (tag, line))
    if p.seen == 0:
        return (0, "no tag at all")
    return None


def main():
    if len(sys.argv) != 3 or sys.argv[1] not in ("py", "html"):
        print("usage: parse_check.py py|html listfile", file=sys.stderr)
        return 2
    mode = sys.argv[1]
    with io.open(sys.argv[2], "r", encoding="utf-8") as f:
        paths = [l.strip() for l in f if l.strip()]
    bad = 0
    for path in paths:
        try:
            r = check_py(path) if mode == "py" else check_html(path)
        except Exception as e:
            r = (0, "oracle could not read the file: %s: %s" % (type(e).__name__, e))
        if r is not None:
            bad += 1
            msg = r[1].replace("\t", " ").replace("\n", " ")
            if sys.version_info[0] < 3 and isinstance(msg, bytes):
                msg = msg.decode("utf-8", "replace")
            line = u"ERROR\t%s\t%d\t%s" % (path, r[0], msg)
            if sys.version_info[0] < 3:
                line = line.encode("utf-8")
            print(line)
    print("CHECKED\t%d\t%d.%d" % (len(paths), sys.version_info[0], sys.version_info[1]))
    return 1 if bad else 0


if __name__ == "__main__":
    sys.exit(main())
