# -*- coding: utf-8 -*-
"""C08 Python leg: executes scope publishers / subscribers emitted by the
compiler under test (py, py:asyncio, py:tornado) against recording transports
and reports the topic strings actually passed to publish() / subscribe().

usage: topic_runner.py <jobs.json> <out.jsonl>

jobs.json: {"jobs": [{"key": str, "flavour": "py"|"asyncio"|"tornado",
                      "dir": <-out directory of that compiler run>,
                      "scopes": [{"name": str, "ops": [str], "vars": [str],
                                  "cases": [[str, ...], ...]}]}]}
out.jsonl: one line per observation
   {"key","scope","op","case","side":"pub"|"sub","topic"| "err"}
   plus {"key","note":...} lines.

Runs under CPython 3 and CPython 2.7 (the tornado flavour is run under 2.7
when available).  The real thrift / frugal / tornado packages are absent in the
sandbox: a permissive finder synthesises every module under those three roots
(stubs2/ holds the few names that need behaviour).  The emitted modules
themselves are executed unmodified.
"""
from __future__ import print_function

import inspect
import io
import json
import os
import sys
import traceback
import types

HERE = os.path.dirname(os.path.abspath(__file__))
sys.path.insert(0, os.path.join(HERE, "stubs2"))

import c08stubs  # noqa: E402  (installs the finder, defines the fakes)

PY3 = sys.version_info[0] >= 3


def native(x):
    """JSON strings -> the interpreter's native str (bytes under Python 2)."""
    if PY3:
        return x
    if isinstance(x, unicode):  # noqa: F821
        return x.encode("utf-8")
    if isinstance(x, list):
        return [native(e) for e in x]
    if isinstance(x, dict):
        return dict((native(k), native(v)) for k, v in x.items())
    return x


def drive(value):
    """Runs whatever an emitted method returned to completion: an `async def`
    coroutine (asyncio flavour), a generator made by the stub gen.coroutine
    (tornado flavour, already driven by the decorator), or a plain value."""
    if hasattr(value, "send") and hasattr(value, "close") and not isinstance(value, types.GeneratorType):
        # coroutine object
        try:
            while True:
                value.send(None)
        except StopIteration as e:
            return getattr(e, "value", None)
    if isinstance(value, types.GeneratorType):
        return c08stubs.run_generator(value)
    return value


def param_names(meth):
    """Parameter names of an emitted method (without self), looking through the
    stub tornado coroutine decorator."""
    f = getattr(meth, "__func__", meth)
    while hasattr(f, "__wrapped__"):
        f = f.__wrapped__
    if PY3:
        names = list(inspect.getfullargspec(f).args)
    else:
        names = list(inspect.getargspec(f).args)
    if names and names[0] == "self":
        names = names[1:]
    return names


def bind_by_name(meth, side, variables, values):
    """Builds the argument list as a caller does who reads the emitted
    signature: every prefix variable's value goes to the parameter of that
    name, whatever its position; the first parameter of a publish method is the
    context, the last one the payload / handler."""
    names = param_names(meth)
    by_name = dict(zip(variables, values))
    lo = 1 if side == "pub" else 0
    if len(names) != lo + len(values) + 1:
        raise TypeError("emitted method takes parameters %r, the scope declares %d prefix variables" % (names, len(values)))
    args = [c08stubs.Ctx()] if side == "pub" else []
    for n in names[lo:-1]:
        if n not in by_name:
            raise TypeError("parameter %r of the emitted method is not a prefix variable of the scope %r" % (n, list(variables)))
        args.append(by_name[n])
    args.append(c08stubs.Payload() if side == "pub" else (lambda ctx, req: None))
    return args


def load_module(pkg_name, pkg_dir, mod_file):
    """Imports <pkg_dir>/<mod_file> as a submodule of a synthetic package so
    that `from .ttypes import *` works but the package __init__ (which imports
    every scope module, one broken module would mask the others) is not run."""
    if pkg_name not in sys.modules:
        pkg = types.ModuleType(pkg_name)
        pkg.__path__ = [pkg_dir]
        pkg.__package__ = pkg_name
        sys.modules[pkg_name] = pkg
    name = pkg_name + "." + mod_file[:-3]
    path = os.path.join(pkg_dir, mod_file)
    if PY3:
        with io.open(path, "r", encoding="utf-8") as f:
            src = f.read()
    else:
        with open(path, "rb") as f:
            src = f.read()
    mod = types.ModuleType(name)
    mod.__file__ = path
    mod.__package__ = pkg_name
    sys.modules[name] = mod
    try:
        code = compile(src, path, "exec")
        exec(code, mod.__dict__)
    except BaseException:
        del sys.modules[name]
        raise
    return mod


def find_pkg_dir(root):
    for d, _dirs, files in sorted(os.walk(root)):
        if any(f.startswith("f_") and f.endswith("_publisher.py") for f in files):
            return d
    return None


def errtext():
    t, v, _ = sys.exc_info()
    return "%s: %s" % (t.__name__, v)


def run_job(job, out):
    key = job["key"]

    def emit(rec):
        rec["key"] = key
        out.write(json.dumps(rec) + "\n")

    pkg_dir = find_pkg_dir(job["dir"])
    if pkg_dir is None:
        emit({"note": "no f_*_publisher.py under " + job["dir"]})
        return
    pkg_name = "c08pkg_%s" % "".join(c if c.isalnum() else "_" for c in key)
    # op name -> (scope spec)
    by_op = {}
    for sc in job["scopes"]:
        for op in sc["ops"]:
            by_op[op] = sc
    seen = set()
    load_errors = []
    files = sorted(os.listdir(pkg_dir))
    # ttypes first so that a broken scope module cannot hide it
    for mod_file in files:
        if not (mod_file.startswith("f_") and (mod_file.endswith("_publisher.py") or mod_file.endswith("_subscriber.py"))):
            continue
        side = "pub" if mod_file.endswith("_publisher.py") else "sub"
        try:
            mod = load_module(pkg_name, pkg_dir, mod_file)
        except BaseException:
            load_errors.append((mod_file, side, errtext()))
            continue
        suffix = "Publisher" if side == "pub" else "Subscriber"
        mprefix = "publish_" if side == "pub" else "subscribe_"
        for cname, cls in sorted(vars(mod).items()):
            if not isinstance(cls, type) or not cname.endswith(suffix) or getattr(cls, "__module__", None) != mod.__name__:
                continue
            for mname in sorted(dir(cls)):
                if not mname.startswith(mprefix):
                    continue
                op = mname[len(mprefix):]
                sc = by_op.get(op)
                if sc is None:
                    emit({"note": "method %s.%s matches no operation of the model" % (cname, mname)})
                    continue
                for ci, values in enumerate(sc["cases"]):
                    rec = {"scope": sc["name"], "op": op, "case": ci, "side": side, "class": cname}
                    seen.add((sc["name"], op, side))
                    try:
                        prov = c08stubs.Provider()
                        obj = cls(prov)
                        meth = getattr(obj, mname)
                        args = bind_by_name(meth, side, sc["vars"], values)
                        drive(meth(*args))
                        got = prov.published if side == "pub" else prov.subscribed
                        if len(got) != 1:
                            rec["err"] = "transport saw %d %s calls" % (len(got), "publish" if side == "pub" else "subscribe")
                        else:
                            rec["topic"] = got[0]
                    except BaseException:
                        rec["err"] = errtext()
                    emit(rec)
    # report modules that could not be executed against the scopes nobody served
    for sc in job["scopes"]:
        for op in sc["ops"]:
            for side in ("pub", "sub"):
                if (sc["name"], op, side) in seen:
                    continue
                # a module whose file name carries the scope name explains the gap
                why = None
                for mod_file, s, err in load_errors:
                    if s == side and mod_file.lower() == "f_%s_%s.py" % (sc["name"].lower(), "publisher" if side == "pub" else "subscriber"):
                        why = "module %s does not load: %s" % (mod_file, err)
                if why is None:
                    if side == "sub" and job["flavour"] == "py":
                        continue  # plain py emits no subscriber (documented compiler warning)
                    why = "no emitted %s class serves this operation" % ("publisher" if side == "pub" else "subscriber")
                    emit({"scope": sc["name"], "op": op, "side": side, "case": -1, "missing": why})
                else:
                    emit({"scope": sc["name"], "op": op, "side": side, "case": -1, "err": why})


def main():
    with io.open(sys.argv[1], "r", encoding="utf-8") as f:
        jobs = native(json.load(f)["jobs"])
    with io.open(sys.argv[2], "w", encoding="utf-8") as raw:
        class W(object):
            def write(self, s):
                if not PY3 and isinstance(s, str):
                    s = s.decode("utf-8")
                raw.write(s)
        out = W()
        out.write(json.dumps({"python": "%d.%d.%d" % sys.version_info[:3], "jobs": len(jobs)}) + "\n")
        for job in jobs:
            try:
                run_job(job, out)
            except BaseException:
                out.write(json.dumps({"key": job.get("key"), "note": "job crashed: " + traceback.format_exc()}) + "\n")


if __name__ == "__main__":
    main()
