#!/usr/bin/env python3
"""C04 Python leg: runs the repository's real lib/python/frugal/util/headers.py
(unmodified, loaded by path) over a corpus written by the Go monitor.

input  jsonl: {"i":n, "pairs":[[namehex,valuehex],...], "gobytes":hex, "payload":hex}
output jsonl: {"i":n, "py_written":hex, "py_read":[[namehex,valuehex],...]|null,
               "py_read_rest":hex, "py_frame":[...]|null, "err":str}
"""
import importlib.util, io, json, logging, os, sys

here = os.path.dirname(os.path.abspath(__file__))
sys.path.insert(0, os.path.join(here, "stubs"))
repo = os.environ.get("VERIF_REPO", "/repo")
spec = importlib.util.spec_from_file_location(
    "frugal_headers", os.path.join(repo, "lib/python/frugal/util/headers.py"))
mod = importlib.util.module_from_spec(spec)
spec.loader.exec_module(mod)
logging.disable(logging.CRITICAL)
H = mod._Headers


def enc(d):
    return sorted([[k.encode("utf8").hex(), v.encode("utf8").hex()] for k, v in d.items()])


def main(inp, outp):
    with open(inp) as f, open(outp, "w") as out:
        for line in f:
            c = json.loads(line)
            res = {"i": c["i"], "err": ""}
            try:
                hdrs = {bytes.fromhex(k).decode("utf8"): bytes.fromhex(v).decode("utf8")
                        for k, v in c["pairs"]}
                res["py_written"] = bytes(H._write_to_bytearray(hdrs)).hex()
                gob = bytes.fromhex(c["gobytes"])
                payload = bytes.fromhex(c["payload"])
                stream = io.BytesIO(gob + payload)
                got = H._read(stream)
                res["py_read"] = enc(got)
                res["py_read_rest"] = stream.read().hex()
                got2 = H.decode_from_frame(gob + payload)
                res["py_frame"] = enc(got2)
            except Exception as e:  # reported to the Go side, which decides
                res["err"] = "%s: %s" % (type(e).__name__, e)
            out.write(json.dumps(res) + "\n")


if __name__ == "__main__":
    main(sys.argv[1], sys.argv[2])
