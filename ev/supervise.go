package ev

import (
	"bytes"
	"fmt"
	"os"
	"os/exec"
	"regexp"
	"strings"
	"syscall"
	"time"
)

var libFrame = regexp.MustCompile(`github\.com/Workiva/frugal/lib/go\.([^\s(]*\([^)]*\)\.[A-Za-z0-9_]+|[A-Za-z0-9_.]+)\(`)

// Supervise makes an in-process monitor survive what it monitors: the first
// call re-executes the binary as a child (same arguments and environment plus
// VERIF_SUPERVISED=1), passes its output through and exits with its status.
// If the child does not end with one of the statuses a monitor ends with
// (0 held, 1 violation, 3 inconclusive) the library under test took the
// process down — an unrecovered panic on one of its goroutines or a runtime
// fatal error — and the supervisor reports that as a violation of prop whose
// signature names the first library frame of the dying goroutine.  In the child
// the call returns at once.
func Supervise(prop, tier, level, rule string) {
	if os.Getenv("VERIF_SUPERVISED") != "" {
		return
	}
	cmd := exec.Command(os.Args[0], os.Args[1:]...)
	cmd.Env = append(os.Environ(), "VERIF_SUPERVISED=1")
	cmd.Stdout = os.Stdout
	var stderr bytes.Buffer
	cmd.Stderr = &stderr
	// generous wall-clock watchdog around the whole monitor: a monitor that is
	// still running after it is stopped with SIGQUIT (goroutine dump on stderr)
	// and the run ends inconclusive - never a pass, never a violation
	limit := 25 * time.Minute
	if tier == "thorough" {
		limit = 60 * time.Minute
	}
	if v, perr := time.ParseDuration(os.Getenv("VERIF_SUPERVISE_MAX")); perr == nil && v > 0 {
		limit = v
	}
	err := cmd.Start()
	watchdogFired := false
	if err == nil {
		waited := make(chan error, 1)
		go func() { waited <- cmd.Wait() }()
		select {
		case err = <-waited:
		case <-time.After(limit):
			watchdogFired = true
			cmd.Process.Signal(syscall.SIGQUIT)
			select {
			case err = <-waited:
			case <-time.After(20 * time.Second):
				cmd.Process.Kill()
				err = <-waited
			}
		}
	}
	if watchdogFired {
		run := New(prop, tier, level)
		run.Rule(rule)
		text := stderr.String()
		if len(text) > 4000 {
			text = text[:4000]
		}
		run.Inconclusive(fmt.Sprintf("the monitor process was still running after %s (wall-clock watchdog, no verdict); goroutine dump begins: %s", limit, text))
		os.Exit(run.Finish())
	}
	code := 0
	if ee, ok := err.(*exec.ExitError); ok {
		code = ee.ExitCode()
	} else if err != nil {
		code = -1
	}
	text := stderr.String()
	if code == 0 || code == 1 || code == 3 {
		os.Stderr.WriteString(text)
		os.Exit(code)
	}
	run := New(prop, tier, level)
	run.Rule(rule)
	head := text
	if i := strings.Index(head, "panic: "); i >= 0 {
		head = head[i:]
	} else if i := strings.Index(head, "fatal error: "); i >= 0 {
		head = head[i:]
	}
	first := strings.SplitN(head, "\n", 2)[0]
	if !strings.HasPrefix(first, "panic: ") && !strings.HasPrefix(first, "fatal error: ") {
		// not a Go crash: killed, out of memory, build problem — no verdict
		if len(text) > 1500 {
			text = text[len(text)-1500:]
		}
		run.Inconclusive(fmt.Sprintf("monitor process ended with status %d without a panic or fatal error: %s", code, text))
		os.Exit(run.Finish())
	}
	frame := "unknown-frame"
	// the first goroutine block after the message is the dying one
	block := head
	if i := strings.Index(block, "\n\ngoroutine "); i >= 0 {
		block = block[i+2:]
		if j := strings.Index(block, "\n\n"); j >= 0 {
			block = block[:j]
		}
	}
	if m := libFrame.FindStringSubmatch(block); m != nil {
		frame = m[1]
	}
	if len(head) > 3000 {
		head = head[:3000]
	}
	kind := "panic"
	if strings.HasPrefix(first, "fatal error: ") {
		kind = "fatal"
	}
	run.Eval(1)
	run.Violation(prop+":process-crash:"+kind+":"+frame, "the workload took the whole process down (every in-flight request of every transport in it is lost): "+first, map[string]interface{}{"stderr": head, "seed": Seed()})
	os.Exit(run.Finish())
}
