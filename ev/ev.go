// Package ev holds the verdict, seed, evidence and known-findings discipline
// shared by every check (DESIGN.md §2.2).
package ev

import (
	"encoding/json"
	"fmt"
	"math/rand"
	"os"
	"path/filepath"
	"sort"
	"strconv"
	"strings"
	"sync"
	"time"
)

// Root is the directory of the verification machinery.
func Root() string {
	if r := os.Getenv("VERIF_ROOT"); r != "" {
		return r
	}
	return "/verif"
}

// OutDir is where evidence/ and replays/ are written (VERIF_OUT, default
// Root()).  Used to run a check against a scratch copy of the repository
// without touching the committed evidence.
func OutDir() string {
	if r := os.Getenv("VERIF_OUT"); r != "" {
		return r
	}
	return Root()
}

// Finding is one entry of known_findings.json.
type Finding struct {
	Property  string      `json:"property"`
	ID        string      `json:"id"`
	Status    string      `json:"status"` // "known" or "fixed"
	What      string      `json:"what"`
	Signature string      `json:"signature"`
	Witness   interface{} `json:"witness,omitempty"`
	Commit    string      `json:"commit,omitempty"`
}

type findingsFile struct {
	Findings []Finding `json:"findings"`
}

// LoadFindings reads known_findings.json (never written at run time).
func LoadFindings() []Finding {
	b, err := os.ReadFile(filepath.Join(Root(), "known_findings.json"))
	if err != nil {
		return nil
	}
	var f findingsFile
	if err := json.Unmarshal(b, &f); err != nil {
		fmt.Fprintf(os.Stderr, "known_findings.json unreadable: %v\n", err)
		return nil
	}
	return f.Findings
}

// Violation is one refuting observation.
type Violation struct {
	Signature string      `json:"signature"`
	What      string      `json:"what"`
	Witness   interface{} `json:"witness"`
	Replay    string      `json:"replay,omitempty"`
}

// Run accumulates what one check run observed.
type Run struct {
	Prop  string
	Tier  string
	Seed  int64
	Level string

	start time.Time
	mu    sync.Mutex

	evaluations  int
	distinct     map[string]struct{}
	samples      []interface{}
	maxSamples   int
	extra        map[string]interface{}
	counters     map[string]int
	rule         string
	assumptions  []string
	violations   []Violation
	vioSeen      map[string]int
	knownSeen    map[string]int
	inconclusive []string
	findings     []Finding
	exhaustive   *bool
}

// Tier returns the tier from the argument list or VERIF_TIER.
func Tier(arg string) string {
	t := arg
	if t == "" {
		t = os.Getenv("VERIF_TIER")
	}
	if t != "thorough" {
		t = "quick"
	}
	return t
}

// ArgTier returns the tier given as first command-line argument.
func ArgTier() string {
	if len(os.Args) > 1 {
		return os.Args[1]
	}
	return ""
}

// ArgRest returns the arguments after the tier.
func ArgRest() []string {
	if len(os.Args) > 2 {
		return os.Args[2:]
	}
	return nil
}

// RepoDir is the repository under test.
func RepoDir() string {
	if r := os.Getenv("VERIF_REPO"); r != "" {
		return r
	}
	return "/repo"
}

// ScratchDir is the per-run scratch directory created by ./check (removed by
// it on exit). Falls back to a fresh temp dir under /var/tmp.
func ScratchDir() string {
	if s := os.Getenv("VERIF_SCRATCH_DIR"); s != "" {
		return s
	}
	d, err := os.MkdirTemp("/var/tmp", "verif-adhoc-")
	if err != nil {
		return os.TempDir()
	}
	os.Setenv("VERIF_SCRATCH_DIR", d)
	return d
}

// Seed returns VERIF_SEED (default 1).
func Seed() int64 {
	s := os.Getenv("VERIF_SEED")
	if s == "" {
		return 1
	}
	n, err := strconv.ParseInt(s, 10, 64)
	if err != nil {
		return 1
	}
	return n
}

// New starts a run for property prop.
func New(prop, tier, level string) *Run {
	r := &Run{
		Prop: prop, Tier: Tier(tier), Seed: Seed(), Level: level,
		start:      time.Now(),
		distinct:   map[string]struct{}{},
		maxSamples: 6,
		extra:      map[string]interface{}{},
		counters:   map[string]int{},
		vioSeen:    map[string]int{},
		knownSeen:  map[string]int{},
	}
	for _, f := range LoadFindings() {
		if f.Property == prop {
			r.findings = append(r.findings, f)
		}
	}
	return r
}

// Thorough reports whether the tier is thorough.
func (r *Run) Thorough() bool { return r.Tier == "thorough" }

// Rand returns a PRNG derived from the seed and a stream name, so that the
// case list is a pure function of (seed, tier, stream).
func (r *Run) Rand(stream string) *rand.Rand {
	h := uint64(1469598103934665603)
	for _, c := range []byte(stream) {
		h ^= uint64(c)
		h *= 1099511628211
	}
	return rand.New(rand.NewSource(r.Seed*1000003 + int64(h&0x7fffffffffff)))
}

// Eval counts n evaluated cases.
func (r *Run) Eval(n int) { r.mu.Lock(); r.evaluations += n; r.mu.Unlock() }

// Distinct records a non-trivial case under key.
func (r *Run) Distinct(key string) {
	r.mu.Lock()
	r.distinct[key] = struct{}{}
	r.mu.Unlock()
}

// DistinctCount returns the number of distinct keys so far.
func (r *Run) DistinctCount() int { r.mu.Lock(); defer r.mu.Unlock(); return len(r.distinct) }

// Sample keeps v as one of the written-out samples (first few only).
func (r *Run) Sample(v interface{}) {
	r.mu.Lock()
	if len(r.samples) < r.maxSamples {
		r.samples = append(r.samples, v)
	}
	r.mu.Unlock()
}

// Rule states how cases are generated and counted.
func (r *Run) Rule(s string) { r.mu.Lock(); r.rule = s; r.mu.Unlock() }

// Assume records an assumption / trusted base element.
func (r *Run) Assume(s string) { r.mu.Lock(); r.assumptions = append(r.assumptions, s); r.mu.Unlock() }

// Set stores an extra coverage key.
func (r *Run) Set(k string, v interface{}) { r.mu.Lock(); r.extra[k] = v; r.mu.Unlock() }

// Add increments a named counter reported in coverage.
func (r *Run) Add(k string, n int) { r.mu.Lock(); r.counters[k] += n; r.mu.Unlock() }

// Count reads a named counter.
func (r *Run) Count(k string) int { r.mu.Lock(); defer r.mu.Unlock(); return r.counters[k] }

// Exhaustive marks the run as having enumerated a finite space completely.
func (r *Run) Exhaustive(b bool) { r.mu.Lock(); r.exhaustive = &b; r.mu.Unlock() }

// Inconclusive records a case that could not be decided.
func (r *Run) Inconclusive(what string) {
	r.mu.Lock()
	r.inconclusive = append(r.inconclusive, what)
	r.mu.Unlock()
	fmt.Printf("INCONCLUSIVE property=%s %s\n", r.Prop, what)
}

func (r *Run) matchKnown(sig string) *Finding {
	for i := range r.findings {
		f := &r.findings[i]
		if f.Status != "known" {
			continue
		}
		if f.Signature == sig {
			return f
		}
		if strings.HasSuffix(f.Signature, "*") && strings.HasPrefix(sig, strings.TrimSuffix(f.Signature, "*")) {
			return f
		}
	}
	return nil
}

// IsKnown reports whether sig is listed as a known finding.
func (r *Run) IsKnown(sig string) bool { return r.matchKnown(sig) != nil }

// Violation records a refuting observation. sig identifies the specific
// failing input / call site / history class; if known_findings.json lists it
// as "known" the observation is reported as KNOWN-FINDING and does not fail
// the run. Returns true when it counted as a new violation.
func (r *Run) Violation(sig, what string, witness interface{}) bool {
	r.mu.Lock()
	defer r.mu.Unlock()
	if f := r.matchKnown(sig); f != nil {
		r.knownSeen[f.ID]++
		if r.knownSeen[f.ID] == 1 {
			fmt.Printf("KNOWN-FINDING: property=%s %s [%s]\n", r.Prop, f.What, f.ID)
		}
		return false
	}
	r.vioSeen[sig]++
	if r.vioSeen[sig] > 1 {
		return true // same signature already reported with a replay file
	}
	v := Violation{Signature: sig, What: what, Witness: witness}
	dir := filepath.Join(OutDir(), "replays")
	os.MkdirAll(dir, 0o755)
	name := fmt.Sprintf("%s-%s-seed%d-%d.json", r.Prop, r.Tier, r.Seed, len(r.violations)+1)
	path := filepath.Join(dir, name)
	b, _ := json.MarshalIndent(map[string]interface{}{
		"property": r.Prop, "tier": r.Tier, "seed": r.Seed,
		"signature": sig, "what": what, "witness": witness,
	}, "", " ")
	if err := os.WriteFile(path, b, 0o644); err == nil {
		v.Replay = path
	}
	r.violations = append(r.violations, v)
	fmt.Printf("VIOLATION property=%s replay=%s\n", r.Prop, path)
	fmt.Printf("  signature: %s\n  what: %s\n", sig, what)
	return true
}

// Violations returns the number of distinct new violations.
func (r *Run) Violations() int { r.mu.Lock(); defer r.mu.Unlock(); return len(r.violations) }

// Finish writes evidence/<prop>.json and returns the process exit code:
// 0 held on everything observed, 1 violation, 3 inconclusive (nothing
// observed / sanity gate).
func (r *Run) Finish() int {
	r.mu.Lock()
	defer r.mu.Unlock()
	cov := map[string]interface{}{}
	for k, v := range r.extra {
		cov[k] = v
	}
	for k, v := range r.counters {
		cov[k] = v
	}
	cov["evaluations"] = r.evaluations
	cov["distinct_nontrivial"] = len(r.distinct)
	cov["rule"] = r.rule
	samples := r.samples
	if samples == nil {
		samples = []interface{}{}
	}
	cov["samples"] = samples
	cov["inconclusive"] = len(r.inconclusive)
	if len(r.inconclusive) > 0 {
		n := len(r.inconclusive)
		if n > 10 {
			n = 10
		}
		cov["inconclusive_cases"] = r.inconclusive[:n]
	}
	if r.exhaustive != nil {
		cov["exhaustive"] = *r.exhaustive
	}
	known := []string{}
	for id := range r.knownSeen {
		known = append(known, id)
	}
	sort.Strings(known)
	cov["known_findings_observed"] = known
	for _, f := range r.findings {
		if f.Status == "known" && r.knownSeen[f.ID] == 0 {
			fmt.Printf("NOTE property=%s known finding %s was not reproduced by this run\n", r.Prop, f.ID)
		}
	}
	if len(r.violations) > 0 {
		vs := []interface{}{}
		for _, v := range r.violations {
			vs = append(vs, map[string]interface{}{"signature": v.Signature, "what": v.What, "replay": v.Replay})
		}
		cov["violation_list"] = vs
	}
	out := map[string]interface{}{
		"property_id": r.Prop,
		"tier":        r.Tier,
		"seed":        r.Seed,
		"level":       r.Level,
		"coverage":    cov,
		"assumptions": r.assumptions,
		"wall_s":      time.Since(r.start).Seconds(),
		"violations":  len(r.violations),
	}
	if r.assumptions == nil {
		out["assumptions"] = []string{}
	}
	b, _ := json.MarshalIndent(out, "", " ")
	dir := filepath.Join(OutDir(), "evidence")
	os.MkdirAll(dir, 0o755)
	if err := os.WriteFile(filepath.Join(dir, r.Prop+".json"), append(b, '\n'), 0o644); err != nil {
		fmt.Fprintf(os.Stderr, "cannot write evidence: %v\n", err)
	}
	fmt.Printf("SUMMARY property=%s tier=%s seed=%d evaluations=%d distinct=%d violations=%d known=%d inconclusive=%d wall=%.1fs\n",
		r.Prop, r.Tier, r.Seed, r.evaluations, len(r.distinct), len(r.violations), len(r.knownSeen), len(r.inconclusive), time.Since(r.start).Seconds())
	if len(r.violations) > 0 {
		return 1
	}
	if r.evaluations == 0 || len(r.distinct) < 2 {
		fmt.Printf("INCONCLUSIVE property=%s the run observed nothing (evaluations=%d distinct=%d)\n", r.Prop, r.evaluations, len(r.distinct))
		return 3
	}
	return 0
}
