#!/usr/bin/env python3
"""Regenerates MANIFEST.json from the table below (single source of truth)."""
import json, os, subprocess
ROOT = os.path.dirname(os.path.dirname(os.path.abspath(__file__)))

def repo_commits():
    out = subprocess.run(["git", "-C", "/repo", "log", "--format=%H %s"], capture_output=True, text=True).stdout
    return [l.split()[0] for l in out.splitlines() if " verif:" in " " + l]

CHECKS = {
 "C11": dict(
  level="exploration", design="§4 C11",
  technique="runtime monitoring: the compiler binary built from the tree is run on random valid programs x 8 targets x option sets and on mutated / hostile texts; emitted files are judged by each language's own parser or type checker (go build + go vet, CPython 2.7/3 compile, javac parse, json.loads + descriptor shape, html.parser; Dart lexical only); exit status, crash signatures and watchdog for the negative side; fixed witness programs per known defect class; multi-file invocations, generator option boundary values, javac / CPython / go build oracles per target",
  text="Core pool: every (program, target, option set) must exit 0 and every emitted file must be accepted by its language oracle. Negative pool (token delete/duplicate/swap, byte flips, truncation at every offset, unknown types, duplicate ids, cyclic typedefs/includes/extends, deep nesting, garbage): never a runtime panic / stack overflow / hang, never exit 0 for definitely-invalid input. Stress classes run in their own pools with per-class signatures.",
  note="Dart: no toolchain in the sandbox, lexical balance only. Java: parsed, not type-checked. Explicit panic(...) diagnostics recovered by main are diagnostics, only Go runtime error signatures count as crashes."),
 "C18": dict(
  level="exploration", design="§4 C18",
  technique="runtime monitoring: ground truth by construction - edit scripts labelled from the documented catalogue are applied to random base programs at every applicable site, old/new are audited by the real binary (and the in-process auditor for volume), expected exit != 0 iff the script contains a breaking operator; planted pools for transitive typedef chains, same-short-name parents, diamond includes with dropped includes, prefix literal/variable clashes, kind changes and nested constant retypes",
  text="Every single catalogued edit at every site of each base program (exhaustive per program), pairs of one breaking + one compatible edit, random scripts of 2-6 edits, identical programs re-rendered in another style: audit fails iff a breaking operator is present, at any position, nesting depth, through typedefs and in included files.",
  note="Operator labels come from audit.go's requirement comments and the property text; edits outside both catalogues are not generated."),
 "C19": dict(
  level="exploration", design="§4 C19",
  technique="runtime monitoring: repeated compilation of large random programs for every target/option set, comparing sha256 of every emitted file across repetitions, working directories, source roots (relative and absolute addressing) and -out locations; working directories with decoy includes / inside the IDL tree, roots given through symlinks, -out directories holding other revisions or hand-written siblings, default output directory, in-process Compile sequences",
  text="Programs larger than the goldens in every map-backed dimension x 8 targets x option sets x 3-10 repetitions x 2-4 locations: the {relative path -> sha256} maps must be identical; a program accepted in one location and rejected in another is also a violation.",
  note="java generated_annotations=use (dated by design) excluded. Map-iteration nondeterminism only shows with some probability per run; repetition is the experiment."),

 "C08": dict(
  level="exploration", design="§4 C08",
  technique="runtime monitoring / differential execution: emitted Go publishers and subscribers executed by reflection against recording transports, emitted Python (3 flavours) executed under stub modules, Java and Dart topic expressions extracted and evaluated; all compared with each other and a reference topic function",
  text="Random scopes (name/op capitalisation classes, prefixes with 0-4 tokens and 0-3 variables, 3-6 delimiters, variable values) are compiled for six outputs; the topic each publisher and subscriber actually uses must agree pairwise and with prefix+delim+scope+delim+op. Fixed witness scopes re-run every known finding.",
  note="Java and Dart are evaluated from source (String.format / interpolation model), not executed: unknown expression shapes are inconclusive. Reference reading of -delim (dots inside the prefix are kept) is stated in evidence."),
 "C09": dict(
  level="exploration", design="§4 C09",
  technique="runtime monitoring: emitted client/processor over the leg matrix with a recording handler and wire tap; header maps compared at caller, handler and wire; op-id freshness by set membership; directed header-block-size sweep around buffer boundaries; context-reuse sequences, reply-publish faults on the NATS server, non-positive timeouts, two-hop calls on cloned contexts",
  text="Random user header maps (empty, multi-byte, long values, names starting with _), correlation ids and timeouts on every transport x protocol leg plus NATS pub/sub: handler sees exactly the caller's headers / cid / timeout with a fresh op id, caller sees every response header the handler set, reply frames carry the request's op id and cid.",
  note="Timeouts below 5 s are not used as header values (calls could legitimately expire). STOMP pub/sub leg not covered by C09 (C07 covers STOMP)."),
 "C10": dict(
  level="exploration", design="§4 C10",
  technique="runtime monitoring / differential: the real parser's tree dumped into the canonical form of an independent IDL model and compared, over random models x lexical renderings (all single-knob variations for fixed models), round trips, the -gen json descriptor as a second view, and fixed witness programs for Thrift-compatibility lexical classes; multi-directory programs with same-named files, zero-padded numerals and other renderer knobs bisected per knob",
  text="150 (quick) to 5 000 (thorough) models x 4-8 renderings + 27 single-knob styles must parse to exactly the model; render(parse(text)) must parse back to the same model; 32 lexical classes are pinned by hand-written witnesses that run on every invocation (19 of them are known findings of the generated PEG parser).",
  note="Oracle = verif/idl canonical form + dumper. Type-level annotations are not modelled. pigeon is unavailable, so grammar defects are recorded as known findings rather than fixed."),
 "C12": dict(
  level="fault_enumeration", design="§4 C12",
  technique="runtime monitoring: boundary sweeps of message sizes around every configured limit with MEASURED frame sizes (wire tap on an unlimited leg), outcome = pure function of (size, limit); canary call after every oversize outcome; transport-level oversize histories with context reuse, one handler shared by differently limited HTTP clients, exact response-limit sweep, several large NATS replies in flight (delivery parked at a yield point)",
  text="HTTP request/response limits, NATS 1 MiB request/response/publish limits, STOMP and custom transport declared limits x payload shapes (large part first/middle/last/map) x 3 protocols x sizes L-8..L+8 and far points: oversize never transmitted and reported as REQUEST_TOO_LARGE / RESPONSE_TOO_LARGE, within-limit never rejected, client and server keep working.",
  note="The HTTP response limit is judged on the unframed response (measured frame minus 4), which is what the handler compares. Adapter legs have no limit."),
 "C14": dict(
  level="exploration", design="§4 C14",
  technique="runtime monitoring: reference-built request frames (schema-less Thrift writer) sent over raw connections to the simple, HTTP and NATS servers running the emitted processor; replies parsed independently and matched by op id and token; exactly-once counting with sentinel drains; unknown-method requests with huge names, aborting clients, HTTP 413 histories, user headers with empty names/values in every position; write-mutex-never-released attribution from dumps",
  text="Sequences of 5-200 mixed requests (good, unknown method, malformed args, handler error kinds, oneway) sequentially and concurrently (1-16 connections, 1-8 NATS workers, 1-32 HTTP posts) x 3 protocols: exactly one well-formed reply per two-way request with the right message/exception type, none for oneway, later requests unaffected.",
  note="After malformed arguments on a stream connection nothing more is asserted on that connection. The write mutex is only observable on the extra shared-output-protocol leg."),
 "C15": dict(
  level="fault_enumeration", design="§4 C15",
  technique="runtime monitoring: fault enumeration on a scripted TTransport (every cut offset, every failing I/O index, all open/fail/reopen/close histories up to a bound, forced schedules via yield points) checked against a sequential reference model of the life cycle; goroutine-dump based deadlock criterion; NATS transport life-cycle histories over a TCP cut proxy; late Closed() fetches after failed reopen attempts",
  text="3-frame stream cut at every byte offset x 4 error kinds, k-th Read/Write/Flush/Open/Close failing, all histories over 7 letters up to length 4 (quick) / 5 (thorough) + random histories to length 30 under monitor policies: ends closed, exactly one close cause, monitor notified every time, reopen bounds respected, Open/Close/IsOpen always return.",
  note="Histories are sequential apart from the Close-vs-error race op and three forced schedules. Real loopback TSocket leg not implemented."),
 "C16": dict(
  level="exploration", design="§4 C16",
  technique="runtime monitoring: tracing and rewriting middleware at every attachment point of emitted clients, processors, publishers and subscribers; recorded enter/exit traces compared with the trace folded from the declared order; concurrent and history phases (shared lists, repeated AddMiddleware), error text sizes up to 70000 bytes",
  text="Provider lists 0-4 x constructor lists 0-4 x AddMiddleware 0-2, observing and rewriting variants, every method kind (own, inherited, oneway, void, throwing) and every scope operation: each middleware exactly once, properly nested in the declared order, each seeing its neighbour's values, rewrites observed by the other side.",
  note="Pub/sub uses an in-process loopback transport pair. Method names compared case-insensitively on the first letter (client side sees the internal lower-case name)."),

 "C05": dict(
  level="exploration", design="§4 C05",
  technique="runtime monitoring: hostile byte strings delivered to every receiving entry point of the real runtime (and emitted subscriber callbacks) in child processes, input logged before delivery, canary after each input, panic-trace and goroutine-dump based verdicts; peer-fault classes (STOMP ERROR frame / dropped connection) and reopen-the-same-transport canaries after session-poisoning inputs",
  text="~3 000 (quick) to ~10^5 (thorough) inputs per entry point (all short strings, size-field mutations incl. negative-as-int32 and larger-than-buffer, truncation at every offset, byte flips) x 8 entry points x 3 protocols; after every input a well-formed canary must be served. A crash is attributed to the last logged input and the first library frame of the panicking goroutine.",
  note="Structured inputs, not all byte strings. Memory amplification is excluded (children run under a 1 GiB data limit; inputs that exhaust it are counted, not judged). Trusted: embedded nats-server, own STOMP broker, reference codecs."),
 "C07": dict(
  level="exploration", design="§4 C07",
  technique="runtime monitoring: emitted publishers/subscribers over an embedded nats-server and an own STOMP 1.2 broker; exactly-once / order / payload / header oracle over recorded handler invocations with unique message ids; raw malformed and foreign-topic injections; sentinel through a second subscriber; goroutine-dump based worker-death criterion; shared-provider, back-pressure (ack vs forward wait cycle from goroutine dumps) and prompt-publish (delaying relay) sequences",
  text="Sequences of 50-2000 valid, malformed (12 kinds) and foreign-topic (4 kinds) messages x NATS (1-8 workers) and STOMP x 3 protocols: the subscriber log must equal the valid messages published between Subscribe and Unsubscribe (ordered for one worker), nothing published after Unsubscribe returned may start an invocation, a malformed message may not stop later deliveries.",
  note="In-flight messages at Unsubscribe are unconstrained. STOMP broker does exact destination matching, no redelivery. Worker-death verdicts come from goroutine dumps."),

 "C02": dict(
  level="exploration", design="§4 C02",
  technique="runtime monitoring: differential execution of emitted Go Read/Write against an independent schema-less Thrift codec and the IDL model, over seeded random programs and model-generated values (reflection-driven, registries added to emitted packages by go/ast)",
  text="Random valid multi-file programs are compiled by the compiler under test; every emitted struct/union/exception/args/result type is written and read in binary, compact and JSON for model-generated values: the written encoding must equal the declared one (ids, wire types, presence rules), reference encodings with shuffled and unknown fields must read back to the same value, missing required fields must be rejected, unions with 0/2 members never written. Held on ~10^4 (quick) to ~5x10^5 (thorough) value x protocol evaluations.",
  note="Trusted: Apache Thrift Go protocols, verif/idl + tvalue + gocodec (fields matched by declaration order; emitted IsSet<F> defines set-ness of optional fields with defaults). Core pool only claims what a careful user writes; stress classes are C11's."),
 "C03": dict(
  level="exploration", design="§4 C03",
  technique="runtime monitoring: emitted clients invoked by reflection over the transport x protocol matrix against emitted processors with stub handlers generated from the emitted interfaces; exactly-once by correlation id; outcome and argument equality on model-guided wire trees; wire tap for oneway replies; shared-client concurrent phase, clients connected before Serve starts, derived-service client against a parent-only processor",
  text="Every own and inherited method of every service of random programs is called with random arguments and handler outcomes (value, declared exception, undeclared error, application exception) over in-memory, TCP, HTTP and NATS legs x 3 protocols; the caller must observe exactly the handler's outcome and the handler exactly the caller's arguments, once.",
  note="Trusted: as C02 plus verif/stubgen, the rig legs and the embedded nats-server. Service and method names are matched to emitted Go names modulo case/underscores."),

 "C13": dict(
  level="exploration", design="§4 C13",
  technique="runtime monitoring: wall-clock measurement of Request/Oneway against scripted stalling peers (adapter, NATS, HTTP) with a min-of-3 rule, error-class and registry-size assertions, goroutine-dump criterion for never-returning calls; clients with their own http.Client Timeout, publish-refused NATS cases, hang-up-then-silent HTTP peer, second call during a stalled write",
  text="Timeouts 1 ms..1 s (and sub-millisecond ones) x peer stall patterns (silent, late, blocked write, blocked flush, stalled HTTP body) x transports are executed three times each; a case violates only if even the fastest attempt overshoots T+max(300ms,T), returns the wrong error class, never returns (dump shows it parked in the library) or leaves a registration. Real-time property measured defensively.",
  note="Regressions smaller than the allowance are missed by design; NATS Oneway and the 503 path are excluded; machine load can only make attempts slower, which the min-of-3 rule absorbs."),

 "C01": dict(
  level="exploration", design="§4 C01",
  technique="runtime monitoring: interleavings enumerated by DFS and enforced on the real adapter/NATS transports through verif yield points; hook-free concurrent stress with PRNG response plans (NATS: frames also published on other requests' reply subjects); porcupine linearizability check of recorded registry histories",
  text="Every interleaving (bounded: k<=3 callers, <=3 duplicates, late and never-issued ids; exhaustive for small plans, seeded samples for larger ones) of caller/reader/timeout/unregister steps is forced on the real code and each caller's outcome compared with the frame that was delivered to it; plus thousands of unconstrained concurrent trials and linearizability of Register/Unregister/dispatch histories. Held-on-observed.",
  note="Trusted: hook placement (request.registered / send.begin / send.end / request.gotResult / request.timedOut mark the steps they name), the reference frame codec, porcupine. Schedules are at hook granularity, not instruction granularity."),
 "C06": dict(
  level="exploration", design="§4 C06",
  technique="runtime monitoring: enforced schedules holding registrations across duplicate deliveries, logical blocked-forever oracle on hook events (send.begin without send.end while no goroutine can receive), fresh-request liveness probe, hook-free burst stress, fragmented-stream leg (responses handed over in PRNG-cut pieces incl. split size prefixes, optionally with one request blocked in the underlying Write) decided by reader-idle / reader-parked-on-lock criteria",
  text="The reader's progress is observed after every adversarial inbound history (duplicates x4, late, unknown ids) under enforced interleavings and under free-running stress with up to 64 callers; a stall is reported only when the delivery provably cannot complete. Bounded progress, not unbounded liveness.",
  note="Trusted: hook placement; the claim 'only the caller receives from its result channel' (true for both transports). An eventual-delivery bug slower than the 3 s observation window without a parked delivery would be inconclusive, not a violation."),
 "C17": dict(
  level="exploration", design="§4 C17",
  technique="runtime monitoring: exhaustive set-size check over every op id produced in the run, Go race detector on a concurrent workload (reports counted from GORACE log), porcupine per-key register linearizability of header histories, snapshot-based clone independence scripts",
  text="About 10^5 (quick) to 10^6 (thorough) contexts are created/cloned/received concurrently and all op ids compared; shared-context header histories are checked for linearizability; clone trees are mutated and compared with snapshots; the same workloads run under -race. Held-on-observed.",
  note="Trusted: porcupine, the Go race detector (only reports races it observes), the harness' own recorder (mutex-guarded)."),
 "C20": dict(
  level="exploration", design="§4 C20",
  technique="runtime monitoring: configuration sweep of a real FNatsServer on an embedded nats-server in child processes; exactly-once / reply-before-Serve-returns oracle over recorded request ids and event-handler counters; goroutine-dump based no-return criterion; Stop from a worker goroutine, DrainTimeout / high-watermark / subject-count dimensions",
  text="Workers x queue length x burst x handler duration x Stop position (incl. queue-full and callback-blocked states forced by a gate handler) are swept; every request double-flushed before Stop must be processed exactly once with its reply published when Serve returns; later requests never. Held-on-observed.",
  note="Trusted: nats-server/nats.go ordering (PONG after queued MSGs) defining 'received before Stop', the recording processor. Requests racing Stop are only checked at-most-once."),

 "C04": dict(
  level="exploration", design="§4 C04",
  technique="runtime monitoring: differential execution of the real Go header codec against a reference codec written from the documentation and against the repository's Python codec, over seeded random header maps; a child process writes the headers of a built-in context while another goroutine replaces one (every block must parse and carry a value the context held)",
  text="Every Go writer and reader of the v0 header block is executed on thousands of generated header maps and compared byte-for-byte / map-for-map with an independent reference codec and with lib/python/frugal/util/headers.py run unmodified under CPython; held-on-observed, not a proof.",
  note="Trusted: the reference codec (wire/frame.go, ~100 lines from documentation/protocol.md), CPython, the stub TProtocolException class. The unexported test-only unmarshalFrame is not covered (unreachable from the API)."),
}

# workload dimensions / oracles added in seeding round 8 (appended to the technique text)
ROUND8 = {
 "C01": "; prompt-reply trial with a no-progress rule decided by the goroutine-dump lock-deadlock criterion; wall-clock watchdog around the supervised monitor (inconclusive)",
 "C03": "; fixed fidelity fixture in a supervised child: request/reply frame sizes swept in one-byte steps across the 4096/8192 buffer boundaries of the stream legs, (nil, nil) handler outcomes for every nillable result kind with crash attribution to the case in flight",
 "C04": "; reserved-name values as a foreign peer may write them (_opid/_cid of 8 shapes, enumerated sub-space) with a reply-block oracle on the context returned by ReadRequestHeader",
 "C06": "; held-up requester leg (requester parked at every FContext access until the wire has settled, responder answering at once) and send-failure-of-another-request leg over a fault stream",
 "C07": "; topic families around the transports' own word (T, frugal.T, frugal.frugal.T) with a wildcard tap",
 "C08": "; white space and comments after the prefix keyword; static prefix words spelled like / containing a variable of the same prefix",
 "C09": "; onward calls made on the inbound context itself (not only on clones) in the two-hop histories, sequential model of the caller-visible response headers",
 "C10": "; in-process re-parse histories of one path whose files are edited between parses (dump must equal the canonical form of the current text, failing step re-checked at a fresh path)",
 "C11": "; regeneration histories into an -out directory holding an earlier revision / option set (only files written by the judged run are judged); near-miss identifiers in every identifier position on the invalid-input side",
 "C13": "; registry-busy cases (registry lock held from the request.timedOut yield point: returning before the release = registration left behind) and per-return registration accounting in concurrent bursts",
 "C14": "; reply sizes spread below a caller-announced HTTP limit (limit derived from the measured reply of the same frame)",
 "C16": "; response-lost-after-processing phase on the HTTP leg (lossy server keyed on the correlation id in the received frame) with an at-most-once-per-layer oracle",
 "C19": "; hostile characters in directory names of the source root and of -out",
 "C20": "; reply-less messages in the pre-Stop stream; link blip with recovery while accepted requests drain (replies judged after the connection is CONNECTED again)",
}
for _k, _v in ROUND8.items():
    CHECKS[_k]["technique"] += _v

# workload dimensions / oracles added in seeding round 9
ROUND9 = {
 "C02": "; root and include declaring structs of the same bare name with struct literals of the included type in constants and container defaults",
 "C03": "; handler-added response headers that leave no room for any reply, for every outcome kind",
 "C04": "; sessions: one FProtocol object writes and one reads a whole sequence of messages (header block + Thrift payload) with shrinking / growing / alternating block sizes",
 "C05": "; near-limit requests whose bulk sits in echoed header values, bounded goroutine stack while a request is in flight",
 "C06": "; last response frame followed at once by the end of the session while its caller is held before its select",
 "C07": "; several subscription periods (Subscribe / Unsubscribe / Subscribe again) on ONE subscriber transport object with period-indexed delivery roles",
 "C10": "; line breaks and line comments at every place inside a declaration where white space may span lines (Wrap knob)",
 "C11": "; include-graph shape: deep layered diamond graphs judged against a chain control of the same size",
 "C13": "; peer answering in time while the client's own Write / Flush is still stalled",
 "C14": "; HTTP reply body judged as a frame (size prefix = length) under concurrent posts with different reply sizes",
 "C16": "; call issued after a timed-out call whose Write is still stalled (shared request buffer)",
 "C20": "; drain duration (parked backlog that needs longer than Stop's internal patience)",
}
for _k, _v in ROUND9.items():
    CHECKS[_k]["technique"] += _v

# round 10
ROUND10 = {
 "C02": "; the base type spelled i8 in a quarter of the program pool",
 "C03": "; caller held (own FContext wrapper parking in Timeout()) until the reply frame is back before it waits",
 "C10": "; enum members sharing a number in the JSON-descriptor witnesses",
 "C12": "; method-name length of requests for unknown methods up to the request limit",
 "C20": "; work left in queue and workers after the drain (> 10 s) x connection closed at Serve's return",
 "C05": "; well-formed responses repeated for a still-registered op id as a hostile input class",
 "C06": "; duplicate response fed while the first is buffered and the caller picks it up inside the reader's handling of the duplicate",
 "C07": "; backlog inside the subscriber at Unsubscribe followed by a new subscription on the same transport object",
 "C14": "; handler response headers that leave 0..few hundred bytes of room below the NATS output limit combined with every error outcome, raw reply frame judged",
 "C17": "; long histories: the process-wide op id counter moved (verif hook VerifSetNextOpID, quiescent) to just below 2^16 / 2^31 / 2^32 / 2^33 / 2^53 / 2^63 and crossed by the real code from 4 goroutines, ids joined to the run-wide uniqueness set",
}
for _k, _v in ROUND10.items():
    CHECKS[_k]["technique"] += _v

def main():
    props = [json.loads(l) for l in open(os.path.join(ROOT, "properties.jsonl"))]
    checks, na = [], []
    for p in props:
        pid = p["id"]
        c = CHECKS.get(pid)
        if not c:
            na.append({"property_id": pid, "reason": "check not built yet in this round (planned, see DESIGN.md §4 and §8); not a statement that runtime monitoring cannot decide it"})
            continue
        checks.append({
            "property_id": pid,
            "quick_cmd": "./check %s quick" % pid,
            "thorough_cmd": "./check %s thorough" % pid,
            "evidence_file": "/verif/evidence/%s.json" % pid,
            "replay_cmd_template": "./check %s quick --replay {path}" % pid,
            "engine": "vrt",
            "level_claimed": {"category": c["level"], "text": c["text"], "design_ref": c["design"]},
            "level_note": c["note"],
            "technique": c["technique"],
        })
    m = {
        "version": 1,
        "setup_cmd": "./setup.sh",
        "hooks": {
            "guard": "go build tag `verif` (files lib/go/verif_on.go / verif_off.go)",
            "enable": "go build -tags verif ./cmd/vrt in /verif, whose go.mod replaces github.com/Workiva/frugal and github.com/Workiva/frugal/lib/go with /repo and /repo/lib/go",
            "baseline_off_cmd": "/verif/scripts/baseline_off.sh",
            "source_commits": repo_commits(),
            "add_only": True,
        },
        "engines": [{"name": "vrt", "path": "/verif/cmd", "serves_properties": [c["property_id"] for c in checks],
                     "kind_free_text": "Go harness with one runtime monitor per property; runs the real runtime / compiler from /repo under generated workloads and decides with oracles over observed events"}],
        "checks": checks,
        "notes": "Every check rebuilds from /repo's working tree. VERIF_SEED selects the PRNG stream; VERIF_SCRATCH overrides the scratch base (/var/tmp). Known findings: /verif/known_findings.json.",
        "not_applicable": na,
    }
    json.dump(m, open(os.path.join(ROOT, "MANIFEST.json"), "w"), indent=1)
    print("checks:", [c["property_id"] for c in checks], "not_applicable:", len(na))

main()
