#!/usr/bin/env python3
"""Regenerates MANIFEST.json from the table below (single source of truth)."""
import json, os, subprocess
ROOT = os.path.dirname(os.path.dirname(os.path.abspath(__file__)))

def repo_commits():
    out = subprocess.run(["git", "-C", "/repo", "log", "--format=%H %s"], capture_output=True, text=True).stdout
    return [l.split()[0] for l in out.splitlines() if " verif:" in " " + l]

CHECKS = {
 "C04": dict(
  level="exploration", design="§4 C04",
  technique="runtime monitoring: differential execution of the real Go header codec against a reference codec written from the documentation and against the repository's Python codec, over seeded random header maps",
  text="Every Go writer and reader of the v0 header block is executed on thousands of generated header maps and compared byte-for-byte / map-for-map with an independent reference codec and with lib/python/frugal/util/headers.py run unmodified under CPython; held-on-observed, not a proof.",
  note="Trusted: the reference codec (wire/frame.go, ~100 lines from documentation/protocol.md), CPython, the stub TProtocolException class. The unexported test-only unmarshalFrame is not covered (unreachable from the API)."),
}

def main():
    props = [json.loads(l) for l in open(os.path.join(ROOT, "properties.jsonl"))]
    checks, na = [], []
    for p in props:
        pid = p["id"]
        c = CHECKS.get(pid)
        if not c:
            na.append({"property_id": pid, "reason": "check not built yet in this round (planned, see DESIGN.md §4 and §8); not a statement that runtime monitoring cannot decide it"})
            continue
        checks.append({
            "property_id": pid,
            "quick_cmd": "./check %s quick" % pid,
            "thorough_cmd": "./check %s thorough" % pid,
            "evidence_file": "/verif/evidence/%s.json" % pid,
            "replay_cmd_template": "./check %s quick --replay {path}" % pid,
            "engine": "vrt",
            "level_claimed": {"category": c["level"], "text": c["text"], "design_ref": c["design"]},
            "level_note": c["note"],
            "technique": c["technique"],
        })
    m = {
        "version": 1,
        "setup_cmd": "./setup.sh",
        "hooks": {
            "guard": "go build tag `verif` (files lib/go/verif_on.go / verif_off.go)",
            "enable": "go build -tags verif ./cmd/vrt in /verif, whose go.mod replaces github.com/Workiva/frugal and github.com/Workiva/frugal/lib/go with /repo and /repo/lib/go",
            "baseline_off_cmd": "/verif/scripts/baseline_off.sh",
            "source_commits": repo_commits(),
            "add_only": True,
        },
        "engines": [{"name": "vrt", "path": "/verif/cmd", "serves_properties": [c["property_id"] for c in checks],
                     "kind_free_text": "Go harness with one runtime monitor per property; runs the real runtime / compiler from /repo under generated workloads and decides with oracles over observed events"}],
        "checks": checks,
        "notes": "Every check rebuilds from /repo's working tree. VERIF_SEED selects the PRNG stream; VERIF_SCRATCH overrides the scratch base (/var/tmp). Known findings: /verif/known_findings.json.",
        "not_applicable": na,
    }
    json.dump(m, open(os.path.join(ROOT, "MANIFEST.json"), "w"), indent=1)
    print("checks:", [c["property_id"] for c in checks], "not_applicable:", len(na))

main()
