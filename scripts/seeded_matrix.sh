#!/bin/bash
# Runs every kept seeded change against the quick tier of its property's check
# (scratch copy of /repo, see try_seeded.sh) and writes seeded/RESULTS.md.
cd "$(dirname "$0")/.."
out=seeded/RESULTS.md
echo "| change | exit | wall | signatures (first 3) |" > $out.tmp
echo "|---|---|---|---|" >> $out.tmp
# MATRIX_BASE=<commit>: only the changes seeded at that base commit; their lines replace the old ones in RESULTS.md
for d in seeded/C*-*/; do
  n=$(basename $d); id=${n%-*}
  base=$(python3 -c "import json;print(json.load(open('$d/meta.json'))['base_commit'])")
  if [ -n "${MATRIX_BASE:-}" ] && [ "$base" != "$MATRIX_BASE" ]; then
    grep -a "^| $n |" $out >> $out.tmp 2>/dev/null
    continue
  fi
  r=$(SEED_BASE=$base scripts/try_seeded.sh $d/patch.diff $id quick ${1:-1} 2>&1)
  rc=$(echo "$r" | grep -a -o "exit=[0-9]*" | tail -1); wall=$(echo "$r" | grep -a -o "wall=[0-9]*s" | tail -1)
  sigs=$(echo "$r" | grep -a "signature:" | head -3 | sed 's/.*signature: //' | paste -sd';' | cut -c1-200)
  onbase=$(echo "$r" | grep -a -c "evaluated on base commit")
  echo "| $n | $rc | $wall | $sigs $([ $onbase -gt 0 ] && echo '(on base commit)') |" >> $out.tmp
done
mv $out.tmp $out
