#!/bin/bash
# usage: scripts/sweep.sh <tier> <seed> [parallel] [ids...]
# Runs the checks of all (or the named) properties against /repo at one seed,
# <parallel> at a time, evidence to a scratch VERIF_OUT unless SWEEP_KEEP=1
# (then /verif/evidence is rewritten).  One line per check: id, exit, wall,
# verdict lines.  Used for the "silent on the unchanged tree" sweeps.
tier="${1:-quick}"; seed="${2:-1}"; par="${3:-4}"; shift 3 2>/dev/null || true
ids=("$@"); [ ${#ids[@]} -eq 0 ] && ids=(C01 C02 C03 C04 C05 C06 C07 C08 C09 C10 C11 C12 C13 C14 C15 C16 C17 C18 C19 C20)
cd "$(dirname "$0")/.."
logdir="$(mktemp -d /var/tmp/sweep-XXXXXX)"
one() {
  id="$1"; start=$(date +%s)
  if [ "${SWEEP_KEEP:-0}" = 1 ]; then
    VERIF_SEED="$seed" ./check "$id" "$tier" > "$logdir/$id.log" 2>&1; rc=$?
  else
    VERIF_OUT="$logdir/out-$id" VERIF_SEED="$seed" ./check "$id" "$tier" > "$logdir/$id.log" 2>&1; rc=$?
  fi
  end=$(date +%s)
  v=$(grep -a -E "^(VIOLATION|INCONCLUSIVE|BUILD-FAILED)|^  signature" "$logdir/$id.log" | head -4 | cut -c1-200 | paste -sd'|')
  k=$(grep -a -c "^KNOWN-FINDING" "$logdir/$id.log")
  echo "$id tier=$tier seed=$seed exit=$rc wall=$((end-start))s known=$k $v"
}
export -f one; export tier seed logdir
printf '%s\n' "${ids[@]}" | xargs -P "$par" -I{} bash -c 'one {}'
echo "logs: $logdir"
