#!/bin/bash
# Runs the repository's own Go tests for one module directory, serialized with
# a file lock: the pinned tests listen on fixed ports (5535, ...), so two
# concurrent runs (e.g. of mutants in scratch copies) fail each other.
# usage: scripts/repo_tests.sh <module dir, e.g. /var/tmp/x-mut/lib/go> [go test args...]
export GOFLAGS=-mod=mod GOPROXY=off GOSUMDB=off GOTOOLCHAIN=local
dir="$1"; shift
cd "$dir" || exit 2
exec flock /var/tmp/verif-repo-tests.lock timeout -k 5 300 go test -vet=off -count=1 "${@:-./...}"
