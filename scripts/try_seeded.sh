#!/bin/bash
# usage: scripts/try_seeded.sh <patch.diff> <ID> [tier] [seed]
# Applies a seeded change to a scratch copy of /repo, runs one check against
# it (VERIF_REPO), prints the verdict lines, removes the copy.
set -u
patch="$(readlink -f "$1")"; id="$2"; tier="${3:-quick}"; seed="${4:-1}"
copy="$(mktemp -d /var/tmp/seedcopy-XXXXXX)"
trap 'rm -rf "$copy"' EXIT
rsync -a --exclude .git /repo/ "$copy/"
if ! (cd "$copy" && git init -q . 2>/dev/null; git -C "$copy" apply --whitespace=nowarn "$patch" 2>/dev/null); then
  # the patch was written against an earlier commit (SEED_BASE): evaluate it there
  base="${SEED_BASE:-4609ca0}"
  rm -rf "$copy"; mkdir -p "$copy"
  git -C /repo archive "$base" | tar -x -C "$copy"
  (cd "$copy" && git init -q . 2>/dev/null; git -C "$copy" apply --whitespace=nowarn "$patch") || { echo "PATCH-DOES-NOT-APPLY (HEAD and $base)"; exit 3; }
  echo "NOTE: patch does not apply to HEAD; evaluated on base commit $base"
fi
cd "$(dirname "$0")/.."
out="$(mktemp /var/tmp/seedout-XXXXXX)"
start=$(date +%s)
VERIF_SEED="$seed" VERIF_REPO="$copy" ./check "$id" "$tier" > "$out" 2>&1
rc=$?
end=$(date +%s)
grep -E "^(VIOLATION|  signature|KNOWN-FINDING|INCONCLUSIVE|SUMMARY|BUILD-FAILED)" "$out" | cut -c1-300 | head -20
echo "RESULT id=$id tier=$tier seed=$seed exit=$rc wall=$((end-start))s"
rm -f "$out"
exit $rc
