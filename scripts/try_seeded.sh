#!/bin/bash
# usage: scripts/try_seeded.sh <patch.diff> <ID> [tier] [seed]
# Applies a seeded change to a scratch copy of /repo, runs one check against
# it (VERIF_REPO), prints the verdict lines, removes the copy.
set -u
patch="$(readlink -f "$1")"; id="$2"; tier="${3:-quick}"; seed="${4:-1}"
copy="$(mktemp -d /var/tmp/seedcopy-XXXXXX)"
trap 'rm -rf "$copy"' EXIT
rsync -a --exclude .git /repo/ "$copy/"
if ! (cd "$copy" && git init -q . 2>/dev/null; git -C "$copy" apply --whitespace=nowarn "$patch"); then
  # fall back to patch(1)
  (cd "$copy" && patch -p1 --silent < "$patch") || { echo "PATCH-DOES-NOT-APPLY"; exit 3; }
fi
cd "$(dirname "$0")/.."
out="$(mktemp /var/tmp/seedout-XXXXXX)"
start=$(date +%s)
VERIF_SEED="$seed" VERIF_REPO="$copy" ./check "$id" "$tier" > "$out" 2>&1
rc=$?
end=$(date +%s)
grep -E "^(VIOLATION|  signature|KNOWN-FINDING|INCONCLUSIVE|SUMMARY|BUILD-FAILED)" "$out" | cut -c1-300 | head -20
echo "RESULT id=$id tier=$tier seed=$seed exit=$rc wall=$((end-start))s"
rm -f "$out"
exit $rc
