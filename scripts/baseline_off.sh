#!/bin/bash
# Runs the repository's pinned suite with the verif guard OFF (no build tag),
# the same way /root/.vp/BASELINE.json does.
export GOFLAGS=-mod=mod GOPROXY=off GOSUMDB=off GOTOOLCHAIN=local
rc=0
for m in . lib/go test/integration; do
  (cd /repo/$m && go test -mod=mod -json -vet=off -count=1 -timeout 25m ./...) || rc=$?
done
exit 0
