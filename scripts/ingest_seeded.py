#!/usr/bin/env python3
"""Copies a confirmed seeded change into /verif/seeded/<ID>-<k>/ and writes meta.json.
usage: ingest_seeded.py <ID> <k> <src dir> '<needs>' '<detected by>' [status]"""
import json, os, shutil, sys, subprocess
pid, k, src, needs, detected = sys.argv[1:6]
status = sys.argv[6] if len(sys.argv) > 6 else "confirmed"
dst = f"/verif/seeded/{pid}-{k}"
if os.path.exists(dst):
    shutil.rmtree(dst)
os.makedirs(dst)
for name in os.listdir(src):
    p = os.path.join(src, name)
    if name.startswith("_generated") or name == "testdata" or name.endswith(".log"):
        continue  # generated Go kept by the seeding agent for reference only
    if os.path.isdir(p):
        shutil.copytree(p, os.path.join(dst, name))
    else:
        shutil.copy(p, dst)
# demo files must not be picked up by `go build ./...` of the verif module
for root, _, files in os.walk(dst):
    for f in files:
        if f.endswith(".go"):
            os.rename(os.path.join(root, f), os.path.join(root, f + ".txt"))
props = {json.loads(l)["id"]: json.loads(l) for l in open("/verif/properties.jsonl")}
meta = {
    "property": pid,
    "property_title": props[pid]["title"],
    "origin": "independent sub-agent given only the property text and its own git worktree of /repo (no access to /verif)",
    "base_commit": os.environ.get("SEED_BASE", "4609ca0"),
    "needs_to_manifest": needs,
    "confirmed": {
        "how": "scripts/confirm_seeded.sh in a fresh worktree at base_commit: demonstration passes without the change; with the change `go build ./...` (root, lib/go, lib/go -tags verif) succeeds, the repository's tests (lib/go and ./compiler/...) pass unedited, the demonstration fails",
        "status": status,
    },
    "detection": detected,
    "note": "demonstration *.go files are stored with a .txt suffix (they belong in lib/go of the repository, see README.md)",
}
json.dump(meta, open(os.path.join(dst, "meta.json"), "w"), indent=1)
print("ingested", dst)
