#!/bin/bash
# usage: scripts/process_seeded.sh <ID> [base]   -> confirms and tries every /tmp/wt-<ID>/SEEDED/<k>
id="$1"; base="${2:-851bbb0}"
for d in ${WT_PREFIX:-/tmp/wt-}$id/SEEDED/[0-9]*; do
  [ -d "$d" ] || continue
  echo "=== $d"
  /verif/scripts/confirm_seeded.sh "$d" "$base" 2>&1 | tail -5
  SEED_BASE="$base" /verif/scripts/try_seeded.sh "$d/patch.diff" "$id" quick 1 2>&1 | grep -a -E "signature|RESULT|NOTE|PATCH" | cut -c1-220 | head -6
done
