#!/usr/bin/env python3
"""Prints the prompt given to an independent sub-agent that seeds a defect for
one property (it gets the property text and its own worktree, nothing from /verif)."""
import json, sys
pid = sys.argv[1]
n = sys.argv[2] if len(sys.argv) > 2 else "2"
p = {json.loads(l)['id']: json.loads(l) for l in open('/verif/properties.jsonl')}[pid]
import os as _os
wt = _os.environ.get("WT_PREFIX", "/tmp/wt-") + pid
import glob, os
used = []
for m in sorted(glob.glob(f"/verif/seeded/{pid}-*/meta.json")):
    used.append("  - " + json.load(open(m))["needs_to_manifest"])
used_txt = ""
if used:
    used_txt = "\n\nEarlier contributors already submitted the following changes for this property; do NOT repeat them or close variants — produce changes with a DIFFERENT mechanism at a DIFFERENT site, and prefer parts of the property they did not touch:\n" + "\n".join(used)
print(f"""You are working alone in a git worktree of the open-source project Workiva/frugal at {wt} (a Thrift-superset IDL compiler written in Go: main.go, compiler/...; plus a Go runtime library in lib/go with framed FContext protocol, multiplexed client transports, servers and pub/sub). Work ONLY inside {wt}; do not read or use /verif or /repo or any other directory (the Go module cache and toolchain are fine). No network. Every shell call needs: export GOFLAGS=-mod=mod GOPROXY=off GOSUMDB=off GOTOOLCHAIN=local

A semantic property that users of this project rely on:

  Title: {p['title']}
  Statement: {p['statement']}
  It is quantified over: {p['quantifier']['text']}
  Code it is anchored in: {', '.join(p['anchors']['files'])}

Your task: act as a source of realistic regressions. Produce {n} independent source changes to the project (different mechanisms / different sites), each of which
  1. breaks the property above (some input / schedule / fault / history now violates the statement),
  2. still compiles: `go build ./...` in {wt} and in {wt}/lib/go, and `go build -tags verif ./...` in {wt}/lib/go,
  3. passes the project's existing test suite UNCHANGED — run tests ONLY through the serializing wrapper (the tests listen on fixed TCP ports): `/tmp/repo_tests.sh {wt}/lib/go` and `/tmp/repo_tests.sh {wt} ./compiler/...` (both must end with ok lines, no FAIL),
  4. is realistic: the kind of slip a maintainer makes in a refactoring, an optimisation or a "simplification" — small (a few lines), plausible, not sabotage, no new files, no debug leftovers,
  5. needs something SPECIFIC to manifest: a particular interleaving, a crash or fault at a particular point, a multi-step sequence of operations, an unusual input, or two cooperating sites that each look fine alone. NOT something that ordinary use or a single obvious call would expose at once.
Read the relevant code carefully first, and read the existing tests to see what they pin (your change must not be caught by them).{used_txt}

For each change deliver, under {wt}/SEEDED/<k>/ (k = 1, 2, ...):
  * patch.diff — `git diff` of the source change ONLY (no demo files), relative to the worktree root, applicable with `git apply` on the worktree's base commit;
  * a demonstration: a Go test file or small Go program (put a copy in SEEDED/<k>/ and say where it must be placed, e.g. lib/go/seeded_demo_test.go in package frugal so it can use internals) that FAILS (or hangs past a stated bound, or panics) WITH the change and PASSES WITHOUT it — verify both directions yourself by applying and reverting the patch, several times if the demonstration depends on scheduling;
  * README.md — which part of the property it breaks, exactly what is needed for it to manifest, why the existing tests do not notice, and the exact commands you ran with their observed results.
Leave the worktree clean at the end (source changes reverted, demo files removed from the source tree) except for the SEEDED directory. In your final message list the changes (one paragraph each) and confirm the five points for each.""")
