#!/bin/bash
# usage: scripts/confirm_seeded.sh <seeded dir> [base commit]
# Confirms an independently seeded change in a scratch worktree: the
# demonstration passes without the change, the change compiles and passes the
# repository's own tests, the demonstration fails with the change.
# Demonstration convention: *_test.go files in the seeded dir are copied to
# lib/go (package frugal) and run with `go test -run <names> .`; a run_demo.sh
# in the seeded dir is used instead when present (cwd = worktree root).
set -u
export GOFLAGS=-mod=mod GOPROXY=off GOSUMDB=off GOTOOLCHAIN=local
sd="$(readlink -f "$1")"; base="${2:-4609ca0}"
wt="$(mktemp -d /var/tmp/confirm-XXXXXX)"; rmdir "$wt"
git -C /repo worktree add -q --detach "$wt" "$base" || exit 3
trap 'git -C /repo worktree remove --force "$wt" >/dev/null 2>&1; rm -rf "$wt"' EXIT
rundemo() {
  : > "$wt/.demo.log"
  if [ -f "$sd/run_demo.sh" ]; then
    # the script locates the worktree as ../.. of its own directory
    mkdir -p "$wt/SEEDED" && rm -rf "$wt/SEEDED/k" && cp -r "$sd" "$wt/SEEDED/k"
    (cd "$wt" && timeout 900 bash "$wt/SEEDED/k/run_demo.sh") > "$wt/.demo.log" 2>&1
    rc=$?
    rm -rf "$wt/SEEDED"
    return $rc
  fi
  if [ -f "$sd/demo.sh" ]; then
    mkdir -p "$wt/SEEDED" && rm -rf "$wt/SEEDED/k" && cp -r "$sd" "$wt/SEEDED/k"
    (cd "$wt" && timeout 900 bash "$wt/SEEDED/k/demo.sh" "$wt") > "$wt/.demo.log" 2>&1
    rc=$?
    rm -rf "$wt/SEEDED"
    return $rc
  fi
  # place every *_test.go by its package clause
  rc=0; placed=""
  for f in "$sd"/*_test.go; do
    [ -f "$f" ] || continue
    pkg=$(grep -m1 -E "^package " "$f" | awk '{print $2}')
    case "$pkg" in
      parser|parser_test) dir="compiler/parser"; mod="$wt";;
      compiler|compiler_test) dir="compiler"; mod="$wt";;
      golang) dir="compiler/generator/golang"; mod="$wt";;
      main) dir="."; mod="$wt";;
      *) dir="lib/go"; mod="$wt/lib/go";;
    esac
    cp "$f" "$wt/$dir/"; placed="$placed $wt/$dir/$(basename "$f")"
    names=$(grep -h -o "^func Test[A-Za-z0-9_]*" "$f" | sed 's/func //' | paste -sd'|')
    (cd "$wt/$dir" && flock /var/tmp/verif-repo-tests.lock timeout 600 go test -vet=off -count=1 -run "^($names)\$" . ) >> "$wt/.demo.log" 2>&1 || rc=1
  done
  rm -f $placed
  return $rc
}
rundemo; without=$?
echo "demo WITHOUT change: exit=$without ($(tail -1 "$wt/.demo.log" | cut -c1-120))"
git -C "$wt" apply --whitespace=nowarn "$sd/patch.diff" || { echo "PATCH-DOES-NOT-APPLY"; exit 3; }
(cd "$wt" && go build ./... && cd lib/go && go build ./... && go build -tags verif ./...) > "$wt/.build.log" 2>&1; echo "build with change: exit=$?"
/verif/scripts/repo_tests.sh "$wt/lib/go" > "$wt/.t1.log" 2>&1; t1=$?
/verif/scripts/repo_tests.sh "$wt" ./compiler/... > "$wt/.t2.log" 2>&1; t2=$?
echo "repo tests with change: lib/go exit=$t1 compiler exit=$t2"
[ $t1 -ne 0 ] && grep -a -E "^(--- FAIL|FAIL|panic)" "$wt/.t1.log" | head -5
[ $t2 -ne 0 ] && grep -a -E "^(--- FAIL|FAIL|panic)" "$wt/.t2.log" | head -5
rundemo; with=$?
echo "demo WITH change: exit=$with ($(grep -a -E -m1 "^(--- FAIL|FAIL|panic|fatal)" "$wt/.demo.log" | cut -c1-160))"
if [ $without -eq 0 ] && [ $with -ne 0 ] && [ $t1 -eq 0 ] && [ $t2 -eq 0 ]; then echo "CONFIRMED"; exit 0; fi
echo "NOT-CONFIRMED"; exit 1
