#!/usr/bin/env python3
"""Prints the prompt for a builder sub-agent that strengthens one property's check so
that it catches seeded changes it currently misses.
usage: builder_prompt.py <ID> <k> [<k> ...]"""
import json, sys
pid = sys.argv[1]; ks = sys.argv[2:]
p = {json.loads(l)['id']: json.loads(l) for l in open('/verif/properties.jsonl')}[pid]
low = pid.lower()
items = []
for k in ks:
    m = json.load(open(f"/verif/seeded/{pid}-{k}/meta.json"))
    items.append(f"  * /verif/seeded/{pid}-{k}/ (patch.diff, README.md of its author, demonstration test stored as *.go.txt) — needs: {m['needs_to_manifest']}\n    currently `scripts/try_seeded.sh seeded/{pid}-{k}/patch.diff {pid} quick 1` ends with exit=0: MISSED.")
print(f"""You are a builder working in /verif, a runtime-monitoring verification framework for the Go project Workiva/frugal (in /repo). READ /verif/AGENT_GUIDE.md FIRST AND FOLLOW IT (conventions, verdict discipline, forbidden actions). Design background: /verif/DESIGN.md (section "### {pid}" in §4, and the tables in §9.4 showing how earlier misses were closed).

Property {pid} — {p['title']}
  Statement: {p['statement']}
  Quantified over: {p['quantifier']['text']}

Its check is `./check {pid} quick|thorough` = /verif/cmd/{low}/ (and /verif/harness/{low}/ if that directory exists). Independent contributors produced realistic regressions of /repo that break this property, still compile and pass the repository's tests. The check currently MISSES these:
{chr(10).join(items)}

Your task: strengthen the check so that its QUICK tier catches each of them, by adding the missing WORKLOAD DIMENSION or ORACLE in a general way — model the class of situation that the change needs in order to manifest (read the author's README), do not special-case the patch, do not look for the patched lines. The monitor must decide from observed behaviour of the real code. Keep within the property's statement: never demand more than it says.

Rules:
  - Work only in /verif/cmd/{low}/ and /verif/harness/{low}/ (shared packages ev/ wire/ rig/ idl/ emit/ harness/e2e: add NEW files only if really needed, never edit existing shared files). Never edit /repo. Never `git commit`, never touch MANIFEST.json, DESIGN.md, properties.jsonl, known_findings.json, other properties' directories. Other builders are working in /verif at the same time on other properties.
  - Every shell call: export GOFLAGS=-mod=mod GOPROXY=off GOSUMDB=off GOTOOLCHAIN=local
  - Test against a seeded change ONLY with `cd /verif && scripts/try_seeded.sh seeded/{pid}-<k>/patch.diff {pid} quick 1` (it applies the patch to a scratch copy; prints signatures and exit code; exit=1 = caught).
  - The check must stay SILENT on the unchanged tree: run `cd /verif && VERIF_OUT=/var/tmp/b-{low}-out VERIF_SEED=<s> ./check {pid} quick` for s = 1, 2, 3, 7 and a second time for s = 1 (all must print violations=0 and exit 0, no INCONCLUSIVE), and `... ./check {pid} thorough` once. Also re-run two older seeded changes of this property (e.g. seeded/{pid}-1 and seeded/{pid}-7) with try_seeded.sh to make sure they are still caught. Remove /var/tmp/b-{low}-out at the end.
  - Quick tier wall time must stay about where it is now (measure before you start; at most +15 s), and must not become flaky under machine load (16 cores shared with other work): no wall-clock oracles; use hooks / logical conditions / generous watchdogs that end in `inconclusive`.
  - If your new workload shows that the UNCHANGED tree violates the property, do not loosen anything: keep the violation with a precise signature and report it to me with the witness and the file:line of the defect.
  - `go vet -tags verif ./cmd/{low}` must be clean.

Final message: for each seeded change, (a) the dimension/oracle you added, (b) the signature(s) it is now reported with and the wall time on the broken tree, (c) results of the silent runs on the unchanged tree (seed, exit, wall), (d) one table row for DESIGN.md in the form `| {pid}-<k> <what the change is> | <what it needs> | **missed** | <what was added>: `<signature>` |`. If you could not catch one within the property's statement, say exactly why.""")
