// Package emit drives the compiler under test and builds harness binaries
// from the code it emits: frugal binary <- /repo working tree, emitted Go <-
// that binary, harness module (scratch) <- emitted Go + sources copied from
// /verif/harness/<name> + replace directives to /verif and /repo/lib/go.
package emit

import (
	"bytes"
	"context"
	"fmt"
	"os"
	"os/exec"
	"path/filepath"
	"strings"
	"sync"
	"time"

	"verif/ev"
)

func goEnv() []string {
	env := os.Environ()
	env = append(env, "GOFLAGS=-mod=mod", "GOPROXY=off", "GOSUMDB=off", "GOTOOLCHAIN=local")
	return env
}

var (
	frugalOnce sync.Once
	frugalBin  string
	frugalErr  error
)

// FrugalBin builds the compiler from the repository under test (once per
// process) and returns the path of the binary.
func FrugalBin() (string, error) {
	frugalOnce.Do(func() {
		out := filepath.Join(ev.ScratchDir(), "frugal-bin")
		cmd := exec.Command("go", "build", "-o", out, ".")
		cmd.Dir = ev.RepoDir()
		cmd.Env = goEnv()
		if b, err := cmd.CombinedOutput(); err != nil {
			frugalErr = fmt.Errorf("building the frugal compiler from %s failed: %v\n%s", ev.RepoDir(), err, b)
			return
		}
		frugalBin = out
	})
	return frugalBin, frugalErr
}

// Result of one compiler run.
type Result struct {
	Stdout, Stderr string
	ExitCode       int
	TimedOut       bool
	Signaled       bool
	Wall           time.Duration
}

// Run executes the compiler with a watchdog.
func Run(bin, dir string, watchdog time.Duration, args ...string) *Result {
	ctx, cancel := context.WithTimeout(context.Background(), watchdog)
	defer cancel()
	cmd := exec.CommandContext(ctx, bin, args...)
	cmd.Dir = dir
	var so, se bytes.Buffer
	cmd.Stdout, cmd.Stderr = &so, &se
	start := time.Now()
	err := cmd.Run()
	r := &Result{Stdout: so.String(), Stderr: se.String(), Wall: time.Since(start)}
	if ctx.Err() == context.DeadlineExceeded {
		r.TimedOut = true
	}
	if err != nil {
		if ee, ok := err.(*exec.ExitError); ok {
			r.ExitCode = ee.ExitCode()
			if r.ExitCode < 0 {
				r.Signaled = true
			}
		} else {
			r.ExitCode = -2
			r.Stderr += "\n" + err.Error()
		}
	}
	return r
}

// Harness is a scratch Go module that holds emitted code and harness sources.
type Harness struct {
	Dir    string
	Module string
}

// NewHarness creates $SCRATCH/<name> with a go.mod that resolves verif, the
// runtime and the compiler to the trees under test.
func NewHarness(name string) (*Harness, error) {
	dir := filepath.Join(ev.ScratchDir(), name)
	if err := os.MkdirAll(dir, 0o755); err != nil {
		return nil, err
	}
	h := &Harness{Dir: dir, Module: "vh"}
	root := ev.Root()
	repo := ev.RepoDir()
	gomod := fmt.Sprintf(`module vh

go 1.20

require (
	verif v0.0.0
	github.com/Workiva/frugal v0.0.0
	github.com/Workiva/frugal/lib/go v0.0.0
	github.com/apache/thrift v0.19.0
)

replace verif => %s

replace github.com/Workiva/frugal => %s

replace github.com/Workiva/frugal/lib/go => %s/lib/go
`, root, repo, repo)
	if err := os.WriteFile(filepath.Join(dir, "go.mod"), []byte(gomod), 0o644); err != nil {
		return nil, err
	}
	var sum []byte
	for _, f := range []string{filepath.Join(repo, "go.sum"), filepath.Join(repo, "lib/go/go.sum"), filepath.Join(root, "go.sum.extra"), filepath.Join(root, "go.sum")} {
		b, _ := os.ReadFile(f)
		sum = append(sum, b...)
		if len(b) > 0 && b[len(b)-1] != '\n' {
			sum = append(sum, '\n')
		}
	}
	if err := os.WriteFile(filepath.Join(dir, "go.sum"), sum, 0o644); err != nil {
		return nil, err
	}
	return h, nil
}

// Gen runs `frugal -gen go:package_prefix=vh/gen/<sub>/[,opts] -r -out <dir>/gen/<sub> file`
// in idlDir.
func (h *Harness) Gen(sub, idlDir, file, opts string, extra ...string) *Result {
	bin, err := FrugalBin()
	if err != nil {
		return &Result{ExitCode: -3, Stderr: err.Error()}
	}
	out := filepath.Join(h.Dir, "gen")
	prefix := h.Module + "/gen/"
	if sub != "" {
		out = filepath.Join(out, sub)
		prefix += sub + "/"
	}
	gen := "go:package_prefix=" + prefix
	if opts != "" {
		gen += "," + opts
	}
	args := append([]string{"-gen", gen, "-r", "-out", out}, extra...)
	args = append(args, file)
	return Run(bin, idlDir, 60*time.Second, args...)
}

// CopySources copies *.go (and *.go.txt renamed to *.go) from a directory of
// /verif/harness into the harness module directory sub ("" = root).
func (h *Harness) CopySources(from, sub string) error {
	dst := filepath.Join(h.Dir, sub)
	if err := os.MkdirAll(dst, 0o755); err != nil {
		return err
	}
	ents, err := os.ReadDir(from)
	if err != nil {
		return err
	}
	for _, e := range ents {
		if e.IsDir() {
			continue
		}
		name := e.Name()
		if !strings.HasSuffix(name, ".go") && !strings.HasSuffix(name, ".go.txt") {
			continue
		}
		b, err := os.ReadFile(filepath.Join(from, name))
		if err != nil {
			return err
		}
		if err := os.WriteFile(filepath.Join(dst, strings.TrimSuffix(name, ".txt")), b, 0o644); err != nil {
			return err
		}
	}
	return nil
}

// Build compiles package pkg ("." = root) of the harness module with the verif
// tag; returns the binary path and the compiler output.
func (h *Harness) Build(pkg, outName string, race bool) (string, string, error) {
	out := filepath.Join(h.Dir, outName)
	args := []string{"build", "-tags", Tags(), "-o", out}
	if race {
		args = append(args, "-race")
	}
	args = append(args, pkg)
	cmd := exec.Command("go", args...)
	cmd.Dir = h.Dir
	cmd.Env = goEnv()
	b, err := cmd.CombinedOutput()
	return out, string(b), err
}

// Vet runs go vet on a package of the harness module.
func (h *Harness) Vet(pkg string) (string, error) {
	cmd := exec.Command("go", "vet", "-tags", Tags(), pkg)
	cmd.Dir = h.Dir
	cmd.Env = goEnv()
	b, err := cmd.CombinedOutput()
	return string(b), err
}

// ExecHarness runs a harness binary as the check itself: stdio passed through,
// exit code returned.
func ExecHarness(bin string, args ...string) int {
	cmd := exec.Command(bin, args...)
	cmd.Stdout, cmd.Stderr, cmd.Stdin = os.Stdout, os.Stderr, nil
	cmd.Env = os.Environ()
	if err := cmd.Run(); err != nil {
		if ee, ok := err.(*exec.ExitError); ok {
			return ee.ExitCode()
		}
		fmt.Fprintln(os.Stderr, "harness:", err)
		return 2
	}
	return 0
}

// Tags returns the build tags for harnesses: "verif", plus the tags of
// optional hooks the tree under test provides (older trees lack them).
func Tags() string {
	t := "verif"
	if b, err := os.ReadFile(filepath.Join(ev.RepoDir(), "lib", "go", "verif_on.go")); err == nil && strings.Contains(string(b), "func VerifLockRegistry") {
		t += " veriflock"
	}
	return t
}
