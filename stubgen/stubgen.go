// Package stubgen adds one file, zz_verif.go, to a Go package emitted by the
// compiler under test.  The file is derived from the emitted sources with
// go/ast only: (a) a registry of constructors for every type that has Read and
// Write methods, (b) for every F<Service> interface an implementation whose
// methods forward to a genreg.Recorder, (c) constructors of clients,
// processors, publishers and subscribers.  Type expressions are copied
// verbatim from the emitted signatures, so no naming rule of the generator is
// re-implemented.
package stubgen

import (
	"bytes"
	"fmt"
	"go/ast"
	"go/parser"
	"go/printer"
	"go/token"
	"os"
	"path/filepath"
	"sort"
	"strings"
)

type method struct {
	name    string
	params  []string // types, first is the FContext
	results []string // types, last is error
}

type iface struct {
	name     string
	embedded []string // "base.FBaseFoo" or "FLocal"
	methods  []method
	imports  map[string]string // package ident -> import path (of the declaring file)
}

func exprString(fset *token.FileSet, e ast.Expr) string {
	var b bytes.Buffer
	printer.Fprint(&b, fset, e)
	return b.String()
}

func pkgIdents(e ast.Expr, out map[string]bool) {
	ast.Inspect(e, func(n ast.Node) bool {
		if s, ok := n.(*ast.SelectorExpr); ok {
			if id, ok := s.X.(*ast.Ident); ok {
				out[id.Name] = true
			}
		}
		return true
	})
}

// Generate writes <dir>/zz_verif.go for the package in dir with the given
// import path. Returns the number of types, services and scopes registered.
func Generate(dir, importPath string) (int, int, int, error) {
	fset := token.NewFileSet()
	pkgs, err := parser.ParseDir(fset, dir, func(fi os.FileInfo) bool {
		return fi.Name() != "zz_verif.go" && !strings.HasSuffix(fi.Name(), "_test.go")
	}, 0)
	if err != nil {
		return 0, 0, 0, err
	}
	if len(pkgs) != 1 {
		return 0, 0, 0, fmt.Errorf("%s: %d packages", dir, len(pkgs))
	}
	var pkg *ast.Package
	for _, p := range pkgs {
		pkg = p
	}
	funcs := map[string]*ast.FuncDecl{}
	hasMethod := map[string]map[string]bool{}
	var ifaces []*iface
	typeNames := map[string]bool{}
	fileNames := make([]string, 0, len(pkg.Files))
	for n := range pkg.Files {
		fileNames = append(fileNames, n)
	}
	sort.Strings(fileNames)
	for _, fn := range fileNames {
		file := pkg.Files[fn]
		imports := map[string]string{}
		for _, im := range file.Imports {
			path := strings.Trim(im.Path.Value, `"`)
			name := path[strings.LastIndex(path, "/")+1:]
			if im.Name != nil {
				name = im.Name.Name
			}
			imports[name] = path
		}
		for _, d := range file.Decls {
			switch x := d.(type) {
			case *ast.FuncDecl:
				if x.Recv == nil {
					funcs[x.Name.Name] = x
					continue
				}
				if len(x.Recv.List) == 1 {
					rt := exprString(fset, x.Recv.List[0].Type)
					rt = strings.TrimPrefix(rt, "*")
					if hasMethod[rt] == nil {
						hasMethod[rt] = map[string]bool{}
					}
					hasMethod[rt][x.Name.Name] = true
				}
			case *ast.GenDecl:
				for _, sp := range x.Specs {
					ts, ok := sp.(*ast.TypeSpec)
					if !ok {
						continue
					}
					typeNames[ts.Name.Name] = true
					it, ok := ts.Type.(*ast.InterfaceType)
					if !ok {
						continue
					}
					f := &iface{name: ts.Name.Name, imports: imports}
					for _, m := range it.Methods.List {
						if len(m.Names) == 0 {
							f.embedded = append(f.embedded, exprString(fset, m.Type))
							continue
						}
						ft, ok := m.Type.(*ast.FuncType)
						if !ok {
							continue
						}
						mm := method{name: m.Names[0].Name}
						for _, p := range ft.Params.List {
							n := len(p.Names)
							if n == 0 {
								n = 1
							}
							for i := 0; i < n; i++ {
								mm.params = append(mm.params, exprString(fset, p.Type))
							}
						}
						if ft.Results != nil {
							for _, p := range ft.Results.List {
								n := len(p.Names)
								if n == 0 {
									n = 1
								}
								for i := 0; i < n; i++ {
									mm.results = append(mm.results, exprString(fset, p.Type))
								}
							}
						}
						f.methods = append(f.methods, mm)
					}
					ifaces = append(ifaces, f)
				}
			}
		}
	}

	needImports := map[string]string{}
	var body bytes.Buffer
	// (a) types
	var tnames []string
	for name, fd := range funcs {
		if !strings.HasPrefix(name, "New") || fd.Type.Params.NumFields() != 0 || fd.Type.Results.NumFields() != 1 {
			continue
		}
		t := strings.TrimPrefix(exprString(fset, fd.Type.Results.List[0].Type), "*")
		if "New"+t != name || !hasMethod[t]["Read"] || !hasMethod[t]["Write"] {
			continue
		}
		tnames = append(tnames, t)
	}
	sort.Strings(tnames)
	// (b) services
	isService := func(f *iface) bool {
		if !strings.HasPrefix(f.name, "F") || funcs["New"+f.name+"Client"] == nil || funcs["New"+f.name+"Processor"] == nil {
			return false
		}
		return true
	}
	var svcs []*iface
	for _, f := range ifaces {
		if isService(f) {
			svcs = append(svcs, f)
		}
	}
	sort.Slice(svcs, func(i, j int) bool { return svcs[i].name < svcs[j].name })
	for _, f := range svcs {
		stub := "VerifStub" + f.name
		fmt.Fprintf(&body, "// %s implements %s by forwarding to a recorder.\ntype %s struct {\n", stub, f.name, stub)
		var embedInit []string
		for _, e := range f.embedded {
			pk, nm := "", e
			if i := strings.LastIndex(e, "."); i >= 0 {
				pk, nm = e[:i+1], e[i+1:]
				needImports[e[:i]] = f.imports[e[:i]]
			}
			fmt.Fprintf(&body, "\t*%sVerifStub%s\n", pk, nm)
			embedInit = append(embedInit, fmt.Sprintf("VerifStub%s: %sNewVerifStub%s(r)", nm, pk, nm))
		}
		fmt.Fprintf(&body, "\tR genreg.Recorder\n}\n\n")
		fmt.Fprintf(&body, "func NewVerifStub%s(r genreg.Recorder) *%s {\n\treturn &%s{%sR: r}\n}\n\n", f.name, stub, stub, strings.Join(append(embedInit, ""), ", "))
		for _, m := range f.methods {
			used := map[string]bool{}
			var ps, args []string
			for i, p := range m.params {
				ps = append(ps, fmt.Sprintf("a%d %s", i, p))
				args = append(args, fmt.Sprintf("a%d", i))
			}
			var rs []string
			for i, r := range m.results {
				rs = append(rs, fmt.Sprintf("r%d %s", i, r))
			}
			fmt.Fprintf(&body, "func (s *%s) %s(%s) (%s) {\n", stub, m.name, strings.Join(ps, ", "), strings.Join(rs, ", "))
			fmt.Fprintf(&body, "\tout := s.R(%q, %q, []interface{}{%s})\n", f.name, m.name, strings.Join(args, ", "))
			for i, r := range m.results {
				fmt.Fprintf(&body, "\tif len(out) > %d && out[%d] != nil {\n\t\tr%d = out[%d].(%s)\n\t}\n", i, i, i, i, r)
			}
			fmt.Fprintf(&body, "\treturn\n}\n\n")
			// imports used by the signature
			fd := token.NewFileSet()
			for _, t := range append(append([]string{}, m.params...), m.results...) {
				if e, err := parser.ParseExprFrom(fd, "", t, 0); err == nil {
					pkgIdents(e, used)
				}
			}
			for id := range used {
				if path, ok := f.imports[id]; ok {
					needImports[id] = path
				}
			}
		}
	}
	// (c) scopes: <X>Publisher interface + New<X>Publisher / New<X>Subscriber
	var scopes []string
	for _, f := range ifaces {
		if strings.HasSuffix(f.name, "Publisher") {
			x := strings.TrimSuffix(f.name, "Publisher")
			if funcs["New"+x+"Publisher"] != nil && funcs["New"+x+"Subscriber"] != nil {
				scopes = append(scopes, x)
			}
		}
	}
	sort.Strings(scopes)

	var out bytes.Buffer
	fmt.Fprintf(&out, "// Code added by verif/stubgen from the emitted sources of this package. DO NOT EDIT.\n\npackage %s\n\nimport (\n", pkg.Name)
	needImports["genreg"] = "verif/genreg"
	needImports["frugal"] = "github.com/Workiva/frugal/lib/go"
	needImports["thrift"] = "github.com/apache/thrift/lib/go/thrift"
	var ids []string
	for id := range needImports {
		ids = append(ids, id)
	}
	sort.Strings(ids)
	for _, id := range ids {
		path := needImports[id]
		if path == "" {
			continue
		}
		fmt.Fprintf(&out, "\t%s %q\n", id, path)
	}
	fmt.Fprintf(&out, ")\n\nvar _ = thrift.ZERO\nvar _ frugal.FContext\n\n")
	out.Write(body.Bytes())
	fmt.Fprintf(&out, "func init() {\n\tgenreg.Register(&genreg.Package{\n\t\tImportPath: %q,\n\t\tTypes: map[string]func() thrift.TStruct{\n", importPath)
	for _, t := range tnames {
		fmt.Fprintf(&out, "\t\t\t%q: func() thrift.TStruct { return New%s() },\n", t, t)
	}
	fmt.Fprintf(&out, "\t\t},\n\t\tServices: map[string]*genreg.Service{\n")
	for _, f := range svcs {
		fmt.Fprintf(&out, "\t\t\t%q: {\n\t\t\t\tGoName: %q,\n", f.name, f.name)
		fmt.Fprintf(&out, "\t\t\t\tNewClient: func(p *frugal.FServiceProvider, mw ...frugal.ServiceMiddleware) interface{} { return New%sClient(p, mw...) },\n", f.name)
		fmt.Fprintf(&out, "\t\t\t\tNewProcessor: func(h interface{}, mw ...frugal.ServiceMiddleware) frugal.FProcessor { return New%sProcessor(h.(%s), mw...) },\n", f.name, f.name)
		fmt.Fprintf(&out, "\t\t\t\tNewStub: func(r genreg.Recorder) interface{} { return NewVerifStub%s(r) },\n\t\t\t},\n", f.name)
	}
	fmt.Fprintf(&out, "\t\t},\n\t\tScopes: map[string]*genreg.Scope{\n")
	for _, x := range scopes {
		fmt.Fprintf(&out, "\t\t\t%q: {\n\t\t\t\tGoName: %q,\n", x, x)
		fmt.Fprintf(&out, "\t\t\t\tNewPublisher: func(p *frugal.FScopeProvider, mw ...frugal.ServiceMiddleware) interface{} { return New%sPublisher(p, mw...) },\n", x)
		fmt.Fprintf(&out, "\t\t\t\tNewSubscriber: func(p *frugal.FScopeProvider, mw ...frugal.ServiceMiddleware) interface{} { return New%sSubscriber(p, mw...) },\n\t\t\t},\n", x)
	}
	fmt.Fprintf(&out, "\t\t},\n\t})\n}\n")
	if err := os.WriteFile(filepath.Join(dir, "zz_verif.go"), out.Bytes(), 0o644); err != nil {
		return 0, 0, 0, err
	}
	return len(tnames), len(svcs), len(scopes), nil
}

// GenerateTree runs Generate on every directory below root that holds .go
// files; importPrefix is the import path of root. Returns the import paths.
func GenerateTree(root, importPrefix string) ([]string, error) {
	var paths []string
	err := filepath.Walk(root, func(path string, info os.FileInfo, err error) error {
		if err != nil || !info.IsDir() {
			return err
		}
		matches, _ := filepath.Glob(filepath.Join(path, "*.go"))
		if len(matches) == 0 {
			return nil
		}
		rel, _ := filepath.Rel(root, path)
		ip := importPrefix
		if rel != "." {
			ip += "/" + filepath.ToSlash(rel)
		}
		if _, _, _, err := Generate(path, ip); err != nil {
			return fmt.Errorf("%s: %v", path, err)
		}
		paths = append(paths, ip)
		return nil
	})
	sort.Strings(paths)
	return paths, err
}
