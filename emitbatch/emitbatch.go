// Package emitbatch compiles a batch of random IDL programs with the compiler
// under test into one harness module, adds the stubgen registries, copies a
// harness from /verif/harness/<name> next to them and builds it; programs the
// compiler rejects or whose emitted Go does not compile are dropped from the
// batch and counted (they are C11's verdict).
package emitbatch

import (
	"fmt"
	"math/rand"
	"os"
	"path/filepath"
	"regexp"
	"strings"

	"verif/emit"
	"verif/ev"
	"verif/idl"
	"verif/stubgen"
)

// ProgSpec identifies one random program.
type ProgSpec struct {
	Sub  string `json:"sub"`
	Seed int64  `json:"seed"`
	Cfg  string `json:"cfg"`
}

// Program regenerates the model of a spec (Cfg "witness:<name>" selects a
// fixed hand-written witness program instead of a random one).
func (ps ProgSpec) Program() *idl.Program {
	if strings.HasPrefix(ps.Cfg, "witness:") {
		return WitnessProgram(strings.TrimPrefix(ps.Cfg, "witness:"))
	}
	return idl.Generate(rand.New(rand.NewSource(ps.Seed)), idl.ConfigByName(ps.Cfg))
}

// WitnessProgram returns a fixed program by name.
func WitnessProgram(name string) *idl.Program {
	switch name {
	case "specialdouble":
		f := &idl.File{Base: "wdouble", Ext: ".frugal"}
		f.Decls = append(f.Decls,
			&idl.Decl{Struct: &idl.Struct{Kind: idl.KindStruct, Name: "WPad", Fields: []*idl.Field{{ID: 1, Name: "pad", Type: idl.T("string")}}}},
			&idl.Decl{Service: &idl.Service{Name: "WDouble", Methods: []*idl.Method{
				{Name: "echoDouble", Ret: idl.T("double"), Args: []*idl.Field{{ID: 1, Name: "pad", Type: idl.T("string")}, {ID: 2, Name: "d", Type: idl.T("double")}}},
			}}})
		return &idl.Program{Files: []*idl.File{f}, Features: map[string]bool{"witness_specialdouble": true}}
	}
	return &idl.Program{Features: map[string]bool{}}
}

// Result of building one batch.
type Result struct {
	H            *emit.Harness
	Bin          string
	Live         []ProgSpec
	Rejected     []string // sub: first line of the compiler's message
	Uncompilable []string // sub: first compile error
}

var pkgErr = regexp.MustCompile(`(?m)^(?:vet: )?gen/(p\d+)/[^\n]*`)

// Build does the whole pipeline for one batch.
func Build(moduleName, harnessName string, specs []ProgSpec, genOpts string, race bool) (*Result, error) {
	h, err := emit.NewHarness(moduleName)
	if err != nil {
		return nil, err
	}
	res := &Result{H: h}
	for _, ps := range specs {
		prog := ps.Program()
		src := filepath.Join(h.Dir, "src", ps.Sub)
		if _, err := idl.WriteProgram(prog, src, idl.DefaultStyle()); err != nil {
			return nil, err
		}
		if r := h.Gen(ps.Sub, src, prog.Root().FileName(), genOpts); r.ExitCode != 0 {
			res.Rejected = append(res.Rejected, ps.Sub+": "+firstLines(strings.TrimSpace(r.Stdout+r.Stderr), 3))
			os.RemoveAll(filepath.Join(h.Dir, "gen", ps.Sub))
			continue
		}
		res.Live = append(res.Live, ps)
	}
	if err := h.CopySources(filepath.Join(ev.Root(), "harness", harnessName), harnessName); err != nil {
		return nil, err
	}
	for attempt := 0; attempt < 4; attempt++ {
		if len(res.Live) == 0 {
			return res, nil
		}
		paths, err := stubgen.GenerateTree(filepath.Join(h.Dir, "gen"), "vh/gen")
		if err != nil {
			return nil, err
		}
		var imp strings.Builder
		imp.WriteString("package main\n\nimport (\n")
		for _, p := range paths {
			fmt.Fprintf(&imp, "\t_ %q\n", p)
		}
		imp.WriteString(")\n")
		os.WriteFile(filepath.Join(h.Dir, harnessName, "zz_imports.go"), []byte(imp.String()), 0o644)
		bin, out, err := h.Build("./"+harnessName, harnessName+".bin", race)
		if err == nil {
			res.Bin = bin
			return res, nil
		}
		bad := map[string]string{}
		for _, m := range pkgErr.FindAllStringSubmatch(out, -1) {
			if _, ok := bad[m[1]]; !ok {
				bad[m[1]] = m[0]
			}
		}
		if len(bad) == 0 {
			return nil, fmt.Errorf("harness build failed: %s", firstLines(out, 15))
		}
		var keep []ProgSpec
		for _, ps := range res.Live {
			if msg, ok := bad[ps.Sub]; ok {
				res.Uncompilable = append(res.Uncompilable, ps.Sub+": "+msg)
				os.RemoveAll(filepath.Join(h.Dir, "gen", ps.Sub))
			} else {
				keep = append(keep, ps)
			}
		}
		res.Live = keep
	}
	return nil, fmt.Errorf("harness build did not converge")
}

func firstLines(s string, n int) string {
	l := strings.Split(s, "\n")
	if len(l) > n {
		l = l[:n]
	}
	return strings.Join(l, "\n")
}
