import com.sun.source.util.JavacTask;

import java.io.File;
import java.nio.charset.StandardCharsets;
import java.nio.file.Files;
import java.nio.file.Paths;
import java.util.ArrayList;
import java.util.List;
import java.util.Locale;

import javax.tools.Diagnostic;
import javax.tools.DiagnosticCollector;
import javax.tools.JavaCompiler;
import javax.tools.JavaFileObject;
import javax.tools.StandardJavaFileManager;
import javax.tools.ToolProvider;

/**
 * Parse-only oracle for emitted Java: runs javac's parser (JavacTask.parse())
 * over the given files, no symbol resolution (the Java runtime jars of Frugal
 * and Thrift are not available).  Arguments: file names, or @listfile with one
 * file name per line.  Prints one line per error: "ERROR\tfile\tline\tmessage";
 * exit status 1 when any file has a syntax error, 2 on usage / IO problems.
 */
public class ParseOnly {
    public static void main(String[] args) throws Exception {
        List<File> files = new ArrayList<>();
        for (String a : args) {
            if (a.startsWith("@")) {
                for (String l : Files.readAllLines(Paths.get(a.substring(1)), StandardCharsets.UTF_8)) {
                    if (!l.trim().isEmpty()) {
                        files.add(new File(l.trim()));
                    }
                }
            } else {
                files.add(new File(a));
            }
        }
        if (files.isEmpty()) {
            System.out.println("PARSED\t0");
            return;
        }
        JavaCompiler compiler = ToolProvider.getSystemJavaCompiler();
        if (compiler == null) {
            System.err.println("no system Java compiler (JDK needed)");
            System.exit(2);
        }
        DiagnosticCollector<JavaFileObject> diags = new DiagnosticCollector<>();
        StandardJavaFileManager fm = compiler.getStandardFileManager(diags, Locale.ROOT, StandardCharsets.UTF_8);
        Iterable<? extends JavaFileObject> units = fm.getJavaFileObjectsFromFiles(files);
        List<String> options = new ArrayList<>();
        options.add("-proc:none");
        options.add("-Xmaxerrs");
        options.add("100000");
        JavacTask task = (JavacTask) compiler.getTask(null, fm, diags, options, null, units);
        int n = 0;
        for (Object u : task.parse()) {
            n++;
        }
        int errors = 0;
        for (Diagnostic<? extends JavaFileObject> d : diags.getDiagnostics()) {
            if (d.getKind() == Diagnostic.Kind.ERROR) {
                errors++;
                String name = d.getSource() == null ? "?" : new File(d.getSource().toUri()).getPath();
                System.out.println("ERROR\t" + name + "\t" + d.getLineNumber() + "\t"
                        + d.getMessage(Locale.ROOT).replace('\n', ' ').replace('\t', ' '));
            }
        }
        System.out.println("PARSED\t" + n);
        fm.close();
        System.exit(errors > 0 ? 1 : 0);
    }
}
