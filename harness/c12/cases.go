package main

// Limited legs and the oracle: the expected outcome of a case is a pure
// function of (measured framed size, limit).

import (
	"encoding/binary"
	"fmt"
	"sync"
	"time"

	frugal "github.com/Workiva/frugal/lib/go"
	"github.com/apache/thrift/lib/go/thrift"
	"github.com/go-stomp/stomp"
	"github.com/nats-io/nats.go"

	"verif/ev"
	"verif/rig"
	"verif/wire"
	"vh/e2e"
	"vh/gen/mainsvc"
)

func frameHeaderBytes(frame []byte) int {
	if len(frame) < 9 || frame[4] != 0 {
		return 0
	}
	return 9 + int(binary.BigEndian.Uint32(frame[5:9]))
}

func opidOfFrame(frame []byte) string {
	h, _, err := wire.ParseFrame(frame)
	if err != nil {
		return ""
	}
	return h["_opid"]
}

func framesWithOpid(frames [][]byte, opid string) [][]byte {
	var out [][]byte
	for _, f := range frames {
		if opidOfFrame(f) == opid {
			out = append(out, f)
		}
	}
	return out
}

func waitUntil(d time.Duration, cond func() bool) bool {
	deadline := time.Now().Add(d)
	for {
		if cond() {
			return true
		}
		if time.Now().After(deadline) {
			return false
		}
		time.Sleep(200 * time.Microsecond)
	}
}

// caseInfo is the witness of one case.
type caseInfo struct {
	Leg, Proto, Dir, Shape string
	Limit                  int
	Bulk, Fine             int
	Measured               int // F or R, measured on the unlimited leg
	Delta                  int // Measured - Limit
	// Class refines Shape in signatures ("" = Shape): for the headers-alone
	// shape it says whether the header block ALONE exceeds the limit
	// ("headers-alone") or only together with the small message
	// ("headers-plus-message").
	Class string
}

func (c caseInfo) class() string {
	if c.Class != "" {
		return c.Class
	}
	return c.Shape
}

func (c caseInfo) witness(extra map[string]interface{}) map[string]interface{} {
	w := map[string]interface{}{"leg": c.Leg, "protocol": c.Proto, "direction": c.Dir, "shape": c.Shape, "limit": c.Limit,
		"class": c.class(), "bulk": c.Bulk, "fine": c.Fine, "measured_framed_size": c.Measured, "size_minus_limit": c.Delta,
		"message": "shape " + c.Shape + " built with shapes[shape].build(bulk, fine) of /verif/harness/c12/shapes.go (tag: echo(small, text(bulk+fine)); getbig: getBig(bulk+fine)); contexts: fixed 24-byte _cid, 7-digit _opid, 4-digit _timeout"}
	for k, v := range extra {
		w[k] = v
	}
	return w
}

func (c caseInfo) key() string {
	return fmt.Sprintf("%s:%s:%s:%s:L=%d:d=%d", c.Leg, c.Proto, c.Dir, c.Shape, c.Limit, c.Delta)
}

// rpcTarget is a client + server pair with a size limit somewhere.
type rpcTarget struct {
	name   string
	proto  string
	leg    *e2e.Leg
	client *mainsvc.FFooClient
	limit  int
	band   int  // response direction: the limit applies to the response WITHOUT these many prefix bytes (HTTP: the handler compares the unframed buffer, 4)
	async  bool // tap fed asynchronously (NATS)
	custom *limitTransport
	// noCanary: the canary call itself does not fit the limit of this leg
	noCanary bool
}

func (t *rpcTarget) stop() { t.leg.Stop() }

// canary: a plain call on the same client and server; also the barrier after
// which the tap has seen everything sent before it.
func (t *rpcTarget) canary() (string, error) {
	ctx := newCtx(normalTimeout)
	r, err := t.client.Add(ctx, 20, 22)
	if err == nil && r != 42 {
		err = fmt.Errorf("add(20,22) = %d", r)
	}
	if err == nil && t.async {
		id := opidOf(ctx)
		if !waitUntil(10*time.Second, func() bool {
			reqs, reps := t.leg.Tap.Snapshot()
			return len(framesWithOpid(reqs, id)) > 0 && len(framesWithOpid(reps, id)) > 0
		}) {
			return id, fmt.Errorf("the wire tap did not see the canary within 10s")
		}
	}
	return opidOf(ctx), err
}

func (t *rpcTarget) tapRequests(opid string) [][]byte {
	if t.custom != nil {
		return framesWithOpid(t.custom.snapshot(), opid)
	}
	reqs, _ := t.leg.Tap.Snapshot()
	return framesWithOpid(reqs, opid)
}

func (t *rpcTarget) reset() {
	t.leg.Tap.Reset()
	t.leg.Handler.Reset()
	if t.custom != nil {
		t.custom.reset()
	}
}

// requestCase: a request of measured framed size F against limit L.
func (t *rpcTarget) requestCase(run *ev.Run, ci caseInfo, hdrBytes int) {
	t.reset()
	ctx := newCtx(normalTimeout)
	id := opidOf(ctx)
	ret, err := doRequest(t.client, ctx, ci.Shape, ci.Bulk, ci.Fine)
	class := classify(err)
	over := ci.Measured > ci.Limit
	canaryErr := error(nil)
	if (class != "ok" || t.async) && !t.noCanary {
		_, canaryErr = t.canary()
	} else if class != "ok" {
		run.Add("canary_not_applicable_limit_below_canary_size", 1)
	}
	frames := t.tapRequests(id)
	handled := 0
	for _, c := range t.leg.Handler.Snapshot() {
		if c.Method == "echo" {
			handled++
		}
	}
	run.Add("requests_observed", 1)
	sfx := t.name + ":" + ci.Proto + ":" + ci.class()
	obs := map[string]interface{}{"outcome": class, "error": errText(err), "request_frames_at_tap": len(frames), "handler_calls": handled}
	if len(frames) > 0 {
		obs["transmitted_frame_bytes"] = len(frames[0])
	}
	if over {
		run.Add("oversize_requests", 1)
		switch {
		case len(frames) > 0 || handled > 0 || class == "ok":
			run.Violation("C12:oversize-request-transmitted:"+sfx,
				fmt.Sprintf("a request of %d framed bytes (limit %d) was transmitted (outcome %s, %d frame(s) at the tap, %d handler call(s))", ci.Measured, ci.Limit, class, len(frames), handled), ci.witness(obs))
		case class != "request-too-large":
			if hdrBytes > ci.Limit {
				run.Violation("C12:oversize-request-wrong-error:limit-below-headers:"+t.name+":"+class,
					fmt.Sprintf("the limit %d is below the size of the frame prefix + header block (%d): the oversize request fails with %s instead of REQUEST_TOO_LARGE", ci.Limit, hdrBytes, errText(err)), ci.witness(obs))
			} else {
				run.Violation("C12:oversize-request-wrong-error:"+sfx+":"+class,
					fmt.Sprintf("an oversize request (%d > %d) failed with %s instead of a REQUEST_TOO_LARGE transport error", ci.Measured, ci.Limit, errText(err)), ci.witness(obs))
			}
		}
	} else {
		run.Add("within_limit_requests", 1)
		switch {
		case class != "ok":
			run.Violation("C12:within-limit-request-rejected:"+sfx+":"+class,
				fmt.Sprintf("a request of %d framed bytes within the limit %d failed: %s", ci.Measured, ci.Limit, errText(err)), ci.witness(obs))
		case len(frames) != 1 || len(frames[0]) != ci.Measured:
			run.Inconclusive(fmt.Sprintf("%s: the frame seen on the limited leg (%v) differs from the measurement (%d)", ci.key(), obs["transmitted_frame_bytes"], ci.Measured))
		case digest(ret) != digest(smallPayload()) || handled != 1:
			run.Violation("C12:within-limit-request-corrupted:"+sfx, "the call did not return the handler's value or the handler ran "+fmt.Sprint(handled)+" times", ci.witness(obs))
		default:
			// what the handler received is what was sent
			want := "tag"
			if ci.Shape != "tag" {
				want = digest(shapes[ci.Shape].build(ci.Bulk, ci.Fine))
			}
			for _, c := range t.leg.Handler.Snapshot() {
				if c.Method != "echo" {
					continue
				}
				got := "tag"
				if ci.Shape != "tag" {
					p, _ := c.Args[0].(*mainsvc.Payload)
					got = digest(p)
				} else if s, _ := c.Args[1].(string); s != text(ci.Bulk+ci.Fine) {
					got = "tag-differs"
				}
				if got != want {
					run.Violation("C12:within-limit-request-corrupted:"+sfx, "the handler received different data than was sent", ci.witness(obs))
				}
			}
		}
	}
	if class != "ok" && canaryErr != nil {
		run.Violation("C12:canary-failed:"+t.name+":"+ci.Proto+":after-"+class, "after the failed request a plain call on the same client and server fails: "+errText(canaryErr), ci.witness(obs))
	} else if canaryErr != nil {
		run.Inconclusive(ci.key() + ": barrier call failed: " + errText(canaryErr))
	}
}

// responseCase: a response of measured framed size R against limit L.
func (t *rpcTarget) responseCase(run *ev.Run, ci caseInfo) {
	t.reset()
	// exact: what the server compares with the limit is the measured frame
	// minus the size prefix where the limit is defined on the unframed response
	over := ci.Measured-t.band > ci.Limit
	within := !over
	timeout := normalTimeout
	if t.async && !within {
		timeout = shortTimeout // same header width; a lost reply costs 2.5 s instead of 9
	}
	ctx := newCtx(timeout)
	id := opidOf(ctx)
	got, err := doResponse(t.client, ctx, ci.Shape, ci.Bulk, ci.Fine)
	class := classify(err)
	var canaryErr error
	if (class != "ok" || t.async) && !t.noCanary {
		_, canaryErr = t.canary()
	} else if class != "ok" {
		run.Add("canary_not_applicable_limit_below_canary_size", 1)
	}
	_, reps := t.leg.Tap.Snapshot()
	replies := framesWithOpid(reps, id)
	handled := len(t.leg.Handler.Snapshot())
	run.Add("responses_observed", 1)
	sfx := t.name + ":" + ci.Proto + ":" + ci.class()
	obs := map[string]interface{}{"outcome": class, "error": errText(err), "reply_frames_at_tap": len(replies), "handler_calls": handled}
	if len(replies) > 0 {
		obs["reply_frame_bytes"] = len(replies[0])
		if len(replies[0]) <= 600 {
			obs["reply_frame_hex"] = fmt.Sprintf("%x", replies[0])
		}
	}
	replyUnparseable := func() (bool, string) {
		if len(replies) == 0 {
			return false, ""
		}
		_, payload, err := wire.ParseFrame(replies[0])
		if err != nil {
			return true, err.Error()
		}
		if _, err := wire.DecodeMessage(rig.TProtocolFactory(ci.Proto), payload); err != nil {
			return true, err.Error()
		}
		return false, ""
	}
	switch {
	case over:
		run.Add("oversize_responses", 1)
		switch class {
		case "response-too-large":
		case "ok":
			run.Violation("C12:oversize-response-delivered:"+sfx, fmt.Sprintf("a response of %d framed bytes (limit %d) reached the caller as a success", ci.Measured, ci.Limit), ci.witness(obs))
		case "timeout":
			if canaryErr != nil {
				run.Inconclusive(ci.key() + ": call timed out and the barrier call failed too: " + errText(canaryErr))
			} else if len(replies) > 0 {
				run.Inconclusive(ci.key() + ": the call timed out but a reply frame did reach the wire (late reply)")
			} else {
				// one worker, FIFO: the canary was answered after this request was
				// processed, and no reply frame for it ever reached the wire
				run.Violation("C12:oversize-response-as-timeout:"+sfx, fmt.Sprintf("a response of %d framed bytes (limit %d) never reached the wire: the caller got TIMED_OUT instead of RESPONSE_TOO_LARGE (handler ran, the next call on the same single-worker server was answered)", ci.Measured, ci.Limit), ci.witness(obs))
			}
		default:
			if bad, why := replyUnparseable(); bad {
				obs["reference_reader"] = why
				sig := "C12:exception-reply-unparseable:" + sfx
				if ci.Proto == "json" {
					sig = "C12:json-exception-reply-unparseable:" + t.name + ":" + ci.Shape
				}
				run.Violation(sig, fmt.Sprintf("the overflow of a %d-byte response (limit %d) was trapped but the reply frame the server sent cannot be parsed (%s); the caller got %s", ci.Measured, ci.Limit, why, errText(err)), ci.witness(obs))
			} else {
				run.Violation("C12:oversize-response-wrong-error:"+sfx+":"+class, fmt.Sprintf("an oversize response (%d > %d) reached the caller as %s instead of RESPONSE_TOO_LARGE", ci.Measured, ci.Limit, errText(err)), ci.witness(obs))
			}
		}
	case within:
		run.Add("within_limit_responses", 1)
		if class != "ok" {
			if class == "timeout" && len(replies) > 0 {
				run.Inconclusive(ci.key() + ": the call timed out but a reply frame did reach the wire (late reply)")
			} else {
				run.Violation("C12:within-limit-response-rejected:"+sfx+":"+class, fmt.Sprintf("a response of %d framed bytes (%d compared with the limit) within the limit %d reached the caller as %s", ci.Measured, ci.Measured-t.band, ci.Limit, errText(err)), ci.witness(obs))
			}
		} else if got != expectedResponseDigest(ci.Shape, ci.Bulk, ci.Fine) {
			run.Violation("C12:within-limit-response-corrupted:"+sfx, "the caller received different data than the handler returned", ci.witness(obs))
		} else if len(replies) == 1 && len(replies[0]) != ci.Measured {
			run.Inconclusive(fmt.Sprintf("%s: the reply frame on the limited leg (%d bytes) differs from the measurement", ci.key(), len(replies[0])))
		}
	default:
		run.Add("band_responses_unconstrained", 1)
		if class != "ok" && class != "response-too-large" {
			run.Violation("C12:oversize-response-wrong-error:"+sfx+":"+class, fmt.Sprintf("a response in the 4-byte band above the limit (%d vs %d) reached the caller as %s", ci.Measured, ci.Limit, errText(err)), ci.witness(obs))
		}
	}
	if class != "ok" && canaryErr != nil {
		run.Violation("C12:canary-failed:"+t.name+":"+ci.Proto+":after-"+class, "after the failed call a plain call on the same client and server fails: "+errText(canaryErr), ci.witness(obs))
	} else if canaryErr != nil {
		run.Inconclusive(ci.key() + ": barrier call failed: " + errText(canaryErr))
	}
}

// targets ---------------------------------------------------------------------

func newHTTPTarget(proto, which string, limit int) (*rpcTarget, error) {
	opt := rig.LegOptions{}
	t := &rpcTarget{proto: proto, limit: limit}
	if which == "request" {
		opt.HTTPRequestLimit = uint(limit)
		t.name = "http"
	} else {
		opt.HTTPResponseLimit = uint(limit)
		t.name = "http"
		t.band = 4
	}
	leg, err := e2e.StartLeg("http", proto, nil, opt)
	if err != nil {
		return nil, err
	}
	leg.Handler.Behave = behave
	t.leg = leg
	t.client, _, err = leg.Client()
	return t, err
}

func newNatsTarget(proto string, broker *rig.NatsServer) (*rpcTarget, error) {
	leg, err := e2e.StartLeg("nats", proto, broker, rig.LegOptions{NatsWorkers: 1})
	if err != nil {
		return nil, err
	}
	leg.Handler.Behave = behave
	t := &rpcTarget{name: "nats", proto: proto, leg: leg, limit: 1024 * 1024, async: true}
	t.client, _, err = leg.Client()
	return t, err
}

// limitTransport is a user-written FTransport in front of an unlimited HTTP
// leg: it declares a request size limit through GetRequestSizeLimit - the
// contract FStandardClient enforces while serializing - and does not check
// sizes again itself.
type limitTransport struct {
	frugal.FTransport
	limit uint
	mu    sync.Mutex
	sent  [][]byte
}

func (l *limitTransport) GetRequestSizeLimit() uint { return l.limit }
func (l *limitTransport) Request(ctx frugal.FContext, payload []byte) (thrift.TTransport, error) {
	l.mu.Lock()
	l.sent = append(l.sent, append([]byte(nil), payload...))
	l.mu.Unlock()
	return l.FTransport.Request(ctx, payload)
}
func (l *limitTransport) snapshot() [][]byte {
	l.mu.Lock()
	defer l.mu.Unlock()
	return append([][]byte(nil), l.sent...)
}
func (l *limitTransport) reset() { l.mu.Lock(); l.sent = nil; l.mu.Unlock() }

func newCustomTransportTarget(proto string, limit int) (*rpcTarget, error) {
	leg, err := e2e.StartLeg("http", proto, nil, rig.LegOptions{})
	if err != nil {
		return nil, err
	}
	leg.Handler.Behave = behave
	inner, err := leg.NewClient()
	if err != nil {
		return nil, err
	}
	lt := &limitTransport{FTransport: inner, limit: uint(limit)}
	t := &rpcTarget{name: "custom-transport", proto: proto, leg: leg, limit: limit, custom: lt}
	t.client = mainsvc.NewFFooClient(frugal.NewFServiceProvider(lt, leg.PF))
	return t, nil
}

// publishers ------------------------------------------------------------------

type pubTarget struct {
	noCanary bool
	name     string
	proto    string
	limit    int
	pub      mainsvc.EventsPublisher
	barrier  func() error    // everything published before it has reached the tap when it returns
	frames   func() [][]byte // frames published on the Sent topic since reset
	reset    func()
	stop     func()
}

func (t *pubTarget) publishCase(run *ev.Run, ci caseInfo, hdrBytes int) {
	t.reset()
	ctx := newCtx(normalTimeout)
	id := opidOf(ctx)
	err := doPublish(t.pub, ctx, ci.Shape, ci.Bulk, ci.Fine)
	class := classify(err)
	// canary + barrier: a small publish through the same publisher
	var canaryErr error
	if !t.noCanary {
		if canaryErr = doMarker(t.pub, newCtx(normalTimeout)); canaryErr == nil {
			canaryErr = t.barrier()
		}
	} else {
		// the marker does not fit this limit: a plain barrier
		canaryErr = t.barrier()
		run.Add("canary_not_applicable_limit_below_canary_size", 1)
	}
	frames := framesWithOpid(t.frames(), id)
	run.Add("publishes_observed", 1)
	sfx := t.name + ":" + ci.Proto + ":" + ci.class()
	obs := map[string]interface{}{"outcome": class, "error": errText(err), "frames_at_tap": len(frames)}
	if len(frames) > 0 {
		obs["transmitted_frame_bytes"] = len(frames[0])
	}
	if ci.Measured > ci.Limit {
		run.Add("oversize_publishes", 1)
		switch {
		case len(frames) > 0 || class == "ok":
			run.Violation("C12:oversize-publish-transmitted:"+sfx, fmt.Sprintf("a publish of %d framed bytes (limit %d) was transmitted (outcome %s, %d frame(s) at the tap)", ci.Measured, ci.Limit, class, len(frames)), ci.witness(obs))
		case class != "request-too-large":
			if hdrBytes > ci.Limit {
				run.Violation("C12:oversize-request-wrong-error:limit-below-headers:"+t.name+":"+class,
					fmt.Sprintf("the limit %d is below the size of the frame prefix + header block (%d): the oversize publish fails with %s instead of REQUEST_TOO_LARGE", ci.Limit, hdrBytes, errText(err)), ci.witness(obs))
			} else {
				run.Violation("C12:oversize-publish-wrong-error:"+sfx+":"+class, fmt.Sprintf("an oversize publish (%d > %d) failed with %s instead of a REQUEST_TOO_LARGE transport error", ci.Measured, ci.Limit, errText(err)), ci.witness(obs))
			}
		}
	} else {
		run.Add("within_limit_publishes", 1)
		switch {
		case class != "ok":
			run.Violation("C12:within-limit-publish-rejected:"+sfx+":"+class, fmt.Sprintf("a publish of %d framed bytes within the limit %d failed: %s", ci.Measured, ci.Limit, errText(err)), ci.witness(obs))
		case canaryErr != nil:
		case len(frames) != 1:
			run.Violation("C12:within-limit-publish-lost:"+sfx, fmt.Sprintf("a successful publish within the limit produced %d frames at the tap", len(frames)), ci.witness(obs))
		case len(frames[0]) != ci.Measured:
			run.Inconclusive(fmt.Sprintf("%s: the frame seen on the limited leg (%d) differs from the measurement", ci.key(), len(frames[0])))
		}
	}
	if canaryErr != nil {
		if class != "ok" {
			run.Violation("C12:canary-failed:"+t.name+":"+ci.Proto+":after-"+class, "after the failed publish a small publish through the same publisher fails or is not seen: "+errText(canaryErr), ci.witness(obs))
		} else {
			run.Inconclusive(ci.key() + ": barrier publish failed: " + errText(canaryErr))
		}
	}
}

const sentTopic = "foo.u.Events.Sent"

func newCustomPublisherTarget(proto string, limit int) *pubTarget {
	rec := &recPublisher{limit: uint(limit)}
	t := &pubTarget{name: "custom-publisher", proto: proto, limit: limit}
	t.pub = mainsvc.NewEventsPublisher(frugal.NewFScopeProvider(recPublisherFactory{rec}, nil, rig.ProtocolFactory(proto)))
	t.pub.Open()
	var kept [][]byte
	t.barrier = func() error {
		for _, m := range rec.take() {
			if m.topic == sentTopic {
				kept = append(kept, m.data)
			}
		}
		return nil
	}
	t.frames = func() [][]byte { return kept }
	t.reset = func() { rec.take(); kept = nil }
	t.stop = func() {}
	return t
}

func newNatsPublisherTarget(proto string, broker *rig.NatsServer) (*pubTarget, error) {
	pc, err := broker.Connect()
	if err != nil {
		return nil, err
	}
	tc, err := broker.Connect()
	if err != nil {
		return nil, err
	}
	var mu sync.Mutex
	var all [][]byte
	sub, err := tc.Subscribe("frugal.foo.u.Events.*", func(m *nats.Msg) {
		mu.Lock()
		all = append(all, append([]byte(nil), m.Data...))
		mu.Unlock()
	})
	if err != nil {
		return nil, err
	}
	sub.SetPendingLimits(-1, -1)
	tc.Flush()
	t := &pubTarget{name: "nats-publish", proto: proto, limit: 1024 * 1024}
	t.pub = mainsvc.NewEventsPublisher(frugal.NewFScopeProvider(frugal.NewFNatsPublisherTransportFactory(pc), nil, rig.ProtocolFactory(proto)))
	if err := t.pub.Open(); err != nil {
		return nil, err
	}
	t.barrier = func() error {
		// the marker was published on the same connection after the case's
		// message: once the tap has a Num frame newer than the reset, it has
		// everything before it
		if err := pc.FlushTimeout(10 * time.Second); err != nil {
			return err
		}
		if !waitUntil(10*time.Second, func() bool {
			mu.Lock()
			defer mu.Unlock()
			for _, f := range all {
				if _, payload, err := wire.ParseFrame(f); err == nil {
					if m, err := wire.DecodeMessage(rig.TProtocolFactory(proto), payload); err == nil && m.Name == "Num" {
						return true
					}
				}
			}
			return false
		}) {
			return fmt.Errorf("the marker publish did not reach the tap within 10s")
		}
		return nil
	}
	t.frames = func() [][]byte { mu.Lock(); defer mu.Unlock(); return append([][]byte(nil), all...) }
	t.reset = func() { mu.Lock(); all = nil; mu.Unlock() }
	t.stop = func() { pc.Close(); tc.Close() }
	return t, nil
}

func newStompPublisherTarget(proto string, broker *rig.StompBroker, limit int) (*pubTarget, error) {
	conn, err := broker.Dial()
	if err != nil {
		return nil, err
	}
	prefix := fmt.Sprintf("c12%s%d.", proto, limit)
	dest := "/topic/" + prefix + "frugal." + sentTopic
	t := &pubTarget{name: "stomp-publish", proto: proto, limit: limit}
	f := frugal.NewFStompPublisherTransportFactoryBuilder(conn).WithMaxPublishSize(limit).WithTopicPrefix(prefix).Build()
	t.pub = mainsvc.NewEventsPublisher(frugal.NewFScopeProvider(f, nil, rig.ProtocolFactory(proto)))
	if err := t.pub.Open(); err != nil {
		return nil, err
	}
	base := 0
	t.barrier = func() error {
		// a SEND with a receipt on the same connection: the broker handles a
		// connection's frames in order
		return conn.Send("/topic/c12.barrier", "text/plain", []byte("b"), stomp.SendOpt.Receipt)
	}
	t.frames = func() [][]byte {
		s := broker.Sends(dest)
		if base > len(s) {
			return nil
		}
		return s[base:]
	}
	t.reset = func() { broker.Forget(dest); base = 0 }
	t.stop = func() { conn.Disconnect() }
	return t, nil
}
