package main

// Several large responses, each within NATS' 1 MiB limit, in flight on ONE
// client transport.  "A message within the limit is never rejected" also when
// it has to wait behind another one inside the client: the delivery of the
// first response is held at the yield point registry.dispatch/send.begin (hook,
// build tag verif) until the client connection has read all the other
// responses from the broker, then released.  Every call must return its data.
// No clock decides anything: the hold is released on nats.Conn.Stats().InMsgs.

import (
	"fmt"
	"strconv"
	"sync"
	"sync/atomic"
	"time"

	frugal "github.com/Workiva/frugal/lib/go"
	"github.com/nats-io/nats.go"

	"verif/rig"
	"vh/e2e"
	"vh/gen/mainsvc"
)

// holds: op id -> channel; the delivery goroutine that reaches send.begin for
// that op id waits until the channel is closed.
var (
	holds    sync.Map
	heldNow  sync.Map // op id -> struct{} once the goroutine is parked
	hookOnce sync.Once
)

func installHook() {
	hookOnce.Do(func() {
		frugal.VerifSetHook(func(point string, opid uint64) {
			if point != "send.begin" {
				return
			}
			if ch, ok := holds.Load(opid); ok {
				heldNow.Store(opid, struct{}{})
				select {
				case <-ch.(chan struct{}):
				case <-time.After(30 * time.Second): // never leave the library parked
				}
			}
		})
	})
}

var natsConcSeq uint64

func (s *sweep) natsConcurrent(broker *rig.NatsServer) {
	run := s.run
	installHook()
	fail := func(err error) { run.Inconclusive("nats concurrent-responses leg (" + s.proto + "): " + err.Error()) }
	sconn, err := broker.Connect()
	if err != nil {
		fail(err)
		return
	}
	defer sconn.Close()
	subject := fmt.Sprintf("verif.c12conc.%d", atomic.AddUint64(&natsConcSeq, 1))
	h := &e2e.Handler{Behave: behave}
	var started int64
	h.OnCall = func(*e2e.Call) { atomic.AddInt64(&started, 1) }
	srv := frugal.NewFNatsServerBuilder(sconn, mainsvc.NewFFooProcessor(h), s.m.leg.PF, []string{subject}).WithWorkerCount(4).Build()
	served := make(chan struct{})
	go func() { srv.Serve(); close(served) }()
	defer func() {
		srv.Stop()
		select {
		case <-served:
		case <-time.After(10 * time.Second):
		}
	}()
	if !waitUntil(10*time.Second, func() bool { sconn.Flush(); return broker.HasInterest(subject) }) {
		fail(fmt.Errorf("server did not subscribe"))
		return
	}
	cc, err := broker.Connect()
	if err != nil {
		fail(err)
		return
	}
	defer cc.Close()
	inbox := "_INBOX.c12conc." + subject
	// wire tap on the replies
	tc, err := broker.Connect()
	if err != nil {
		fail(err)
		return
	}
	defer tc.Close()
	var tmu sync.Mutex
	tapped := map[string]int{}
	tsub, _ := tc.Subscribe(inbox+".*", func(m *nats.Msg) {
		id := opidOfFrame(m.Data)
		tmu.Lock()
		tapped[id] = len(m.Data)
		tmu.Unlock()
	})
	tsub.SetPendingLimits(-1, -1)
	tc.Flush()
	tr := frugal.NewFNatsTransport(cc, subject, inbox)
	if err := tr.Open(); err != nil {
		fail(err)
		return
	}
	defer tr.Close()
	cc.Flush()
	client := mainsvc.NewFFooClient(frugal.NewFServiceProvider(tr, s.m.leg.PF))
	if r, err := client.Add(newCtx(normalTimeout), 20, 22); err != nil || r != 42 {
		fail(fmt.Errorf("plain call failed: %v", err))
		return
	}
	for _, sc := range []struct {
		name  string
		sizes []int
	}{{"4x700KB", []int{700000, 700001, 700002, 700003}}, {"2x-just-below-1MiB", []int{mib - 400, mib - 401}}, {"1MiB-then-small-ones", []int{mib - 400, 3000, 5000, 20000}}} {
		base := cc.Stats().InMsgs
		ctxs := make([]frugal.FContext, len(sc.sizes))
		for i := range ctxs {
			ctxs[i] = newCtx(5 * time.Second)
		}
		firstID, _ := strconv.ParseUint(opidOf(ctxs[0]), 10, 64)
		release := make(chan struct{})
		holds.Store(firstID, release)
		type result struct {
			got string
			err error
		}
		results := make([]result, len(sc.sizes))
		var wg sync.WaitGroup
		call := func(i int) {
			defer wg.Done()
			s, err := client.GetBig(ctxs[i], int32(sc.sizes[i]), "x")
			results[i] = result{digest(&mainsvc.Payload{First: &mainsvc.BigFirst{Big: s}}), err}
		}
		// the first call alone, until its response is parked in the client's
		// delivery goroutine ...
		wg.Add(1)
		go call(0)
		parked := waitUntil(15*time.Second, func() bool { _, ok := heldNow.Load(firstID); return ok })
		// ... then the others: their responses are read by the client
		// connection while the first one is still being dispatched
		for i := 1; i < len(sc.sizes); i++ {
			wg.Add(1)
			go call(i)
		}
		allRead := waitUntil(15*time.Second, func() bool { return cc.Stats().InMsgs >= base+uint64(len(sc.sizes)) })
		close(release)
		wg.Wait()
		holds.Delete(firstID)
		run.Eval(1)
		run.Distinct("nats-concurrent-responses:" + s.proto + ":" + sc.name)
		run.Add("nats_concurrent_response_calls", len(sc.sizes))
		if !parked || !allRead {
			run.Inconclusive(fmt.Sprintf("nats concurrent responses (%s, %s): hook reached=%v, all responses read by the client connection=%v", s.proto, sc.name, parked, allRead))
			continue
		}
		for i, r := range results {
			want := digest(&mainsvc.Payload{First: &mainsvc.BigFirst{Big: text(sc.sizes[i])}})
			class := classify(r.err)
			if class == "ok" && r.got == want {
				continue
			}
			id := opidOf(ctxs[i])
			tmu.Lock()
			onWire := tapped[id]
			tmu.Unlock()
			w := map[string]interface{}{"protocol": s.proto, "scenario": sc.name, "response_sizes_requested": sc.sizes, "failed_call_index": i, "outcome": class, "error": errText(r.err),
				"reply_frame_bytes_seen_at_tap": onWire, "client_connection_messages_read": cc.Stats().InMsgs - base,
				"history": "one fNatsTransport, 4-worker FNatsServer; call 0 is made, the delivery of its response is held at registry.dispatch (send.begin) until the client connection has read the responses of the other calls, then released"}
			if class == "timeout" && onWire > 0 && onWire <= mib {
				run.Violation("C12:within-limit-response-lost-in-client:nats:"+s.proto, fmt.Sprintf("the response (%d framed bytes, within the 1 MiB limit) was published and read by the client's connection, yet the caller got TIMED_OUT: it was dropped inside the client while another response was being dispatched", onWire), w)
			} else {
				run.Violation("C12:within-limit-response-rejected:nats-concurrent:"+s.proto+":"+class, "a within-limit response among several in flight on one transport did not reach its caller: "+errText(r.err), w)
			}
		}
		if r, err := client.Add(newCtx(normalTimeout), 20, 22); err != nil || r != 42 {
			run.Violation("C12:canary-failed:nats-concurrent:"+s.proto, "after the concurrent large responses a plain call on the same client fails: "+errText(err), map[string]interface{}{"protocol": s.proto, "scenario": sc.name})
		}
	}
}
