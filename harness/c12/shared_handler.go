package main

// One HTTP handler shared by differently configured clients.  The response
// limit is a per-request wish of the client (header x-frugal-payload-limit):
// what one client asked for must never apply to the request of another.
// Clients: A with response limit L, B without a limit, C with limit 4L; they
// call the same server in turn and then concurrently; the expected outcome of
// every call is a function of the CALLING client's limit and the measured
// response size only.

import (
	"fmt"
	"net/http"
	"net/http/httptest"
	"sync"

	frugal "github.com/Workiva/frugal/lib/go"

	"vh/e2e"
	"vh/gen/mainsvc"
)

type sharedClient struct {
	name  string
	limit int // 0: none
	c     *mainsvc.FFooClient
}

type sharedSize struct {
	name       string
	bulk, fine int
	unframed   int // measured frame - 4: what the handler compares
}

func (s *sweep) sharedHandler(L int) {
	run := s.run
	h := &e2e.Handler{Behave: behave}
	srv := httptest.NewServer(frugal.NewFrugalHandlerFunc(mainsvc.NewFFooProcessor(h), s.m.leg.PF))
	defer srv.Close()
	mk := func(name string, limit int) *sharedClient {
		b := frugal.NewFHTTPTransportBuilder(&http.Client{}, srv.URL)
		if limit > 0 {
			b = b.WithResponseSizeLimit(uint(limit))
		}
		tr := b.Build()
		tr.Open()
		return &sharedClient{name, limit, mainsvc.NewFFooClient(frugal.NewFServiceProvider(tr, s.m.leg.PF))}
	}
	A, B, C := mk("limit-L", L), mk("no-limit", 0), mk("limit-4L", 4*L)
	var sizes []sharedSize
	for _, sp := range []struct {
		name   string
		target int
	}{{"below-L", L - 40}, {"exactly-L", L}, {"between-L-and-4L", 2 * L}, {"above-4L", 4*L + 300}} {
		bulk, fine, got, err := s.m.find("resp", "getbig", sp.target+4)
		if err != nil {
			run.Inconclusive(fmt.Sprintf("shared handler (%s, L=%d): %v", s.proto, L, err))
			return
		}
		sizes = append(sizes, sharedSize{sp.name, bulk, fine, got - 4})
	}
	call := func(cl *sharedClient, sz sharedSize, phase string) {
		got, err := doResponse(cl.c, newCtx(normalTimeout), "getbig", sz.bulk, sz.fine)
		class := classify(err)
		want := "ok"
		if cl.limit > 0 && sz.unframed > cl.limit {
			want = "response-too-large"
		}
		run.Eval(1)
		run.Distinct(fmt.Sprintf("shared-handler:%s:L=%d:%s:%s:%s", s.proto, L, phase, cl.name, sz.name))
		run.Add("shared_handler_calls", 1)
		if class == want && (class != "ok" || got == expectedResponseDigest("getbig", sz.bulk, sz.fine)) {
			return
		}
		run.Violation("C12:shared-handler-wrong-outcome:"+s.proto+":client-"+cl.name+":response-"+sz.name+":got-"+class,
			fmt.Sprintf("one HTTP handler, clients with response limits %d / none / %d calling in turn (%s): the client %q received %s for a response of %d bytes (want %s)", L, 4*L, phase, cl.name, func() string {
				if err != nil {
					return errText(err)
				}
				return "different data"
			}(), sz.unframed, want),
			map[string]interface{}{"protocol": s.proto, "L": L, "phase": phase, "client": cl.name, "client_limit": cl.limit, "response_unframed_bytes": sz.unframed,
				"call": fmt.Sprintf("getBig(%d)", sz.bulk+sz.fine), "sequence": "A=limit L, B=no limit, C=limit 4L on ONE frugal.NewFrugalHandlerFunc handler; sequential order: B A B A B C B C B A C B (sizes cycling), then the three clients concurrently"})
	}
	// sequential: every client after every other one, every size
	order := []*sharedClient{B, A, B, A, B, C, B, C, B, A, C, B, C, A, B}
	for round := 0; round < len(sizes); round++ {
		for i, cl := range order {
			call(cl, sizes[(i+round)%len(sizes)], "sequential")
		}
	}
	// concurrent
	var wg sync.WaitGroup
	for _, cl := range []*sharedClient{A, B, C, B} {
		wg.Add(1)
		go func(cl *sharedClient) {
			defer wg.Done()
			for i := 0; i < 24; i++ {
				call(cl, sizes[i%len(sizes)], "concurrent")
			}
		}(cl)
	}
	wg.Wait()
}
