package main

// Histories at the FTransport level: Request / Oneway are called directly with
// a reference-built frame that is over the transport's limit (it must be
// refused with REQUEST_TOO_LARGE and not transmitted), and then THE SAME
// FContext is used again on the same transport for frames within the limit -
// Frugal allows an FContext to be reused for consecutive requests - which must
// succeed; afterwards the transport's registry must be empty
// (frugal.VerifRegistrySize).  The adapter transports have no limit: there the
// history is the reuse of one FContext and the registry check only.

import (
	"fmt"
	"io"
	"time"

	frugal "github.com/Workiva/frugal/lib/go"
	"github.com/apache/thrift/lib/go/thrift"

	"verif/ev"
	"verif/rig"
	"verif/wire"
	"vh/e2e"
)

// directFrame builds a request frame for ctx with the reference writer:
// add(20, 22) when pad < 0, else echo(small payload, tag of pad bytes).
func directFrame(proto string, ctx frugal.FContext, pad int) []byte {
	hdrs := []wire.Pair{{Name: "_opid", Value: opidOf(ctx)}, {Name: "_cid", Value: fixedCID}, {Name: "_timeout", Value: "9000"}}
	var msg *wire.Message
	if pad < 0 {
		msg = &wire.Message{Name: "add", Type: thrift.CALL, Body: wire.Struct(wire.F(1, wire.I32(20)), wire.F(2, wire.I64(22)))}
	} else {
		small := wire.Struct(wire.F(1, wire.Struct(wire.F(1, wire.Str("r")), wire.F(2, wire.I32(1)), wire.F(3, wire.Bool(false)))))
		msg = &wire.Message{Name: "echo", Type: thrift.CALL, Body: wire.Struct(wire.F(1, small), wire.F(2, wire.Str(text(pad))))}
	}
	b, err := wire.EncodeMessage(rig.TProtocolFactory(proto), msg)
	if err != nil {
		panic(err)
	}
	return wire.BuildFrame(hdrs, b)
}

// directFrameOfSize pads the echo tag until the frame has exactly size bytes
// (nil if the protocol's length encoding jumps over it).
func directFrameOfSize(proto string, ctx frugal.FContext, size int) []byte {
	pad := size - len(directFrame(proto, ctx, 0))
	for i := 0; i < 6 && pad >= 0; i++ {
		f := directFrame(proto, ctx, pad)
		if len(f) == size {
			return f
		}
		pad += size - len(f)
	}
	return nil
}

// replyOK parses what Request returned (headers + message, no size prefix).
func replyOK(proto string, tt thrift.TTransport, wantOpid, method string) error {
	if tt == nil {
		return fmt.Errorf("no reply transport")
	}
	b, err := io.ReadAll(tt)
	if err != nil && len(b) == 0 {
		return err
	}
	pairs, used, err := wire.DecodeHeaders(b)
	if err != nil {
		return fmt.Errorf("reply headers: %v", err)
	}
	h, _ := wire.PairsToMap(pairs)
	if h["_opid"] != wantOpid {
		return fmt.Errorf("reply carries op id %q, want %s", h["_opid"], wantOpid)
	}
	m, err := wire.DecodeMessage(rig.TProtocolFactory(proto), b[used:])
	if err != nil {
		return err
	}
	if m.Type != thrift.REPLY || m.Name != method {
		return fmt.Errorf("reply is (%s, type %d): %s", m.Name, m.Type, m.Body.String())
	}
	if method == "add" {
		if v, ok := m.Body.Get(0); !ok || v.I != 42 {
			return fmt.Errorf("add(20,22) answered %s", m.Body.String())
		}
	}
	return nil
}

type directTarget struct {
	name  string
	proto string
	leg   *e2e.Leg
	tr    frugal.FTransport
	limit int // 0: none
	async bool
}

func newDirectTarget(name, proto string, broker *rig.NatsServer, limit int) (*directTarget, error) {
	opt := rig.LegOptions{}
	kind := name
	switch name {
	case "http":
		opt.HTTPRequestLimit = uint(limit)
	case "nats":
		opt.NatsWorkers = 1
		limit = mib
	default:
		limit = 0
	}
	leg, err := e2e.StartLeg(kind, proto, broker, opt)
	if err != nil {
		return nil, err
	}
	leg.Handler.Behave = behave
	tr, err := leg.NewClient()
	if err != nil {
		leg.Stop()
		return nil, err
	}
	return &directTarget{name: name, proto: proto, leg: leg, tr: tr, limit: limit, async: name == "nats"}, nil
}

// history runs one history; call is "request" or "oneway" (the call that gets
// the oversize frame), over the excess of that frame.
func (t *directTarget) history(run *ev.Run, call string, over int) {
	sfx := t.name + "-transport:" + t.proto + ":" + call
	key := fmt.Sprintf("direct:%s:%s:%s:L=%d:d=%d", t.name, t.proto, call, t.limit, over)
	run.Eval(1)
	run.Distinct(key)
	run.Add("transport_level_histories", 1)
	w := func(extra map[string]interface{}) map[string]interface{} {
		m := map[string]interface{}{"leg": t.name + " FTransport called directly", "protocol": t.proto, "limit": t.limit, "oversize_call": call, "oversize_by": over,
			"history": "Request(ctx1, add) ; " + call + "(ctx2, frame of limit+d bytes) ; Request(ctx2, add) ; Request(ctx2, frame of exactly the limit) ; VerifRegistrySize", "frames": "reference-built: headers _opid/_cid/_timeout, add(20,22) or echo(small, tag padded to size)"}
		for k, v := range extra {
			m[k] = v
		}
		return m
	}
	t.leg.Tap.Reset()
	t.leg.Handler.Reset()
	before := frugal.VerifRegistrySize(t.tr)
	// 1: the transport works
	ctx1 := newCtx(normalTimeout)
	tt, err := t.tr.Request(ctx1, directFrame(t.proto, ctx1, -1))
	if err == nil {
		err = replyOK(t.proto, tt, opidOf(ctx1), "add")
	}
	if err != nil {
		run.Inconclusive(key + ": the plain request before the history failed: " + errText(err))
		return
	}
	ctx2 := newCtx(normalTimeout)
	id2 := opidOf(ctx2)
	// 2: oversize, refused
	if t.limit > 0 {
		big := directFrameOfSize(t.proto, ctx2, t.limit+over)
		if big == nil {
			big = directFrame(t.proto, ctx2, t.limit+over)
		}
		if call == "oneway" {
			err = t.tr.Oneway(ctx2, big)
		} else {
			_, err = t.tr.Request(ctx2, big)
		}
		if class := classify(err); class != "request-too-large" {
			run.Violation("C12:oversize-direct-call-not-refused:"+sfx+":"+class, fmt.Sprintf("%s with a %d-byte frame (limit %d) directly on the transport: %s instead of REQUEST_TOO_LARGE", call, len(big), t.limit, errText(err)), w(nil))
			return
		}
	}
	// 3: same FContext, within the limit
	tt, err = t.tr.Request(ctx2, directFrame(t.proto, ctx2, -1))
	if err == nil {
		err = replyOK(t.proto, tt, id2, "add")
	}
	if err != nil {
		run.Violation("C12:context-unusable-after-oversize:"+sfx+":"+classify(err), "after the refused oversize "+call+" a request within the limit with the SAME FContext on the same transport fails: "+errText(err), w(map[string]interface{}{"step": 3, "error": errText(err), "registry_size": frugal.VerifRegistrySize(t.tr)}))
	}
	// 4: same FContext, exactly at the limit
	if t.limit > 0 {
		if f := directFrameOfSize(t.proto, ctx2, t.limit); f != nil {
			tt, err = t.tr.Request(ctx2, f)
			if err == nil {
				err = replyOK(t.proto, tt, id2, "echo")
			}
			if err != nil {
				run.Violation("C12:within-limit-request-rejected:"+sfx+":"+classify(err), fmt.Sprintf("a frame of exactly the limit (%d bytes), same FContext, after the refused oversize %s: %s", t.limit, call, errText(err)), w(map[string]interface{}{"step": 4}))
			}
		}
	}
	// the oversize frame never reached the wire
	if t.limit > 0 {
		if t.async {
			waitUntil(5*time.Second, func() bool {
				reqs, _ := t.leg.Tap.Snapshot()
				return len(framesWithOpid(reqs, id2)) >= 1
			})
		}
		reqs, _ := t.leg.Tap.Snapshot()
		for _, f := range framesWithOpid(reqs, id2) {
			if len(f) > t.limit {
				run.Violation("C12:oversize-request-transmitted:"+sfx, fmt.Sprintf("the refused %d-byte frame is on the wire", len(f)), w(nil))
			}
		}
	}
	// 5: nothing stays registered
	if n := frugal.VerifRegistrySize(t.tr); n > 0 && n > before {
		run.Violation("C12:registry-entry-leaked-after-oversize:"+sfx, fmt.Sprintf("%d op id(s) are registered on the transport after all calls of the history returned (%d before it)", n, before), w(map[string]interface{}{"registry_size": n, "registry_size_before": before}))
	} else if n == 0 {
		run.Add("registry_empty_after_history", 1)
	}
}

func (s *sweep) direct(broker *rig.NatsServer, limits []int) {
	run := s.run
	type tgt struct {
		name  string
		limit int
	}
	targets := []tgt{{"nats", 0}, {"pipe", 0}, {"tcp", 0}}
	for _, L := range limits {
		if L >= 200 {
			targets = append(targets, tgt{"http", L})
		}
	}
	for _, tg := range targets {
		t, err := newDirectTarget(tg.name, s.proto, broker, tg.limit)
		if err != nil {
			run.Inconclusive("transport-level leg " + tg.name + ": " + err.Error())
			continue
		}
		for _, call := range []string{"request", "oneway"} {
			for _, over := range []int{1, 3000} {
				t.history(run, call, over)
			}
		}
		t.leg.Stop()
	}
}
