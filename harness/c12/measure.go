package main

// Measuring framed sizes.  F (request / publish) and R (response) are never
// computed: the same message is first sent through an unlimited leg of the rig
// (HTTP for calls, a recording publisher transport for publishes) and the
// frame length is read at the wire tap.  Headers have constant width (fixed
// correlation id, 7-digit op ids, 4-digit timeouts), so the size of a message
// is the same on every leg.

import (
	"fmt"
	"sync"

	frugal "github.com/Workiva/frugal/lib/go"

	"verif/rig"
	"vh/e2e"
	"vh/gen/base"
	"vh/gen/mainsvc"
)

// recPublisher is an FPublisherTransport that records what it is given.
type recPublisher struct {
	limit uint
	mu    sync.Mutex
	open  bool
	sent  []pubMsg
}

type pubMsg struct {
	topic string
	data  []byte
}

func (r *recPublisher) Open() error               { r.open = true; return nil }
func (r *recPublisher) Close() error              { r.open = false; return nil }
func (r *recPublisher) IsOpen() bool              { return r.open }
func (r *recPublisher) GetPublishSizeLimit() uint { return r.limit }
func (r *recPublisher) Publish(topic string, data []byte) error {
	r.mu.Lock()
	r.sent = append(r.sent, pubMsg{topic, append([]byte(nil), data...)})
	r.mu.Unlock()
	return nil
}
func (r *recPublisher) take() []pubMsg {
	r.mu.Lock()
	defer r.mu.Unlock()
	s := r.sent
	r.sent = nil
	return s
}

type recPublisherFactory struct{ t *recPublisher }

func (f recPublisherFactory) GetTransport() frugal.FPublisherTransport { return f.t }

type measurer struct {
	proto  string
	leg    *e2e.Leg
	client *mainsvc.FFooClient
	tr     frugal.FTransport
	rec    *recPublisher
	pub    mainsvc.EventsPublisher
	mu     sync.Mutex
	cache  map[string]int
	sends  int
}

func newMeasurer(proto string) (*measurer, error) {
	leg, err := e2e.StartLeg("http", proto, nil, rig.LegOptions{})
	if err != nil {
		return nil, err
	}
	leg.Handler.Behave = behave
	c, tr, err := leg.Client()
	if err != nil {
		return nil, err
	}
	m := &measurer{proto: proto, leg: leg, client: c, tr: tr, cache: map[string]int{}, rec: &recPublisher{}}
	m.pub = mainsvc.NewEventsPublisher(frugal.NewFScopeProvider(recPublisherFactory{m.rec}, nil, leg.PF))
	if err := m.pub.Open(); err != nil {
		return nil, err
	}
	return m, nil
}

func (m *measurer) stop() { m.leg.Stop() }

// the calls whose sizes are measured and limited ------------------------------

func doRequest(c *mainsvc.FFooClient, ctx frugal.FContext, shape string, bulk, fine int) (*mainsvc.Payload, error) {
	if shape == "tag" {
		return c.Echo(ctx, smallPayload(), text(bulk+fine))
	}
	if shape == "headers-alone" {
		ctx.AddRequestHeader(bigHeader, text(bulk+fine))
	}
	return c.Echo(ctx, shapes[shape].build(bulk, fine), "req")
}

// doResponse returns a digest of what came back.
func doResponse(c *mainsvc.FFooClient, ctx frugal.FContext, shape string, bulk, fine int) (string, error) {
	if shape == "getbig" {
		s, err := c.GetBig(ctx, int32(bulk+fine), "x")
		if err != nil {
			return "", err
		}
		return digest(&mainsvc.Payload{First: &mainsvc.BigFirst{Big: s}}), nil
	}
	p, err := c.Echo(ctx, smallPayload(), fmt.Sprintf("resp|%s|%d|%d", shape, bulk, fine))
	if err != nil {
		return "", err
	}
	if shape == "headers-alone" {
		// the big response header must have arrived whole
		if v, _ := ctx.ResponseHeader(bigHeader); v != text(bulk+fine) {
			return fmt.Sprintf("response header %s has %d bytes, want %d", bigHeader, len(v), bulk+fine), nil
		}
	}
	return digest(p), nil
}

func expectedResponseDigest(shape string, bulk, fine int) string {
	if shape == "getbig" {
		return digest(&mainsvc.Payload{First: &mainsvc.BigFirst{Big: text(bulk + fine)}})
	}
	return digest(shapes[shape].build(bulk, fine))
}

func doPublish(p mainsvc.EventsPublisher, ctx frugal.FContext, shape string, bulk, fine int) error {
	return p.PublishSent(ctx, "u", shapes[shape].build(bulk, fine))
}

func doMarker(p mainsvc.EventsPublisher, ctx frugal.FContext) error {
	return p.PublishNum(ctx, "u", &base.Thing{AnID: 1, AString: "marker"})
}

// size measures the framed size of one message in direction dir
// ("req", "resp", "pub").
func (m *measurer) size(dir, shape string, bulk, fine int) (int, error) {
	key := fmt.Sprintf("%s|%s|%d|%d", dir, shape, bulk, fine)
	m.mu.Lock()
	defer m.mu.Unlock()
	if v, ok := m.cache[key]; ok {
		return v, nil
	}
	m.sends++
	var n int
	switch dir {
	case "req", "resp":
		m.leg.Tap.Reset()
		m.leg.Handler.Reset()
		ctx := newCtx(normalTimeout)
		var err error
		if dir == "req" {
			_, err = doRequest(m.client, ctx, shape, bulk, fine)
		} else {
			_, err = doResponse(m.client, ctx, shape, bulk, fine)
		}
		if err != nil {
			return 0, fmt.Errorf("measuring %s through the unlimited leg failed: %v", key, err)
		}
		reqs, reps := m.leg.Tap.Snapshot()
		if len(reqs) != 1 || len(reps) != 1 {
			return 0, fmt.Errorf("measuring %s: tap saw %d requests and %d replies", key, len(reqs), len(reps))
		}
		if dir == "req" {
			n = len(reqs[0])
		} else {
			n = len(reps[0])
		}
	case "pub":
		m.rec.take()
		if err := doPublish(m.pub, newCtx(normalTimeout), shape, bulk, fine); err != nil {
			return 0, fmt.Errorf("measuring %s through the unlimited publisher failed: %v", key, err)
		}
		got := m.rec.take()
		if len(got) != 1 {
			return 0, fmt.Errorf("measuring %s: %d publishes recorded", key, len(got))
		}
		n = len(got[0].data)
	}
	m.cache[key] = n
	return n, nil
}

// headerBytes is the size of the frame-size prefix plus the header block of a
// request in direction dir (measured on a minimal message).
func (m *measurer) headerBytes(dir string) int {
	shape := "first"
	m.mu.Lock()
	defer m.mu.Unlock()
	switch dir {
	case "pub":
		m.rec.take()
		if doPublish(m.pub, newCtx(normalTimeout), shape, 0, 0) != nil {
			return 0
		}
		got := m.rec.take()
		if len(got) == 1 {
			return frameHeaderBytes(got[0].data)
		}
	default:
		m.leg.Tap.Reset()
		if _, err := doRequest(m.client, newCtx(normalTimeout), shape, 0, 0); err != nil {
			return 0
		}
		reqs, _ := m.leg.Tap.Snapshot()
		if len(reqs) == 1 {
			return frameHeaderBytes(reqs[0])
		}
	}
	return 0
}

// find looks for (bulk, fine) whose measured size is target; it returns the
// size actually measured (equal to target unless the protocol's encoding jumps
// over it).
func (m *measurer) find(dir, shape string, target int) (bulk, fine, got int, err error) {
	base, err := m.size(dir, shape, 0, 0)
	if err != nil {
		return 0, 0, 0, err
	}
	if target <= base {
		return 0, 0, base, nil
	}
	slope := 1.0
	bulk = target - base
	for iter := 0; iter < 16; iter++ {
		if bulk < 0 {
			bulk = 0
		}
		f0, err := m.size(dir, shape, bulk, 0)
		if err != nil {
			return 0, 0, 0, err
		}
		gap := target - f0
		if gap >= 0 && gap <= 110 {
			f, err := m.size(dir, shape, bulk, gap)
			if err != nil {
				return 0, 0, 0, err
			}
			if f == target || iter > 10 {
				return bulk, gap, f, nil
			}
			// an encoding jump between fine=0 and fine=gap: move bulk a little
			bulk -= 13
			continue
		}
		if bulk > 0 && f0 > base {
			slope = float64(f0-base) / float64(bulk)
		}
		step := int(float64(gap-40) / slope)
		if step == 0 {
			step = -1
		}
		bulk += step
	}
	f, err := m.size(dir, shape, bulk, 0)
	return bulk, 0, f, err
}

// canarySizes measures the framed sizes of the canary call (request, reply)
// and of the marker publish: a canary that cannot fit the limit itself proves
// nothing and is not made.
func (m *measurer) canarySizes() (req, resp, marker int) {
	m.mu.Lock()
	defer m.mu.Unlock()
	m.leg.Tap.Reset()
	if r, err := m.client.Add(newCtx(normalTimeout), 20, 22); err == nil && r == 42 {
		reqs, reps := m.leg.Tap.Snapshot()
		if len(reqs) == 1 && len(reps) == 1 {
			req, resp = len(reqs[0]), len(reps[0])
		}
	}
	m.rec.take()
	if doMarker(m.pub, newCtx(normalTimeout)) == nil {
		if got := m.rec.take(); len(got) == 1 {
			marker = len(got[0].data)
		}
	}
	return
}

// headerBlockOf measures frame prefix + header block of the headers-alone
// message with an EMPTY big header, in direction "req" or "resp".
func (m *measurer) headerBlockOf(dir string) int {
	m.mu.Lock()
	defer m.mu.Unlock()
	m.leg.Tap.Reset()
	ctx := newCtx(normalTimeout)
	var err error
	if dir == "req" {
		_, err = doRequest(m.client, ctx, "headers-alone", 0, 0)
	} else {
		_, err = doResponse(m.client, ctx, "headers-alone", 0, 0)
	}
	if err != nil {
		return 0
	}
	reqs, reps := m.leg.Tap.Snapshot()
	if dir == "req" && len(reqs) == 1 {
		return frameHeaderBytes(reqs[0])
	}
	if dir != "req" && len(reps) == 1 {
		return frameHeaderBytes(reps[0])
	}
	return 0
}
