// C12 monitor: size limits are enforced exactly and reported, never silently
// (DESIGN.md §4 C12).  Messages go through the emitted client / publisher; the
// framed sizes are measured on an unlimited leg; the expected outcome is a pure
// function of (measured size, limit).
package main

import (
	"fmt"
	"math"
	"math/rand"
	"os"
	"sort"
	"sync"

	"verif/ev"
	"verif/rig"
)

const mib = 1024 * 1024

type sweep struct {
	run                     *ev.Run
	proto                   string
	m                       *measurer
	rng                     *rand.Rand
	hdrReq                  int
	hdrPub                  int
	hdrAlone                map[string]int
	canReq, canResp, canPub int
	deltas                  []int
	natsDs                  []int
	natsReq                 []string
	natsRsp                 []string
	natsPub                 []string
}

// targetsFor lists the framed sizes tried against limit L.
func (s *sweep) targetsFor(L int) []int {
	var out []int
	for _, d := range s.deltas {
		out = append(out, L+d)
	}
	return out
}

// each runs fn for every distinct message found for the targets.
func (s *sweep) each(leg, dir, mdir, shape string, L int, targets []int, fn func(ci caseInfo)) {
	seen := map[[2]int]bool{}
	for _, tgt := range targets {
		if tgt < 1 {
			continue
		}
		bulk, fine, got, err := s.m.find(mdir, shape, tgt)
		if err != nil {
			s.run.Inconclusive(fmt.Sprintf("%s/%s %s %s target %d: %v", leg, s.proto, dir, shape, tgt, err))
			continue
		}
		if seen[[2]int{bulk, fine}] {
			continue
		}
		seen[[2]int{bulk, fine}] = true
		ci := caseInfo{Leg: leg, Proto: s.proto, Dir: dir, Shape: shape, Limit: L, Bulk: bulk, Fine: fine, Measured: got, Delta: got - L}
		if shape == "headers-alone" {
			// frame prefix + header block alone: the measured block of the same
			// message with an empty big header, plus the header's value
			h0 := s.hdrAlone[mdir]
			if h0 == 0 {
				h0 = s.m.headerBlockOf(mdir)
				s.hdrAlone[mdir] = h0
			}
			if h0+bulk+fine <= L {
				ci.Class = "headers-plus-message"
			}
		}
		s.run.Eval(1)
		s.run.Distinct(ci.key())
		if ci.Delta >= -1 && ci.Delta <= 1 {
			s.run.Sample(ci)
		}
		fn(ci)
	}
}

func (s *sweep) limit(L int, stompBroker *rig.StompBroker) {
	run := s.run
	fail := func(what string, err error) {
		run.Inconclusive(fmt.Sprintf("%s (%s, limit %d): %v", what, s.proto, L, err))
	}
	targets := s.targetsFor(L)
	// HTTP request limit
	if t, err := newHTTPTarget(s.proto, "request", L); err != nil {
		fail("http leg", err)
	} else {
		t.noCanary = s.canReq > L
		for _, sh := range reqShapes {
			s.each("http", "request", "req", sh, L, targets, func(ci caseInfo) { t.requestCase(run, ci, s.hdrReq) })
		}
		t.stop()
	}
	s.httpResponse(L, respShapes)
	// a user-written FTransport that relies on the limit it declares
	if t, err := newCustomTransportTarget(s.proto, L); err != nil {
		fail("custom transport leg", err)
	} else {
		t.noCanary = s.canReq > L
		for _, sh := range reqShapes {
			s.each("custom-transport", "request", "req", sh, L, targets, func(ci caseInfo) { t.requestCase(run, ci, s.hdrReq) })
		}
		t.stop()
	}
	// publishers: STOMP maxPublishSize and a user-written publisher transport
	if stompBroker != nil {
		if t, err := newStompPublisherTarget(s.proto, stompBroker, L); err != nil {
			fail("stomp publisher", err)
		} else {
			t.noCanary = s.canPub > L
			for _, sh := range pubShapes {
				s.each("stomp-publish", "publish", "pub", sh, L, targets, func(ci caseInfo) { t.publishCase(run, ci, s.hdrPub) })
			}
			t.stop()
		}
	}
	t := newCustomPublisherTarget(s.proto, L)
	t.noCanary = s.canPub > L
	for _, sh := range pubShapes {
		s.each("custom-publisher", "publish", "pub", sh, L, targets, func(ci caseInfo) { t.publishCase(run, ci, s.hdrPub) })
	}
}

// httpResponse: the client-requested response limit (x-frugal-payload-limit),
// which the handler compares with the UNFRAMED response: the sweep is centred
// on framed size L+4 so that unframed sizes L-8..L+8 are all hit, and the
// expected outcome is exact (no unconstrained band).
func (s *sweep) httpResponse(L int, shapeNames []string) {
	run := s.run
	var targets []int
	for _, tg := range s.targetsFor(L) {
		targets = append(targets, tg+4)
	}
	t, err := newHTTPTarget(s.proto, "response", L)
	if err != nil {
		run.Inconclusive(fmt.Sprintf("http leg (%s, limit %d): %v", s.proto, L, err))
		return
	}
	t.noCanary = s.canResp-4 > L
	for _, sh := range shapeNames {
		s.each("http", "response", "resp", sh, L, targets, func(ci caseInfo) { t.responseCase(run, ci) })
	}
	t.stop()
}

func (s *sweep) nats(broker *rig.NatsServer) {
	run := s.run
	var targets []int
	for _, d := range s.natsDs {
		targets = append(targets, mib+d)
	}
	t, err := newNatsTarget(s.proto, broker)
	if err != nil {
		run.Inconclusive("nats leg: " + err.Error())
		return
	}
	for _, sh := range s.natsReq {
		s.each("nats", "request", "req", sh, mib, targets, func(ci caseInfo) { t.requestCase(run, ci, s.hdrReq) })
	}
	for _, sh := range s.natsRsp {
		s.each("nats", "response", "resp", sh, mib, targets, func(ci caseInfo) { t.responseCase(run, ci) })
	}
	t.stop()
	p, err := newNatsPublisherTarget(s.proto, broker)
	if err != nil {
		run.Inconclusive("nats publisher: " + err.Error())
		return
	}
	for _, sh := range s.natsPub {
		s.each("nats-publish", "publish", "pub", sh, mib, targets, func(ci caseInfo) { p.publishCase(run, ci, s.hdrPub) })
	}
	p.stop()
}

func main() {
	rig.Quiet()
	run := ev.New("C12", ev.ArgTier(), "fault_enumeration")
	run.Rule("a case is one message (shape: large string first / binary in the middle / string last / map container / last call argument / string result; protocol) whose framed size, MEASURED at the wire tap of an unlimited leg, lies at limit-8..limit+8 (step 1) or far from it, sent through a leg with that limit: HTTP request limit, HTTP client-requested response limit (defined on the unframed response: measured frame minus 4; also at the fixed limits 1000, 1001, 1002, 4096 = every residue mod 3), one HTTP handler shared by clients with different response limits (sequentially and concurrently), FTransport-level histories reusing the FContext of a refused request, NATS' fixed 1 MiB (request, server response, publish; broker with max_payload 1 MiB), STOMP maxPublishSize, and user-written transports that only declare a limit. Also the METHOD NAME as the large part: requests within the limit for an unknown method whose name is 64 B .. just below / at / above half of the server's output limit .. request frame at the request limit (NATS, bounded 1 MiB output; pipe and HTTP as controls) must get an error reply (UNKNOWN_METHOD or RESPONSE_TOO_LARGE), never be silently lost. Distinct = (leg, protocol, direction, shape, limit, size-limit). After every failure a canary call / publish on the same client and server must succeed.")
	run.Assume("the wire taps of the rig (HTTP round tripper, NATS subscriptions, STOMP broker), the embedded nats-server and net/http; header widths are constant by construction (fixed cid, 7-digit op ids, 4-digit timeouts), checked by comparing the frame length on the limited leg with the measurement")

	natsBroker, err := rig.StartNatsMaxPayload(mib)
	if err != nil {
		run.Inconclusive("cannot start the embedded nats-server: " + err.Error())
		os.Exit(run.Finish())
	}
	defer natsBroker.Stop()
	stompBroker, err := rig.StartStompBroker()
	if err != nil {
		run.Set("stomp", "no broker: "+err.Error())
		stompBroker = nil
	} else {
		defer stompBroker.Stop()
	}

	// limits: 64 and 65536 are the ends of the documented sweep range
	lrng := run.Rand("limits")
	logUniform := func(lo, hi float64) int {
		return int(math.Exp(math.Log(lo) + lrng.Float64()*(math.Log(hi)-math.Log(lo))))
	}
	limits := []int{64, logUniform(150, 3000), logUniform(3000, 65536)}
	deltas := []int{}
	for d := -8; d <= 8; d++ {
		deltas = append(deltas, d)
	}
	if run.Thorough() {
		limits = []int{64, 65536}
		for len(limits) < 30 {
			limits = append(limits, logUniform(64, 65536))
		}
	}
	sort.Ints(limits)
	run.Set("limits", limits)

	var wg sync.WaitGroup
	for _, proto := range rig.Protocols {
		wg.Add(1)
		go func(proto string) {
			defer wg.Done()
			m, err := newMeasurer(proto)
			if err != nil {
				run.Inconclusive("measuring leg: " + err.Error())
				return
			}
			defer m.stop()
			s := &sweep{run: run, proto: proto, m: m, rng: run.Rand("sweep-" + proto), hdrAlone: map[string]int{}}
			s.hdrReq = m.headerBytes("req")
			s.hdrPub = m.headerBytes("pub")
			s.canReq, s.canResp, s.canPub = m.canarySizes()
			s.deltas = append(append([]int(nil), deltas...), -(200 + s.rng.Intn(2000)), 300+s.rng.Intn(3000), 20000+s.rng.Intn(80000))
			if run.Thorough() {
				s.natsDs = []int{-9, -2, -1, 0, 1, 2, 3, 4, 5, 9, 70000}
				s.natsReq, s.natsRsp, s.natsPub = reqShapes, respShapes, pubShapes
			} else {
				s.natsDs = []int{-1, 0, 1, 3, 5000}
				s.natsReq = []string{"first", "last", "tag", "headers-alone"}
				s.natsRsp = []string{"first", "last", "getbig", "headers-alone"}
				s.natsPub = []string{"mid", "last"}
			}
			for _, L := range limits {
				s.limit(L, stompBroker)
			}
			// every residue of the limit modulo 3 (base64 groups)
			for _, L := range []int{1000, 1001, 1002, 4096} {
				s.httpResponse(L, []string{"getbig", "first", "last", "headers-alone"})
				s.sharedHandler(L)
				s.serverSideLimit(L)
			}
			s.nats(natsBroker)
			s.natsConcurrent(natsBroker)
			s.slim(natsBroker)
			s.direct(natsBroker, limits)
			s.unknownMethod(natsBroker)
			run.Add("measurement_sends", m.sends)
		}(proto)
	}
	wg.Wait()
	os.Exit(run.Finish())
}
