package main

// The same limits against code emitted with the generator's "slim" option:
// there every struct-typed field (a nested struct, the union inside the result
// struct, the elements of a container of structs) is written through the
// runtime's helpers (frugal.WriteStructWithContext ...), so a limit that is
// crossed INSIDE a nested struct has to travel through them and must still
// reach the caller as REQUEST_TOO_LARGE / RESPONSE_TOO_LARGE.  Sizes are
// measured (decoded HTTP bodies on an unlimited leg of the same code).

import (
	"bytes"
	"encoding/base64"
	"fmt"
	"io"
	"net/http"
	"net/http/httptest"
	"sort"
	"strconv"
	"strings"
	"sync"
	"sync/atomic"
	"time"

	frugal "github.com/Workiva/frugal/lib/go"

	"verif/rig"
	slimbase "vh/gen/slim/base"
	slimsvc "vh/gen/slim/mainsvc"
)

type slimHandler struct{ calls int64 }

func (h *slimHandler) BasePing(frugal.FContext) error { return nil }
func (h *slimHandler) EchoThing(_ frugal.FContext, t *slimbase.Thing) (*slimbase.Thing, error) {
	return t, nil
}
func (h *slimHandler) Add(_ frugal.FContext, a int32, b int64) (int64, error) {
	return int64(a) + b, nil
}
func (h *slimHandler) Echo(_ frugal.FContext, p *slimsvc.Payload, tag string) (*slimsvc.Payload, error) {
	atomic.AddInt64(&h.calls, 1)
	if parts := strings.Split(tag, "|"); len(parts) == 3 && parts[0] == "resp" {
		n, _ := strconv.Atoi(parts[2])
		return slimPayload(parts[1], n), nil
	}
	return slimPayload("first", 1), nil
}
func (h *slimHandler) GetBig(_ frugal.FContext, size int32, _ string) (string, error) {
	return text(int(size)), nil
}
func (h *slimHandler) Fire(frugal.FContext, string) error { return nil }
func (h *slimHandler) Nothing(frugal.FContext) error      { return nil }
func (h *slimHandler) Things(_ frugal.FContext, m map[string]*slimbase.Thing, ids map[int32]bool) ([]*slimbase.Thing, error) {
	atomic.AddInt64(&h.calls, 1)
	if len(ids) == 1 {
		for n := range ids { // "answer with n things"
			return slimThings(int(n)), nil
		}
	}
	return nil, nil
}
func (h *slimHandler) NextColor(_ frugal.FContext, c slimbase.Color) (slimbase.Color, error) {
	return c, nil
}
func (h *slimHandler) Blob(_ frugal.FContext, b []byte) ([]byte, error) { return b, nil }

var slimShapes = []string{"first", "mid", "last", "map", "things"}

// slimPayload: the large part lives inside a struct nested in the union.
func slimPayload(shape string, n int) *slimsvc.Payload {
	switch shape {
	case "mid":
		return &slimsvc.Payload{Mid: &slimsvc.BigMid{N: 7, Big: []byte(text(n)), Tail: "t"}}
	case "last":
		return &slimsvc.Payload{Last: &slimsvc.BigLast{N: 7, Nums: []int64{1, 2}, Big: text(n)}}
	case "map":
		m := map[string]string{}
		for i := 0; i*24 < n; i++ {
			m[fmt.Sprintf("k%05d", i)] = "0123456789"
		}
		m["fine"] = text(n % 24)
		return &slimsvc.Payload{Bmap: &slimsvc.BigMap{N: 7, M: m}}
	}
	return &slimsvc.Payload{First: &slimsvc.BigFirst{Big: text(n), N: 7, Flag: true}}
}

// slimThings: a container of structs of about n bytes.
func slimThings(n int) []*slimbase.Thing {
	var out []*slimbase.Thing
	for i := 0; i*40 < n; i++ {
		out = append(out, &slimbase.Thing{AnID: int32(i), AString: "0123456789abcdef", At: slimbase.Stamp(i)})
	}
	out = append(out, &slimbase.Thing{AString: text(n % 40)})
	return out
}

func slimDigest(p *slimsvc.Payload) string {
	switch {
	case p == nil:
		return "nil"
	case p.First != nil:
		return fmt.Sprintf("first:%d:%d", len(p.First.Big), p.First.N)
	case p.Mid != nil:
		return fmt.Sprintf("mid:%d:%s", len(p.Mid.Big), p.Mid.Tail)
	case p.Last != nil:
		return fmt.Sprintf("last:%d:%v", len(p.Last.Big), p.Last.Nums)
	case p.Bmap != nil:
		ks := make([]string, 0, len(p.Bmap.M))
		for k, v := range p.Bmap.M {
			ks = append(ks, k+"="+fmt.Sprint(len(v)))
		}
		sort.Strings(ks)
		return fmt.Sprintf("map:%d:%d", len(ks), len(strings.Join(ks, ",")))
	}
	return "empty"
}

// sizeTap measures the decoded request / response bodies of an HTTP client.
type sizeTap struct {
	mu       sync.Mutex
	req, rsp int
	posts    int
}

func (t *sizeTap) RoundTrip(r *http.Request) (*http.Response, error) {
	b, _ := io.ReadAll(r.Body)
	r.Body.Close()
	r.Body = io.NopCloser(bytes.NewReader(b))
	d, _ := base64.StdEncoding.DecodeString(string(b))
	resp, err := http.DefaultTransport.RoundTrip(r)
	if err != nil {
		return resp, err
	}
	rb, _ := io.ReadAll(resp.Body)
	resp.Body.Close()
	resp.Body = io.NopCloser(bytes.NewReader(rb))
	rd, _ := base64.StdEncoding.DecodeString(string(rb))
	t.mu.Lock()
	t.req, t.rsp, t.posts = len(d), len(rd), t.posts+1
	t.mu.Unlock()
	return resp, nil
}

type slimRig struct {
	proto   string
	pf      *frugal.FProtocolFactory
	h       *slimHandler
	srv     *httptest.Server
	tap     *sizeTap
	measure *slimsvc.FFooClient
}

func (r *slimRig) client(limit int, tap *sizeTap) *slimsvc.FFooClient {
	hc := &http.Client{}
	if tap != nil {
		hc.Transport = tap
	}
	b := frugal.NewFHTTPTransportBuilder(hc, r.srv.URL)
	if limit > 0 {
		b = b.WithRequestSizeLimit(uint(limit))
	}
	tr := b.Build()
	tr.Open()
	return slimsvc.NewFFooClient(frugal.NewFServiceProvider(tr, r.pf))
}

// callReq / callResp: the calls whose sizes are swept.
func slimCallReq(c *slimsvc.FFooClient, ctx frugal.FContext, shape string, n int) error {
	if shape == "things" {
		m := map[string]*slimbase.Thing{}
		for i, t := range slimThings(n) {
			m[fmt.Sprintf("k%05d", i)] = t
		}
		_, err := c.Things(ctx, m, nil)
		return err
	}
	_, err := c.Echo(ctx, slimPayload(shape, n), "req")
	return err
}

func slimCallResp(c *slimsvc.FFooClient, ctx frugal.FContext, shape string, n int) (string, error) {
	if shape == "things" {
		r, err := c.Things(ctx, nil, map[int32]bool{int32(n): true})
		return fmt.Sprint(len(r)), err
	}
	p, err := c.Echo(ctx, slimPayload("first", 1), fmt.Sprintf("resp|%s|%d", shape, n))
	return slimDigest(p), err
}

func slimWantResp(shape string, n int) string {
	if shape == "things" {
		return fmt.Sprint(len(slimThings(n)))
	}
	return slimDigest(slimPayload(shape, n))
}

// sizeOf measures the framed size of the request (dir "req") or the response.
func (r *slimRig) sizeOf(dir, shape string, n int) (int, error) {
	ctx := newCtx(normalTimeout)
	var err error
	if dir == "req" {
		err = slimCallReq(r.measure, ctx, shape, n)
	} else {
		_, err = slimCallResp(r.measure, ctx, shape, n)
	}
	if err != nil {
		return 0, err
	}
	r.tap.mu.Lock()
	defer r.tap.mu.Unlock()
	if dir == "req" {
		return r.tap.req, nil
	}
	return r.tap.rsp, nil
}

// around returns parameter values whose measured sizes straddle limit: the
// largest n with size <= limit, its neighbours, and one far above.
func (r *slimRig) around(dir, shape string, limit int) (map[int]int, error) {
	lo, hi := 0, 2*limit+64
	s0, err := r.sizeOf(dir, shape, 0)
	if err != nil {
		return nil, err
	}
	out := map[int]int{0: s0}
	if s0 > limit {
		return out, nil
	}
	for lo < hi { // largest n with size(n) <= limit (sizes are monotone in n)
		mid := (lo + hi + 1) / 2
		sz, err := r.sizeOf(dir, shape, mid)
		if err != nil {
			return nil, err
		}
		if sz <= limit {
			lo = mid
		} else {
			hi = mid - 1
		}
	}
	for _, n := range []int{lo - 1, lo, lo + 1, lo + 2, lo + 700} {
		if n < 0 {
			continue
		}
		sz, err := r.sizeOf(dir, shape, n)
		if err != nil {
			return nil, err
		}
		out[n] = sz
	}
	return out, nil
}

func (s *sweep) slim(broker *rig.NatsServer) {
	run := s.run
	r := &slimRig{proto: s.proto, pf: rig.ProtocolFactory(s.proto), h: &slimHandler{}, tap: &sizeTap{}}
	r.srv = httptest.NewServer(frugal.NewFrugalHandlerFunc(slimsvc.NewFFooProcessor(r.h), r.pf))
	defer r.srv.Close()
	r.measure = r.client(0, r.tap)
	// request side: HTTP request limit (client-side serialization limit)
	for _, L := range []int{1500, 4096} {
		limited, ltap := (*slimsvc.FFooClient)(nil), &sizeTap{}
		limited = r.client(L, ltap)
		for _, shape := range slimShapes {
			cases, err := r.around("req", shape, L)
			if err != nil {
				run.Inconclusive(fmt.Sprintf("slim request sweep (%s, %s, L=%d): %v", s.proto, shape, L, err))
				continue
			}
			for n, F := range cases {
				before, posts := atomic.LoadInt64(&r.h.calls), ltap.posts
				err := slimCallReq(limited, newCtx(normalTimeout), shape, n)
				class := classify(err)
				transmitted := ltap.posts != posts || atomic.LoadInt64(&r.h.calls) != before
				run.Eval(1)
				run.Distinct(fmt.Sprintf("http-slim:%s:request:%s:L=%d:d=%d", s.proto, shape, L, F-L))
				run.Add("slim_generated_code_cases", 1)
				w := map[string]interface{}{"leg": "http, code emitted with -gen go:slim", "protocol": s.proto, "shape": shape + " (large part inside a nested struct / container of structs)", "limit": L, "n": n, "measured_framed_size": F, "outcome": class, "error": errText(err), "transmitted": transmitted}
				sfx := "http-slim:" + s.proto + ":" + shape
				switch {
				case F > L && (transmitted || class == "ok"):
					run.Violation("C12:oversize-request-transmitted:"+sfx, fmt.Sprintf("a request of %d framed bytes (limit %d) was transmitted", F, L), w)
				case F > L && class != "request-too-large":
					run.Violation("C12:oversize-request-wrong-error:"+sfx+":"+class, fmt.Sprintf("an oversize request (%d > %d) whose limit is crossed inside a nested struct failed with %s instead of a REQUEST_TOO_LARGE transport error", F, L, errText(err)), w)
				case F <= L && class != "ok":
					run.Violation("C12:within-limit-request-rejected:"+sfx+":"+class, fmt.Sprintf("a request of %d framed bytes within the limit %d failed: %s", F, L, errText(err)), w)
				}
				if class != "ok" {
					if v, err := limited.Add(newCtx(normalTimeout), 20, 22); err != nil || v != 42 {
						run.Violation("C12:canary-failed:http-slim:"+s.proto+":after-"+class, "after the failed request a plain call on the same client fails: "+errText(err), w)
					}
				}
			}
		}
	}
	// response side: NATS server (1 MiB bounded output buffer), slim processor
	sconn, err := broker.Connect()
	if err != nil {
		run.Inconclusive("slim nats leg: " + err.Error())
		return
	}
	defer sconn.Close()
	subject := fmt.Sprintf("verif.c12slim.%d", atomic.AddUint64(&natsConcSeq, 1))
	nh := &slimHandler{}
	srv := frugal.NewFNatsServerBuilder(sconn, slimsvc.NewFFooProcessor(nh), r.pf, []string{subject}).WithWorkerCount(1).Build()
	served := make(chan struct{})
	go func() { srv.Serve(); close(served) }()
	defer func() {
		srv.Stop()
		select {
		case <-served:
		case <-time.After(10 * time.Second):
		}
	}()
	if !waitUntil(10*time.Second, func() bool { sconn.Flush(); return broker.HasInterest(subject) }) {
		run.Inconclusive("slim nats leg: server did not subscribe")
		return
	}
	cc, err := broker.Connect()
	if err != nil {
		run.Inconclusive("slim nats leg: " + err.Error())
		return
	}
	defer cc.Close()
	tr := frugal.NewFNatsTransport(cc, subject, "_INBOX.c12slim."+subject)
	if err := tr.Open(); err != nil {
		run.Inconclusive("slim nats leg: " + err.Error())
		return
	}
	defer tr.Close()
	cc.Flush()
	nc := slimsvc.NewFFooClient(frugal.NewFServiceProvider(tr, r.pf))
	shapes := []string{"first", "last", "things"}
	if run.Thorough() {
		shapes = slimShapes
	}
	for _, shape := range shapes {
		cases, err := r.around("resp", shape, mib)
		if err != nil {
			run.Inconclusive(fmt.Sprintf("slim response sweep (%s, %s): %v", s.proto, shape, err))
			continue
		}
		for n, R := range cases {
			timeout := normalTimeout
			if R > mib {
				timeout = shortTimeout
			}
			got, err := slimCallResp(nc, newCtx(timeout), shape, n)
			class := classify(err)
			_, cerr := nc.Add(newCtx(normalTimeout), 20, 22)
			run.Eval(1)
			run.Distinct(fmt.Sprintf("nats-slim:%s:response:%s:d=%d", s.proto, shape, R-mib))
			run.Add("slim_generated_code_cases", 1)
			w := map[string]interface{}{"leg": "nats, code emitted with -gen go:slim", "protocol": s.proto, "shape": shape + " (large part inside a nested struct / container of structs)", "limit": mib, "n": n, "measured_framed_size": R, "outcome": class, "error": errText(err)}
			sfx := "nats-slim:" + s.proto + ":" + shape
			switch {
			case R > mib && class == "timeout" && cerr == nil:
				run.Violation("C12:oversize-response-as-timeout:"+sfx, fmt.Sprintf("a response of %d framed bytes (limit %d) whose limit is crossed inside a nested struct: the caller got TIMED_OUT instead of RESPONSE_TOO_LARGE (the next call on the same single-worker server was answered)", R, mib), w)
			case R > mib && class == "ok":
				run.Violation("C12:oversize-response-delivered:"+sfx, fmt.Sprintf("a response of %d framed bytes (limit %d) reached the caller as a success", R, mib), w)
			case R > mib && class != "response-too-large":
				run.Violation("C12:oversize-response-wrong-error:"+sfx+":"+class, fmt.Sprintf("an oversize response (%d > %d) reached the caller as %s", R, mib, errText(err)), w)
			case R <= mib && class != "ok":
				run.Violation("C12:within-limit-response-rejected:"+sfx+":"+class, fmt.Sprintf("a response of %d framed bytes within the limit reached the caller as %s", R, errText(err)), w)
			case R <= mib && got != slimWantResp(shape, n):
				run.Violation("C12:within-limit-response-corrupted:"+sfx, "the caller received different data than the handler returned", w)
			}
			if class != "ok" && cerr != nil {
				run.Violation("C12:canary-failed:nats-slim:"+s.proto+":after-"+class, "after the failed call a plain call on the same client and server fails: "+errText(cerr), w)
			}
		}
	}
}
