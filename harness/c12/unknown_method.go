package main

// The size of a message is not only its arguments: the METHOD NAME is part of
// the request and comes back in the reply.  A request for a method the server
// does not know (client / server IDL skew, a multiplexed name built at run
// time) is answered with an UNKNOWN_METHOD exception whose size grows with the
// name.  Dimension: the length of an unknown method name - 64 B, 256 B,
// 300 KiB, just below / at / above half of the server's output limit, one
// seeded length between half and the limit, and request frames near and
// exactly at the request limit - on the NATS leg (request limit 1 MiB, server
// output bounded to 1 MiB), with the pipe and HTTP legs (unbounded output) as
// controls, for every protocol.  The requests are reference-built frames, all
// within the request limit, handed to the real FTransport.
//
// Oracle (only what the property says): the request is transmitted (it is
// within the limit), and the caller gets an error REPLY - UNKNOWN_METHOD, or
// RESPONSE_TOO_LARGE when the reply cannot fit the server's output limit -
// never a time-out; afterwards an ordinary call on the same transport and
// server succeeds.  A time-out is only a violation when it is established
// logically that no reply was ever published: the later canary was answered by
// the same server and the wire tap (which has seen the canary's reply, hence
// everything published before it) has no reply frame with the call's op id.
// A reply seen by the tap after the caller gave up is `inconclusive` (load).

import (
	"fmt"
	"io"
	"sync"
	"time"

	frugal "github.com/Workiva/frugal/lib/go"
	"github.com/apache/thrift/lib/go/thrift"

	"verif/rig"
	"verif/wire"
	"vh/e2e"
)

const unknownPrefix = "zzNoSuchMethod"

// unknownFrame: a CALL of a method named unknownPrefix + nameLen-len(prefix)
// filler bytes, with an empty argument struct.
func unknownFrame(proto string, ctx frugal.FContext, nameLen int) ([]byte, string) {
	name := unknownPrefix
	if nameLen > len(name) {
		name += text(nameLen - len(name))
	}
	hdrs := []wire.Pair{{Name: "_opid", Value: opidOf(ctx)}, {Name: "_cid", Value: fixedCID}, {Name: "_timeout", Value: "9000"}}
	b, err := wire.EncodeMessage(rig.TProtocolFactory(proto), &wire.Message{Name: name, Type: thrift.CALL, Body: wire.Struct()})
	if err != nil {
		panic(err)
	}
	return wire.BuildFrame(hdrs, b), name
}

// unknownNameLenForFrame: the name length for which the frame has exactly size
// bytes (0 if there is none).
func unknownNameLenForFrame(proto string, ctx frugal.FContext, size int) int {
	f, _ := unknownFrame(proto, ctx, len(unknownPrefix))
	n := len(unknownPrefix) + size - len(f)
	for i := 0; i < 6 && n >= len(unknownPrefix); i++ {
		f, _ = unknownFrame(proto, ctx, n)
		if len(f) == size {
			return n
		}
		n += size - len(f)
	}
	return 0
}

// unknownReplyClass parses what Request returned.
func unknownReplyClass(proto string, tt thrift.TTransport, wantOpid string) (string, error) {
	if tt == nil {
		return "", fmt.Errorf("no reply transport")
	}
	b, err := io.ReadAll(tt)
	if err != nil && len(b) == 0 {
		return "", err
	}
	pairs, used, err := wire.DecodeHeaders(b)
	if err != nil {
		return "", fmt.Errorf("reply headers: %v", err)
	}
	h, _ := wire.PairsToMap(pairs)
	if h["_opid"] != wantOpid {
		return "", fmt.Errorf("reply carries op id %q, want %s", h["_opid"], wantOpid)
	}
	m, err := wire.DecodeMessage(rig.TProtocolFactory(proto), b[used:])
	if err != nil {
		return "", fmt.Errorf("reply of %d bytes does not decode: %v", len(b), err)
	}
	if m.Type != thrift.EXCEPTION {
		return fmt.Sprintf("message-type-%d", m.Type), nil
	}
	if v, ok := m.Body.Get(2); ok {
		switch v.I {
		case int64(frugal.APPLICATION_EXCEPTION_UNKNOWN_METHOD):
			return "unknown-method", nil
		case int64(frugal.APPLICATION_EXCEPTION_RESPONSE_TOO_LARGE):
			return "response-too-large", nil
		}
		return fmt.Sprintf("application-exception-%d", v.I), nil
	}
	return "exception-without-type", nil
}

type unknownCase struct {
	class   string // name-length class (signature part)
	nameLen int
	// results
	frameLen int
	opid     string
	outcome  string
	detail   string
}

func (s *sweep) unknownMethod(broker *rig.NatsServer) {
	run := s.run
	const callTimeout = 8000 * time.Millisecond // 4 digits of milliseconds
	for _, kind := range []string{"nats", "pipe", "http"} {
		limit := 0
		opt := rig.LegOptions{}
		if kind == "nats" {
			limit = mib
		}
		leg, err := e2e.StartLeg(kind, s.proto, broker, opt)
		if err != nil {
			run.Inconclusive("unknown-method leg " + kind + ": " + err.Error())
			continue
		}
		leg.Handler.Behave = behave
		tr, err := leg.NewClient()
		if err != nil {
			leg.Stop()
			run.Inconclusive("unknown-method leg " + kind + ": " + err.Error())
			continue
		}
		half := mib / 2
		cases := []*unknownCase{{class: "name-64B", nameLen: 64}, {class: "name-just-above-half-output-limit", nameLen: half + 4096}}
		if limit > 0 {
			probe := newCtx(callTimeout)
			cases = append(cases,
				&unknownCase{class: "name-256B", nameLen: 256},
				&unknownCase{class: "name-300KiB", nameLen: 300 * 1024},
				&unknownCase{class: "name-just-below-half-output-limit", nameLen: half - 4096},
				&unknownCase{class: "name-half-output-limit", nameLen: half},
				&unknownCase{class: "name-between-half-and-limit", nameLen: half + 8192 + s.rng.Intn(mib*2/5)},
				&unknownCase{class: "request-1KiB-below-request-limit", nameLen: unknownNameLenForFrame(s.proto, probe, limit-1024)},
				&unknownCase{class: "request-at-request-limit", nameLen: unknownNameLenForFrame(s.proto, probe, limit)},
			)
		}
		leg.Tap.Reset()
		var wg sync.WaitGroup
		for _, c := range cases {
			if c.nameLen == 0 {
				continue
			}
			run.Eval(1)
			run.Distinct(fmt.Sprintf("unknown-method:%s:%s:%s", kind, s.proto, c.class))
			run.Add("unknown_method_calls", 1)
			ctx := newCtx(callTimeout)
			c.opid = opidOf(ctx)
			frame, _ := unknownFrame(s.proto, ctx, c.nameLen)
			c.frameLen = len(frame)
			wg.Add(1)
			go func(c *unknownCase, ctx frugal.FContext, frame []byte) {
				defer wg.Done()
				tt, err := tr.Request(ctx, frame)
				if err != nil {
					c.outcome, c.detail = classify(err), errText(err)
					return
				}
				cl, perr := unknownReplyClass(s.proto, tt, c.opid)
				if perr != nil {
					c.outcome, c.detail = "undecodable-reply", perr.Error()
					return
				}
				c.outcome = cl
			}(c, ctx, frame)
		}
		wg.Wait()
		// follow-up ordinary call on the same transport and server
		cctx := newCtx(normalTimeout)
		tt, cerr := tr.Request(cctx, directFrame(s.proto, cctx, -1))
		if cerr == nil {
			cerr = replyOK(s.proto, tt, opidOf(cctx), "add")
		}
		tapSawCanary := true
		if cerr == nil && kind == "nats" {
			tapSawCanary = waitUntil(10*time.Second, func() bool {
				_, reps := leg.Tap.Snapshot()
				return len(framesWithOpid(reps, opidOf(cctx))) > 0
			})
		}
		reqs, reps := leg.Tap.Snapshot()
		for _, c := range cases {
			if c.nameLen == 0 {
				continue
			}
			sfx := fmt.Sprintf("%s:%s:%s", kind, s.proto, c.class)
			w := map[string]interface{}{"leg": kind + " FTransport called directly", "protocol": s.proto, "request_limit": limit, "server_output_limit": limit,
				"request":           fmt.Sprintf("reference-built frame: headers _opid=%s/_cid/_timeout=9000, CALL of method %q + %d filler bytes (text(n)), empty argument struct", c.opid, unknownPrefix, c.nameLen-len(unknownPrefix)),
				"method_name_bytes": c.nameLen, "request_frame_bytes": c.frameLen, "outcome": c.outcome, "error": c.detail, "call_timeout_ms": 8000,
				"history": "all unknown-method requests of this leg issued concurrently on one transport ; then add(20,22) on the same transport"}
			switch c.outcome {
			case "unknown-method", "response-too-large":
				run.Add("unknown_method_error_replies", 1)
				continue
			case "request-too-large":
				if limit == 0 || c.frameLen <= limit {
					run.Violation("C12:within-limit-request-rejected:unknown-method:"+sfx, fmt.Sprintf("a %d-byte request (limit %d) naming an unknown method of %d bytes was refused: %s", c.frameLen, limit, c.nameLen, c.detail), w)
				}
				continue
			case "timeout":
				if cerr != nil {
					run.Inconclusive(fmt.Sprintf("unknown-method %s: the call timed out and so did the follow-up call (%s): machine too slow or server dead", sfx, errText(cerr)))
					continue
				}
				if !tapSawCanary {
					run.Inconclusive("unknown-method " + sfx + ": the call timed out and the wire tap did not see the follow-up call's reply within 10s")
					continue
				}
				onWire := len(framesWithOpid(reqs, c.opid)) > 0 || kind != "nats"
				if n := len(framesWithOpid(reps, c.opid)); n > 0 {
					run.Inconclusive(fmt.Sprintf("unknown-method %s: a reply was published but the caller had given up after 8s (load)", sfx))
					continue
				}
				w["request_seen_on_wire"] = onWire
				w["reply_frames_on_wire"] = 0
				w["follow_up_call"] = "answered (its reply is on the wire tap, after which no reply for this op id can still arrive)"
				run.Violation("C12:unknown-method-reply-silently-lost:"+sfx, fmt.Sprintf("a %d-byte request (within the limit %d, transmitted) for an unknown method with a %d-byte name got NO reply: the server published nothing for it (the follow-up call on the same transport and server was answered, the tap has no reply frame for op id %s) and the caller ended with a time-out instead of an UNKNOWN_METHOD / RESPONSE_TOO_LARGE error", c.frameLen, limit, c.nameLen, c.opid), w)
				continue
			default:
				run.Violation("C12:unknown-method-wrong-outcome:"+sfx+":"+c.outcome, fmt.Sprintf("a %d-byte request for an unknown method with a %d-byte name ended with %s %s instead of an UNKNOWN_METHOD / RESPONSE_TOO_LARGE error reply", c.frameLen, c.nameLen, c.outcome, c.detail), w)
			}
		}
		if cerr != nil {
			run.Violation("C12:unusable-after-unknown-method:"+kind+":"+s.proto+":"+classify(cerr), "after the unknown-method requests an ordinary add(20,22) on the same transport and server fails: "+errText(cerr), map[string]interface{}{"leg": kind, "protocol": s.proto, "cases": fmt.Sprint(len(cases))})
		}
		leg.Stop()
	}
}
