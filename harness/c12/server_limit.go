package main

// A response limit imposed on the server side: a front end (proxy, http
// middleware) in front of the Frugal handler adds x-frugal-payload-limit to
// requests that carry none.  The client did not ask for a limit itself, the
// response exceeds the server-side one: the handler answers 413 and the caller
// must see RESPONSE_TOO_LARGE ("a response that exceeds the server-side or
// client-requested limit reaches the caller as a RESPONSE_TOO_LARGE error").

import (
	"fmt"
	"net/http"
	"net/http/httptest"

	frugal "github.com/Workiva/frugal/lib/go"

	"vh/e2e"
	"vh/gen/mainsvc"
)

func (s *sweep) serverSideLimit(L int) {
	run := s.run
	h := &e2e.Handler{Behave: behave}
	inner := frugal.NewFrugalHandlerFunc(mainsvc.NewFFooProcessor(h), s.m.leg.PF)
	srv := httptest.NewServer(http.HandlerFunc(func(w http.ResponseWriter, r *http.Request) {
		if r.Header.Get("x-frugal-payload-limit") == "" {
			r.Header.Set("x-frugal-payload-limit", fmt.Sprint(L))
		}
		inner(w, r)
	}))
	defer srv.Close()
	mk := func(name string, limit int) *sharedClient {
		b := frugal.NewFHTTPTransportBuilder(&http.Client{}, srv.URL)
		if limit > 0 {
			b = b.WithResponseSizeLimit(uint(limit))
		}
		tr := b.Build()
		tr.Open()
		return &sharedClient{name, limit, mainsvc.NewFFooClient(frugal.NewFServiceProvider(tr, s.m.leg.PF))}
	}
	clients := []*sharedClient{mk("no-limit", 0), mk("limit-4L", 4*L)}
	for _, sp := range []struct {
		name   string
		target int
	}{{"below-L", L - 40}, {"exactly-L", L}, {"L-plus-1", L + 1}, {"between-L-and-4L", 2 * L}, {"above-4L", 4*L + 300}} {
		bulk, fine, got, err := s.m.find("resp", "getbig", sp.target+4)
		if err != nil {
			run.Inconclusive(fmt.Sprintf("server-side limit (%s, L=%d): %v", s.proto, L, err))
			return
		}
		unframed := got - 4
		for _, cl := range clients {
			// the limit in force: the client's own if it sent one, else the front end's
			eff := L
			if cl.limit > 0 {
				eff = cl.limit
			}
			want := "ok"
			if unframed > eff {
				want = "response-too-large"
			}
			d, err := doResponse(cl.c, newCtx(normalTimeout), "getbig", bulk, fine)
			class := classify(err)
			run.Eval(1)
			run.Distinct(fmt.Sprintf("server-side-limit:%s:L=%d:%s:%s", s.proto, L, cl.name, sp.name))
			run.Add("server_side_limit_calls", 1)
			if class != want || (class == "ok" && d != expectedResponseDigest("getbig", bulk, fine)) {
				run.Violation("C12:server-side-limit-wrong-outcome:"+s.proto+":client-"+cl.name+":response-"+sp.name+":got-"+class,
					fmt.Sprintf("a front end adds x-frugal-payload-limit %d to requests without one; client %q (own limit %d), response of %d bytes: want %s, got %s", L, cl.name, cl.limit, unframed, want, errText(err)),
					map[string]interface{}{"protocol": s.proto, "server_side_limit": L, "client": cl.name, "client_limit": cl.limit, "response_unframed_bytes": unframed, "call": fmt.Sprintf("getBig(%d)", bulk+fine), "outcome": class, "error": errText(err)})
			}
			// canary: the same client keeps working
			if class != "ok" {
				if r, err := cl.c.Add(newCtx(normalTimeout), 20, 22); err != nil || r != 42 {
					run.Violation("C12:canary-failed:http-server-side-limit:"+s.proto+":after-"+class, "after the refused response a plain call on the same client fails: "+errText(err), map[string]interface{}{"protocol": s.proto, "server_side_limit": L})
				}
			}
		}
	}
}
