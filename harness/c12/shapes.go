package main

// Payload shapes and outcome classification for C12.

import (
	"crypto/sha256"
	"encoding/hex"
	"fmt"
	"sort"
	"strconv"
	"strings"
	"sync/atomic"
	"time"

	frugal "github.com/Workiva/frugal/lib/go"
	"github.com/apache/thrift/lib/go/thrift"

	"vh/e2e"
	"vh/gen/mainsvc"
)

// text returns n bytes of JSON-safe, single-byte characters.
func text(n int) string {
	if n <= 0 {
		return ""
	}
	return e2e.BigString(int32(n))
}

// A shape places the large part of a message at a given position.  bulk is the
// coarse size knob, fine (0..120) adds exactly one byte per unit in every
// protocol (a short string), so that every framed size can be hit exactly.
type shape struct {
	name  string
	build func(bulk, fine int) *mainsvc.Payload
}

var shapes = map[string]*shape{
	// large string FIRST, small fields after it
	"first": {"first", func(bulk, fine int) *mainsvc.Payload {
		return &mainsvc.Payload{First: &mainsvc.BigFirst{Big: text(bulk + fine), N: 7, Flag: true}}
	}},
	// large binary in the MIDDLE, a string after it
	"mid": {"mid", func(bulk, fine int) *mainsvc.Payload {
		return &mainsvc.Payload{Mid: &mainsvc.BigMid{N: 7, Big: []byte(text(bulk)), Tail: text(fine)}}
	}},
	// large string LAST: nothing but field-stop bytes is written after it
	"last": {"last", func(bulk, fine int) *mainsvc.Payload {
		return &mainsvc.Payload{Last: &mainsvc.BigLast{N: 7, Nums: []int64{1, -2, 3}, Big: text(bulk + fine)}}
	}},
	// container: many small entries
	"map": {"map", func(bulk, fine int) *mainsvc.Payload {
		m := map[string]string{"fine": text(fine)}
		for i := 0; i*24 < bulk; i++ {
			m[fmt.Sprintf("k%05d", i)] = "0123456789"
		}
		return &mainsvc.Payload{Bmap: &mainsvc.BigMap{N: 7, M: m}}
	}},
}

// request-side only: the big string is the LAST argument of the call (echo's
// tag); response-side only: getBig's string result.
var reqShapes = []string{"first", "mid", "last", "map", "tag", "headers-alone"}
var respShapes = []string{"first", "mid", "last", "map", "getbig", "headers-alone"}

// bigHeader is the header that carries the bulk in the "headers-alone" shape:
// a small message whose frame is large only because of ONE user header (a
// request header set by the caller, a response header set by the handler).
const bigHeader = "x-big"

func init() {
	shapes["headers-alone"] = &shape{"headers-alone", func(bulk, fine int) *mainsvc.Payload { return smallPayload() }}
}

var pubShapes = []string{"first", "mid", "last", "map"}

func smallPayload() *mainsvc.Payload {
	return &mainsvc.Payload{First: &mainsvc.BigFirst{Big: "r", N: 1}}
}

// digest identifies a payload's content.
func digest(p *mainsvc.Payload) string {
	if p == nil {
		return "nil"
	}
	h := sha256.New()
	switch {
	case p.First != nil:
		fmt.Fprintf(h, "first|%d|%v|%s", p.First.N, p.First.Flag, p.First.Big)
	case p.Mid != nil:
		fmt.Fprintf(h, "mid|%d|%s|%s", p.Mid.N, p.Mid.Big, p.Mid.Tail)
	case p.Last != nil:
		fmt.Fprintf(h, "last|%d|%v|%s", p.Last.N, p.Last.Nums, p.Last.Big)
	case p.Bmap != nil:
		ks := make([]string, 0, len(p.Bmap.M))
		for k := range p.Bmap.M {
			ks = append(ks, k)
		}
		sort.Strings(ks)
		fmt.Fprintf(h, "map|%d", p.Bmap.N)
		for _, k := range ks {
			fmt.Fprintf(h, "|%s=%s", k, p.Bmap.M[k])
		}
	default:
		fmt.Fprint(h, "empty")
	}
	return hex.EncodeToString(h.Sum(nil)[:8])
}

// behave is the handler policy on every leg: echo answers small unless the tag
// asks for a response of a given shape ("resp|shape|bulk|fine").
func behave(c *e2e.Call) *e2e.Outcome {
	if c.Method != "echo" {
		return nil
	}
	tag, _ := c.Args[1].(string)
	if strings.HasPrefix(tag, "resp|") {
		parts := strings.Split(tag, "|")
		if len(parts) == 4 {
			bulk, _ := strconv.Atoi(parts[2])
			fine, _ := strconv.Atoi(parts[3])
			if parts[1] == "headers-alone" {
				c.Ctx.AddResponseHeader(bigHeader, text(bulk+fine))
			}
			if s := shapes[parts[1]]; s != nil {
				return &e2e.Outcome{Ret: s.build(bulk, fine)}
			}
		}
	}
	return &e2e.Outcome{Ret: smallPayload()}
}

// contexts with constant-width headers, so that the framed size of a message
// does not depend on when it is sent
var opSeq uint64 = 5000000

const fixedCID = "c12-0123456789abcdef-cid"

func newCtx(timeout time.Duration) frugal.FContext {
	ctx := frugal.NewFContext(fixedCID)
	ctx.AddRequestHeader("_opid", strconv.FormatUint(atomic.AddUint64(&opSeq, 1), 10))
	ctx.SetTimeout(timeout)
	return ctx
}

func opidOf(ctx frugal.FContext) string {
	v, _ := ctx.RequestHeader("_opid")
	return v
}

// both 4 digits of milliseconds: same header width
const (
	normalTimeout = 9000 * time.Millisecond
	shortTimeout  = 2500 * time.Millisecond
)

// classify names the error class of a call.
func classify(err error) string {
	if err == nil {
		return "ok"
	}
	switch e := err.(type) {
	case thrift.TTransportException:
		switch e.TypeId() {
		case frugal.TRANSPORT_EXCEPTION_REQUEST_TOO_LARGE:
			return "request-too-large"
		case frugal.TRANSPORT_EXCEPTION_RESPONSE_TOO_LARGE:
			return "response-too-large"
		case frugal.TRANSPORT_EXCEPTION_TIMED_OUT:
			return "timeout"
		}
		return fmt.Sprintf("transport-exception-%d", e.TypeId())
	case thrift.TApplicationException:
		return fmt.Sprintf("application-exception-%d", e.TypeId())
	case thrift.TProtocolException:
		return fmt.Sprintf("protocol-exception-%d", e.TypeId())
	}
	return "other-error"
}

func errText(err error) string {
	if err == nil {
		return ""
	}
	s := fmt.Sprintf("%T: %v", err, err)
	if len(s) > 300 {
		s = s[:300] + "..."
	}
	return s
}
