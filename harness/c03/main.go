// C03 monitor (harness side): compiled with the Go packages emitted for a
// batch of random IDL programs.  Every service method (own and inherited) is
// invoked through the emitted client over the legs of the transport x
// protocol matrix; the emitted processor dispatches to a stub handler added
// by verif/stubgen.  Arguments, the handler's outcome and what the caller
// observes are compared as model-guided wire trees; invocations are counted
// by correlation id; a successful oneway must not produce a reply frame.
package main

import (
	"bytes"
	"encoding/json"
	"errors"
	"fmt"
	"math"
	"math/rand"
	"os"
	"reflect"
	"regexp"
	"strings"
	"sync"
	"sync/atomic"
	"time"

	frugal "github.com/Workiva/frugal/lib/go"
	"github.com/apache/thrift/lib/go/thrift"

	"verif/emitbatch"
	"verif/genreg"
	"verif/gocodec"
	"verif/idl"
	"verif/rig"
	"verif/tvalue"
	"verif/wire"
)

type batch struct {
	Programs []emitbatch.ProgSpec `json:"programs"`
	Calls    int                  `json:"calls_per_method"`
	Legs     [][2]string          `json:"legs"`
	Seed     int64                `json:"seed"`
	Out      string               `json:"out"`
}

type violation struct {
	Sig     string      `json:"sig"`
	What    string      `json:"what"`
	Witness interface{} `json:"witness"`
}

type progResult struct {
	Sub          string         `json:"sub"`
	Features     []string       `json:"features"`
	Services     int            `json:"services"`
	Methods      int            `json:"methods"`
	Inherited    int            `json:"inherited_methods"`
	Calls        int            `json:"calls"`
	Outcomes     map[string]int `json:"outcomes"`
	Legs         map[string]int `json:"legs"`
	OnewayChecks int            `json:"oneway_no_reply_checks"`
	Skipped      []string       `json:"skipped"`
	Inconclusive []string       `json:"inconclusive"`
	Violations   []violation    `json:"violations"`
	Sample       interface{}    `json:"sample,omitempty"`
}

func norm(s string) string { return strings.ToLower(strings.ReplaceAll(s, "_", "")) }

// methodInfo is a method with the file its types are written in.
type methodInfo struct {
	m    *idl.Method
	file *idl.File
	own  bool
}

func allMethods(prog *idl.Program, f *idl.File, s *idl.Service) []methodInfo {
	var out []methodInfo
	own := true
	for depth := 0; s != nil && depth < 32; depth++ {
		for _, m := range s.Methods {
			out = append(out, methodInfo{m, f, own})
		}
		own = false
		if s.Extends == "" {
			break
		}
		name := s.Extends
		nf := f
		if i := strings.IndexByte(name, '.'); i >= 0 {
			nf = prog.File(name[:i])
			name = name[i+1:]
		}
		var parent *idl.Service
		if nf != nil {
			for _, c := range nf.Services() {
				if c.Name == name {
					parent = c
				}
			}
		}
		s, f = parent, nf
	}
	return out
}

// findEmitted finds the emitted service for svc: F<Name> modulo case and
// underscores, in the package that also holds the file's struct-likes.
func findEmitted(pkgs []*genreg.Package, f *idl.File, svc *idl.Service) (*genreg.Service, int) {
	var gs *genreg.Service
	n := 0
	for _, p := range pkgs {
		if fp := filePkg[f]; fp != nil && fp != p {
			continue
		}
		for goName, s := range p.Services {
			if norm(strings.TrimPrefix(goName, "F")) == norm(svc.Name) {
				gs = s
				n++
			}
		}
	}
	return gs, n
}

// parentOf resolves the service svc extends.
func parentOf(prog *idl.Program, f *idl.File, svc *idl.Service) (*idl.File, *idl.Service) {
	if svc.Extends == "" {
		return nil, nil
	}
	name, nf := svc.Extends, f
	if i := strings.IndexByte(name, '.'); i >= 0 {
		nf = prog.File(name[:i])
		name = name[i+1:]
	}
	if nf == nil {
		return nil, nil
	}
	for _, c := range nf.Services() {
		if c.Name == name {
			return nf, c
		}
	}
	return nil, nil
}

type expectation struct {
	mu       sync.Mutex
	calls    map[string]int
	args     map[string][]interface{}
	outcome  map[string][]interface{}
	observed chan string
}

var ctorByType = map[reflect.Type]func() thrift.TStruct{}

// the Apache Thrift JSON parser reads "Infinity" / "NaN" with a single Read
// and fails when the token straddles a short read (dependency defect)
var specialDouble = regexp.MustCompile(`Expected '(-?Infinity|NaN)' but found`)

func main() {
	rig.Quiet()
	if len(os.Args) > 2 && os.Args[1] == "fidelity" {
		fidelityMain(os.Args[2]) // the fixed fixture: see fidelity.go
		return
	}
	b, err := os.ReadFile(os.Args[1])
	if err != nil {
		fmt.Println(err)
		os.Exit(2)
	}
	var bt batch
	if err := json.Unmarshal(b, &bt); err != nil {
		fmt.Println(err)
		os.Exit(2)
	}
	for _, p := range genreg.Packages() {
		for _, c := range p.Types {
			ctorByType[reflect.TypeOf(c())] = c
		}
	}
	gocodec.NewStruct = func(t reflect.Type) (reflect.Value, bool) {
		if c, ok := ctorByType[t]; ok {
			return reflect.ValueOf(c()), true
		}
		return reflect.Value{}, false
	}
	ns, err := rig.StartNats()
	if err != nil {
		fmt.Println(err)
		os.Exit(2)
	}
	defer ns.Stop()
	// calls are announced ("S") and closed ("D") in a progress file, and the
	// results are rewritten after every program: when the code under test takes
	// the process down, the driver still has the programs decided so far and
	// the calls that were in flight
	progress, _ = os.OpenFile(bt.Out+".progress", os.O_CREATE|os.O_WRONLY|os.O_APPEND, 0o644)
	var results []*progResult
	for _, ps := range bt.Programs {
		results = append(results, checkProgram(ps, bt, ns))
		out, _ := json.Marshal(results)
		tmp := bt.Out + ".tmp"
		if err := os.WriteFile(tmp, out, 0o644); err == nil {
			err = os.Rename(tmp, bt.Out)
		}
		if err != nil {
			fmt.Println(err)
			os.Exit(2)
		}
	}
}

var progress *os.File

// announce logs one call before it is made; the returned function closes it.
func announce(token, class, what string) func() {
	if progress == nil {
		return func() {}
	}
	fmt.Fprintf(progress, "S\t%s\t%s\t%s\n", token, class, what)
	return func() { fmt.Fprintf(progress, "D\t%s\n", token) }
}

// specialDoubleWitness: echoDouble(pad, +Inf) over http/json for every pad
// length in a window: the token "Infinity" moves across every read boundary
// of the base64-decoded request stream.
func specialDoubleWitness(ps emitbatch.ProgSpec, ns *rig.NatsServer) *progResult {
	res := &progResult{Sub: ps.Sub, Outcomes: map[string]int{}, Legs: map[string]int{}, Features: []string{"witness_specialdouble"}}
	var gs *genreg.Service
	for _, p := range genreg.Packages() {
		if strings.HasPrefix(p.ImportPath, "vh/gen/"+ps.Sub+"/") {
			for _, s := range p.Services {
				gs = s
			}
		}
	}
	if gs == nil {
		res.Inconclusive = append(res.Inconclusive, "witness service not emitted")
		return res
	}
	calls := 0
	var mu sync.Mutex
	stub := gs.NewStub(func(iface, method string, args []interface{}) []interface{} {
		mu.Lock()
		calls++
		mu.Unlock()
		return []interface{}{args[2], nil}
	})
	for _, legSpec := range [][2]string{{"http", "json"}, {"pipe", "json"}} {
		leg, err := rig.StartRPCLeg(legSpec[0], legSpec[1], gs.NewProcessor(stub), ns, rig.LegOptions{})
		if err != nil {
			res.Inconclusive = append(res.Inconclusive, err.Error())
			return res
		}
		tr, err := leg.NewClient()
		if err != nil {
			res.Inconclusive = append(res.Inconclusive, err.Error())
			leg.Stop()
			return res
		}
		client := reflect.ValueOf(gs.NewClient(frugal.NewFServiceProvider(tr, leg.PF)))
		gm := client.MethodByName("EchoDouble")
		if !gm.IsValid() {
			res.Inconclusive = append(res.Inconclusive, "witness method not emitted")
			leg.Stop()
			return res
		}
		var failing []int
		firstErr := ""
		for _, d := range []float64{math.Inf(1), math.Inf(-1), math.NaN()} {
			for pad := 0; pad < 1400; pad++ {
				fctx := frugal.NewFContext("w")
				fctx.SetTimeout(20 * time.Second)
				out := gm.Call([]reflect.Value{reflect.ValueOf(fctx), reflect.ValueOf(strings.Repeat("p", pad)), reflect.ValueOf(d)})
				res.Calls++
				res.Legs[legSpec[0]+"/"+legSpec[1]]++
				if e := out[1]; !e.IsNil() {
					failing = append(failing, pad)
					if firstErr == "" {
						firstErr = fmt.Sprint(e.Interface())
					}
				} else if r := out[0].Float(); math.Float64bits(r) != math.Float64bits(d) && !(math.IsNaN(r) && math.IsNaN(d)) {
					failing = append(failing, pad)
					if firstErr == "" {
						firstErr = fmt.Sprintf("returned %v for %v", r, d)
					}
				}
			}
		}
		leg.Stop()
		res.Outcomes["witness-special-double"] += res.Calls
		if len(failing) > 0 {
			n := len(failing)
			if n > 12 {
				failing = failing[:12]
			}
			res.Violations = append(res.Violations, violation{"C03:json-special-double-split-across-reads", fmt.Sprintf("echoDouble(pad, ±Infinity/NaN) over %s/%s failed for %d of the pad lengths 0..1399 (e.g. %v): %s", legSpec[0], legSpec[1], n, failing, firstErr), map[string]interface{}{"idl": "service WDouble { double echoDouble(1: string pad, 2: double d) }", "leg": legSpec[0] + "/" + legSpec[1], "failing_pad_lengths": failing, "error": firstErr}})
		}
	}
	return res
}

func checkProgram(ps emitbatch.ProgSpec, bt batch, ns *rig.NatsServer) *progResult {
	if ps.Cfg == "witness:specialdouble" {
		return specialDoubleWitness(ps, ns)
	}
	res := &progResult{Sub: ps.Sub, Outcomes: map[string]int{}, Legs: map[string]int{}}
	currentSub = ps.Sub
	prog := ps.Program()
	res.Features = prog.FeatureList()
	addV := func(sig, what string, w interface{}) {
		resMu.Lock()
		defer resMu.Unlock()
		for _, v := range res.Violations {
			if v.Sig == sig {
				return
			}
		}
		res.Violations = append(res.Violations, violation{sig, what, w})
		atomic.AddInt32(&violationsSeen, 1)
	}
	prefix := "vh/gen/" + ps.Sub + "/"
	var pkgs []*genreg.Package
	for _, p := range genreg.Packages() {
		if strings.HasPrefix(p.ImportPath, prefix) {
			pkgs = append(pkgs, p)
		}
	}
	rng := rand.New(rand.NewSource(bt.Seed ^ ps.Seed))
	// IDL file -> emitted package: the one whose Go type names cover the
	// file's struct-likes (modulo case and underscores)
	filePkg = map[*idl.File]*genreg.Package{}
	for _, f := range prog.Files {
		for _, p := range pkgs {
			have := map[string]bool{}
			for goName := range p.Types {
				have[norm(goName)] = true
			}
			ok := len(f.Structs()) > 0
			for _, st := range f.Structs() {
				if !have[norm(st.Name)] {
					ok = false
				}
			}
			if ok {
				filePkg[f] = p
			}
		}
	}
	for _, f := range prog.Files {
		for _, svc := range f.Services() {
			// find the emitted service: F<Name> modulo case and underscores,
			// in the package that also holds the service's first own struct
			gs, n := findEmitted(pkgs, f, svc)
			if gs == nil || n != 1 {
				res.Skipped = append(res.Skipped, fmt.Sprintf("service %s: %d emitted candidates", svc.Name, n))
				continue
			}
			res.Services++
			methods := allMethods(prog, f, svc)
			for li, lp := range bt.Legs {
				checkService(prog, f, svc, gs, methods, lp[0], lp[1], bt.Calls, rng, ns, res, addV, li == 0)
			}
			afterBrokenSession(prog, svc, gs, methods, []string{"binary", "compact", "json"}[int(ps.Seed>>16&0xffff)%3], rng, ns, res, addV)
			busyRegistry(prog, svc, gs, methods, []string{"binary", "compact", "json"}[int(ps.Seed>>12&0xffff)%3], rng, ns, res, addV)
			scaledOut(prog, svc, gs, methods, []string{"binary", "compact", "json"}[int(ps.Seed>>4&0xffff)%3], rng, ns, res, addV)
			largeReplies(prog, svc, gs, methods, []string{"binary", "compact", "json"}[int(ps.Seed>>8&0xffff)%3], rng, ns, res, addV)
			afterOversizeReply(prog, svc, gs, methods, []string{"binary", "compact", "json"}[int(ps.Seed&0xffff)%3], rng, ns, res, addV)
			bigResponseHeaders(prog, svc, gs, methods, rand.New(rand.NewSource(bt.Seed^ps.Seed^0x62696768647273)), ns, res, addV)
			heldUpCaller(prog, svc, gs, methods, rand.New(rand.NewSource(bt.Seed^ps.Seed^0x68656c64)), ns, res, addV)
			if pf, parent := parentOf(prog, f, svc); parent != nil {
				if pgs, pn := findEmitted(pkgs, pf, parent); pgs != nil && pn == 1 {
					for _, lp := range bt.Legs {
						olderServer(prog, svc, gs, pgs, methods, lp[0], lp[1], rng, ns, res, addV)
					}
				}
			}
		}
	}
	return res
}

func checkService(prog *idl.Program, f *idl.File, svc *idl.Service, gs *genreg.Service, methods []methodInfo, kind, proto string, calls int, rng *rand.Rand, ns *rig.NatsServer, res *progResult, addV func(string, string, interface{}), count bool) {
	exp := &expectation{calls: map[string]int{}, args: map[string][]interface{}{}, outcome: map[string][]interface{}{}, observed: make(chan string, 1024)}
	recorder := func(iface, method string, args []interface{}) []interface{} {
		fctx, _ := args[0].(frugal.FContext)
		token := ""
		if fctx != nil {
			token = fctx.CorrelationID()
		}
		exp.mu.Lock()
		exp.calls[token]++
		exp.args[token] = append([]interface{}{method}, args[1:]...)
		out := exp.outcome[token]
		exp.mu.Unlock()
		select {
		case exp.observed <- token:
		default:
		}
		return out
	}
	stub := gs.NewStub(recorder)
	var proc frugal.FProcessor
	func() {
		defer func() {
			if r := recover(); r != nil {
				addV("C03:processor-construction-panic", fmt.Sprint(r), map[string]interface{}{"service": svc.Name})
			}
		}()
		proc = gs.NewProcessor(stub)
	}()
	if proc == nil {
		return
	}
	leg, err := rig.StartRPCLeg(kind, proto, proc, ns, rig.LegOptions{})
	if err != nil {
		res.Inconclusive = append(res.Inconclusive, fmt.Sprintf("leg %s/%s: %v", kind, proto, err))
		return
	}
	defer leg.Stop()
	tr, err := leg.NewClient()
	if err != nil {
		res.Inconclusive = append(res.Inconclusive, fmt.Sprintf("client %s/%s: %v", kind, proto, err))
		return
	}
	client := reflect.ValueOf(gs.NewClient(frugal.NewFServiceProvider(tr, leg.PF)))
	legName := kind + "/" + proto
	var syncMethod *methodInfo // a two-way method used to flush after oneways
	for i := range methods {
		if !methods[i].m.Oneway {
			syncMethod = &methods[i]
			break
		}
	}
	seq := 0
	for _, mi := range methods {
		mi := mi
		if count {
			res.Methods++
			if !mi.own {
				res.Inherited++
			}
		}
		// the exported Go method: same name modulo first-letter case and underscores
		var gm reflect.Value
		ct := client.Type()
		found := 0
		for i := 0; i < ct.NumMethod(); i++ {
			if norm(ct.Method(i).Name) == norm(mi.m.Name) {
				gm = client.Method(i)
				found++
			}
		}
		if found != 1 {
			addV("C03:client-method-missing", fmt.Sprintf("service %s: the emitted client has %d methods matching IDL method %s", svc.Name, found, mi.m.Name), map[string]interface{}{"service": svc.Name, "method": mi.m.Name, "idl": idl.RenderFile(f, idl.DefaultStyle())})
			continue
		}
		for c := 0; c < calls; c++ {
			seq++
			token := fmt.Sprintf("%s-%s-%s-%d", svc.Name, mi.m.Name, strings.ReplaceAll(legName, "/", "-"), seq)
			one := runCall(prog, svc, mi, gm, token, legName, rng, exp, leg, res, addV)
			res.Calls++
			res.Legs[legName]++
			if one != "" {
				res.Outcomes[one]++
			}
			if mi.m.Oneway && one == "oneway" && syncMethod != nil {
				// a two-way call after the oneway: once it has returned, every reply
				// the server was going to send for the oneway would be at the tap
				var sgm reflect.Value
				for i := 0; i < ct.NumMethod(); i++ {
					if norm(ct.Method(i).Name) == norm(syncMethod.m.Name) {
						sgm = client.Method(i)
					}
				}
				seq++
				stoken := token + "-sync"
				runCall(prog, svc, *syncMethod, sgm, stoken, legName, rng, exp, leg, res, addV)
				checkNoReply(token, legName, leg, res, addV, svc, mi)
			}
		}
	}
	// concurrent phase: several callers share the one client (multiplexing);
	// every call is still judged on its own by its correlation id
	var two []methodInfo
	for _, mi := range methods {
		if !mi.m.Oneway {
			two = append(two, mi)
		}
	}
	if len(two) == 0 {
		return
	}
	var wg sync.WaitGroup
	callers := 6
	for g := 0; g < callers; g++ {
		wg.Add(1)
		grng := rand.New(rand.NewSource(rng.Int63()))
		go func(g int, grng *rand.Rand) {
			defer wg.Done()
			ct := client.Type()
			for c := 0; c < calls; c++ {
				mi := two[grng.Intn(len(two))]
				var gm reflect.Value
				for i := 0; i < ct.NumMethod(); i++ {
					if norm(ct.Method(i).Name) == norm(mi.m.Name) {
						gm = client.Method(i)
					}
				}
				if !gm.IsValid() {
					continue
				}
				token := fmt.Sprintf("%s-%s-%s-g%d-%d", svc.Name, mi.m.Name, strings.ReplaceAll(legName, "/", "-"), g, c)
				one := runCall(prog, svc, mi, gm, token, legName, grng, exp, leg, res, addV)
				resMu.Lock()
				res.Calls++
				res.Legs[legName]++
				if one != "" {
					res.Outcomes[one+"(concurrent)"]++
				}
				resMu.Unlock()
			}
		}(g, grng)
	}
	wg.Wait()
	manyConnections(prog, svc, gs, two, kind, proto, rng, ns, res, addV)
}

var manyConnFailed int32
var violationsSeen int32
var forceReplySize int // > 0: the next call's handler returns a string/binary of this many bytes
var oversizePhases, oversizeFailed int32

// largeReplies: replies of a few hundred KB (far inside every transport's
// limits) must come back intact over HTTP and TCP, whose clients read the
// reply in several pieces.
func largeReplies(prog *idl.Program, svc *idl.Service, gs *genreg.Service, methods []methodInfo, proto string, rng *rand.Rand, ns *rig.NatsServer, res *progResult, addV func(string, string, interface{})) {
	if atomic.LoadInt32(&largeFailed) >= 1 || atomic.LoadInt32(&largePhases) >= 6 {
		return
	}
	var big *methodInfo
	for i := range methods {
		mi := methods[i]
		if !mi.m.Oneway && mi.m.Ret != nil && big == nil {
			if k, _, _, _ := prog.ResolveKind(mi.file, mi.m.Ret); k == "string" || k == "binary" {
				big = &methods[i]
			}
		}
	}
	if big == nil {
		return
	}
	atomic.AddInt32(&largePhases, 1)
	inner := addV
	addV = func(sig, what string, w interface{}) {
		atomic.AddInt32(&largeFailed, 1)
		inner(sig, what, w)
	}
	for _, kind := range []string{"http", "tcp"} {
		exp := &expectation{calls: map[string]int{}, args: map[string][]interface{}{}, outcome: map[string][]interface{}{}, observed: make(chan string, 1024)}
		recorder := func(iface, method string, args []interface{}) []interface{} {
			fctx, _ := args[0].(frugal.FContext)
			token := ""
			if fctx != nil {
				token = fctx.CorrelationID()
			}
			exp.mu.Lock()
			exp.calls[token]++
			exp.args[token] = append([]interface{}{method}, args[1:]...)
			out := exp.outcome[token]
			exp.mu.Unlock()
			select {
			case exp.observed <- token:
			default:
			}
			return out
		}
		var proc frugal.FProcessor
		func() {
			defer func() { recover() }()
			proc = gs.NewProcessor(gs.NewStub(recorder))
		}()
		if proc == nil {
			return
		}
		leg, err := rig.StartRPCLeg(kind, proto, proc, ns, rig.LegOptions{HTTPNoTap: true})
		if err != nil {
			res.Inconclusive = append(res.Inconclusive, fmt.Sprintf("leg %s/%s (large replies): %v", kind, proto, err))
			return
		}
		tr, err := leg.NewClient()
		if err != nil {
			leg.Stop()
			res.Inconclusive = append(res.Inconclusive, fmt.Sprintf("client %s/%s (large replies): %v", kind, proto, err))
			return
		}
		client := reflect.ValueOf(gs.NewClient(frugal.NewFServiceProvider(tr, leg.PF)))
		ct := client.Type()
		var gm reflect.Value
		for i := 0; i < ct.NumMethod(); i++ {
			if norm(ct.Method(i).Name) == norm(big.m.Name) {
				gm = client.Method(i)
			}
		}
		if gm.IsValid() {
			for c, size := range []int{20000, 300000, 900000} {
				forceReplySize = size
				one := runCall(prog, svc, *big, gm, fmt.Sprintf("%s-%s-large-%s-%s-%d", svc.Name, big.m.Name, kind, proto, c), kind+"/"+proto+"(large reply)", rng, exp, leg, res, addV)
				forceReplySize = 0
				resMu.Lock()
				res.Calls++
				if one != "" {
					res.Outcomes[one]++
				}
				resMu.Unlock()
			}
		}
		leg.Stop()
	}
}

var largePhases, largeFailed int32
var scaledPhases, scaledFailed int32
var busyPhases, busyFailed int32
var reconnPhases, reconnFailed int32

// afterBrokenSession: the client's first TCP connection is lost in the middle
// of a reply frame; the application reopens the same transport (as a transport
// monitor does) and calls through it: the calls of the new session behave like
// any others.
func afterBrokenSession(prog *idl.Program, svc *idl.Service, gs *genreg.Service, methods []methodInfo, proto string, rng *rand.Rand, ns *rig.NatsServer, res *progResult, addV func(string, string, interface{})) {
	if atomic.LoadInt32(&reconnFailed) >= 1 || atomic.LoadInt32(&reconnPhases) >= 4 {
		return
	}
	var two []methodInfo
	for _, mi := range methods {
		if !mi.m.Oneway {
			two = append(two, mi)
		}
	}
	if len(two) == 0 {
		return
	}
	atomic.AddInt32(&reconnPhases, 1)
	inner := addV
	addV = func(sig, what string, w interface{}) {
		atomic.AddInt32(&reconnFailed, 1)
		inner(sig, what, w)
	}
	exp := &expectation{calls: map[string]int{}, args: map[string][]interface{}{}, outcome: map[string][]interface{}{}, observed: make(chan string, 1024)}
	recorder := func(iface, method string, args []interface{}) []interface{} {
		fctx, _ := args[0].(frugal.FContext)
		token := ""
		if fctx != nil {
			token = fctx.CorrelationID()
		}
		exp.mu.Lock()
		exp.calls[token]++
		exp.args[token] = append([]interface{}{method}, args[1:]...)
		out := exp.outcome[token]
		exp.mu.Unlock()
		select {
		case exp.observed <- token:
		default:
		}
		return out
	}
	var proc frugal.FProcessor
	func() {
		defer func() { recover() }()
		proc = gs.NewProcessor(gs.NewStub(recorder))
	}()
	if proc == nil {
		return
	}
	leg, err := rig.StartRPCLeg("tcp", proto, proc, ns, rig.LegOptions{TCPFirstConnPartial: true})
	if err != nil {
		res.Inconclusive = append(res.Inconclusive, fmt.Sprintf("leg tcp/%s (broken first session): %v", proto, err))
		return
	}
	defer leg.Stop()
	tr, err := leg.NewClient()
	if err != nil {
		res.Inconclusive = append(res.Inconclusive, fmt.Sprintf("client tcp/%s (broken first session): %v", proto, err))
		return
	}
	closed := tr.Closed()
	lost := frugal.NewFContext("lost-session")
	lost.SetTimeout(300 * time.Millisecond)
	tr.Request(lost, rigFrame(lost)) // answered with the beginning of a frame, then the connection drops
	select {
	case <-closed:
	case <-time.After(20 * time.Second):
		res.Inconclusive = append(res.Inconclusive, fmt.Sprintf("tcp/%s (broken first session): the transport did not close after the connection dropped", proto))
		return
	}
	if err := tr.Open(); err != nil {
		res.Inconclusive = append(res.Inconclusive, fmt.Sprintf("tcp/%s (broken first session): reopen: %v", proto, err))
		return
	}
	client := reflect.ValueOf(gs.NewClient(frugal.NewFServiceProvider(tr, leg.PF)))
	ct := client.Type()
	for c := 0; c < 3; c++ {
		mi := two[rng.Intn(len(two))]
		var gm reflect.Value
		for i := 0; i < ct.NumMethod(); i++ {
			if norm(ct.Method(i).Name) == norm(mi.m.Name) {
				gm = client.Method(i)
			}
		}
		if !gm.IsValid() {
			continue
		}
		one := runCall(prog, svc, mi, gm, fmt.Sprintf("%s-%s-reopened-%s-%d", svc.Name, mi.m.Name, proto, c), "tcp/"+proto+"(transport reopened after a session lost mid-frame)", rng, exp, leg, res, addV)
		resMu.Lock()
		res.Calls++
		if one != "" {
			res.Outcomes[one+"(reopened transport)"]++
		}
		resMu.Unlock()
	}
}

// rigFrame is a minimal framed request for ctx (headers + a few payload bytes).
func rigFrame(ctx frugal.FContext) []byte {
	return wire.BuildFrame(wire.MapToPairs(ctx.RequestHeaders()), []byte{0x80, 0x01, 0x00, 0x01})
}

// busyRegistry: a call is issued while the client transport's registry is busy
// (its lock is held for 150 ms, as by another request's slow registration) on
// the NATS and TCP legs; the real server answers as fast as it can.  Once the
// registry is free the call completes with the handler's outcome like any
// other call.  (Skipped on trees without the VerifLockRegistry hook.)
func busyRegistry(prog *idl.Program, svc *idl.Service, gs *genreg.Service, methods []methodInfo, proto string, rng *rand.Rand, ns *rig.NatsServer, res *progResult, addV func(string, string, interface{})) {
	if atomic.LoadInt32(&busyFailed) >= 1 || atomic.LoadInt32(&busyPhases) >= 4 {
		return
	}
	var two []methodInfo
	for _, mi := range methods {
		if !mi.m.Oneway {
			two = append(two, mi)
		}
	}
	if len(two) == 0 {
		return
	}
	atomic.AddInt32(&busyPhases, 1)
	inner := addV
	addV = func(sig, what string, w interface{}) {
		atomic.AddInt32(&busyFailed, 1)
		inner(sig, what, w)
	}
	for _, kind := range []string{"nats", "tcp"} {
		if kind == "nats" && ns == nil {
			continue
		}
		exp := &expectation{calls: map[string]int{}, args: map[string][]interface{}{}, outcome: map[string][]interface{}{}, observed: make(chan string, 1024)}
		recorder := func(iface, method string, args []interface{}) []interface{} {
			fctx, _ := args[0].(frugal.FContext)
			token := ""
			if fctx != nil {
				token = fctx.CorrelationID()
			}
			exp.mu.Lock()
			exp.calls[token]++
			exp.args[token] = append([]interface{}{method}, args[1:]...)
			out := exp.outcome[token]
			exp.mu.Unlock()
			select {
			case exp.observed <- token:
			default:
			}
			return out
		}
		var proc frugal.FProcessor
		func() {
			defer func() { recover() }()
			proc = gs.NewProcessor(gs.NewStub(recorder))
		}()
		if proc == nil {
			return
		}
		leg, err := rig.StartRPCLeg(kind, proto, proc, ns, rig.LegOptions{})
		if err != nil {
			res.Inconclusive = append(res.Inconclusive, fmt.Sprintf("leg %s/%s (busy registry): %v", kind, proto, err))
			return
		}
		tr, err := leg.NewClient()
		if err != nil {
			leg.Stop()
			res.Inconclusive = append(res.Inconclusive, fmt.Sprintf("client %s/%s (busy registry): %v", kind, proto, err))
			return
		}
		client := reflect.ValueOf(gs.NewClient(frugal.NewFServiceProvider(tr, leg.PF)))
		ct := client.Type()
		for c := 0; c < 3; c++ {
			mi := two[rng.Intn(len(two))]
			var gm reflect.Value
			for i := 0; i < ct.NumMethod(); i++ {
				if norm(ct.Method(i).Name) == norm(mi.m.Name) {
					gm = client.Method(i)
				}
			}
			if !gm.IsValid() {
				continue
			}
			unlock := rig.LockRegistry(tr)
			if unlock == nil {
				leg.Stop()
				return
			}
			go func() { time.Sleep(150 * time.Millisecond); unlock() }()
			one := runCall(prog, svc, mi, gm, fmt.Sprintf("%s-%s-busy-%s-%s-%d", svc.Name, mi.m.Name, kind, proto, c), kind+"/"+proto+"(client registry busy for 150 ms)", rng, exp, leg, res, addV)
			resMu.Lock()
			res.Calls++
			if one != "" {
				res.Outcomes[one+"(client registry busy)"]++
			}
			resMu.Unlock()
		}
		leg.Stop()
	}
}

// scaledOut: two FNatsServer instances serve one processor on one subject in
// one queue group (the usual scaled-out deployment): the broker hands a
// request to exactly one instance, so the handler still runs exactly once per
// call (own, inherited and oneway methods alike).
func scaledOut(prog *idl.Program, svc *idl.Service, gs *genreg.Service, methods []methodInfo, proto string, rng *rand.Rand, ns *rig.NatsServer, res *progResult, addV func(string, string, interface{})) {
	if ns == nil || atomic.LoadInt32(&scaledFailed) >= 1 || atomic.LoadInt32(&scaledPhases) >= 4 || len(methods) == 0 {
		return
	}
	atomic.AddInt32(&scaledPhases, 1)
	inner := addV
	addV = func(sig, what string, w interface{}) {
		atomic.AddInt32(&scaledFailed, 1)
		inner(sig, what, w)
	}
	exp := &expectation{calls: map[string]int{}, args: map[string][]interface{}{}, outcome: map[string][]interface{}{}, observed: make(chan string, 1024)}
	recorder := func(iface, method string, args []interface{}) []interface{} {
		fctx, _ := args[0].(frugal.FContext)
		token := ""
		if fctx != nil {
			token = fctx.CorrelationID()
		}
		exp.mu.Lock()
		exp.calls[token]++
		exp.args[token] = append([]interface{}{method}, args[1:]...)
		out := exp.outcome[token]
		exp.mu.Unlock()
		select {
		case exp.observed <- token:
		default:
		}
		return out
	}
	var proc frugal.FProcessor
	func() {
		defer func() { recover() }()
		proc = gs.NewProcessor(gs.NewStub(recorder))
	}()
	if proc == nil {
		return
	}
	leg, err := rig.StartRPCLeg("nats", proto, proc, ns, rig.LegOptions{NatsInstances: 2})
	if err != nil {
		res.Inconclusive = append(res.Inconclusive, fmt.Sprintf("leg nats/%s (two instances): %v", proto, err))
		return
	}
	defer leg.Stop()
	tr, err := leg.NewClient()
	if err != nil {
		res.Inconclusive = append(res.Inconclusive, fmt.Sprintf("client nats/%s (two instances): %v", proto, err))
		return
	}
	client := reflect.ValueOf(gs.NewClient(frugal.NewFServiceProvider(tr, leg.PF)))
	ct := client.Type()
	legName := "nats/" + proto + "(two server instances, one queue group)"
	for c := 0; c < 8; c++ {
		mi := methods[rng.Intn(len(methods))]
		var gm reflect.Value
		for i := 0; i < ct.NumMethod(); i++ {
			if norm(ct.Method(i).Name) == norm(mi.m.Name) {
				gm = client.Method(i)
			}
		}
		if !gm.IsValid() {
			continue
		}
		token := fmt.Sprintf("%s-%s-scaled-%s-%d", svc.Name, mi.m.Name, proto, c)
		one := runCall(prog, svc, mi, gm, token, legName, rng, exp, leg, res, addV)
		if mi.m.Oneway && one == "oneway" {
			// give a second instance the time to run the handler too before counting
			time.Sleep(20 * time.Millisecond)
			exp.mu.Lock()
			n := exp.calls[token]
			exp.mu.Unlock()
			if n != 1 {
				addV("C03:handler-invocations:oneway", fmt.Sprintf("%s.%s on %s: the handler was invoked %d times for one oneway call", svc.Name, mi.m.Name, legName, n), map[string]interface{}{"token": token})
			}
		}
		resMu.Lock()
		res.Calls++
		if one != "" {
			res.Outcomes[one+"(two server instances)"]++
		}
		resMu.Unlock()
	}
}

// afterOversizeReply: on the NATS leg (the one transport whose server bounds
// the reply) a handler returns a value that cannot travel; the caller must be
// told RESPONSE_TOO_LARGE and every later call on the same server — own and
// inherited methods share the processor — must be served as usual.
func afterOversizeReply(prog *idl.Program, svc *idl.Service, gs *genreg.Service, methods []methodInfo, proto string, rng *rand.Rand, ns *rig.NatsServer, res *progResult, addV func(string, string, interface{})) {
	if ns == nil || atomic.LoadInt32(&oversizeFailed) >= 1 || atomic.LoadInt32(&oversizePhases) >= 6 {
		return
	}
	var big *methodInfo
	var two []methodInfo
	for i := range methods {
		mi := methods[i]
		if mi.m.Oneway {
			continue
		}
		two = append(two, mi)
		if mi.m.Ret != nil && big == nil {
			if k, _, _, _ := prog.ResolveKind(mi.file, mi.m.Ret); k == "string" || k == "binary" {
				big = &methods[i]
			}
		}
	}
	if big == nil {
		return
	}
	atomic.AddInt32(&oversizePhases, 1)
	inner := addV
	addV = func(sig, what string, w interface{}) {
		atomic.AddInt32(&oversizeFailed, 1)
		inner(sig, what, w)
	}
	exp := &expectation{calls: map[string]int{}, args: map[string][]interface{}{}, outcome: map[string][]interface{}{}, observed: make(chan string, 1024)}
	recorder := func(iface, method string, args []interface{}) []interface{} {
		fctx, _ := args[0].(frugal.FContext)
		token := ""
		if fctx != nil {
			token = fctx.CorrelationID()
		}
		exp.mu.Lock()
		exp.calls[token]++
		exp.args[token] = append([]interface{}{method}, args[1:]...)
		out := exp.outcome[token]
		exp.mu.Unlock()
		select {
		case exp.observed <- token:
		default:
		}
		return out
	}
	var proc frugal.FProcessor
	func() {
		defer func() { recover() }()
		proc = gs.NewProcessor(gs.NewStub(recorder))
	}()
	if proc == nil {
		return
	}
	leg, err := rig.StartRPCLeg("nats", proto, proc, ns, rig.LegOptions{NatsWorkers: 2})
	if err != nil {
		res.Inconclusive = append(res.Inconclusive, fmt.Sprintf("leg nats/%s (oversize reply): %v", proto, err))
		return
	}
	defer leg.Stop()
	tr, err := leg.NewClient()
	if err != nil {
		res.Inconclusive = append(res.Inconclusive, fmt.Sprintf("client nats/%s (oversize reply): %v", proto, err))
		return
	}
	client := reflect.ValueOf(gs.NewClient(frugal.NewFServiceProvider(tr, leg.PF)))
	method := func(mi methodInfo) reflect.Value {
		ct := client.Type()
		var gm reflect.Value
		for i := 0; i < ct.NumMethod(); i++ {
			if norm(ct.Method(i).Name) == norm(mi.m.Name) {
				gm = client.Method(i)
			}
		}
		return gm
	}
	legName := "nats/" + proto + "(after an oversize reply)"
	gm := method(*big)
	if !gm.IsValid() {
		return
	}
	forceReplySize = 1200000
	one := runCall(prog, svc, *big, gm, fmt.Sprintf("%s-%s-oversize-%s", svc.Name, big.m.Name, proto), legName, rng, exp, leg, res, addV)
	forceReplySize = 0
	resMu.Lock()
	res.Calls++
	if one != "" {
		res.Outcomes[one]++
	}
	resMu.Unlock()
	if atomic.LoadInt32(&oversizeFailed) > 0 {
		return
	}
	for c := 0; c < 4; c++ {
		mi := two[rng.Intn(len(two))]
		if gm := method(mi); gm.IsValid() {
			one := runCall(prog, svc, mi, gm, fmt.Sprintf("%s-%s-after-oversize-%s-%d", svc.Name, mi.m.Name, proto, c), legName, rng, exp, leg, res, addV)
			resMu.Lock()
			res.Calls++
			if one != "" {
				res.Outcomes[one+"(after an oversize reply)"]++
			}
			resMu.Unlock()
		}
	}
}

var olderServerFailed int32

// olderServer: a client generated for a service talks to a server that only
// implements the service it extends (a server one release behind).  Inherited
// methods must behave identically; the client's own methods are answered with
// an UNKNOWN_METHOD application error without the handler of any method
// running; and the inherited methods keep working on the same connection
// afterwards.
func olderServer(prog *idl.Program, svc *idl.Service, gs, pgs *genreg.Service, methods []methodInfo, kind, proto string, rng *rand.Rand, ns *rig.NatsServer, res *progResult, addV func(string, string, interface{})) {
	if atomic.LoadInt32(&olderServerFailed) >= 2 {
		return
	}
	inner := addV
	addV = func(sig, what string, w interface{}) {
		atomic.AddInt32(&olderServerFailed, 1)
		inner(sig, what, w)
	}
	var inherited, own []methodInfo
	for _, mi := range methods {
		switch {
		case mi.m.Oneway:
		case mi.own:
			own = append(own, mi)
		default:
			inherited = append(inherited, mi)
		}
	}
	if len(inherited) == 0 || len(own) == 0 {
		return
	}
	exp := &expectation{calls: map[string]int{}, args: map[string][]interface{}{}, outcome: map[string][]interface{}{}, observed: make(chan string, 1024)}
	var handlerRuns int32
	recorder := func(iface, method string, args []interface{}) []interface{} {
		atomic.AddInt32(&handlerRuns, 1)
		fctx, _ := args[0].(frugal.FContext)
		token := ""
		if fctx != nil {
			token = fctx.CorrelationID()
		}
		exp.mu.Lock()
		exp.calls[token]++
		exp.args[token] = append([]interface{}{method}, args[1:]...)
		out := exp.outcome[token]
		exp.mu.Unlock()
		select {
		case exp.observed <- token:
		default:
		}
		return out
	}
	var proc frugal.FProcessor
	func() {
		defer func() { recover() }()
		proc = pgs.NewProcessor(pgs.NewStub(recorder))
	}()
	if proc == nil {
		return
	}
	leg, err := rig.StartRPCLeg(kind, proto, proc, ns, rig.LegOptions{})
	if err != nil {
		res.Inconclusive = append(res.Inconclusive, fmt.Sprintf("leg %s/%s (older server): %v", kind, proto, err))
		return
	}
	defer leg.Stop()
	tr, err := leg.NewClient()
	if err != nil {
		res.Inconclusive = append(res.Inconclusive, fmt.Sprintf("client %s/%s (older server): %v", kind, proto, err))
		return
	}
	client := reflect.ValueOf(gs.NewClient(frugal.NewFServiceProvider(tr, leg.PF)))
	method := func(mi methodInfo) reflect.Value {
		ct := client.Type()
		var gm reflect.Value
		for i := 0; i < ct.NumMethod(); i++ {
			if norm(ct.Method(i).Name) == norm(mi.m.Name) {
				gm = client.Method(i)
			}
		}
		return gm
	}
	legName := kind + "/" + proto + "(older server)"
	seq := 0
	callInherited := func() {
		mi := inherited[rng.Intn(len(inherited))]
		if gm := method(mi); gm.IsValid() {
			seq++
			one := runCall(prog, svc, mi, gm, fmt.Sprintf("%s-%s-older-%s-%s-%d", svc.Name, mi.m.Name, kind, proto, seq), legName, rng, exp, leg, res, addV)
			resMu.Lock()
			res.Calls++
			if one != "" {
				res.Outcomes[one+"(inherited, server knows the parent only)"]++
			}
			resMu.Unlock()
		}
	}
	callInherited()
	for round := 0; round < 2; round++ {
		mi := own[rng.Intn(len(own))]
		gm := method(mi)
		if !gm.IsValid() {
			return
		}
		mt := gm.Type()
		if mt.NumIn() != 1+len(mi.m.Args) {
			return
		}
		seq++
		fctx := frugal.NewFContext(fmt.Sprintf("%s-%s-older-unknown-%d", svc.Name, mi.m.Name, seq))
		fctx.SetTimeout(30 * time.Second)
		in := []reflect.Value{reflect.ValueOf(fctx)}
		for i, a := range mi.m.Args {
			pv := reflect.New(mt.In(i + 1)).Elem()
			if err := gocodec.FillGo(pv, prog.GenValue(rng, mi.file, a.Type, 1)); err != nil {
				return
			}
			in = append(in, pv)
		}
		before := atomic.LoadInt32(&handlerRuns)
		wit := map[string]interface{}{"service": svc.Name, "extends": svc.Extends, "method": mi.m.Name, "leg": legName}
		var out []reflect.Value
		func() {
			defer func() {
				if r := recover(); r != nil {
					addV("C03:client-panic:unknown-method", fmt.Sprintf("%s.%s on %s: the emitted client panicked: %v", svc.Name, mi.m.Name, legName, r), wit)
				}
			}()
			out = gm.Call(in)
		}()
		if out == nil {
			return
		}
		resMu.Lock()
		res.Calls++
		res.Outcomes["unknown-method(server knows the parent only)"]++
		resMu.Unlock()
		var callErr error
		if e := out[len(out)-1]; !e.IsNil() {
			callErr, _ = e.Interface().(error)
		}
		ae, ok := callErr.(thrift.TApplicationException)
		if !ok || ae.TypeId() != frugal.APPLICATION_EXCEPTION_UNKNOWN_METHOD {
			addV("C03:unknown-method-outcome", fmt.Sprintf("%s.%s on %s: the server does not implement the method; the caller got %T %v instead of an UNKNOWN_METHOD application error", svc.Name, mi.m.Name, legName, callErr, callErr), wit)
			return
		}
		if n := atomic.LoadInt32(&handlerRuns) - before; n != 0 {
			addV("C03:unknown-method-ran-a-handler", fmt.Sprintf("%s.%s on %s: %d handler invocations for a method the server does not implement", svc.Name, mi.m.Name, legName, n), wit)
			return
		}
		callInherited()
		callInherited()
	}
}

// manyConnections: a server that several clients have connected to before it
// starts serving accepts them back to back; every connection must be served by
// its own handler invocation all the same.  One two-way call per connection,
// issued concurrently, each judged on its own by its correlation id.
func manyConnections(prog *idl.Program, svc *idl.Service, gs *genreg.Service, two []methodInfo, kind, proto string, rng *rand.Rand, ns *rig.NatsServer, res *progResult, addV func(string, string, interface{})) {
	if kind != "tcp" || atomic.LoadInt32(&manyConnFailed) >= 2 {
		return // a lost call costs its whole timeout: two witnesses per process are enough
	}
	const conns = 6
	inner := addV
	addV = func(sig, what string, w interface{}) {
		atomic.AddInt32(&manyConnFailed, 1)
		inner(sig, what, w)
	}
	exp := &expectation{calls: map[string]int{}, args: map[string][]interface{}{}, outcome: map[string][]interface{}{}, observed: make(chan string, 1024)}
	recorder := func(iface, method string, args []interface{}) []interface{} {
		fctx, _ := args[0].(frugal.FContext)
		token := ""
		if fctx != nil {
			token = fctx.CorrelationID()
		}
		exp.mu.Lock()
		exp.calls[token]++
		exp.args[token] = append([]interface{}{method}, args[1:]...)
		out := exp.outcome[token]
		exp.mu.Unlock()
		select {
		case exp.observed <- token:
		default:
		}
		return out
	}
	var proc frugal.FProcessor
	func() {
		defer func() { recover() }()
		proc = gs.NewProcessor(gs.NewStub(recorder))
	}()
	if proc == nil {
		return
	}
	leg, err := rig.StartRPCLeg(kind, proto, proc, ns, rig.LegOptions{PreConnect: conns})
	if err != nil {
		res.Inconclusive = append(res.Inconclusive, fmt.Sprintf("leg %s/%s (pre-connected): %v", kind, proto, err))
		return
	}
	defer leg.Stop()
	legName := kind + "/" + proto
	var wg sync.WaitGroup
	for g := 0; g < conns; g++ {
		tr, err := leg.NewClient()
		if err != nil {
			res.Inconclusive = append(res.Inconclusive, fmt.Sprintf("client %s/%s (pre-connected): %v", kind, proto, err))
			break
		}
		client := reflect.ValueOf(gs.NewClient(frugal.NewFServiceProvider(tr, leg.PF)))
		mi := two[rng.Intn(len(two))]
		var gm reflect.Value
		ct := client.Type()
		for i := 0; i < ct.NumMethod(); i++ {
			if norm(ct.Method(i).Name) == norm(mi.m.Name) {
				gm = client.Method(i)
			}
		}
		if !gm.IsValid() {
			continue
		}
		wg.Add(1)
		grng := rand.New(rand.NewSource(rng.Int63()))
		go func(g int, mi methodInfo, gm reflect.Value, grng *rand.Rand) {
			defer wg.Done()
			token := fmt.Sprintf("%s-%s-%s-conn%d", svc.Name, mi.m.Name, strings.ReplaceAll(legName, "/", "-"), g)
			one := runCall(prog, svc, mi, gm, token, legName+"(pre-connected)", grng, exp, leg, res, addV)
			resMu.Lock()
			res.Calls++
			res.Legs[legName]++
			if one != "" {
				res.Outcomes[one+"(own connection, accepted back to back)"]++
			}
			resMu.Unlock()
		}(g, mi, gm, grng)
	}
	wg.Wait()
}

// runCall performs one call and returns the outcome class exercised.
func runCall(prog *idl.Program, svc *idl.Service, mi methodInfo, gm reflect.Value, token, legName string, rng *rand.Rand, exp *expectation, leg *rig.RPCLeg, res *progResult, addV func(string, string, interface{})) string {
	if atomic.LoadInt32(&violationsSeen) >= 12 {
		return "" // a refuted tree costs a time-out per lost call: a dozen witnesses are enough
	}
	m := mi.m
	mt := gm.Type()
	bigHdr := 0
	if forceRespHeader > 0 && !m.Oneway {
		// the handler of this call also adds a response header of this size
		// (bigheaders.go): every finding is reported under its own signature
		bigHdr = forceRespHeader
		inner := addV
		addV = func(sig, what string, w interface{}) {
			inner("C03:big-response-headers:"+strings.TrimPrefix(sig, "C03:"), fmt.Sprintf("%s [the handler had also added a response header of %d bytes: the server cannot send any reply that carries it]", what, bigHdr), w)
		}
		respHeaderFor.Store(token, bigHdr)
		defer respHeaderFor.Delete(token)
	}
	wit := func(extra map[string]interface{}) map[string]interface{} {
		w := map[string]interface{}{"service": svc.Name, "method": m.Name, "leg": legName, "idl": idl.RenderFile(mi.file, idl.DefaultStyle())}
		if bigHdr > 0 {
			w["response_header_bytes"] = bigHdr
			w["token"] = token
		}
		for k, v := range extra {
			w[k] = v
		}
		return w
	}
	if mt.NumIn() != 1+len(m.Args) {
		addV("C03:client-signature", fmt.Sprintf("%s.%s: emitted client method takes %d parameters, the IDL declares %d arguments", svc.Name, m.Name, mt.NumIn()-1, len(m.Args)), wit(nil))
		return ""
	}
	fctx := frugal.NewFContext(token)
	fctx.SetTimeout(30 * time.Second)
	var callCtx frugal.FContext = fctx
	if wrapCallCtx != nil && !m.Oneway {
		// the caller passes its own FContext implementation (heldcaller.go)
		callCtx = wrapCallCtx(fctx)
	}
	in := []reflect.Value{reflect.ValueOf(&callCtx).Elem()}
	var argTrees []string
	for i, a := range m.Args {
		av := prog.GenValue(rng, mi.file, a.Type, 1)
		if a.Default != nil && rng.Intn(3) == 0 {
			// the caller passes exactly the declared default of the argument
			if d := prog.AVFromLiteral(mi.file, a.Type, a.Default); d != nil {
				av = d
			}
		}
		pv := reflect.New(mt.In(i + 1)).Elem()
		if err := gocodec.FillGo(pv, av); err != nil {
			addV("C03:client-argument-type", fmt.Sprintf("%s.%s argument %s: %v", svc.Name, m.Name, a.Name, err), wit(nil))
			return ""
		}
		in = append(in, pv)
		argTrees = append(argTrees, gocodec.WireTree(prog, av).Canon())
	}
	// outcome
	var outcome []interface{}
	class := "value"
	var wantRet string
	var wantExc string
	var wantAppType int32 = -1
	retIdx := -1
	if m.Ret != nil {
		retIdx = 0
	}
	nOut := 1
	if m.Ret != nil {
		nOut = 2
	}
	outcome = make([]interface{}, nOut)
	r := rng.Intn(10)
	if forceOutcome != "" {
		r = map[string]int{"declared-exception": 0, "undeclared-error": 2, "application-exception": 3, "value": 9}[forceOutcome]
	}
	switch {
	case m.Oneway:
		class = "oneway"
	case r < 2 && len(m.Throws) > 0:
		class = "declared-exception"
		ef := m.Throws[rng.Intn(len(m.Throws))]
		av := prog.GenValue(rng, mi.file, ef.Type, 1)
		// the Go type of the exception: the emitted type whose Write names the IDL exception
		_, _, _, rr := prog.ResolveKind(mi.file, ef.Type)
		var ev reflect.Value
		ev = exceptionValue(rr.Struct.Name, rr.File)
		if !ev.IsValid() {
			class = "value"
			break
		}
		if err := gocodec.FillGo(ev.Elem(), av); err != nil {
			addV("C03:exception-type-shape", err.Error(), wit(nil))
			return ""
		}
		e, ok := ev.Interface().(error)
		if !ok {
			addV("C03:exception-not-error", fmt.Sprintf("emitted exception type %s does not implement error", ev.Type()), wit(nil))
			return ""
		}
		outcome[nOut-1] = e
		wantExc = gocodec.WireTree(prog, av).Canon()
	case r < 3:
		class = "undeclared-error"
		outcome[nOut-1] = errors.New("boom " + token)
		wantAppType = frugal.APPLICATION_EXCEPTION_INTERNAL_ERROR
	case r < 4:
		class = "application-exception"
		wantAppType = []int32{frugal.APPLICATION_EXCEPTION_UNKNOWN, frugal.APPLICATION_EXCEPTION_MISSING_RESULT, frugal.APPLICATION_EXCEPTION_INVALID_TRANSFORM, 42}[rng.Intn(4)]
		outcome[nOut-1] = thrift.NewTApplicationException(wantAppType, "app "+token)
	case r < 5 && retIdx >= 0 && nillable(mt.Out(0)):
		// "not found" the way Go code says it: a nil struct / container / binary
		// and a nil error (the stub leaves the result at its zero value)
		class = "nil-value"
	}
	if forceReplySize > 0 && retIdx >= 0 && !m.Oneway {
		if k, _, _, _ := prog.ResolveKind(mi.file, m.Ret); k == "string" || k == "binary" {
			class = "large-reply"
			if forceReplySize > 1<<20 {
				class = "oversize-reply"
			}
			outcome = make([]interface{}, nOut)
			av := &idl.AV{Kind: k, S: bytes.Repeat([]byte("R"), forceReplySize)}
			rv := reflect.New(mt.Out(0)).Elem()
			if err := gocodec.FillGo(rv, av); err != nil {
				return ""
			}
			outcome[0] = rv.Interface()
			wantRet = gocodec.WireTree(prog, av).Canon()
		}
	}
	if class == "value" || class == "oneway" {
		if retIdx >= 0 {
			av := prog.GenValue(rng, mi.file, m.Ret, 1)
			rv := reflect.New(mt.Out(0)).Elem()
			if err := gocodec.FillGo(rv, av); err != nil {
				addV("C03:return-type-shape", fmt.Sprintf("%s.%s return: %v", svc.Name, m.Name, err), wit(nil))
				return ""
			}
			outcome[0] = rv.Interface()
			wantRet = gocodec.WireTree(prog, av).Canon()
		}
	}
	exp.mu.Lock()
	exp.outcome[token] = outcome
	exp.mu.Unlock()

	closeCall := announce(token, class, fmt.Sprintf("%s.%s on %s", svc.Name, m.Name, legName))
	defer closeCall()
	done := make(chan []reflect.Value, 1)
	var panicked interface{}
	go func() {
		defer func() {
			if r := recover(); r != nil {
				panicked = r
				done <- nil
			}
		}()
		done <- gm.Call(in)
	}()
	var out []reflect.Value
	select {
	case out = <-done:
	case <-time.After(60 * time.Second):
		resMu.Lock()
		res.Inconclusive = append(res.Inconclusive, fmt.Sprintf("%s.%s on %s did not return within the watchdog", svc.Name, m.Name, legName))
		resMu.Unlock()
		return ""
	}
	if out == nil {
		addV("C03:client-panic:"+class, fmt.Sprintf("%s.%s (%s): the emitted client panicked: %v", svc.Name, m.Name, class, panicked), wit(nil))
		return ""
	}
	var callErr error
	if e := out[len(out)-1]; !e.IsNil() {
		callErr, _ = e.Interface().(error)
	}
	// for a oneway the handler runs after the call returned: wait for it
	if m.Oneway && callErr == nil {
		deadline := time.After(30 * time.Second)
		for seen := false; !seen; {
			exp.mu.Lock()
			seen = exp.calls[token] > 0
			exp.mu.Unlock()
			if seen {
				break
			}
			select {
			case <-exp.observed:
			case <-deadline:
				addV("C03:oneway-not-delivered", fmt.Sprintf("%s.%s on %s: a successful oneway call never reached the handler", svc.Name, m.Name, legName), wit(map[string]interface{}{"token": token}))
				return class
			}
		}
	}
	exp.mu.Lock()
	n := exp.calls[token]
	got := exp.args[token]
	exp.mu.Unlock()
	if n == 0 && callErr != nil && specialDouble.MatchString(callErr.Error()) {
		addV("C03:json-special-double-split-across-reads", fmt.Sprintf("%s.%s on %s: a call carrying an Infinity/NaN double never reached the handler: %v", svc.Name, m.Name, legName, callErr), wit(map[string]interface{}{"token": token, "arguments": argTrees}))
		return class
	}
	if n != 1 {
		addV(fmt.Sprintf("C03:handler-invocations:%s", class), fmt.Sprintf("%s.%s on %s: the handler was invoked %d times for one client call (caller saw err=%v)", svc.Name, m.Name, legName, n, callErr), wit(map[string]interface{}{"token": token}))
		return class
	}
	// arguments as the handler saw them
	if len(got)-1 != len(m.Args) {
		addV("C03:handler-arity", fmt.Sprintf("%s.%s: handler received %d arguments, %d declared", svc.Name, m.Name, len(got)-1, len(m.Args)), wit(nil))
		return class
	}
	for i, a := range m.Args {
		t, err := gocodec.FromGo(prog, mi.file, a.Type, reflect.ValueOf(got[i+1]))
		if err != nil {
			addV("C03:handler-argument-shape", fmt.Sprintf("%s.%s argument %s: %v", svc.Name, m.Name, a.Name, err), wit(nil))
			return class
		}
		if t.Canon() != argTrees[i] {
			k, _, _, _ := prog.ResolveKind(mi.file, a.Type)
			addV("C03:argument-differs:"+k, fmt.Sprintf("%s.%s on %s: argument %d (%s, %s) seen by the handler differs from the caller's", svc.Name, m.Name, legName, i+1, a.Name, k), wit(map[string]interface{}{"caller": argTrees[i], "handler": t.Canon()}))
			return class
		}
	}
	// what the caller observed
	if bigHdr > 0 && isResponseTooLarge(callErr) {
		// the outcome could not be carried next to the handler's response
		// headers and the caller was told so
		return class + "->RESPONSE_TOO_LARGE"
	}
	switch class {
	case "oneway":
		if callErr != nil {
			addV("C03:oneway-error", fmt.Sprintf("%s.%s on %s: oneway call failed: %v", svc.Name, m.Name, legName, callErr), wit(nil))
		}
	case "value", "large-reply":
		if callErr != nil {
			addV("C03:"+class+"-outcome-error", fmt.Sprintf("%s.%s on %s: the handler returned a value, the caller got error %v", svc.Name, m.Name, legName, callErr), wit(map[string]interface{}{"returned": wantRet}))
			return class
		}
		if retIdx >= 0 {
			t, err := gocodec.FromGo(prog, mi.file, m.Ret, out[0])
			if err != nil {
				addV("C03:return-shape", fmt.Sprintf("%s.%s: %v", svc.Name, m.Name, err), wit(map[string]interface{}{"returned": wantRet}))
				return class
			}
			if t.Canon() != wantRet {
				k, _, _, _ := prog.ResolveKind(mi.file, m.Ret)
				addV("C03:return-differs:"+k, fmt.Sprintf("%s.%s on %s: the caller's result (%s) differs from what the handler returned", svc.Name, m.Name, legName, k), wit(map[string]interface{}{"handler": wantRet, "caller": t.Canon()}))
			}
		}
	case "nil-value":
		// Thrift cannot encode "nil": the emitted processor answers with a reply
		// that carries no result, the emitted client hands the caller the zero
		// value.  What the statement rules out is an outcome the handler did not
		// produce: a transport failure, an application error, a non-empty value.
		k, _, _, _ := prog.ResolveKind(mi.file, m.Ret)
		if ae, ok := callErr.(thrift.TApplicationException); ok && ae.TypeId() == frugal.APPLICATION_EXCEPTION_MISSING_RESULT {
			break // a client saying "no result" would be telling the truth as well
		}
		if callErr != nil {
			addV("C03:nil-return:"+k+":caller-got-error", fmt.Sprintf("%s.%s on %s: the handler returned (nil, nil) for a result of kind %s, the caller got error %T: %v", svc.Name, m.Name, legName, k, callErr, callErr), wit(map[string]interface{}{"token": token, "arguments": argTrees}))
			return class
		}
		if v := out[0]; !(v.Kind() == reflect.Ptr && v.IsNil()) && !((v.Kind() == reflect.Slice || v.Kind() == reflect.Map) && v.Len() == 0) {
			addV("C03:nil-return:"+k+":caller-got-a-value", fmt.Sprintf("%s.%s on %s: the handler returned (nil, nil), the caller got %+v", svc.Name, m.Name, legName, v.Interface()), wit(map[string]interface{}{"token": token}))
		}
	case "declared-exception":
		if callErr == nil {
			addV("C03:declared-exception-lost", fmt.Sprintf("%s.%s on %s: the handler raised a declared exception, the caller got no error", svc.Name, m.Name, legName), wit(nil))
			return class
		}
		rv := reflect.ValueOf(callErr)
		if rv.Kind() != reflect.Ptr || rv.Elem().Kind() != reflect.Struct || ctorByType[rv.Type()] == nil {
			addV("C03:declared-exception-as-other-error", fmt.Sprintf("%s.%s on %s: the handler raised a declared exception, the caller got %T: %v", svc.Name, m.Name, legName, callErr, callErr), wit(nil))
			return class
		}
		// which exception struct is it? compare through every declared one
		matched := false
		for _, ef := range m.Throws {
			_, _, _, rr := prog.ResolveKind(mi.file, ef.Type)
			if norm(rv.Elem().Type().Name()) != norm(rr.Struct.Name) {
				continue
			}
			t, err := gocodec.StructFromGo(prog, rr.File, rr.Struct, rv)
			if err == nil && t.Canon() == wantExc {
				matched = true
			}
		}
		if !matched {
			addV("C03:declared-exception-differs", fmt.Sprintf("%s.%s on %s: the exception the caller got differs from the one the handler raised", svc.Name, m.Name, legName), wit(map[string]interface{}{"raised": wantExc, "caller": fmt.Sprintf("%T %v", callErr, callErr)}))
		}
	case "oversize-reply":
		// the NATS server bounds a reply at 1 MiB: the handler's outcome cannot
		// travel, the caller is told so (and the server goes on serving)
		tooLarge := false
		if te, ok := callErr.(thrift.TTransportException); ok && te.TypeId() == frugal.TRANSPORT_EXCEPTION_RESPONSE_TOO_LARGE {
			tooLarge = true
		}
		if ae, ok := callErr.(thrift.TApplicationException); ok && ae.TypeId() == frugal.APPLICATION_EXCEPTION_RESPONSE_TOO_LARGE {
			tooLarge = true
		}
		if !tooLarge {
			addV("C03:oversize-reply-outcome", fmt.Sprintf("%s.%s on %s: the handler returned a 1.2 MB value over a transport that bounds replies at 1 MiB; the caller got %T %v instead of RESPONSE_TOO_LARGE", svc.Name, m.Name, legName, callErr, callErr), wit(nil))
		}
	case "undeclared-error", "application-exception":
		ae, ok := callErr.(thrift.TApplicationException)
		if !ok {
			addV("C03:"+class+"-not-application-error", fmt.Sprintf("%s.%s on %s: expected an application error, the caller got %T: %v", svc.Name, m.Name, legName, callErr, callErr), wit(nil))
			return class
		}
		if ae.TypeId() != wantAppType {
			addV("C03:"+class+"-type", fmt.Sprintf("%s.%s on %s: application error type %d, expected %d", svc.Name, m.Name, legName, ae.TypeId(), wantAppType), wit(nil))
		}
	}
	resMu.Lock()
	defer resMu.Unlock()
	if res.Sample == nil && len(m.Args) > 0 && class == "value" {
		res.Sample = map[string]interface{}{"service": svc.Name, "method": m.Name, "leg": legName, "arguments": argTrees, "returned": wantRet}
	}
	return class
}

// nillable: Go result types whose zero value is nil (struct and union
// pointers, lists, sets, maps, binary).
func nillable(t reflect.Type) bool {
	return t.Kind() == reflect.Ptr || t.Kind() == reflect.Slice || t.Kind() == reflect.Map
}

// exceptionValue constructs the emitted exception type declared under the
// given IDL name in file f.
func exceptionValue(idlName string, f *idl.File) reflect.Value {
	p := filePkg[f]
	if p == nil {
		return reflect.Value{}
	}
	for goName, c := range p.Types {
		if norm(goName) == norm(idlName) {
			v := c()
			if _, ok := interface{}(v).(error); ok {
				return reflect.ValueOf(v)
			}
		}
	}
	return reflect.Value{}
}

var resMu sync.Mutex
var filePkg map[*idl.File]*genreg.Package
var currentSub string

// checkNoReply: no reply frame may carry the op id of a successful oneway
// (on HTTP the empty frame is the "no reply" encoding and carries no op id).
func checkNoReply(token, legName string, leg *rig.RPCLeg, res *progResult, addV func(string, string, interface{}), svc *idl.Service, mi methodInfo) {
	reqs, reps := leg.Tap.Snapshot()
	op := ""
	for _, rq := range reqs {
		h, _, err := wire.ParseFrame(rq)
		if err == nil && h["_cid"] == token {
			op = h["_opid"]
		}
	}
	if op == "" {
		return
	}
	res.OnewayChecks++
	for _, rp := range reps {
		if len(rp) <= 4 {
			continue
		}
		h, _, err := wire.ParseFrame(rp)
		if err == nil && h["_opid"] == op {
			addV("C03:oneway-replied", fmt.Sprintf("%s.%s on %s: a reply frame was produced for a successful oneway call", svc.Name, mi.m.Name, legName), map[string]interface{}{"reply_frame": fmt.Sprintf("%x", rp)})
		}
	}
}

var _ = tvalue.Value{}
