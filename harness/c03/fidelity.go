// C03 monitor, fixed fidelity fixture (harness side).
//
// The driver (cmd/c03/fixed.go) compiles a small hand-written two-file program
// (service WFid extends wbase.WBase) with the compiler under test and runs this
// file's entry point in a child process of its own.  Two workload dimensions
// that random programs reach only by luck are walked systematically here:
//
//   - frame sizes: the request frame and the reply frame of own and inherited
//     methods (string and binary payloads, values and declared exceptions) are
//     swept in one-byte steps across the 4096-byte buffer boundaries of the
//     stream legs (in-memory pipe, tcp) for every protocol;
//   - "(nil, nil)" outcomes: for every method whose Go return type can be nil
//     (struct, union, list, set, map, binary), own and inherited, on every
//     transport x protocol, the handler returns a nil value and a nil error.
//
// Every call is judged like any other call of C03: handler invoked exactly
// once (by correlation id) with equal arguments, and the caller observes the
// handler's outcome.  Every case is announced in the output file before it is
// run ("start") and closed afterwards ("done"), so that when the code under
// test takes the process down the driver can name the case in flight.
package main

import (
	"encoding/json"
	"fmt"
	"os"
	"reflect"
	"sort"
	"strings"
	"sync"
	"time"

	frugal "github.com/Workiva/frugal/lib/go"
	"github.com/apache/thrift/lib/go/thrift"

	"verif/genreg"
	"verif/rig"
)

type fxCfg struct {
	Seed      int64    `json:"seed"`
	Thorough  bool     `json:"thorough"`
	Out       string   `json:"out"`
	Skip      []string `json:"skip"`       // case keys decided by an earlier attempt
	SkipKinds []string `json:"skip_kinds"` // return kinds whose nil case took the process down
}

type fxLine struct {
	T        string                 `json:"t"` // start | done | violation | inconclusive | counts | end
	Key      string                 `json:"key,omitempty"`
	Info     map[string]interface{} `json:"info,omitempty"`
	Sig      string                 `json:"sig,omitempty"`
	What     string                 `json:"what,omitempty"`
	Witness  interface{}            `json:"witness,omitempty"`
	Calls    int                    `json:"calls,omitempty"`
	Outcomes map[string]int         `json:"outcomes,omitempty"`
	Distinct []string               `json:"distinct,omitempty"`
	Extra    map[string]interface{} `json:"extra,omitempty"`
}

type fxOut struct {
	mu   sync.Mutex
	f    *os.File
	sigs map[string]bool
	bad  int
}

func (o *fxOut) line(l fxLine) {
	b, _ := json.Marshal(l)
	o.mu.Lock()
	o.f.Write(append(b, '\n')) // one write per line: nothing is lost when the process dies
	o.mu.Unlock()
}

func (o *fxOut) failed() int {
	o.mu.Lock()
	defer o.mu.Unlock()
	return o.bad
}

func (o *fxOut) violation(sig, what string, witness interface{}) {
	o.mu.Lock()
	dup := o.sigs[sig]
	o.sigs[sig] = true
	o.bad++
	o.mu.Unlock()
	if !dup {
		o.line(fxLine{T: "violation", Sig: sig, What: what, Witness: witness})
	}
}

// fxEnv is the serving side: one recording stub handler whose outcomes are
// planned per correlation id.
type fxEnv struct {
	gs   *genreg.Service
	base *genreg.Package
	ns   *rig.NatsServer
	out  *fxOut
	cfg  fxCfg

	mu    sync.Mutex
	calls map[string]int
	args  map[string][]interface{}
	plan  map[string][]interface{}

	nCalls   int
	outcomes map[string]int
	distinct map[string]bool
}

func (e *fxEnv) recorder(iface, method string, args []interface{}) []interface{} {
	token := ""
	if fctx, _ := args[0].(frugal.FContext); fctx != nil {
		token = fctx.CorrelationID()
	}
	e.mu.Lock()
	defer e.mu.Unlock()
	e.calls[token]++
	e.args[token] = append([]interface{}{method}, args[1:]...)
	return e.plan[token]
}

func (e *fxEnv) forget(token string) {
	e.mu.Lock()
	delete(e.calls, token)
	delete(e.args, token)
	delete(e.plan, token)
	e.mu.Unlock()
}

func (e *fxEnv) skipped(key, kind string) bool {
	for _, s := range e.cfg.Skip {
		if s == key {
			return true
		}
	}
	for _, k := range e.cfg.SkipKinds {
		if kind != "" && k == kind {
			return true
		}
	}
	return false
}

// fxResult is what one call looked like from both ends.
type fxResult struct {
	out      []reflect.Value
	err      error
	panicked interface{}
	hung     bool
	handler  int
	args     []interface{}
}

// call invokes client.<name>(ctx(token), args...) with the planned handler
// outcome.
func (e *fxEnv) call(client reflect.Value, name, token string, plan []interface{}, args ...interface{}) fxResult {
	gm := client.MethodByName(name)
	fctx := frugal.NewFContext(token)
	fctx.SetTimeout(30 * time.Second)
	in := []reflect.Value{reflect.ValueOf(fctx)}
	for _, a := range args {
		in = append(in, reflect.ValueOf(a))
	}
	e.mu.Lock()
	e.plan[token] = plan
	e.nCalls++
	e.mu.Unlock()
	var r fxResult
	done := make(chan struct{})
	go func() {
		defer close(done)
		defer func() {
			if p := recover(); p != nil {
				r.panicked = p
			}
		}()
		r.out = gm.Call(in)
	}()
	select {
	case <-done:
	case <-time.After(90 * time.Second):
		return fxResult{hung: true}
	}
	if r.panicked == nil {
		if ev := r.out[len(r.out)-1]; !ev.IsNil() {
			r.err, _ = ev.Interface().(error)
		}
	}
	e.mu.Lock()
	r.handler = e.calls[token]
	r.args = e.args[token]
	e.mu.Unlock()
	return r
}

// judgeCommon applies the part of the oracle that is the same for every
// outcome; it returns a failure class ("" = fine so far) and a description.
func judgeCommon(r fxResult, method string, args []interface{}) (string, string) {
	switch {
	case r.hung:
		return "hung", "the call did not return within the watchdog"
	case r.panicked != nil:
		return "client-panic", fmt.Sprintf("the emitted client panicked: %v", r.panicked)
	case r.handler != 1:
		return "handler-invocations", fmt.Sprintf("the handler was invoked %d times for one client call (caller saw err=%v)", r.handler, r.err)
	}
	if len(r.args) != len(args)+1 || r.args[0] != method {
		return "handler-arguments", fmt.Sprintf("the handler of %v ran with %d arguments for a call of %s with %d", r.args[0], len(r.args)-1, method, len(args))
	}
	for i, a := range args {
		if !reflect.DeepEqual(a, r.args[i+1]) {
			return "argument-differs", fmt.Sprintf("argument %d seen by the handler differs from the caller's (%s)", i+1, brief(a, r.args[i+1]))
		}
	}
	return "", ""
}

func brief(want, got interface{}) string {
	d := func(v interface{}) string {
		switch x := v.(type) {
		case string:
			if len(x) > 24 {
				return fmt.Sprintf("string of %d bytes %q..", len(x), x[:24])
			}
			return fmt.Sprintf("%q", x)
		case []byte:
			if len(x) > 12 {
				return fmt.Sprintf("%d bytes %x..", len(x), x[:12])
			}
			return fmt.Sprintf("%x", x)
		}
		s := fmt.Sprintf("%+v", v)
		if len(s) > 80 {
			s = s[:80] + ".."
		}
		return s
	}
	return "sent " + d(want) + ", got " + d(got)
}

func fidelityMain(cfgFile string) {
	rig.Quiet()
	b, err := os.ReadFile(cfgFile)
	if err != nil {
		fmt.Println(err)
		os.Exit(2)
	}
	var cfg fxCfg
	if err := json.Unmarshal(b, &cfg); err != nil {
		fmt.Println(err)
		os.Exit(2)
	}
	f, err := os.OpenFile(cfg.Out, os.O_CREATE|os.O_WRONLY|os.O_APPEND, 0o644)
	if err != nil {
		fmt.Println(err)
		os.Exit(2)
	}
	out := &fxOut{f: f, sigs: map[string]bool{}}
	env := &fxEnv{out: out, cfg: cfg, calls: map[string]int{}, args: map[string][]interface{}{}, plan: map[string][]interface{}{}, outcomes: map[string]int{}, distinct: map[string]bool{}}
	for _, p := range genreg.Packages() {
		for _, c := range p.Types {
			ctorByType[reflect.TypeOf(c())] = c
		}
		if s := p.Services["FWFid"]; s != nil {
			env.gs = s
		}
		if p.Services["FWBase"] != nil {
			env.base = p
		}
	}
	if env.gs == nil || env.base == nil {
		out.line(fxLine{T: "inconclusive", What: "the fidelity fixture's services were not emitted"})
		return
	}
	ns, err := rig.StartNats()
	if err != nil {
		out.line(fxLine{T: "inconclusive", What: "embedded broker: " + err.Error()})
		return
	}
	defer ns.Stop()
	env.ns = ns
	env.sweep()
	env.nilReturns()
	env.flush()
	out.line(fxLine{T: "end"})
}

// flush reports what has been counted since the last report.
func (e *fxEnv) flush() {
	e.mu.Lock()
	var ds []string
	for k := range e.distinct {
		ds = append(ds, k)
	}
	sort.Strings(ds)
	l := fxLine{T: "counts", Calls: e.nCalls, Outcomes: e.outcomes, Distinct: ds}
	e.nCalls, e.outcomes, e.distinct = 0, map[string]int{}, map[string]bool{}
	e.mu.Unlock()
	e.out.line(l)
}

// openLeg starts a server for the fixture on a leg and a first client.
func (e *fxEnv) openLeg(kind, proto string) (*rig.RPCLeg, error) {
	return rig.StartRPCLeg(kind, proto, e.gs.NewProcessor(e.gs.NewStub(e.recorder)), e.ns, rig.LegOptions{})
}

func (e *fxEnv) newClient(leg *rig.RPCLeg) (reflect.Value, frugal.FTransport, error) {
	tr, err := leg.NewClient()
	if err != nil {
		return reflect.Value{}, nil, err
	}
	return reflect.ValueOf(e.gs.NewClient(frugal.NewFServiceProvider(tr, leg.PF))), tr, nil
}

// ---- frame sizes across buffer boundaries -------------------------------------

func textOf(n, salt int) string {
	b := make([]byte, n)
	for i := range b {
		b[i] = byte('a' + (i+salt)%26)
	}
	return string(b)
}

func bytesOf(n, salt int) []byte {
	b := make([]byte, n)
	for i := range b {
		b[i] = byte(i*7 + salt)
	}
	return b
}

// oops builds the fixture's declared exception carrying why.
func (e *fxEnv) oops(why string) (error, bool) {
	c := e.base.Types["WOops"]
	if c == nil {
		return nil, false
	}
	v := reflect.ValueOf(c())
	fv := v.Elem().FieldByName("Why")
	if !fv.IsValid() || fv.Kind() != reflect.String {
		return nil, false
	}
	fv.SetString(why)
	err, ok := v.Interface().(error)
	return err, ok
}

type sweepMethod struct {
	name   string // Go name on the client
	wire   string // name the handler is told
	binary bool
	throws bool
	extra  bool // takes a trailing i32
	own    bool
}

var sweepMethods = []sweepMethod{
	{"Echo", "Echo", false, true, true, true},
	{"BasePing", "BasePing", false, true, false, false},
	{"Blob", "Blob", true, false, true, true},
	{"BaseBlob", "BaseBlob", true, false, false, false},
}

func (e *fxEnv) sweep() {
	// sizes of whole frames (4-byte size prefix included) that are aimed at:
	// every size in a window around each multiple of the 4096-byte buffers the
	// stream transports read through, so that the end of the frame, and with it
	// the ends of the header block and of the message, fall on every offset
	// around a buffer boundary
	windows := [][2]int{{4096 - 64, 4096 + 176}, {8192 - 48, 8192 + 112}}
	if e.cfg.Thorough {
		windows = [][2]int{{4096 - 160, 4096 + 400}, {8192 - 160, 8192 + 400}, {12288 - 64, 12288 + 176}, {16384 - 64, 16384 + 176}, {65536 - 64, 65536 + 176}}
	}
	for _, kind := range []string{"pipe", "tcp"} {
		for _, proto := range rig.Protocols {
			legName := kind + "/" + proto
			key := "sweep|" + legName
			if e.skipped(key, "") {
				continue
			}
			e.out.line(fxLine{T: "start", Key: key, Info: map[string]interface{}{"phase": "request and reply frame sizes swept across 4096-byte boundaries", "leg": legName}})
			leg, err := e.openLeg(kind, proto)
			if err != nil {
				e.out.line(fxLine{T: "inconclusive", What: fmt.Sprintf("leg %s (frame sizes): %v", legName, err)})
				continue
			}
			for _, dir := range []string{"request", "reply"} {
				e.sweepDir(leg, legName, dir, windows)
			}
			leg.Stop()
			e.flush()
			e.out.line(fxLine{T: "done", Key: key})
		}
	}
}

type sweepFailure struct {
	Method  string `json:"method"`
	Payload int    `json:"payload_bytes"`
	Outcome string `json:"handler_outcome"`
	Class   string `json:"failure"`
	What    string `json:"what"`
	Token   string `json:"correlation_id"`
}

func (e *fxEnv) sweepDir(leg *rig.RPCLeg, legName, dir string, windows [][2]int) {
	client, tr, err := e.newClient(leg)
	if err != nil {
		e.out.line(fxLine{T: "inconclusive", What: fmt.Sprintf("client %s (frame sizes): %v", legName, err)})
		return
	}
	defer func() { tr.Close() }()
	var fails []sweepFailure
	byClass := map[string]int{}
	seq, calls := 0, 0
	pending := 0 // calls made since the tap was last emptied
	stop := false
	// one call: method mi, payload of n bytes in the swept direction, the reply
	// being a value or (again) the declared exception carrying the payload
	one := func(mi int, again bool, n int) {
		m := sweepMethods[mi]
		seq++
		token := fmt.Sprintf("fx-%s-%s-%s-%06d", m.name, strings.ReplaceAll(legName, "/", "-"), dir[:3], seq)
		reqN, repN := n, 16+mi
		if dir == "reply" {
			reqN, repN = 16+mi, n
		}
		var arg, ret interface{}
		if m.binary {
			arg, ret = bytesOf(reqN, seq), bytesOf(repN, seq+1)
		} else {
			arg, ret = textOf(reqN, seq), textOf(repN, seq+1)
		}
		args := []interface{}{arg}
		if m.extra {
			args = append(args, int32(n))
		}
		outcome := "value"
		plan := []interface{}{ret, nil}
		if again {
			outcome = "declared-exception"
			ex, _ := e.oops(ret.(string))
			plan = []interface{}{nil, ex}
		}
		r := e.call(client, m.name, token, plan, args...)
		calls++
		pending++
		class, what := judgeCommon(r, m.wire, args)
		if class == "" {
			switch outcome {
			case "value":
				if r.err != nil {
					class, what = "outcome-error", fmt.Sprintf("the handler returned a value, the caller got error %T: %v", r.err, r.err)
				} else if got := r.out[0].Interface(); !reflect.DeepEqual(got, ret) {
					class, what = "return-differs", "the caller's result differs from what the handler returned ("+brief(ret, got)+")"
				}
			case "declared-exception":
				rv := reflect.ValueOf(r.err)
				if r.err == nil {
					class, what = "declared-exception-lost", "the handler raised a declared exception, the caller got no error"
				} else if rv.Kind() != reflect.Ptr || rv.Elem().Kind() != reflect.Struct || rv.Elem().Type().Name() != "WOops" {
					class, what = "declared-exception-as-other-error", fmt.Sprintf("the handler raised WOops, the caller got %T: %v", r.err, r.err)
				} else if got := rv.Elem().FieldByName("Why").String(); got != ret.(string) {
					class, what = "declared-exception-differs", "the exception the caller got differs from the one raised ("+brief(ret, got)+")"
				}
			}
		}
		e.forget(token)
		if class == "" {
			e.mu.Lock()
			e.outcomes[outcome+"(frame size sweep, "+dir+")"]++
			e.mu.Unlock()
			return
		}
		if class == "hung" {
			e.out.line(fxLine{T: "inconclusive", What: fmt.Sprintf("WFid.%s on %s (%s of %d bytes): %s", m.name, legName, dir, n, what)})
			stop = true
			return
		}
		fails = append(fails, sweepFailure{m.name, n, outcome, class, what, token})
		byClass[class]++
		if len(fails) >= 6 || e.out.failed() >= 24 {
			stop = true // a lost call can cost its whole timeout: a few witnesses are enough
		}
		// whatever went wrong may have left the connection out of step: the
		// next size is judged on a connection of its own
		tr.Close()
		client, tr, err = e.newClient(leg)
		if err != nil {
			e.out.line(fxLine{T: "inconclusive", What: fmt.Sprintf("client %s (frame sizes, reconnect): %v", legName, err)})
			stop = true
		}
	}
	// frames of the swept direction seen at the tap since it was last emptied.
	// The adapter writes on a goroutine of its own, which may note a request at
	// the tap a moment after its reply has come back: wait until every call made
	// since then is there.
	emptyTap := func() { leg.Tap.Reset(); pending = 0 }
	tapped := func() [][]byte {
		var frames [][]byte
		for i := 0; i < 30000; i++ {
			reqs, reps := leg.Tap.Snapshot()
			frames = reqs
			if dir == "reply" {
				frames = reps
			}
			if len(frames) >= pending {
				break
			}
			time.Sleep(time.Millisecond)
		}
		return frames
	}
	lastFrame := func() int {
		if f := tapped(); len(f) > 0 && len(f) >= pending {
			return len(f[len(f)-1])
		}
		return 0
	}
	// a first call of every method with 510 bytes tells what the frame adds to
	// the payload on this leg (the JSON protocol writes binary as base64)
	over := make([]int, len(sweepMethods))
	b64 := make([]bool, len(sweepMethods))
	for mi, m := range sweepMethods {
		emptyTap()
		one(mi, false, 510)
		l := lastFrame()
		if stop || len(fails) > 0 || l == 0 {
			if len(fails) == 0 && !stop {
				e.out.line(fxLine{T: "inconclusive", What: fmt.Sprintf("frame size sweep (%s, %s): the wire tap saw no %s frame", dir, legName, dir)})
				return
			}
			break
		}
		over[mi] = l - 510
		if m.binary && leg.Proto == "json" {
			over[mi], b64[mi] = l-680, true
		}
	}
	emptyTap()
	for _, w := range windows {
		for target := w[0]; target <= w[1] && !stop; target++ {
			// both string methods at every size, the binary ones in turn
			for _, mi := range []int{0, 1, 2 + target%2} {
				n := target - over[mi]
				if b64[mi] {
					n = n * 3 / 4
				}
				if n < 1 || stop {
					continue
				}
				one(mi, false, n)
				// every fourth reply size of a method that declares an exception
				// travels a second time, as the exception's message
				if m := sweepMethods[mi]; dir == "reply" && m.throws && target%4 == 3 && !stop {
					if _, ok := e.oops(""); ok {
						one(mi, true, n)
					}
				}
			}
		}
	}
	// what travelled in the swept direction
	seen := map[int]bool{}
	minF, maxF := 0, 0
	collect := func() {
		frames := tapped()
		emptyTap()
		for _, fr := range frames {
			l := len(fr)
			seen[l] = true
			if minF == 0 || l < minF {
				minF = l
			}
			if l > maxF {
				maxF = l
			}
		}
	}
	collect()
	if len(fails) == 0 {
		if stop {
			return
		}
		// the sweep must really have put a frame end on every offset around the
		// boundaries; the header block grows by a byte whenever the process-wide op
		// id gains a digit, which leaves a one-byte hole: holes are aimed at again
		missing := 0
		for round := 0; round < 4; round++ {
			var holes []int
			for _, w := range windows {
				for l := w[0] + 16; l <= w[1]-16; l++ {
					if !seen[l] {
						holes = append(holes, l)
					}
				}
			}
			missing = len(holes)
			if missing == 0 || stop || len(fails) > 0 {
				break
			}
			one(0, false, 510)
			if l := lastFrame(); l > 0 {
				over[0] = l - 510
			}
			for _, l := range holes {
				if n := l - over[0]; n > 0 && !stop {
					one(0, false, n)
				}
			}
			collect()
		}
		if len(fails) > 0 || stop {
			missing = 0
		}
		if missing > 0 {
			e.out.line(fxLine{T: "inconclusive", What: fmt.Sprintf("frame size sweep (%s, %s): %d of the frame sizes aimed at were not produced (frames seen: %d..%d, %d sizes)", dir, legName, missing, minF, maxF, len(seen))})
			return
		}
		e.mu.Lock()
		e.distinct[dir+" frames of every size around the 4096-byte boundaries on "+legName] = true
		e.mu.Unlock()
		return
	}
	var classes []string
	for c := range byClass {
		classes = append(classes, c)
	}
	sort.Strings(classes)
	var sizesBad []int
	for _, f := range fails {
		sizesBad = append(sizesBad, f.Payload)
	}
	e.out.violation(fmt.Sprintf("C03:frame-size-sweep:%s:%s:%s", dir, leg.Proto, classes[0]),
		fmt.Sprintf("%s frames swept in one-byte steps across the 4096-byte boundaries on %s: %d of the first %d calls were not faithful (payload sizes %v); first: WFid.%s with %d bytes: %s", dir, legName, len(fails), calls, sizesBad, fails[0].Method, fails[0].Payload, fails[0].What),
		map[string]interface{}{"leg": legName, "direction": dir, "failures": fails, "frame_sizes_seen": []int{minF, maxF}, "payload": "string: byte i = 'a'+(i+k)%26, binary: byte i = i*7+k, k = the number at the end of the correlation id (reply payloads: k+1)", "idl": "cmd/c03/fixed.go"})
}

// ---- (nil, nil) for every return type that can be nil --------------------------------

func retKind(t reflect.Type) string {
	switch t.Kind() {
	case reflect.Ptr:
		if t.Elem().Kind() == reflect.Struct {
			st := t.Elem()
			union := st.NumField() > 0
			for i := 0; i < st.NumField(); i++ {
				if k := st.Field(i).Type.Kind(); k != reflect.Ptr && k != reflect.Slice && k != reflect.Map {
					union = false
				}
			}
			if union {
				return "union"
			}
			return "struct"
		}
	case reflect.Slice:
		if t.Elem().Kind() == reflect.Uint8 {
			return "binary"
		}
		return "list"
	case reflect.Map:
		if t.Elem().Kind() == reflect.Bool {
			return "set"
		}
		return "map"
	}
	return ""
}

// sampleValue builds a small non-zero value of an emitted Go type.
func sampleValue(t reflect.Type, depth int) reflect.Value {
	switch t.Kind() {
	case reflect.String:
		return reflect.ValueOf("v" + fmt.Sprint(depth)).Convert(t)
	case reflect.Bool:
		return reflect.ValueOf(true).Convert(t)
	case reflect.Int8, reflect.Int16, reflect.Int32, reflect.Int64:
		return reflect.ValueOf(7 + depth).Convert(t)
	case reflect.Float64:
		return reflect.ValueOf(1.5).Convert(t)
	case reflect.Slice:
		s := reflect.MakeSlice(t, 2, 2)
		for i := 0; i < 2; i++ {
			s.Index(i).Set(sampleValue(t.Elem(), depth+1+i))
		}
		return s
	case reflect.Map:
		m := reflect.MakeMap(t)
		m.SetMapIndex(sampleValue(t.Key(), depth+1), sampleValue(t.Elem(), depth+1))
		return m
	case reflect.Ptr:
		if t.Elem().Kind() != reflect.Struct {
			p := reflect.New(t.Elem())
			p.Elem().Set(sampleValue(t.Elem(), depth))
			return p
		}
		var p reflect.Value
		if c := ctorByType[t]; c != nil {
			p = reflect.ValueOf(c())
		} else {
			p = reflect.New(t.Elem())
		}
		st := p.Elem()
		for i := 0; i < st.NumField(); i++ {
			if !st.Field(i).CanSet() {
				continue
			}
			st.Field(i).Set(sampleValue(st.Field(i).Type(), depth+1))
			if retKind(t) == "union" {
				break // exactly one member
			}
		}
		return p
	}
	return reflect.Zero(t)
}

func zeroish(v reflect.Value) bool {
	switch v.Kind() {
	case reflect.Ptr:
		return v.IsNil()
	case reflect.Slice, reflect.Map:
		return v.Len() == 0
	}
	return false
}

func (e *fxEnv) nilReturns() {
	// every client method whose value can be nil
	type nm struct {
		name string
		kind string
		own  bool
	}
	var methods []nm
	{
		leg, err := e.openLeg("pipe", "binary")
		if err != nil {
			e.out.line(fxLine{T: "inconclusive", What: fmt.Sprintf("leg pipe/binary (nil results): %v", err)})
			return
		}
		client, _, err := e.newClient(leg)
		if err != nil {
			leg.Stop()
			e.out.line(fxLine{T: "inconclusive", What: fmt.Sprintf("client pipe/binary (nil results): %v", err)})
			return
		}
		probe := client.Type()
		for i := 0; i < probe.NumMethod(); i++ {
			m := probe.Method(i)
			if m.Type.NumOut() != 2 || m.Type.NumIn() < 2 || m.Type.In(1).String() != "frugal.FContext" {
				continue
			}
			if k := retKind(m.Type.Out(0)); k != "" {
				methods = append(methods, nm{m.Name, k, !strings.HasPrefix(m.Name, "Base")})
			}
		}
		leg.Stop()
	}
	kinds := map[string]bool{}
	for _, m := range methods {
		kinds[m.kind] = true
	}
	if len(kinds) < 6 {
		e.out.line(fxLine{T: "inconclusive", What: fmt.Sprintf("the emitted WFid client offers only %d of the 6 kinds of nillable results", len(kinds))})
		return
	}
	seq := 0
	failed := map[string]bool{}                                    // result kind @ transport: one witness each is enough
	for _, kind := range []string{"http", "pipe", "tcp", "nats"} { // http first: net/http contains a panic of the serving side
		for _, proto := range rig.Protocols {
			legName := kind + "/" + proto
			var leg *rig.RPCLeg
			var client reflect.Value
			for _, m := range methods {
				key := "nil|" + m.kind + "|" + m.name + "|" + legName
				if e.skipped(key, m.kind) || failed[m.kind+"@"+kind] {
					continue
				}
				if leg == nil {
					var err error
					if leg, err = e.openLeg(kind, proto); err != nil {
						e.out.line(fxLine{T: "inconclusive", What: fmt.Sprintf("leg %s (nil results): %v", legName, err)})
						leg = nil
						break
					}
					if client, _, err = e.newClient(leg); err != nil {
						e.out.line(fxLine{T: "inconclusive", What: fmt.Sprintf("client %s (nil results): %v", legName, err)})
						break
					}
				}
				seq++
				if !e.nilCase(client, legName, key, m.name, m.kind, m.own, seq) {
					failed[m.kind+"@"+kind] = true
					// the connection may be gone: the next case gets a new one
					var err error
					if client, _, err = e.newClient(leg); err != nil {
						e.out.line(fxLine{T: "inconclusive", What: fmt.Sprintf("client %s (nil results, reconnect): %v", legName, err)})
						break
					}
				}
			}
			if leg != nil {
				leg.Stop()
				e.flush()
			}
		}
	}
}

// nilCase: an ordinary value first (control), then (nil, nil), then an
// ordinary call of another method on the same connection.
func (e *fxEnv) nilCase(client reflect.Value, legName, key, name, kind string, own bool, seq int) bool {
	gm := client.MethodByName(name)
	mt := gm.Type()
	var args []interface{}
	for i := 1; i < mt.NumIn(); i++ {
		args = append(args, sampleValue(mt.In(i), seq%5).Interface())
	}
	inh := "own"
	if !own {
		inh = "inherited"
	}
	wit := func(extra map[string]interface{}) map[string]interface{} {
		w := map[string]interface{}{"service": "WFid", "method": name, "declared": inh, "return_kind": kind, "go_return_type": mt.Out(0).String(), "leg": legName, "arguments": fmt.Sprintf("%+v", args), "idl": "cmd/c03/fixed.go"}
		for k, v := range extra {
			w[k] = v
		}
		return w
	}
	tag := strings.ReplaceAll(legName, "/", "-")
	e.out.line(fxLine{T: "start", Key: key, Info: wit(map[string]interface{}{"phase": "handler returns (nil, nil)"})})
	defer e.out.line(fxLine{T: "done", Key: key})
	// control
	val := sampleValue(mt.Out(0), 0)
	token := fmt.Sprintf("fx-%s-%s-value-%d", name, tag, seq)
	r := e.call(client, name, token, []interface{}{val.Interface(), nil}, args...)
	e.forget(token)
	class, what := judgeCommon(r, name, args)
	if class == "" && r.err != nil {
		class, what = "outcome-error", fmt.Sprintf("the handler returned a value, the caller got error %T: %v", r.err, r.err)
	}
	if class == "" && !reflect.DeepEqual(r.out[0].Interface(), val.Interface()) {
		class, what = "return-differs", "the caller's result differs from what the handler returned ("+brief(val.Interface(), r.out[0].Interface())+")"
	}
	if class == "hung" {
		e.out.line(fxLine{T: "inconclusive", What: fmt.Sprintf("WFid.%s on %s: %s", name, legName, what)})
		return false
	}
	if class != "" {
		e.out.violation("C03:fixture-value:"+kind+":"+class, fmt.Sprintf("WFid.%s (%s, returns %s) on %s: %s", name, inh, kind, legName, what), wit(map[string]interface{}{"returned": fmt.Sprintf("%+v", val.Interface())}))
		return false
	}
	e.mu.Lock()
	e.outcomes["value(fixture, "+kind+")"]++
	e.mu.Unlock()
	// the handler returns a nil value and a nil error
	token = fmt.Sprintf("fx-%s-%s-nil-%d", name, tag, seq)
	r = e.call(client, name, token, []interface{}{nil, nil}, args...)
	e.forget(token)
	class, what = judgeCommon(r, name, args)
	if class == "hung" {
		e.out.line(fxLine{T: "inconclusive", What: fmt.Sprintf("WFid.%s on %s (nil result): %s", name, legName, what)})
		return false
	}
	if class == "" && r.err != nil {
		// Thrift has no encoding of "nil": a reply without a result is the
		// encoding the emitted processor chooses, and a client that reports
		// MISSING_RESULT for it would still be telling the caller the truth
		if ae, ok := r.err.(thrift.TApplicationException); !ok || ae.TypeId() != frugal.APPLICATION_EXCEPTION_MISSING_RESULT {
			class, what = "caller-got-error", fmt.Sprintf("the handler returned (nil, nil), the caller got error %T: %v", r.err, r.err)
		}
	}
	if class == "" && r.err == nil && !zeroish(r.out[0]) {
		class, what = "caller-got-a-value", fmt.Sprintf("the handler returned (nil, nil), the caller got %+v", r.out[0].Interface())
	}
	if class != "" {
		e.out.violation("C03:nil-return:"+kind+":"+class, fmt.Sprintf("WFid.%s (%s, returns %s) on %s: %s", name, inh, kind, legName, what), wit(nil))
		return false
	}
	e.mu.Lock()
	e.outcomes["nil-value("+kind+")"]++
	e.distinct["nil "+kind+" result ("+inh+" method) on "+legName] = true
	e.mu.Unlock()
	// and the service keeps answering on the same connection
	token = fmt.Sprintf("fx-after-%s-%s-nil-%d", name, tag, seq)
	s := "still there " + token
	aargs := []interface{}{s, int32(seq)}
	r = e.call(client, "Echo", token, []interface{}{s, nil}, aargs...)
	e.forget(token)
	class, what = judgeCommon(r, "Echo", aargs)
	if class == "hung" {
		e.out.line(fxLine{T: "inconclusive", What: fmt.Sprintf("WFid.echo on %s after a nil result: %s", legName, what)})
		return false
	}
	if class == "" && r.err != nil {
		class, what = "outcome-error", fmt.Sprintf("the handler returned a value, the caller got error %T: %v", r.err, r.err)
	}
	if class == "" && r.out[0].String() != s {
		class, what = "return-differs", brief(s, r.out[0].String())
	}
	if class != "" {
		e.out.violation("C03:nil-return:"+kind+":next-call-"+class, fmt.Sprintf("WFid.echo on %s right after WFid.%s returned (nil, nil): %s", legName, name, what), wit(nil))
		return false
	}
	return true
}
