package main

import (
	"fmt"
	"math/rand"
	"reflect"
	"strings"
	"sync"
	"sync/atomic"

	frugal "github.com/Workiva/frugal/lib/go"
	"github.com/apache/thrift/lib/go/thrift"

	"verif/genreg"
	"verif/idl"
	"verif/rig"
)

// Workload dimension "the handler also sets response headers that no reply
// can carry" (NATS leg: the one server that bounds its output, at 1 MiB).
//
// A handler may add response headers to the FContext it is given.  When they
// are so large that neither the reply nor an error reply fits next to them,
// the server can only answer with a reply that drops them.  The statement
// still holds for such a call: the handler runs exactly once with the caller's
// arguments and the caller observes the handler's outcome or — when that
// outcome cannot be carried — is told RESPONSE_TOO_LARGE.  What it rules out
// is a caller left without any answer (it then times out) or an answer that
// names another outcome.  Crossed with every outcome kind: value returned,
// declared exception, undeclared failure, application exception raised by
// the handler; and with header sizes that alone exceed the limit / that fit
// but leave no room for anything else.

var forceRespHeader int // > 0: the handler of the next call adds a response header of this many bytes
var forceOutcome string // != "": outcome kind of the next call
var respHeaderFor sync.Map
var bigHdrPhases, bigHdrFailed int32

func isResponseTooLarge(err error) bool {
	if te, ok := err.(thrift.TTransportException); ok && te.TypeId() == frugal.TRANSPORT_EXCEPTION_RESPONSE_TOO_LARGE {
		return true
	}
	if ae, ok := err.(thrift.TApplicationException); ok && ae.TypeId() == frugal.APPLICATION_EXCEPTION_RESPONSE_TOO_LARGE {
		return true
	}
	return false
}

func bigResponseHeaders(prog *idl.Program, svc *idl.Service, gs *genreg.Service, methods []methodInfo, rng *rand.Rand, ns *rig.NatsServer, res *progResult, addV func(string, string, interface{})) {
	if ns == nil || atomic.LoadInt32(&bigHdrFailed) >= 1 || atomic.LoadInt32(&bigHdrPhases) >= 6 {
		return
	}
	var plain, thrower *methodInfo
	var two []methodInfo
	for i := range methods {
		mi := methods[i]
		if mi.m.Oneway {
			continue
		}
		two = append(two, mi)
		if len(mi.m.Throws) > 0 && thrower == nil {
			thrower = &methods[i]
		}
		if plain == nil {
			plain = &methods[i]
		}
	}
	if plain == nil {
		return
	}
	phase := int(atomic.AddInt32(&bigHdrPhases, 1)) - 1
	proto := []string{"binary", "compact", "json"}[phase%3]
	inner := addV
	addV = func(sig, what string, w interface{}) {
		atomic.AddInt32(&bigHdrFailed, 1)
		inner(sig, what, w)
	}
	exp := &expectation{calls: map[string]int{}, args: map[string][]interface{}{}, outcome: map[string][]interface{}{}, observed: make(chan string, 1024)}
	recorder := func(iface, method string, args []interface{}) []interface{} {
		fctx, _ := args[0].(frugal.FContext)
		token := ""
		if fctx != nil {
			token = fctx.CorrelationID()
			if n, ok := respHeaderFor.Load(token); ok {
				fctx.AddResponseHeader("x-big", strings.Repeat("h", n.(int)))
			}
		}
		exp.mu.Lock()
		exp.calls[token]++
		exp.args[token] = append([]interface{}{method}, args[1:]...)
		out := exp.outcome[token]
		exp.mu.Unlock()
		select {
		case exp.observed <- token:
		default:
		}
		return out
	}
	var proc frugal.FProcessor
	func() {
		defer func() { recover() }()
		proc = gs.NewProcessor(gs.NewStub(recorder))
	}()
	if proc == nil {
		return
	}
	leg, err := rig.StartRPCLeg("nats", proto, proc, ns, rig.LegOptions{NatsWorkers: 2})
	if err != nil {
		res.Inconclusive = append(res.Inconclusive, fmt.Sprintf("leg nats/%s (big response headers): %v", proto, err))
		return
	}
	defer leg.Stop()
	tr, err := leg.NewClient()
	if err != nil {
		res.Inconclusive = append(res.Inconclusive, fmt.Sprintf("client nats/%s (big response headers): %v", proto, err))
		return
	}
	client := reflect.ValueOf(gs.NewClient(frugal.NewFServiceProvider(tr, leg.PF)))
	method := func(mi methodInfo) reflect.Value {
		ct := client.Type()
		var gm reflect.Value
		for i := 0; i < ct.NumMethod(); i++ {
			if norm(ct.Method(i).Name) == norm(mi.m.Name) {
				gm = client.Method(i)
			}
		}
		return gm
	}
	legName := "nats/" + proto + "(handler adds oversize response headers)"
	// header sizes: alone over the 1 MiB limit / inside it with no room left
	// for a reply or an error reply
	sizes := []int{1 << 20, 1<<20 - 64 - rng.Intn(64)}
	c := 0
	for _, kind := range []string{"value", "undeclared-error", "application-exception", "declared-exception"} {
		mi := plain
		if kind == "declared-exception" {
			if thrower == nil {
				continue
			}
			mi = thrower
		}
		gm := method(*mi)
		if !gm.IsValid() {
			continue
		}
		for _, size := range sizes {
			if atomic.LoadInt32(&bigHdrFailed) > 0 {
				return
			}
			c++
			forceRespHeader, forceOutcome = size, kind
			one := runCall(prog, svc, *mi, gm, fmt.Sprintf("%s-%s-bighdr-%s-%d", svc.Name, mi.m.Name, proto, c), legName, rng, exp, leg, res, addV)
			forceRespHeader, forceOutcome = 0, ""
			resMu.Lock()
			res.Calls++
			if one != "" {
				res.Outcomes[one+"(oversize response headers)"]++
			}
			resMu.Unlock()
		}
		if atomic.LoadInt32(&bigHdrFailed) > 0 {
			return
		}
		// the server goes on serving ordinary calls
		after := two[rng.Intn(len(two))]
		if gm := method(after); gm.IsValid() {
			c++
			one := runCall(prog, svc, after, gm, fmt.Sprintf("%s-%s-after-bighdr-%s-%d", svc.Name, after.m.Name, proto, c), legName, rng, exp, leg, res, addV)
			resMu.Lock()
			res.Calls++
			if one != "" {
				res.Outcomes[one+"(after oversize response headers)"]++
			}
			resMu.Unlock()
		}
	}
}
