package main

import (
	"fmt"
	"math/rand"
	"reflect"
	"sync/atomic"
	"time"

	frugal "github.com/Workiva/frugal/lib/go"

	"verif/genreg"
	"verif/idl"
	"verif/rig"
)

// Workload dimension "the answer is back before the caller waits for it".
//
// A transport's Request publishes the request and then waits for the reply.
// Between the two the calling goroutine may be held up (descheduled on a busy
// machine, a GC assist, or simply an FContext implementation whose accessors
// are slow: FContext is an interface and Request reads it after the publish)
// while the responder answers at once.  The statement does not depend on who
// is faster: the handler runs exactly once with the caller's arguments and
// the caller observes the handler's outcome (value, declared exception,
// application error), never a time-out.
//
// The caller here passes its own FContext implementation: a wrapper around
// the library's context whose Timeout() parks until the leg's wire tap has
// seen one more reply frame than before the call (a logical condition: the
// responder has answered) and then for a short grace period in which the
// client's own subscription delivers that frame.  On the NATS transport
// Timeout() is read after the publish, so this is exactly "reply first,
// waiting caller second".  A bounded park that ends without a reply frame
// (an accessor read before the request is sent) is counted as "hold not
// achieved", never judged.  Crossed with the three protocols and the four
// outcome kinds.  The oracle is runCall's own.

var heldPhases, heldFailed, heldAchieved, heldNotAchieved, heldArmed int32

// wrapCallCtx, when set, replaces the FContext runCall hands to the client.
var wrapCallCtx func(frugal.FContext) frugal.FContext

type heldUpContext struct {
	frugal.FContext
	tap    *rig.WireTap
	before int
	after  time.Duration // timeout reported once the hold is over
	held   int32
}

func (c *heldUpContext) repliesSeen() int {
	_, reps := c.tap.Snapshot()
	return len(reps)
}

func (c *heldUpContext) Timeout() time.Duration {
	if atomic.LoadInt32(&heldArmed) == 0 {
		// read before the transport has registered the request (the client
		// derives a context.Context from it first): nothing to wait for yet
		return c.FContext.Timeout()
	}
	if !atomic.CompareAndSwapInt32(&c.held, 0, 1) {
		return c.after
	}
	deadline := time.Now().Add(4 * time.Second)
	for c.repliesSeen() <= c.before {
		if time.Now().After(deadline) {
			atomic.AddInt32(&heldNotAchieved, 1)
			return c.after
		}
		time.Sleep(time.Millisecond)
	}
	// the reply frame is on the wire: give the client's own subscription the
	// time to hand it over before this goroutine starts waiting
	time.Sleep(40 * time.Millisecond)
	atomic.AddInt32(&heldAchieved, 1)
	return c.after
}

func heldUpCaller(prog *idl.Program, svc *idl.Service, gs *genreg.Service, methods []methodInfo, rng *rand.Rand, ns *rig.NatsServer, res *progResult, addV func(string, string, interface{})) {
	if ns == nil || atomic.LoadInt32(&heldFailed) >= 1 || atomic.LoadInt32(&heldPhases) >= 6 {
		return
	}
	var plain, thrower *methodInfo
	for i := range methods {
		mi := methods[i]
		if mi.m.Oneway {
			continue
		}
		if len(mi.m.Throws) > 0 && thrower == nil {
			thrower = &methods[i]
		}
		if plain == nil {
			plain = &methods[i]
		}
	}
	if plain == nil {
		return
	}
	phase := int(atomic.AddInt32(&heldPhases, 1)) - 1
	proto := []string{"binary", "compact", "json"}[phase%3]
	inner := addV
	addV = func(sig, what string, w interface{}) {
		atomic.AddInt32(&heldFailed, 1)
		if m, ok := w.(map[string]interface{}); ok {
			m["caller"] = "FContext wrapper whose Timeout() returns once the wire tap has seen the reply frame of this call (+40 ms)"
		}
		inner("C03:reply-before-caller-waits:"+trimC03(sig), what+" [the caller was held up between publishing the request and waiting for the reply; the reply frame was already on the wire]", w)
	}
	exp := &expectation{calls: map[string]int{}, args: map[string][]interface{}{}, outcome: map[string][]interface{}{}, observed: make(chan string, 1024)}
	recorder := func(iface, method string, args []interface{}) []interface{} {
		fctx, _ := args[0].(frugal.FContext)
		token := ""
		if fctx != nil {
			token = fctx.CorrelationID()
		}
		exp.mu.Lock()
		exp.calls[token]++
		exp.args[token] = append([]interface{}{method}, args[1:]...)
		out := exp.outcome[token]
		exp.mu.Unlock()
		select {
		case exp.observed <- token:
		default:
		}
		return out
	}
	var proc frugal.FProcessor
	func() {
		defer func() { recover() }()
		proc = gs.NewProcessor(gs.NewStub(recorder))
	}()
	if proc == nil {
		return
	}
	leg, err := rig.StartRPCLeg("nats", proto, proc, ns, rig.LegOptions{NatsWorkers: 2})
	if err != nil {
		res.Inconclusive = append(res.Inconclusive, fmt.Sprintf("leg nats/%s (held-up caller): %v", proto, err))
		return
	}
	defer leg.Stop()
	tr, err := leg.NewClient()
	if err != nil {
		res.Inconclusive = append(res.Inconclusive, fmt.Sprintf("client nats/%s (held-up caller): %v", proto, err))
		return
	}
	client := reflect.ValueOf(gs.NewClient(frugal.NewFServiceProvider(tr, leg.PF)))
	method := func(mi methodInfo) reflect.Value {
		ct := client.Type()
		var gm reflect.Value
		for i := 0; i < ct.NumMethod(); i++ {
			if norm(ct.Method(i).Name) == norm(mi.m.Name) {
				gm = client.Method(i)
			}
		}
		return gm
	}
	// the transport's Request has registered the call and is about to publish
	// it: from here on the caller's FContext is slow (yield point of the
	// library's verif hook; this stage runs alone in the process)
	frugal.VerifSetHook(func(point string, opid uint64) {
		if point == "request.registered" {
			atomic.StoreInt32(&heldArmed, 1)
		}
	})
	defer frugal.VerifSetHook(nil)
	legName := "nats/" + proto + "(reply back before the caller waits)"
	c := 0
	for _, kind := range []string{"value", "declared-exception", "undeclared-error", "application-exception"} {
		mi := plain
		if kind == "declared-exception" {
			if thrower == nil {
				continue
			}
			mi = thrower
		}
		gm := method(*mi)
		if !gm.IsValid() {
			continue
		}
		if atomic.LoadInt32(&heldFailed) > 0 {
			return
		}
		c++
		was := atomic.LoadInt32(&heldAchieved)
		atomic.StoreInt32(&heldArmed, 0)
		forceOutcome = kind
		wrapCallCtx = func(fc frugal.FContext) frugal.FContext {
			_, reps := leg.Tap.Snapshot()
			return &heldUpContext{FContext: fc, tap: leg.Tap, before: len(reps), after: 5 * time.Second}
		}
		one := runCall(prog, svc, *mi, gm, fmt.Sprintf("%s-%s-held-%s-%d", svc.Name, mi.m.Name, proto, c), legName, rng, exp, leg, res, addV)
		forceOutcome, wrapCallCtx = "", nil
		resMu.Lock()
		res.Calls++
		if one != "" {
			if atomic.LoadInt32(&heldAchieved) > was {
				res.Outcomes[one+"(reply back before the caller waits)"]++
			} else {
				res.Outcomes[one+"(caller hold not achieved)"]++
			}
		}
		resMu.Unlock()
	}
}

func trimC03(sig string) string {
	if len(sig) > 4 && sig[:4] == "C03:" {
		return sig[4:]
	}
	return sig
}
