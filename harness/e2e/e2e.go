// Package e2e is harness source copied next to the code emitted from
// /verif/fixtures; it is compiled in a scratch module (vh) against the
// runtime under test.  It provides a recording handler for the fixture
// service and helpers to start every leg of the transport x protocol matrix.
package e2e

import (
	"fmt"
	"sync"

	frugal "github.com/Workiva/frugal/lib/go"

	"verif/rig"
	"vh/gen/base"
	"vh/gen/mainsvc"
)

// Call is one handler invocation as the server saw it.
type Call struct {
	Method  string
	Args    []interface{}
	ReqHdrs map[string]string // request headers seen by the handler
	RspHdrs map[string]string // response headers at handler entry
	Timeout int64             // handler-side ctx.Timeout() in ns
	Ctx     frugal.FContext
}

// Outcome is what the handler returns: Ret (zero value if nil) and Err.
type Outcome struct {
	Ret interface{}
	Err error
}

// Handler implements mainsvc.FFoo; every method records the call and asks
// Behave for the outcome (default: echo-like deterministic results).
type Handler struct {
	mu     sync.Mutex
	Calls  []Call
	Behave func(c *Call) *Outcome // may be nil
	OnCall func(c *Call)          // called before Behave (e.g. to set response headers)
}

func (h *Handler) record(method string, fctx frugal.FContext, args ...interface{}) (*Call, *Outcome) {
	c := Call{Method: method, Args: args, ReqHdrs: fctx.RequestHeaders(), RspHdrs: fctx.ResponseHeaders(), Timeout: int64(fctx.Timeout()), Ctx: fctx}
	h.mu.Lock()
	h.Calls = append(h.Calls, c)
	h.mu.Unlock()
	if h.OnCall != nil {
		h.OnCall(&c)
	}
	if h.Behave != nil {
		if o := h.Behave(&c); o != nil {
			return &c, o
		}
	}
	return &c, nil
}

// Snapshot returns a copy of the recorded calls.
func (h *Handler) Snapshot() []Call {
	h.mu.Lock()
	defer h.mu.Unlock()
	return append([]Call(nil), h.Calls...)
}

// Reset forgets recorded calls.
func (h *Handler) Reset() { h.mu.Lock(); h.Calls = nil; h.mu.Unlock() }

func (h *Handler) BasePing(fctx frugal.FContext) error {
	_, o := h.record("basePing", fctx)
	if o != nil {
		return o.Err
	}
	return nil
}

func (h *Handler) EchoThing(fctx frugal.FContext, t *base.Thing) (*base.Thing, error) {
	_, o := h.record("echoThing", fctx, t)
	if o != nil {
		r, _ := o.Ret.(*base.Thing)
		return r, o.Err
	}
	return t, nil
}

func (h *Handler) Add(fctx frugal.FContext, a int32, b int64) (int64, error) {
	_, o := h.record("add", fctx, a, b)
	if o != nil {
		r, _ := o.Ret.(int64)
		return r, o.Err
	}
	return int64(a) + b, nil
}

func (h *Handler) Echo(fctx frugal.FContext, p *mainsvc.Payload, tag string) (*mainsvc.Payload, error) {
	_, o := h.record("echo", fctx, p, tag)
	if o != nil {
		r, _ := o.Ret.(*mainsvc.Payload)
		return r, o.Err
	}
	return p, nil
}

// BigString returns the deterministic string getBig answers with.
func BigString(size int32) string {
	b := make([]byte, size)
	for i := range b {
		b[i] = byte('a' + i%26)
	}
	return string(b)
}

func (h *Handler) GetBig(fctx frugal.FContext, size int32, shape string) (string, error) {
	_, o := h.record("getBig", fctx, size, shape)
	if o != nil {
		r, _ := o.Ret.(string)
		return r, o.Err
	}
	return BigString(size), nil
}

func (h *Handler) Fire(fctx frugal.FContext, s string) error {
	_, o := h.record("fire", fctx, s)
	if o != nil {
		return o.Err
	}
	return nil
}

func (h *Handler) Nothing(fctx frugal.FContext) error {
	_, o := h.record("nothing", fctx)
	if o != nil {
		return o.Err
	}
	return nil
}

func (h *Handler) Things(fctx frugal.FContext, m map[string]*base.Thing, ids map[int32]bool) ([]*base.Thing, error) {
	_, o := h.record("things", fctx, m, ids)
	if o != nil {
		r, _ := o.Ret.([]*base.Thing)
		return r, o.Err
	}
	var out []*base.Thing
	for _, t := range m {
		out = append(out, t)
	}
	return out, nil
}

func (h *Handler) NextColor(fctx frugal.FContext, c base.Color) (base.Color, error) {
	_, o := h.record("nextColor", fctx, c)
	if o != nil {
		r, _ := o.Ret.(base.Color)
		return r, o.Err
	}
	switch c {
	case base.Color_RED:
		return base.Color_GREEN, nil
	case base.Color_GREEN:
		return base.Color_BLUE, nil
	}
	return base.Color_RED, nil
}

func (h *Handler) Blob(fctx frugal.FContext, b []byte) ([]byte, error) {
	_, o := h.record("blob", fctx, b)
	if o != nil {
		r, _ := o.Ret.([]byte)
		return r, o.Err
	}
	return b, nil
}

var _ mainsvc.FFoo = (*Handler)(nil)

// Leg is a running server for the fixture service plus a client.
type Leg struct {
	*rig.RPCLeg
	Handler   *Handler
	Processor *mainsvc.FFooProcessor
}

// StartLeg starts the fixture service on one (kind, proto) leg.
func StartLeg(kind, proto string, nats *rig.NatsServer, opt rig.LegOptions, procMW ...frugal.ServiceMiddleware) (*Leg, error) {
	h := &Handler{}
	p := mainsvc.NewFFooProcessor(h, procMW...)
	l, err := rig.StartRPCLeg(kind, proto, p, nats, opt)
	if err != nil {
		return nil, fmt.Errorf("leg %s/%s: %v", kind, proto, err)
	}
	return &Leg{RPCLeg: l, Handler: h, Processor: p}, nil
}

// Client returns a generated client on a new connection of the leg.
func (l *Leg) Client(mw ...frugal.ServiceMiddleware) (*mainsvc.FFooClient, frugal.FTransport, error) {
	tr, err := l.NewClient()
	if err != nil {
		return nil, nil, err
	}
	return mainsvc.NewFFooClient(frugal.NewFServiceProvider(tr, l.PF), mw...), tr, nil
}
