// C02 monitor (harness side): compiled together with the Go packages emitted
// for a batch of random IDL programs.  For every struct, union, exception and
// synthesised args/result type and every protocol it checks the encoding the
// emitted Write produces against the encoding the IDL declares (decoded by an
// independent schema-less reader), and the value the emitted Read produces
// from reference-written encodings (shuffled field order, unknown fields,
// missing required fields).
package main

import (
	"context"
	"encoding/json"
	"fmt"
	"math/rand"
	"os"
	"reflect"
	"sort"
	"strings"

	"github.com/apache/thrift/lib/go/thrift"

	"verif/genreg"
	"verif/gocodec"
	"verif/idl"
	"verif/rig"
	"verif/tvalue"
)

type progSpec struct {
	Sub  string `json:"sub"`
	Seed int64  `json:"seed"`
	Cfg  string `json:"cfg"`
}

type batch struct {
	Programs      []progSpec `json:"programs"`
	ValuesPerType int        `json:"values_per_type"`
	Seed          int64      `json:"seed"`
	Out           string     `json:"out"`
}

type violation struct {
	Sig     string      `json:"sig"`
	What    string      `json:"what"`
	Witness interface{} `json:"witness"`
}

type progResult struct {
	Sub        string      `json:"sub"`
	Features   []string    `json:"features"`
	Types      int         `json:"types"`
	Values     int         `json:"values"`
	Defaults   int         `json:"fields_left_at_declared_default"`
	Encodings  int         `json:"encodings"`
	Reads      int         `json:"reads"`
	MissingReq int         `json:"missing_required_cases"`
	UnionBad   int         `json:"union_bad_cases"`
	Unknown    int         `json:"unknown_fields_injected"`
	Unmapped   []string    `json:"unmapped"`
	TagNotes   []string    `json:"tag_notes"`
	Violations []violation `json:"violations"`
	Sample     interface{} `json:"sample,omitempty"`
}

type nameCapture struct {
	thrift.TProtocol
	names []string
}

func (n *nameCapture) WriteStructBegin(ctx context.Context, name string) error {
	n.names = append(n.names, name)
	return n.TProtocol.WriteStructBegin(ctx, name)
}

var ctx = context.Background()

// wireName learns the IDL name of an emitted type from what it passes to
// WriteStructBegin.
func wireName(ctor func() thrift.TStruct) string {
	try := func(v thrift.TStruct) string {
		nc := &nameCapture{TProtocol: thrift.NewTBinaryProtocolConf(thrift.NewTMemoryBuffer(), nil)}
		func() {
			defer func() { recover() }()
			v.Write(ctx, nc)
		}()
		if len(nc.names) > 0 {
			return nc.names[0]
		}
		return ""
	}
	v := ctor()
	if n := try(v); n != "" {
		return n
	}
	// unions refuse to write unless exactly one member is set: set the first
	rv := reflect.ValueOf(v).Elem()
	for i := 0; i < rv.NumField(); i++ {
		f := rv.Field(i)
		switch f.Kind() {
		case reflect.Ptr:
			f.Set(reflect.New(f.Type().Elem()))
		case reflect.Slice:
			f.Set(reflect.MakeSlice(f.Type(), 0, 0))
		case reflect.Map:
			f.Set(reflect.MakeMap(f.Type()))
		default:
			continue
		}
		if n := try(v); n != "" {
			return n
		}
		f.Set(reflect.Zero(f.Type()))
	}
	return ""
}

func cfgByName(name string) idl.Config {
	return idl.ConfigByName(name)
}

func cfgByNameOld(name string) idl.Config {
	c := idl.CoreConfig()
	for _, flag := range strings.Split(name, "+") {
		switch flag {
		case "typedef_of_enum":
			c.TypedefOfEnum = true
		case "typedef_of_struct":
			c.TypedefOfStruct = true
		case "transitive_typedefs":
			c.TransitiveTypedefs = true
		case "binary_keys":
			c.BinaryKeys = true
		case "forward_refs":
			c.ForwardRefs = true
		}
	}
	return c
}

func normName(s string) string { return strings.ToLower(strings.ReplaceAll(s, "_", "")) }

func protoFor(name string, tr thrift.TTransport) thrift.TProtocol {
	return rig.TProtocolFactory(name).GetProtocol(tr)
}

type typeCase struct {
	st   *idl.Struct
	file *idl.File
	ctor func() thrift.TStruct
	kind string // struct / union / exception / args / result
}

func main() {
	rig.Quiet()
	b, err := os.ReadFile(os.Args[1])
	if err != nil {
		fmt.Println(err)
		os.Exit(2)
	}
	var bt batch
	if err := json.Unmarshal(b, &bt); err != nil {
		fmt.Println(err)
		os.Exit(2)
	}
	ctors := map[reflect.Type]func() thrift.TStruct{}
	for _, p := range genreg.Packages() {
		for _, c := range p.Types {
			ctors[reflect.TypeOf(c())] = c
		}
	}
	gocodec.NewStruct = func(t reflect.Type) (reflect.Value, bool) {
		if c, ok := ctors[t]; ok {
			return reflect.ValueOf(c()), true
		}
		return reflect.Value{}, false
	}
	var results []*progResult
	for _, ps := range bt.Programs {
		results = append(results, checkProgram(ps, bt))
	}
	out, _ := json.Marshal(results)
	if err := os.WriteFile(bt.Out, out, 0o644); err != nil {
		fmt.Println(err)
		os.Exit(2)
	}
}

func checkProgram(ps progSpec, bt batch) *progResult {
	res := &progResult{Sub: ps.Sub}
	prog := idl.GenerateDirected(ps.Seed, ps.Cfg)
	res.Features = prog.FeatureList()
	addV := func(sig, what string, w interface{}) {
		for _, v := range res.Violations {
			if v.Sig == sig {
				return
			}
		}
		res.Violations = append(res.Violations, violation{sig, what, w})
	}
	// packages of this program, with IDL names learnt from the wire
	prefix := "vh/gen/" + ps.Sub + "/"
	type pkgInfo struct {
		pkg   *genreg.Package
		names map[string]func() thrift.TStruct
		// two services of one file may both have a method m: both emit a struct
		// whose wire name is m_args, so wire names map to several Go types
		multi map[string]map[string]func() thrift.TStruct // wire name -> Go type name -> ctor
	}
	var pkgs []*pkgInfo
	for _, p := range genreg.Packages() {
		if !strings.HasPrefix(p.ImportPath, prefix) {
			continue
		}
		pi := &pkgInfo{pkg: p, names: map[string]func() thrift.TStruct{}, multi: map[string]map[string]func() thrift.TStruct{}}
		for goName, ctor := range p.Types {
			n := wireName(ctor)
			if n == "" {
				res.Unmapped = append(res.Unmapped, p.ImportPath+"."+goName)
				continue
			}
			pi.names[n] = ctor
			if pi.multi[n] == nil {
				pi.multi[n] = map[string]func() thrift.TStruct{}
			}
			pi.multi[n][goName] = ctor
		}
		pkgs = append(pkgs, pi)
	}
	// match IDL files to packages by their struct-like names
	var cases []typeCase
	for _, f := range prog.Files {
		var want []string
		for _, s := range f.Structs() {
			want = append(want, s.Name)
		}
		var best *pkgInfo
		for _, pi := range pkgs {
			ok := len(want) > 0
			for _, w := range want {
				if pi.names[w] == nil {
					ok = false
				}
			}
			if ok {
				best = pi
			}
		}
		if best == nil {
			detail := ""
			for _, pi := range pkgs {
				var miss []string
				for _, w := range want {
					if pi.names[w] == nil {
						miss = append(miss, w)
					}
				}
				detail += fmt.Sprintf(" [%s lacks %s]", pi.pkg.ImportPath, strings.Join(miss, ","))
			}
			res.Unmapped = append(res.Unmapped, "file "+f.FileName()+": no emitted package declares all of "+strings.Join(want, ",")+detail)
			continue
		}
		for _, s := range f.Structs() {
			cases = append(cases, typeCase{s, f, best.names[s.Name], s.Kind})
		}
		for _, svc := range f.Services() {
			for _, m := range svc.Methods {
				pick := func(wire string) func() thrift.TStruct {
					cands := best.multi[wire]
					if len(cands) == 1 {
						for _, c := range cands {
							return c
						}
					}
					for goName, c := range cands {
						if normName(goName) == normName(svc.Name+wire) {
							return c
						}
					}
					return nil
				}
				as := idl.ArgsStruct(m)
				if c := pick(as.Name); c != nil {
					cases = append(cases, typeCase{as, f, c, "args"})
				} else {
					res.Unmapped = append(res.Unmapped, f.FileName()+": "+as.Name)
				}
				if rs := idl.ResultStruct(m); rs != nil {
					if c := pick(rs.Name); c != nil {
						cases = append(cases, typeCase{rs, f, c, "result"})
					} else {
						res.Unmapped = append(res.Unmapped, f.FileName()+": "+rs.Name)
					}
				}
			}
		}
	}
	rng := rand.New(rand.NewSource(bt.Seed ^ ps.Seed))
	// own stream for the fields whose declared default contains struct literals
	// (drawn from only where such a field exists: the values of every other program do not move)
	drng := rand.New(rand.NewSource(bt.Seed ^ ps.Seed ^ 0x57c7d3fa))
	idl.LeaveDefaults = true // every struct here is built by its emitted constructor
	for _, tc := range cases {
		res.Types++
		if notes := gocodec.CheckTags(tc.st, reflect.TypeOf(tc.ctor())); len(notes) > 0 && tc.kind != "args" && tc.kind != "result" {
			res.TagNotes = append(res.TagNotes, notes...)
		}
		for i := 0; i < bt.ValuesPerType; i++ {
			av := prog.GenValue(rng, tc.file, idl.T(tc.st.Name), 0)
			prog.LeaveStructLiteralDefaults(drng, av)
			if tc.kind == "args" || tc.kind == "result" {
				av = genSynth(prog, rng, tc)
			}
			res.Values++
			for _, proto := range rig.Protocols {
				checkValue(prog, tc, av, proto, rng, res, addV)
			}
		}
		if tc.st.Kind == idl.KindUnion {
			checkUnionCount(prog, tc, rng, res, addV)
		}
	}
	sort.Strings(res.Unmapped)
	res.Defaults = idl.LeftAtDefaultCount
	idl.LeftAtDefaultCount = 0
	return res
}

// genSynth draws a value for a synthesised args/result struct (which has no
// declaration in the file): args always carry every argument; a result carries
// exactly one of success / a declared exception (or nothing for void).
func genSynth(prog *idl.Program, rng *rand.Rand, tc typeCase) *idl.AV {
	av := &idl.AV{Kind: "struct", St: tc.st, StFile: tc.file, Fields: map[int]*idl.AV{}}
	if tc.kind == "args" {
		for _, fl := range tc.st.Fields {
			if fl.Default != nil && rng.Intn(3) == 0 {
				// the caller passes exactly the declared default: it travels like any other value
				if d := prog.AVFromLiteral(tc.file, fl.Type, fl.Default); d != nil {
					av.Fields[fl.ID] = d
					continue
				}
			}
			av.Fields[fl.ID] = prog.GenValue(rng, tc.file, fl.Type, 1)
		}
		return av
	}
	if len(tc.st.Fields) > 0 && rng.Intn(8) != 0 {
		fl := tc.st.Fields[rng.Intn(len(tc.st.Fields))]
		av.Fields[fl.ID] = prog.GenValue(rng, tc.file, fl.Type, 1)
	}
	return av
}

func describe(tc typeCase, proto string) string {
	return fmt.Sprintf("%s %s (%s)", tc.kind, tc.st.Name, proto)
}

func fieldClass(prog *idl.Program, tc typeCase, exp, got tvalue.Value) string {
	// name the first differing field by its IDL kind and requiredness
	ge := map[int16]string{}
	for _, f := range got.Fields {
		ge[f.ID] = f.V.Canon()
	}
	ee := map[int16]string{}
	for _, f := range exp.Fields {
		ee[f.ID] = f.V.Canon()
	}
	for _, fl := range tc.st.Fields {
		id := int16(fl.ID)
		if ge[id] != ee[id] {
			k, _, _, _ := prog.ResolveKind(tc.file, fl.Type)
			req := fl.Req
			if req == "" {
				req = "default"
			}
			what := "value"
			if _, ok := ge[id]; !ok {
				what = "missing"
			} else if _, ok := ee[id]; !ok {
				what = "unexpected"
			}
			return fmt.Sprintf("%s-%s-%s", what, req, k)
		}
	}
	for id := range ge {
		if _, ok := ee[id]; !ok {
			return fmt.Sprintf("undeclared-field-id-%d", id)
		}
	}
	return "other"
}

func checkValue(prog *idl.Program, tc typeCase, av *idl.AV, proto string, rng *rand.Rand, res *progResult, addV func(string, string, interface{})) {
	want := gocodec.WireTree(prog, av)
	wit := func(extra map[string]interface{}) map[string]interface{} {
		m := map[string]interface{}{"type": tc.st.Name, "kind": tc.kind, "file": tc.file.FileName(), "protocol": proto, "value": av.Canon(), "idl": idl.RenderFile(tc.file, idl.DefaultStyle())}
		for k, v := range extra {
			m[k] = v
		}
		return m
	}
	// (a) write side
	gv := tc.ctor()
	if err := gocodec.FillGo(reflect.ValueOf(gv).Elem(), av); err != nil {
		addV("C02:go-type-shape:"+tc.kind, "the emitted Go type cannot hold a value of the IDL type: "+err.Error(), wit(nil))
		return
	}
	buf := thrift.NewTMemoryBuffer()
	op := protoFor(proto, buf)
	if err := gv.Write(ctx, op); err != nil {
		addV("C02:write-error:"+tc.kind, fmt.Sprintf("%s: emitted Write failed on a valid value: %v", describe(tc, proto), err), wit(nil))
		return
	}
	op.Flush(ctx)
	encoded := append([]byte(nil), buf.Bytes()...)
	res.Encodings++
	rbuf := thrift.NewTMemoryBuffer()
	rbuf.Write(encoded)
	got, err := tvalue.ReadStruct(ctx, protoFor(proto, rbuf))
	if err != nil {
		addV("C02:write-unparseable:"+tc.kind, fmt.Sprintf("%s: bytes written by the emitted code are not a well-formed struct: %v", describe(tc, proto), err), wit(map[string]interface{}{"bytes": fmt.Sprintf("%x", encoded)}))
		return
	}
	exp := gocodec.AsRead(want, proto)
	if got.Canon() != exp.Canon() {
		cls := fieldClass(prog, tc, exp, got)
		addV("C02:write-mismatch:"+tc.kind+":"+cls, fmt.Sprintf("%s: the encoding written differs from the one the IDL declares (%s)", describe(tc, proto), cls), wit(map[string]interface{}{"written": got.Canon(), "declared": exp.Canon()}))
		return
	}
	if res.Sample == nil && len(av.Fields) > 1 {
		res.Sample = map[string]interface{}{"type": tc.st.Name, "protocol": proto, "value": av.Canon(), "encoding_hex": fmt.Sprintf("%x", encoded)}
	}
	// (c) round trip through the emitted Read
	gv3 := tc.ctor()
	rb := thrift.NewTMemoryBuffer()
	rb.Write(encoded)
	if err := gv3.Read(ctx, protoFor(proto, rb)); err != nil {
		addV("C02:roundtrip-read-error:"+tc.kind, fmt.Sprintf("%s: emitted Read rejects what emitted Write produced: %v", describe(tc, proto), err), wit(nil))
		return
	}
	back, err := gocodec.StructFromGo(prog, tc.file, tc.st, reflect.ValueOf(gv3))
	if err != nil {
		addV("C02:roundtrip-shape:"+tc.kind, err.Error(), wit(nil))
		return
	}
	if back.Canon() != want.Canon() {
		cls := fieldClass(prog, tc, want, back)
		addV("C02:roundtrip-mismatch:"+tc.kind+":"+cls, fmt.Sprintf("%s: Read(Write(v)) differs from v (%s)", describe(tc, proto), cls), wit(map[string]interface{}{"read_back": back.Canon(), "value_tree": want.Canon()}))
		return
	}
	// (b) read side: reference-written encoding, shuffled, with unknown fields
	ref := want
	ref.Fields = append([]tvalue.Field(nil), want.Fields...)
	rng.Shuffle(len(ref.Fields), func(i, j int) { ref.Fields[i], ref.Fields[j] = ref.Fields[j], ref.Fields[i] })
	declared := map[int16]bool{}
	for _, fl := range tc.st.Fields {
		declared[int16(fl.ID)] = true
	}
	for n := rng.Intn(3); n > 0; n-- {
		id := int16(1 + rng.Intn(3000))
		if declared[id] {
			continue
		}
		declared[id] = true
		unk := []tvalue.Value{
			{T: thrift.I32, I: 7}, {T: thrift.STRING, S: []byte("unknown")}, {T: thrift.BOOL, B: true},
			{T: thrift.LIST, ElemT: thrift.I64, Elems: []tvalue.Value{{T: thrift.I64, I: 1}, {T: thrift.I64, I: 2}}},
			{T: thrift.STRUCT, Fields: []tvalue.Field{{ID: 1, V: tvalue.Value{T: thrift.DOUBLE, D: 1.5}}}},
			{T: thrift.MAP, KeyT: thrift.STRING, ValT: thrift.I32, Keys: []tvalue.Value{{T: thrift.STRING, S: []byte("k")}}, Vals: []tvalue.Value{{T: thrift.I32, I: 1}}},
		}[rng.Intn(6)]
		pos := rng.Intn(len(ref.Fields) + 1)
		ref.Fields = append(ref.Fields[:pos], append([]tvalue.Field{{ID: id, V: unk}}, ref.Fields[pos:]...)...)
		res.Unknown++
	}
	wb := thrift.NewTMemoryBuffer()
	wp := protoFor(proto, wb)
	if err := tvalue.WriteStruct(ctx, wp, ref); err != nil {
		return
	}
	wp.Flush(ctx)
	refBytes := append([]byte(nil), wb.Bytes()...)
	gv2 := tc.ctor()
	if err := gv2.Read(ctx, protoFor(proto, wb)); err != nil {
		addV("C02:read-error:"+tc.kind, fmt.Sprintf("%s: emitted Read rejects a conforming encoding (field order shuffled, unknown fields present): %v", describe(tc, proto), err), wit(map[string]interface{}{"encoding": ref.Canon(), "bytes": fmt.Sprintf("%x", refBytes)}))
		return
	}
	res.Reads++
	got2, err := gocodec.StructFromGo(prog, tc.file, tc.st, reflect.ValueOf(gv2))
	if err != nil {
		addV("C02:read-shape:"+tc.kind, err.Error(), wit(nil))
		return
	}
	if got2.Canon() != want.Canon() {
		cls := fieldClass(prog, tc, want, got2)
		addV("C02:read-mismatch:"+tc.kind+":"+cls, fmt.Sprintf("%s: the value read from a conforming encoding differs from the encoded value (%s)", describe(tc, proto), cls), wit(map[string]interface{}{"read": got2.Canon(), "encoded": want.Canon()}))
		return
	}
	// missing required field must be rejected
	for _, fl := range tc.st.Fields {
		if fl.Req != idl.ReqRequired {
			continue
		}
		miss := want
		miss.Fields = nil
		for _, f := range want.Fields {
			if f.ID != int16(fl.ID) {
				miss.Fields = append(miss.Fields, f)
			}
		}
		mb := thrift.NewTMemoryBuffer()
		mp := protoFor(proto, mb)
		tvalue.WriteStruct(ctx, mp, miss)
		mp.Flush(ctx)
		gv4 := tc.ctor()
		res.MissingReq++
		if err := gv4.Read(ctx, protoFor(proto, mb)); err == nil {
			addV("C02:missing-required-accepted:"+tc.kind, fmt.Sprintf("%s: emitted Read accepts an encoding without required field %d (%s)", describe(tc, proto), fl.ID, fl.Name), wit(map[string]interface{}{"encoding": miss.Canon()}))
		}
		break
	}
}

// checkUnionCount: an encoding with zero or two members must never be written.
func checkUnionCount(prog *idl.Program, tc typeCase, rng *rand.Rand, res *progResult, addV func(string, string, interface{})) {
	for _, n := range []int{0, 2} {
		if n > len(tc.st.Fields) {
			continue
		}
		av := &idl.AV{Kind: "struct", St: tc.st, StFile: tc.file, Fields: map[int]*idl.AV{}}
		for _, i := range rng.Perm(len(tc.st.Fields))[:n] {
			fl := tc.st.Fields[i]
			av.Fields[fl.ID] = prog.GenValue(rng, tc.file, fl.Type, 2)
		}
		gv := tc.ctor()
		if err := gocodec.FillGo(reflect.ValueOf(gv).Elem(), av); err != nil {
			continue
		}
		res.UnionBad++
		buf := thrift.NewTMemoryBuffer()
		op := protoFor("binary", buf)
		if err := gv.Write(ctx, op); err == nil {
			addV("C02:union-member-count:write", fmt.Sprintf("union %s: emitted Write produced an encoding with %d members set", tc.st.Name, n), map[string]interface{}{"type": tc.st.Name, "value": av.Canon(), "idl": idl.RenderFile(tc.file, idl.DefaultStyle())})
		}
	}
}
