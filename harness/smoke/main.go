// Smoke test of the end-to-end rig: one call of every kind on every leg.
package main

import (
	"fmt"
	"os"
	"time"

	frugal "github.com/Workiva/frugal/lib/go"

	"verif/rig"
	"vh/e2e"
	"vh/gen/base"
	"vh/gen/mainsvc"
)

func main() {
	rig.Quiet()
	ns, err := rig.StartNats()
	if err != nil {
		fmt.Println(err)
		os.Exit(1)
	}
	defer ns.Stop()
	bad := 0
	for _, kind := range rig.RPCKinds {
		for _, proto := range rig.Protocols {
			leg, err := e2e.StartLeg(kind, proto, ns, rig.LegOptions{})
			if err != nil {
				fmt.Println("FAIL", err)
				bad++
				continue
			}
			c, _, err := leg.Client()
			if err != nil {
				fmt.Println("FAIL client", kind, proto, err)
				bad++
				continue
			}
			ctx := frugal.NewFContext("")
			ctx.SetTimeout(10 * time.Second)
			r, err := c.Add(ctx, 2, 40)
			t, err2 := c.EchoThing(frugal.NewFContext(""), &base.Thing{AnID: 7, AString: "x"})
			p, err3 := c.Echo(frugal.NewFContext(""), &mainsvc.Payload{Last: &mainsvc.BigLast{N: 1, Nums: []int64{1, 2}, Big: "zz"}}, "tag")
			err4 := c.Fire(frugal.NewFContext(""), "s")
			err5 := c.BasePing(frugal.NewFContext(""))
			time.Sleep(50 * time.Millisecond)
			reqs, reps := leg.Tap.Snapshot()
			fmt.Printf("%s/%s add=%v,%v thing=%v,%v echo=%v,%v fire=%v ping=%v handlerCalls=%d tapReq=%d tapRep=%d\n", kind, proto, r, err, t, err2, p != nil, err3, err4, err5, len(leg.Handler.Snapshot()), len(reqs), len(reps))
			if r != 42 || err != nil || err2 != nil || err3 != nil || err4 != nil || err5 != nil || len(leg.Handler.Snapshot()) != 5 {
				bad++
			}
			leg.Stop()
		}
	}
	if bad > 0 {
		os.Exit(1)
	}
}
