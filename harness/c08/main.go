// C08 Go leg: executes the scope publishers and subscribers emitted by the
// compiler under test against recording FPublisherTransport /
// FSubscriberTransport fakes and prints the topic strings they were called
// with.  It knows nothing about the emitted APIs at compile time: the driver
// (cmd/c08) writes, from the go/ast of the emitted f_*_scope.go files, one
// zz_registry.go per emitted package (constructor funcs by name) and one
// zz_packages.go here (package key -> registry); methods are found and called
// by reflection.
//
// usage: c08.bin <cases.json> <out.jsonl>
package main

import (
	"bufio"
	"encoding/json"
	"fmt"
	"os"
	"reflect"
	"sort"
	"strings"
	"sync"

	frugal "github.com/Workiva/frugal/lib/go"
	"github.com/apache/thrift/lib/go/thrift"
)

// Ctors are the two constructors of one emitted scope: publisher, subscriber.
type Ctors = [2]func(*frugal.FScopeProvider) interface{}

// packages and paramNames are filled by the generated zz_packages.go.
var packages = map[string]map[string]Ctors{}

// paramNames: package key -> emitted method name -> parameter names (go/ast).
var paramNames = map[string]map[string][]string{}

type scopeSpec struct {
	Name  string     `json:"name"`
	Ops   []string   `json:"ops"`
	Vars  []string   `json:"vars"`
	Cases [][]string `json:"cases"`
}

type job struct {
	Key    string      `json:"key"`
	Scopes []scopeSpec `json:"scopes"`
}

type result struct {
	Key   string `json:"key"`
	Scope string `json:"scope,omitempty"`
	Op    string `json:"op,omitempty"`
	Case  int    `json:"case"`
	Side  string `json:"side,omitempty"` // pub | sub | sub2 (the Errorable variant)
	Topic string `json:"topic,omitempty"`
	Has   bool   `json:"has"` // a topic was recorded (it may be the empty string)
	Err   string `json:"err,omitempty"`
	Note  string `json:"note,omitempty"`
	Ctor  string `json:"ctor,omitempty"`
}

// recorder is both transport factories and both transports.
type recorder struct {
	mu         sync.Mutex
	published  []string
	subscribed []string
}

type pubT struct{ r *recorder }

func (p pubT) Open() error               { return nil }
func (p pubT) Close() error              { return nil }
func (p pubT) IsOpen() bool              { return true }
func (p pubT) GetPublishSizeLimit() uint { return 0 }
func (p pubT) Publish(topic string, _ []byte) error {
	p.r.mu.Lock()
	p.r.published = append(p.r.published, topic)
	p.r.mu.Unlock()
	return nil
}

type subT struct{ r *recorder }

func (s subT) Subscribe(topic string, _ frugal.FAsyncCallback) error {
	s.r.mu.Lock()
	s.r.subscribed = append(s.r.subscribed, topic)
	s.r.mu.Unlock()
	return nil
}
func (s subT) Unsubscribe() error { return nil }
func (s subT) IsSubscribed() bool { return true }

type pubF struct{ r *recorder }

func (f pubF) GetTransport() frugal.FPublisherTransport { return pubT{f.r} }

type subF struct{ r *recorder }

func (f subF) GetTransport() frugal.FSubscriberTransport { return subT{f.r} }

func provider(r *recorder) *frugal.FScopeProvider {
	pf := frugal.NewFProtocolFactory(thrift.NewTBinaryProtocolFactoryConf(nil))
	return frugal.NewFScopeProvider(pubF{r}, subF{r}, pf)
}

// zeroArg builds a usable argument of type t: a pointer to a zero struct for
// pointer types (the publisher serialises the payload after the topic is
// computed), a do-nothing func for handler types, the zero value otherwise.
func zeroArg(t reflect.Type) reflect.Value {
	switch t.Kind() {
	case reflect.Ptr:
		return reflect.New(t.Elem())
	case reflect.Func:
		return reflect.MakeFunc(t, func([]reflect.Value) []reflect.Value {
			out := make([]reflect.Value, t.NumOut())
			for i := range out {
				out[i] = reflect.Zero(t.Out(i))
			}
			return out
		})
	}
	return reflect.Zero(t)
}

var fctxType = reflect.TypeOf((*frugal.FContext)(nil)).Elem()

// call invokes method m with (fctx?) + the variable values + zero
// payload/handler.  The values are bound BY NAME, as a caller does who reads
// the emitted signature: names are the parameter names of the emitted method
// (from its go/ast), vars/values the scope's variables and their values.
func call(m reflect.Value, names, vars, values []string) (err string) {
	defer func() {
		if p := recover(); p != nil {
			err = fmt.Sprintf("panic: %v", p)
		}
	}()
	t := m.Type()
	var args []reflect.Value
	i := 0
	if t.NumIn() > 0 && t.In(0) == fctxType {
		args = append(args, reflect.ValueOf(frugal.NewFContext("c08")))
		i = 1
	}
	if t.NumIn() != i+len(values)+1 {
		return fmt.Sprintf("emitted method takes %d parameters, the scope declares %d prefix variables", t.NumIn(), len(values))
	}
	if len(names) != t.NumIn() {
		return fmt.Sprintf("parameter names of the emitted method not found in its source (%d names, %d parameters)", len(names), t.NumIn())
	}
	byName := map[string]string{}
	for k, v := range vars {
		byName[v] = values[k]
	}
	for ; i < t.NumIn()-1; i++ {
		if t.In(i).Kind() != reflect.String {
			return fmt.Sprintf("parameter %d is %s, not string", i, t.In(i))
		}
		v, ok := byName[names[i]]
		if !ok {
			return fmt.Sprintf("parameter %q of the emitted method is not a prefix variable of the scope %v", names[i], vars)
		}
		args = append(args, reflect.ValueOf(v).Convert(t.In(i)))
	}
	args = append(args, zeroArg(t.In(i)))
	out := m.Call(args)
	if n := len(out); n > 0 {
		if e, ok := out[n-1].Interface().(error); ok && e != nil {
			return "returned error: " + e.Error()
		}
	}
	return ""
}

func methodOps(v interface{}, prefix string) []string {
	t := reflect.TypeOf(v)
	var ops []string
	for i := 0; i < t.NumMethod(); i++ {
		if n := t.Method(i).Name; strings.HasPrefix(n, prefix) && n != prefix {
			ops = append(ops, strings.TrimPrefix(n, prefix))
		}
	}
	return ops
}

func main() {
	if len(os.Args) < 3 {
		fmt.Println("usage: c08.bin cases.json out.jsonl")
		os.Exit(2)
	}
	b, err := os.ReadFile(os.Args[1])
	if err != nil {
		fmt.Println(err)
		os.Exit(2)
	}
	var in struct {
		Jobs []job `json:"jobs"`
	}
	if err := json.Unmarshal(b, &in); err != nil {
		fmt.Println(err)
		os.Exit(2)
	}
	f, err := os.Create(os.Args[2])
	if err != nil {
		fmt.Println(err)
		os.Exit(2)
	}
	w := bufio.NewWriter(f)
	emit := func(r result) {
		j, _ := json.Marshal(r)
		w.Write(j)
		w.WriteByte('\n')
	}
	for _, jb := range in.Jobs {
		reg, ok := packages[jb.Key]
		if !ok {
			emit(result{Key: jb.Key, Case: -1, Note: "package not linked into the harness"})
			continue
		}
		byOp := map[string]*scopeSpec{}
		for i := range jb.Scopes {
			for _, op := range jb.Scopes[i].Ops {
				byOp[op] = &jb.Scopes[i]
			}
		}
		names := make([]string, 0, len(reg))
		for n := range reg {
			names = append(names, n)
		}
		sort.Strings(names)
		served := map[string]bool{}
		for _, ctorName := range names {
			ctors := reg[ctorName]
			for side, ctor := range ctors {
				if ctor == nil {
					continue
				}
				prefix, sideName := "Publish", "pub"
				if side == 1 {
					prefix, sideName = "Subscribe", "sub"
				}
				probe := ctor(provider(&recorder{}))
				for _, op := range methodOps(probe, prefix) {
					sname := sideName
					opName := op
					if side == 1 && strings.HasSuffix(op, "Errorable") && byOp[op] == nil {
						opName = strings.TrimSuffix(op, "Errorable")
						sname = "sub2"
					}
					sc := byOp[opName]
					if sc == nil {
						emit(result{Key: jb.Key, Case: -1, Ctor: ctorName, Note: "emitted method " + prefix + op + " matches no operation of the model"})
						continue
					}
					served[sc.Name+"\x00"+opName+"\x00"+sname] = true
					for ci, values := range sc.Cases {
						rec := &recorder{}
						obj := ctor(provider(rec))
						m := reflect.ValueOf(obj).MethodByName(prefix + op)
						r := result{Key: jb.Key, Scope: sc.Name, Op: opName, Case: ci, Side: sname, Ctor: ctorName}
						r.Err = call(m, paramNames[jb.Key][prefix+op], sc.Vars, values)
						got := rec.published
						if side == 1 {
							got = rec.subscribed
						}
						if r.Err == "" {
							if len(got) == 1 {
								r.Topic, r.Has = got[0], true
							} else {
								r.Err = fmt.Sprintf("transport saw %d calls", len(got))
							}
						}
						emit(r)
					}
				}
			}
		}
		for i := range jb.Scopes {
			sc := &jb.Scopes[i]
			for _, op := range sc.Ops {
				for _, s := range []string{"pub", "sub", "sub2"} {
					if !served[sc.Name+"\x00"+op+"\x00"+s] {
						emit(result{Key: jb.Key, Scope: sc.Name, Op: op, Case: -1, Side: s, Err: "no emitted Go method serves this operation"})
					}
				}
			}
		}
	}
	w.Flush()
	f.Close()
}
