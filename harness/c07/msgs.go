package main

// Payload / header generation, canonical forms and reference-built frames.

import (
	"context"
	"encoding/binary"
	"fmt"
	"math/rand"
	"sort"
	"strings"

	"github.com/apache/thrift/lib/go/thrift"

	"verif/rig"
	"verif/wire"
	"vh/gen/base"
	"vh/gen/c07scopes"
	"vh/gen/mainsvc"
)

const userAlphabet = "ABCDEFGHIJKLMNOPQRSTUVWXYZabcdefghijklmnopqrstuvwxyz0123456789_-"

func genUser(r *rand.Rand) string {
	n := 1 + r.Intn(12)
	b := make([]byte, n)
	for i := range b {
		b[i] = userAlphabet[r.Intn(len(userAlphabet))]
	}
	return string(b)
}

var textPool = []string{"", "a", "hello", "ü", "日本語", "line\nbreak", "quote\"s\\", "tab\t", "\u0000nul", "😀", "{}[],:", " "}

// genText returns valid UTF-8 (the JSON protocol carries strings as text).
func genText(r *rand.Rand, max int) string {
	switch r.Intn(10) {
	case 0:
		return ""
	case 1:
		return textPool[r.Intn(len(textPool))]
	}
	n := r.Intn(max + 1)
	var sb strings.Builder
	for sb.Len() < n {
		switch r.Intn(12) {
		case 0:
			sb.WriteString(textPool[r.Intn(len(textPool))])
		default:
			sb.WriteByte(byte(' ' + r.Intn(95)))
		}
	}
	return sb.String()
}

func genBytes(r *rand.Rand, max int) []byte {
	if r.Intn(8) == 0 {
		return nil
	}
	b := make([]byte, r.Intn(max+1))
	r.Read(b)
	return b
}

func sizeClass(r *rand.Rand) int {
	switch x := r.Intn(100); {
	case x < 70:
		return 24
	case x < 95:
		return 600
	case x < 99:
		return 8000
	}
	return 90000
}

func genThing(r *rand.Rand, id int32) *base.Thing {
	t := &base.Thing{AnID: id, AString: genText(r, sizeClass(r)), At: base.Stamp(r.Int63() - r.Int63())}
	if r.Intn(2) == 0 {
		c := []base.Color{base.Color_RED, base.Color_GREEN, base.Color_BLUE}[r.Intn(3)]
		t.Color = &c
	}
	return t
}

func genPayload(r *rand.Rand, id int32) *mainsvc.Payload {
	sz := sizeClass(r)
	switch r.Intn(4) {
	case 0:
		return &mainsvc.Payload{First: &mainsvc.BigFirst{Big: genText(r, sz), N: id, Flag: r.Intn(2) == 0}}
	case 1:
		return &mainsvc.Payload{Mid: &mainsvc.BigMid{N: id, Big: genBytes(r, sz), Tail: genText(r, 12)}}
	case 2:
		var nums []int64
		if r.Intn(6) != 0 {
			nums = make([]int64, r.Intn(sz/8+1))
			for i := range nums {
				nums[i] = r.Int63() - r.Int63()
			}
		}
		return &mainsvc.Payload{Last: &mainsvc.BigLast{N: id, Nums: nums, Big: genText(r, 12)}}
	}
	var m map[string]string
	if r.Intn(6) != 0 {
		m = map[string]string{}
		for i, n := 0, r.Intn(6); i < n; i++ {
			m[genText(r, 10)] = genText(r, sz/4)
		}
	}
	return &mainsvc.Payload{Bmap: &mainsvc.BigMap{N: id, M: m}}
}

func genNote(r *rand.Rand, id int32) *c07scopes.Note {
	n := &c07scopes.Note{ID: id, Text: genText(r, sizeClass(r))}
	if r.Intn(2) == 0 {
		n.Nums = make([]int64, r.Intn(5))
		for i := range n.Nums {
			n.Nums[i] = r.Int63() - r.Int63()
		}
	}
	return n
}

// canonNote keeps nil and empty apart for the optional list.
func canonNote(n *c07scopes.Note) string {
	if n == nil {
		return "<nil>"
	}
	nums := "-"
	if n.Nums != nil {
		nums = fmt.Sprint(n.Nums)
	}
	return fmt.Sprintf("Note{%d %q %s}", n.ID, n.Text, nums)
}

// canonThing / canonPayload: value equality with nil == empty for the
// non-optional containers.
func canonThing(t *base.Thing) string {
	if t == nil {
		return "<nil>"
	}
	c := "-"
	if t.Color != nil {
		c = fmt.Sprint(int64(*t.Color))
	}
	return fmt.Sprintf("Thing{%d %q %s %d}", t.AnID, t.AString, c, int64(t.At))
}

func canonPayload(p *mainsvc.Payload) string {
	if p == nil {
		return "<nil>"
	}
	var sb strings.Builder
	sb.WriteString("Payload{")
	if p.First != nil {
		fmt.Fprintf(&sb, "first{%q %d %v}", p.First.Big, p.First.N, p.First.Flag)
	}
	if p.Mid != nil {
		fmt.Fprintf(&sb, "mid{%d %x %q}", p.Mid.N, p.Mid.Big, p.Mid.Tail)
	}
	if p.Last != nil {
		fmt.Fprintf(&sb, "last{%d %v %q}", p.Last.N, append([]int64{}, p.Last.Nums...), p.Last.Big)
	}
	if p.Bmap != nil {
		keys := make([]string, 0, len(p.Bmap.M))
		for k := range p.Bmap.M {
			keys = append(keys, k)
		}
		sort.Strings(keys)
		fmt.Fprintf(&sb, "bmap{%d", p.Bmap.N)
		for _, k := range keys {
			fmt.Fprintf(&sb, " %q=%q", k, p.Bmap.M[k])
		}
		sb.WriteString("}")
	}
	sb.WriteString("}")
	return sb.String()
}

func payloadID(p *mainsvc.Payload) int64 {
	switch {
	case p == nil:
		return 0
	case p.First != nil:
		return int64(p.First.N)
	case p.Mid != nil:
		return int64(p.Mid.N)
	case p.Last != nil:
		return int64(p.Last.N)
	case p.Bmap != nil:
		return int64(p.Bmap.N)
	}
	return 0
}

// bigText returns n bytes of valid UTF-8 with some variation.
func bigText(r *rand.Rand, n int) string {
	b := make([]byte, n)
	off := r.Intn(26)
	for i := range b {
		b[i] = byte('a' + (i+off)%26)
	}
	return string(b)
}

var headerNames = []string{"k", "trace", "X-Request", "ünï", "a b", "with:colon", "tenant_id", "n"}

func genHeaders(r *rand.Rand) map[string]string {
	h := map[string]string{}
	for i, n := 0, r.Intn(5); i < n; i++ {
		name := headerNames[r.Intn(len(headerNames))]
		if r.Intn(4) == 0 {
			name = genText(r, 12)
			if name == "" || strings.HasPrefix(name, "_") {
				name = "h" + name
			}
		}
		max := 16
		if r.Intn(20) == 0 {
			max = 1500
		}
		h[name] = genText(r, max)
	}
	return h
}

// refFrame builds size | 0x00 | hsize | pairs | thrift message from
// documentation/protocol.md and the Apache Thrift library only.
func refFrame(proto, opName string, st thrift.TStruct, hdrs map[string]string) []byte {
	buf := thrift.NewTMemoryBuffer()
	p := rig.TProtocolFactory(proto).GetProtocol(buf)
	ctx := context.Background()
	p.WriteMessageBegin(ctx, opName, thrift.CALL, 0)
	st.Write(ctx, p)
	p.WriteMessageEnd(ctx)
	p.Flush(ctx)
	return wire.BuildFrame(wire.MapToPairs(hdrs), buf.Bytes())
}

func baseHeaders(cid string, opid int64, user map[string]string) map[string]string {
	h := map[string]string{"_cid": cid, "_opid": fmt.Sprint(opid), "_timeout": "5000"}
	for k, v := range user {
		h[k] = v
	}
	return h
}

// headerEnd returns the offset of the Thrift payload in a reference frame.
func headerEnd(frame []byte) int {
	return 9 + int(binary.BigEndian.Uint32(frame[5:9]))
}

func u32(v uint32) []byte { return binary.BigEndian.AppendUint32(nil, v) }

// Malformed kinds.  Every kind is a class of bodies a subscriber must discard
// (wrongstruct: outcome unconstrained) without losing later messages.
var malformedKinds = []string{"short-frame", "len4", "bad-version", "neg-header-size", "huge-header-size",
	"tiny-header-size", "bad-pair-size", "no-opid", "wrong-op", "truncated", "garbage", "wrong-struct"}

var kindLetter = map[string]byte{"short-frame": 's', "len4": 'l', "bad-version": 'b', "neg-header-size": 'n',
	"huge-header-size": 'h', "tiny-header-size": 't', "bad-pair-size": 'p', "no-opid": 'o', "wrong-op": 'w',
	"truncated": 'c', "garbage": 'g', "wrong-struct": 'x'}

// kindDoc describes each kind relative to a valid body
// size(4) | 0x00 | hsize(4) | (nsize name vsize value)* | thrift message.
var kindDoc = map[string]string{
	"short-frame":      "0-3 random bytes",
	"len4":             "the 4 size bytes only",
	"bad-version":      "valid body with version byte (offset 4) 1..255",
	"neg-header-size":  "valid body with hsize (offset 5..8) one of ffffffff, 80000000, fffffff0, ffffffXX",
	"huge-header-size": "valid body with hsize = remaining length + 1 (+0..999), 00100000 or 04000000",
	"tiny-header-size": "valid body with hsize = 1..7 (1..3 leave less than one size field)",
	"bad-pair-size":    "valid body with the first pair's name size or value size one of ffffffff, 7fffffff, 80000000, len(body)",
	"no-opid":          "valid body without the _opid header",
	"wrong-op":         "valid body of the scope's other operation (its name and struct type)",
	"truncated":        "valid body cut inside the Thrift message (at least 8 bytes before its end)",
	"garbage":          "5-64 random bytes with a non-zero version byte",
	"wrong-struct":     "valid headers and operation name, struct of another type",
}

// mutate derives a malformed body of the given kind from a valid reference
// frame (kinds wrong-op / wrong-struct / no-opid are built by the caller).
func mutate(r *rand.Rand, kind string, valid []byte) []byte {
	f := append([]byte(nil), valid...)
	switch kind {
	case "short-frame":
		b := make([]byte, r.Intn(4))
		r.Read(b)
		return b
	case "len4":
		return f[:4]
	case "bad-version":
		f[4] = byte(1 + r.Intn(255))
		return f
	case "neg-header-size":
		v := []uint32{0xFFFFFFFF, 0x80000000, 0xFFFFFFF0, 0xFFFFFF00 | uint32(r.Intn(256))}[r.Intn(4)]
		copy(f[5:9], u32(v))
		return f
	case "huge-header-size":
		rest := uint32(len(f) - 9)
		v := []uint32{rest + 1, rest + 1 + uint32(r.Intn(1000)), 0x00100000, 0x04000000}[r.Intn(4)]
		copy(f[5:9], u32(v))
		return f
	case "tiny-header-size":
		copy(f[5:9], u32(uint32(1+r.Intn(7))))
		return f
	case "bad-pair-size":
		v := []uint32{0xFFFFFFFF, 0x7FFFFFFF, 0x80000000, uint32(len(f))}[r.Intn(4)]
		// first pair is (name size, name, value size, value): corrupt one of the two sizes
		if r.Intn(2) == 0 {
			copy(f[9:13], u32(v))
		} else {
			n := int(binary.BigEndian.Uint32(f[9:13]))
			copy(f[13+n:17+n], u32(v))
		}
		return f
	case "truncated":
		he := headerEnd(f)
		lo, hi := he+1, len(f)-8
		if hi <= lo {
			return f[:he]
		}
		return f[:lo+r.Intn(hi-lo)]
	case "garbage":
		b := make([]byte, 5+r.Intn(60))
		r.Read(b)
		if b[4] == 0 {
			b[4] = 7
		}
		return b
	}
	panic("mutate: " + kind)
}
