package main

// Goroutine-dump helpers: the monitor establishes "this subscriber can never
// invoke its handler again" (its worker goroutines are gone) or "this
// subscriber is idle" (all its workers are parked in their own select) from
// the runtime's goroutine dump, not from timing.

import (
	"regexp"
	"runtime"
	"strconv"
	"strings"
)

type gor struct {
	ID      int
	State   string
	Funcs   []string // function lines, innermost first
	Creator int      // goroutine that created it (0 = unknown)
	Text    string
}

var (
	reGorHead = regexp.MustCompile(`^goroutine (\d+) \[([^\]]*)\]:`)
	reCreated = regexp.MustCompile(`^created by (\S+) in goroutine (\d+)`)
)

func rawDump() string {
	buf := make([]byte, 1<<20)
	for {
		n := runtime.Stack(buf, true)
		if n < len(buf) {
			return string(buf[:n])
		}
		buf = make([]byte, 2*len(buf))
	}
}

func parseDump(text string) []gor {
	var out []gor
	for _, block := range strings.Split(text, "\n\n") {
		lines := strings.Split(strings.TrimSpace(block), "\n")
		if len(lines) == 0 {
			continue
		}
		m := reGorHead.FindStringSubmatch(lines[0])
		if m == nil {
			continue
		}
		g := gor{Text: block}
		g.ID, _ = strconv.Atoi(m[1])
		g.State = m[2]
		for _, l := range lines[1:] {
			if strings.HasPrefix(l, "\t") {
				continue
			}
			if c := reCreated.FindStringSubmatch(l); c != nil {
				g.Creator, _ = strconv.Atoi(c[2])
				continue
			}
			g.Funcs = append(g.Funcs, l)
		}
		out = append(out, g)
	}
	return out
}

// myGID returns the id of the calling goroutine.
func myGID() int {
	var buf [64]byte
	n := runtime.Stack(buf[:], false)
	m := reGorHead.FindSubmatch(buf[:n])
	if m == nil {
		// "goroutine 12 [running]:" may be cut by the small buffer; parse by hand
		f := strings.Fields(string(buf[:n]))
		if len(f) > 1 {
			id, _ := strconv.Atoi(f[1])
			return id
		}
		return 0
	}
	id, _ := strconv.Atoi(string(m[1]))
	return id
}

// workersOf lists the goroutines created by goroutine creator that run fn
// (substring of a function line).
func workersOf(gs []gor, creator int, fn string) []gor {
	var out []gor
	for _, g := range gs {
		if g.Creator != creator {
			continue
		}
		for _, f := range g.Funcs {
			// a goroutine that has not run yet shows only the go-statement wrapper
			if strings.Contains(f, fn) || strings.Contains(f, ".Subscribe.gowrap") {
				out = append(out, g)
				break
			}
		}
	}
	return out
}

// parkedIn reports whether g waits in the select of fn itself (innermost
// user frame is fn), i.e. it is idle, not inside a callback.
func parkedIn(g gor, fn string) bool {
	return strings.HasPrefix(g.State, "select") && len(g.Funcs) > 0 && strings.Contains(g.Funcs[0], fn)
}
