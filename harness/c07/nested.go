package main

// Topics that begin with the word the transports themselves put in front of
// every topic ("frugal."), next to live subscriptions on the topic that remains
// when that word is taken away (harness/c07/idl/c07nest{a,b}.frugal).
//
// The transports map a scope topic T to a broker subject ("frugal."+T on NATS,
// "/topic/"+prefix+"frugal."+T on STOMP).  The property needs that mapping to
// be the same function on the publishing and on the subscribing side and to be
// injective: the subscriber of T gets exactly the messages published on T,
// whatever T looks like.  Topics of the family
//
//	T, frugal.T, frugal.frugal.T     (T = Log.Made | Evt.Made | <env>.Box.Made)
//
// are the ones a transport that treats its own word specially folds together.
// They arise from an IDL prefix "frugal", "frugal.{env}", or a leading prefix
// variable whose run-time value is "frugal".

import (
	"strings"
	"sync/atomic"

	frugal "github.com/Workiva/frugal/lib/go"
	"github.com/nats-io/nats.go"

	"vh/gen/c07nesta"
	"vh/gen/c07nestb"
	"vh/gen/c07scopes"
)

// transportWord is what both transports prepend to every topic.
const transportWord = "frugal"

// Operations of the family; "A" = c07nesta (with the leading word), "B" =
// c07nestb (the remainder).
var nestedOps = []string{"NestLogA", "NestLogB", "NestEvtA", "NestEvtB", "NestBoxA", "NestBoxB"}

func isNested(op string) bool { return strings.HasPrefix(op, "Nest") }

func nestedHasVar(op string) bool { return op == "NestEvtA" || op == "NestBoxA" || op == "NestBoxB" }

func nestedScope(op string) string {
	switch op {
	case "NestLogA":
		return "Log prefix frugal"
	case "NestLogB":
		return "Log"
	case "NestEvtA":
		return "Evt prefix {org}"
	case "NestEvtB":
		return "Evt"
	case "NestBoxA":
		return "Box prefix frugal.{env}"
	}
	return "Box prefix {env}"
}

type nestPubs struct {
	logA c07nesta.LogPublisher
	evtA c07nesta.EvtPublisher
	boxA c07nesta.BoxPublisher
	logB c07nestb.LogPublisher
	evtB c07nestb.EvtPublisher
	boxB c07nestb.BoxPublisher
}

func newNestPubs(p *frugal.FScopeProvider) *nestPubs {
	return &nestPubs{logA: c07nesta.NewLogPublisher(p), evtA: c07nesta.NewEvtPublisher(p), boxA: c07nesta.NewBoxPublisher(p),
		logB: c07nestb.NewLogPublisher(p), evtB: c07nestb.NewEvtPublisher(p), boxB: c07nestb.NewBoxPublisher(p)}
}

func (np *nestPubs) open() {
	np.logA.Open()
	np.evtA.Open()
	np.boxA.Open()
	np.logB.Open()
	np.evtB.Open()
	np.boxB.Open()
}

func toNest(n *c07scopes.Note) *c07nesta.Note {
	return &c07nesta.Note{ID: n.ID, Text: n.Text, Nums: n.Nums}
}

func (np *nestPubs) publish(ctx frugal.FContext, op, user string, n *c07scopes.Note) (bool, error) {
	switch op {
	case "NestLogA":
		return true, np.logA.PublishMade(ctx, toNest(n))
	case "NestLogB":
		return true, np.logB.PublishMade(ctx, toNest(n))
	case "NestEvtA":
		return true, np.evtA.PublishMade(ctx, user, toNest(n))
	case "NestEvtB":
		return true, np.evtB.PublishMade(ctx, toNest(n))
	case "NestBoxA":
		return true, np.boxA.PublishMade(ctx, user, toNest(n))
	case "NestBoxB":
		return true, np.boxB.PublishMade(ctx, user, toNest(n))
	}
	return false, nil
}

func (r *recorder) onNest(fctx frugal.FContext, n *c07nesta.Note) {
	r.onNote(fctx, &c07scopes.Note{ID: n.ID, Text: n.Text, Nums: n.Nums})
}

func nestedSubscribe(prov *frugal.FScopeProvider, op, user string, rec *recorder) (*frugal.FSubscription, bool, error) {
	var sub *frugal.FSubscription
	var err error
	switch op {
	case "NestLogA":
		sub, err = c07nesta.NewLogSubscriber(prov).SubscribeMade(rec.onNest)
	case "NestLogB":
		sub, err = c07nestb.NewLogSubscriber(prov).SubscribeMade(rec.onNest)
	case "NestEvtA":
		sub, err = c07nesta.NewEvtSubscriber(prov).SubscribeMade(user, rec.onNest)
	case "NestEvtB":
		sub, err = c07nestb.NewEvtSubscriber(prov).SubscribeMade(rec.onNest)
	case "NestBoxA":
		sub, err = c07nesta.NewBoxSubscriber(prov).SubscribeMade(user, rec.onNest)
	case "NestBoxB":
		sub, err = c07nestb.NewBoxSubscriber(prov).SubscribeMade(user, rec.onNest)
	default:
		return nil, false, nil
	}
	return sub, true, err
}

// nestedRelation names how the topic a message was published on relates to
// the topic of the subscription that got it.
func nestedRelation(published, subscribed string) string {
	switch {
	case published == transportWord+"."+subscribed:
		return "published-on-frugal-dot-plus-the-subscribed-topic"
	case subscribed == transportWord+"."+published:
		return "published-on-the-subscribed-topic-minus-its-leading-frugal-dot"
	}
	return "other-topic-of-the-frugal-word-family"
}

// neighbours of a topic inside the family: the topic itself, with one more
// leading word, and with one leading word less.
func neighbours(topic string) []string {
	out := []string{topic, transportWord + "." + topic}
	if strings.HasPrefix(topic, transportWord+".") {
		out = append(out, strings.TrimPrefix(topic, transportWord+"."))
	}
	return out
}

// startWideTap (NATS): one raw subscription on ">" counts every message the
// server routes, whatever subject the code under test put it on; a message
// that went out on another subject than the subscribers listen on is then
// still "routed", and the subscribers' logs decide.
func (q *seqRun) startWideTap() error {
	sub, err := q.tapL.nc.Subscribe(">", func(m *nats.Msg) { atomic.AddInt64(&q.tapCount, 1) })
	if err != nil {
		return err
	}
	q.tapStops = append(q.tapStops, func() { sub.Unsubscribe() })
	q.wide = true
	return q.tapL.nc.Flush()
}
