// C07 — pub/sub delivers each message once, intact, in order (single worker),
// isolates malformed and foreign-topic messages, and stops at Unsubscribe.
//
// Parent (monitor): builds the sequence list (pure function of seed and tier),
// runs the sequences in child processes (this binary re-executed with the
// sub-command "child": a malformed message may crash the subscriber's worker
// goroutine, i.e. the process), attributes child crashes to the sequence that
// was running and to the malformed kind that reproduces the crash on its own,
// and aggregates verdicts and evidence through verif/ev.
//
// Child: embedded nats-server and the rig's STOMP 1.2 broker; runs the
// sequences it is fed on stdin one after the other (seq.go).
//
// Note on WithQueueLength: FNatsSubscriberFactoryBuilder.Build() creates a work
// channel of the requested length on the *factory*, but GetTransport() gives
// every transport a fresh channel of defaultWorkQueueLen (64); the only knob
// that reaches a subscriber is the worker count.  The sweep passes queue
// lengths anyway (they must be harmless).
package main

import (
	"bufio"
	"encoding/json"
	"fmt"
	"io"
	"log"
	"math/rand"
	"os"
	"os/exec"
	"path/filepath"
	"regexp"
	"sort"
	"strings"
	"sync"
	"syscall"
	"time"

	"verif/ev"
	"verif/rig"
)

func main() {
	if len(os.Args) > 1 && os.Args[1] == "child" {
		childMain()
		return
	}
	if len(os.Args) > 2 && os.Args[1] == "specs" {
		// debugging aid: print the sequence list of a tier, one JSON spec per line
		run := ev.New("C07", os.Args[2], "exploration")
		for _, s := range genSpecs(run.Rand("specs"), run.Thorough()) {
			j, _ := json.Marshal(s)
			fmt.Println(string(j))
		}
		return
	}
	os.Exit(parent())
}

// ---- child ------------------------------------------------------------------

func childMain() {
	rig.Quiet()
	log.SetOutput(io.Discard) // go-stomp logs through the standard logger
	ns, err := rig.StartNats()
	if err != nil {
		fmt.Fprintln(os.Stderr, "child: nats:", err)
		os.Exit(4)
	}
	sb, err := rig.StartStompBroker()
	if err != nil {
		fmt.Fprintln(os.Stderr, "child: stomp:", err)
		os.Exit(4)
	}
	b := &bus{ns: ns, sb: sb}
	in := bufio.NewReaderSize(os.Stdin, 1<<20)
	out := bufio.NewWriter(os.Stdout)
	for {
		line, err := in.ReadBytes('\n')
		if len(line) > 1 {
			var s Spec
			if json.Unmarshal(line, &s) != nil {
				fmt.Fprintln(os.Stderr, "child: bad spec line")
				os.Exit(4)
			}
			fmt.Fprintf(os.Stderr, "child: begin seq %d %s\n", s.Idx, shapeOf(&s))
			res := runSeq(b, &s)
			j, _ := json.Marshal(res)
			out.WriteString("R ")
			out.Write(j)
			out.WriteByte('\n')
			out.Flush()
		}
		if err != nil {
			break
		}
	}
	os.Exit(0)
}

// ---- parent -----------------------------------------------------------------

type child struct {
	cmd     *exec.Cmd
	in      io.WriteCloser
	lines   chan string
	errPath string
}

var childSeq int
var childMu sync.Mutex

func startChild(bin string, extraEnv []string) (*child, error) {
	childMu.Lock()
	childSeq++
	n := childSeq
	childMu.Unlock()
	c := &child{errPath: filepath.Join(ev.ScratchDir(), fmt.Sprintf("c07-child-%d.stderr", n)), lines: make(chan string, 4)}
	ef, err := os.Create(c.errPath)
	if err != nil {
		return nil, err
	}
	c.cmd = exec.Command(bin, "child")
	c.cmd.Env = append(os.Environ(), extraEnv...)
	c.cmd.Stderr = ef
	c.in, _ = c.cmd.StdinPipe()
	so, _ := c.cmd.StdoutPipe()
	if err := c.cmd.Start(); err != nil {
		ef.Close()
		return nil, err
	}
	ef.Close()
	go func() {
		r := bufio.NewReaderSize(so, 1<<20)
		for {
			l, err := r.ReadString('\n')
			if strings.HasPrefix(l, "R ") {
				c.lines <- l[2:]
			}
			if err != nil {
				close(c.lines)
				return
			}
		}
	}()
	return c, nil
}

func (c *child) stop() {
	c.in.Close()
	done := make(chan struct{})
	go func() { c.cmd.Wait(); close(done) }()
	select {
	case <-done:
	case <-time.After(5 * time.Second):
		c.cmd.Process.Kill()
		<-done
	}
	os.Remove(c.errPath)
}

// run feeds one spec; returns the result, or crashed/timedOut with the
// child's stderr.
func (c *child) run(s *Spec) (res *Result, crashed, timedOut bool, stderr string) {
	j, _ := json.Marshal(s)
	if _, err := c.in.Write(append(j, '\n')); err != nil {
		crashed = true
	}
	if !crashed {
		select {
		case l, ok := <-c.lines:
			if !ok {
				crashed = true
				break
			}
			var r Result
			if err := json.Unmarshal([]byte(l), &r); err != nil {
				crashed = true
				break
			}
			return &r, false, false, ""
		case <-time.After(5 * time.Minute):
			timedOut = true
			c.cmd.Process.Signal(syscall.SIGQUIT)
		}
	}
	done := make(chan struct{})
	go func() { c.cmd.Wait(); close(done) }()
	select {
	case <-done:
	case <-time.After(10 * time.Second):
		c.cmd.Process.Kill()
		<-done
	}
	b, _ := os.ReadFile(c.errPath)
	os.Remove(c.errPath)
	return nil, crashed, timedOut, string(b)
}

var reFrameLoc = regexp.MustCompile(`^\t(\S+\.go:\d+)`)

// panicSite extracts the panic message, the first frame inside the library or
// the emitted code, and the stack of the panicking goroutine.
func panicSite(stderr string) (msg, fn, loc string, stack []string) {
	i := strings.LastIndex(stderr, "\npanic: ")
	if j := strings.LastIndex(stderr, "\nfatal error: "); j > i {
		i = j
	}
	if i < 0 {
		if strings.HasPrefix(stderr, "panic: ") || strings.HasPrefix(stderr, "fatal error: ") {
			i = 0
		} else {
			t := strings.TrimSpace(stderr)
			if len(t) > 400 {
				t = t[len(t)-400:]
			}
			return "no panic in stderr: " + t, "", "", nil
		}
	}
	lines := strings.Split(strings.TrimLeft(stderr[i:], "\n"), "\n")
	msg = lines[0]
	in := false
	for k, l := range lines {
		if strings.HasPrefix(l, "goroutine ") {
			if in {
				break
			}
			in = true
			continue
		}
		if !in {
			continue
		}
		if l == "" {
			break
		}
		if len(stack) < 24 {
			stack = append(stack, strings.TrimSpace(l))
		}
		if fn == "" && !strings.HasPrefix(l, "\t") && (strings.Contains(l, "github.com/Workiva/frugal/lib/go.") || strings.Contains(l, "vh/gen/")) {
			f := l
			if p := strings.LastIndex(f, "("); p > 0 {
				f = f[:p]
			}
			if p := strings.LastIndex(f, "/"); p >= 0 {
				f = f[p+1:]
			}
			f = strings.TrimPrefix(f, "go.")
			fn = f
			if k+1 < len(lines) {
				if m := reFrameLoc.FindStringSubmatch(lines[k+1]); m != nil {
					loc = strings.TrimPrefix(m[1], ev.RepoDir()+"/")
				}
			}
		}
	}
	return
}

func pick(r *rand.Rand, l []string) string { return l[r.Intn(len(l))] }

func genSpecs(r *rand.Rand, thorough bool) []*Spec {
	total := 120
	if thorough {
		total = 3000
	}
	type nf struct {
		f string
		w int
	}
	natsCfg := []nf{{"plain", 1}, {"builder", 1}, {"builder", 2}, {"builder", 4}, {"builder", 8}}
	var out []*Spec
	ni, si := 0, 0
	for i := 0; i < total; i++ {
		s := &Spec{Idx: i, Seed: r.Int63(), User: genUser(r)}
		if i%2 == 0 {
			s.Broker = "nats"
			c := natsCfg[ni%len(natsCfg)]
			s.Factory, s.Workers = c.f, c.w
			s.Proto = rig.Protocols[(ni/len(natsCfg))%3]
			ni++
		} else {
			s.Broker, s.Factory, s.Workers = "stomp", "builder", 1
			s.Proto = rig.Protocols[si%3]
			si++
			if r.Intn(10) < 3 {
				s.StompPrefix = pick(r, []string{"pre.", "x-y.", "a/b."})
			}
			s.ViaInject = r.Intn(10) < 3
		}
		s.QueueLen = 1 + r.Intn(64)
		switch x := r.Intn(100); {
		case x < 40:
			s.Op = "Sent"
		case x < 75:
			s.Op = "Num"
		default:
			s.Op = "Ping"
		}
		switch x := r.Intn(100); {
		case x < 70:
			s.N = 50 + r.Intn(100)
		case x < 95:
			s.N = 150 + r.Intn(350)
		default:
			s.N = 500 + r.Intn(1501)
		}
		switch x := r.Intn(100); {
		case x < 20:
		case x < 65:
			s.Kinds = []string{pick(r, malformedKinds)}
		default:
			perm := r.Perm(len(malformedKinds))
			for _, p := range perm[:2+r.Intn(2)] {
				s.Kinds = append(s.Kinds, malformedKinds[p])
			}
		}
		s.Foreign = r.Intn(10) < 6
		if r.Intn(100) < 35 {
			if s.Broker == "nats" {
				s.Burst = 1 + r.Intn(120)
			} else {
				// more than 16 undelivered messages at Unsubscribe wedge go-stomp's
				// connection (see the report); that is outside this property
				s.Burst = 1 + r.Intn(8)
			}
			// a slow handler keeps messages queued inside the subscriber while
			// Unsubscribe runs
			if r.Intn(10) < 5 || (s.Broker == "stomp" && r.Intn(10) < 6) {
				s.DelayUs = 100 + r.Intn(1400)
				if s.N > 150 {
					s.N = 50 + r.Intn(100)
				}
			}
		}
		s.K = 3 + r.Intn(18)
		s.DupSub = i%3 == 0
		out = append(out, s)
	}
	// sequences on the oddly named scopes of fixtures/c07scopes.frugal: the
	// same machinery, smaller sequences
	nScopes, nShared := 20, 24
	if thorough {
		nScopes, nShared = 200, 360
	}
	for i := 0; i < nScopes; i++ {
		s := &Spec{Idx: len(out), Seed: r.Int63(), User: genUser(r), Op: scopeOps[i%len(scopeOps)], QueueLen: 64}
		if (i/len(scopeOps))%2 == 0 {
			s.Broker, s.Factory, s.Workers = "nats", "builder", []int{1, 2, 4}[r.Intn(3)]
		} else {
			s.Broker, s.Factory, s.Workers = "stomp", "builder", 1
		}
		s.Proto = rig.Protocols[r.Intn(3)]
		s.N = 20 + r.Intn(60)
		if r.Intn(2) == 0 {
			s.Kinds = []string{pick(r, malformedKinds)}
		}
		s.Foreign = r.Intn(2) == 0
		s.K = 3 + r.Intn(6)
		out = append(out, s)
	}
	// several live subscriptions on different topics through ONE scope provider
	sharedCfg := []nf{{"builder", 1}, {"builder", 2}, {"builder", 4}, {"builder", 8}, {"builder", 1}, {"plain", 1}}
	patterns := [][]string{{"Sent", "Sent"}, {"Sent", "Sent", "Num"}, {"Num", "Num", "Ping"}, {"Sent", "Num"}, {"UserEvents", "UserEvents", "IdMap"}, {"Ping", "Api", "Alerts"}, {"Num", "Sent", "Sent"}}
	for i := 0; i < nShared; i++ {
		s := &Spec{Idx: len(out), Seed: r.Int63(), Mode: "shared", QueueLen: 1 + r.Intn(64), Proto: rig.Protocols[r.Intn(3)]}
		if i%4 == 3 {
			s.Broker, s.Factory, s.Workers = "stomp", "builder", 1
		} else {
			c := sharedCfg[(i-i/4)%len(sharedCfg)]
			s.Broker, s.Factory, s.Workers = "nats", c.f, c.w
		}
		a := genUser(r)
		b := a
		for b == a {
			b = genUser(r)
		}
		users := map[string][]string{}
		for _, op := range patterns[r.Intn(len(patterns))] {
			// first use of an operation: user a, second: user b ("Sent a, Sent b, Num a")
			u := []string{a, b}[len(users[op])%2]
			users[op] = append(users[op], u)
			s.Subs = append(s.Subs, SubSpec{Op: op, User: u})
		}
		s.Op, s.User = s.Subs[0].Op, s.Subs[0].User
		s.N = 40 + r.Intn(160)
		s.K = 6 + r.Intn(20)
		out = append(out, s)
	}
	// STOMP backpressure: held handler + burst + publishes through the
	// subscriber's own connection
	nBack := 9
	if thorough {
		nBack = 60
	}
	for i := 0; i < nBack; i++ {
		s := &Spec{Idx: len(out), Seed: r.Int63(), Mode: "backpressure", Broker: "stomp", Factory: "builder", Workers: 1, QueueLen: 64,
			Proto: rig.Protocols[i%3], User: genUser(r), Op: []string{"Sent", "Num"}[r.Intn(2)], N: 45 + r.Intn(60), K: 5 + r.Intn(40)}
		if r.Intn(3) == 0 {
			s.StompPrefix = "pre."
		}
		out = append(out, s)
	}
	// NATS prompt-publish: subscriber behind a relay with one-way latency,
	// publisher on its own connection, first publishes right after Subscribe
	nPrompt := 10
	if thorough {
		nPrompt = 60
	}
	for i := 0; i < nPrompt; i++ {
		c := natsCfg[i%len(natsCfg)]
		s := &Spec{Idx: len(out), Seed: r.Int63(), Mode: "prompt", Broker: "nats", Factory: c.f, Workers: c.w, QueueLen: 1 + r.Intn(64),
			Proto: rig.Protocols[(i/len(natsCfg))%3], User: genUser(r), Op: []string{"Sent", "Num", "Ping", "UserEvents"}[r.Intn(4)], N: 20 + r.Intn(40), K: 0, RelayMs: 20 + r.Intn(40)}
		if r.Intn(2) == 0 {
			s.Kinds = []string{pick(r, malformedKinds)}
		}
		out = append(out, s)
	}
	// concurrent publishing to different topics through ONE emitted publisher
	nConc := 6
	if thorough {
		nConc = 40
	}
	for i := 0; i < nConc; i++ {
		s := &Spec{Idx: len(out), Seed: r.Int63(), Mode: "concurrent", Broker: "nats", Factory: "plain", Workers: 1, QueueLen: 64,
			Proto: rig.Protocols[i%3], N: 1500 + r.Intn(1500)}
		if i%6 == 5 {
			s.Broker, s.Factory, s.N = "stomp", "builder", 200+r.Intn(300)
		}
		var users []string
		for len(users) < 3 {
			u := genUser(r)
			dup := false
			for _, v := range users {
				dup = dup || v == u
			}
			if !dup {
				users = append(users, u)
			}
		}
		s.Subs = []SubSpec{{"Sent", users[0]}, {"Sent", users[1]}, {"Num", users[0]}, {"Sent", users[2]}}
		s.Op, s.User = "Sent", users[0]
		out = append(out, s)
	}
	// topics that begin with the transports' own word ("frugal."), next to live
	// subscriptions on the remainder topic (nested.go): 2-3 live subscriptions
	// on topics of one family T / frugal.T / frugal.frugal.T, valid publishes
	// interleaved on all of them, the first subscription unsubscribed mid-way
	nNested := 15
	if thorough {
		nNested = 150
	}
	for i := 0; i < nNested; i++ {
		s := &Spec{Idx: len(out), Seed: r.Int63(), Mode: "nested", QueueLen: 1 + r.Intn(64), Proto: rig.Protocols[i%3]}
		if i%5 == 4 {
			s.Broker, s.Factory, s.Workers = "stomp", "builder", 1
			s.StompPrefix = []string{"", transportWord + ".", "pre."}[(i/5)%3]
		} else {
			c := natsCfg[(i-i/5)%len(natsCfg)]
			s.Broker, s.Factory, s.Workers = "nats", c.f, c.w
		}
		u := genUser(r)
		v := u
		for v == u || strings.EqualFold(u, transportWord) || strings.EqualFold(v, transportWord) {
			u, v = genUser(r), genUser(r)
		}
		twin := []string{"Frugal", "FRUGAL", "frugal_", "fruga", "frugal-"}[r.Intn(5)]
		switch i % 6 {
		case 0:
			s.Subs = []SubSpec{{"NestLogA", ""}, {"NestLogB", ""}}
		case 1:
			s.Subs = []SubSpec{{"NestEvtA", transportWord}, {"NestEvtB", ""}, {"NestEvtA", u}}
		case 2:
			s.Subs = []SubSpec{{"NestBoxA", u}, {"NestBoxB", u}, {"NestBoxB", v}}
		case 3:
			s.Subs = []SubSpec{{"NestBoxA", transportWord}, {"NestBoxB", transportWord}, {"NestBoxA", u}}
		case 4:
			s.Subs = []SubSpec{{"NestEvtA", twin}, {"NestEvtA", transportWord}, {"NestEvtB", ""}}
		default:
			s.Subs = []SubSpec{{"NestLogB", ""}, {"NestLogA", ""}, {"NestEvtA", transportWord}}
		}
		// which subscription is the one unsubscribed mid-way
		r.Shuffle(len(s.Subs), func(a, b int) { s.Subs[a], s.Subs[b] = s.Subs[b], s.Subs[a] })
		s.Op, s.User = s.Subs[0].Op, s.Subs[0].User
		s.N = 30 + r.Intn(90)
		s.K = 4 + r.Intn(12)
		out = append(out, s)
	}
	// several subscription periods on ONE subscriber transport object
	nResub := 12
	if thorough {
		nResub = 90
	}
	for i := 0; i < nResub; i++ {
		s := &Spec{Idx: len(out), Seed: r.Int63(), Mode: "resub", QueueLen: 1 + r.Intn(64), Proto: rig.Protocols[i%3], User: genUser(r),
			Op: []string{"Sent", "Num", "Ping", "UserEvents"}[r.Intn(4)], N: 5 + r.Intn(40), K: 3 + r.Intn(20), Periods: 2 + r.Intn(3)}
		if i%2 == 0 {
			s.Broker, s.Factory, s.Workers = "stomp", "builder", 1
			if r.Intn(3) == 0 {
				s.StompPrefix = "pre."
			}
		} else {
			c := natsCfg[(i/2)%len(natsCfg)]
			s.Broker, s.Factory, s.Workers = "nats", c.f, c.w
		}
		if r.Intn(2) == 0 {
			s.Kinds = []string{pick(r, malformedKinds)}
		}
		if r.Intn(3) == 0 {
			s.DelayUs = 100 + r.Intn(900)
		}
		s.VaryTopic = i%4 >= 2
		if i%3 != 2 {
			// a backlog inside the subscriber when Unsubscribe is called
			s.DelayUs = 300 + r.Intn(900)
			s.Burst = 20 + r.Intn(40)
			if s.Broker == "stomp" {
				s.Burst = 2 + r.Intn(7) // see the note on go-stomp above
			}
		}
		out = append(out, s)
	}
	// the ordinary two-subscriber sequences (malformed / foreign / Unsubscribe)
	// on topics of that family
	nNestedSeq := 6
	if thorough {
		nNestedSeq = 60
	}
	for i := 0; i < nNestedSeq; i++ {
		s := &Spec{Idx: len(out), Seed: r.Int63(), Op: nestedOps[i%len(nestedOps)], QueueLen: 64, Proto: rig.Protocols[r.Intn(3)]}
		s.User = transportWord
		if s.Op != "NestEvtA" && (i/len(nestedOps))%2 == 1 {
			s.User = genUser(r)
		}
		if i%3 == 2 {
			s.Broker, s.Factory, s.Workers = "stomp", "builder", 1
			s.StompPrefix = []string{"", transportWord + "."}[r.Intn(2)]
		} else {
			s.Broker, s.Factory, s.Workers = "nats", "builder", []int{1, 2, 4}[r.Intn(3)]
		}
		s.N = 20 + r.Intn(60)
		if r.Intn(2) == 0 {
			s.Kinds = []string{pick(r, malformedKinds)}
		}
		s.Foreign = true
		s.K = 3 + r.Intn(6)
		out = append(out, s)
	}
	return out
}

type monitor struct {
	run      *ev.Run
	bin      string
	mu       sync.Mutex
	crashFn  map[string]string // broker|kind -> function a lone probe of that kind crashes in ("" = none)
	children int
}

func (m *monitor) absorb(res *Result, prefix string) {
	m.run.Eval(1)
	m.run.Distinct(res.Shape)
	m.run.Add(prefix+"sequences", 1)
	for k, v := range res.Counters {
		if strings.HasPrefix(k, "max_") {
			m.mu.Lock()
			if v > m.run.Count(k) {
				m.run.Add(k, v-m.run.Count(k))
			}
			m.mu.Unlock()
			continue
		}
		m.run.Add(k, v)
	}
	for _, v := range res.Vios {
		m.run.Violation(v.Sig, v.What, v.Witness)
	}
	for _, s := range res.Inconclusive {
		m.run.Inconclusive(s)
	}
}

// crashProbe runs the attribution probe of one kind in a fresh child.
func (m *monitor) crashProbe(s *Spec, kind string, env []string) string {
	key := s.Broker + "|" + s.Factory + "|" + kind
	m.mu.Lock()
	fn, ok := m.crashFn[key]
	m.mu.Unlock()
	if ok {
		return fn
	}
	ps := *s
	ps.Probe, ps.Kinds, ps.Foreign, ps.Burst, ps.K, ps.DelayUs, ps.ViaInject = kind, []string{kind}, false, 0, 0, 0, false
	fn = ""
	if c, err := startChild(m.bin, env); err == nil {
		m.run.Add("crash_attribution_probes", 1)
		_, crashed, _, stderr := c.run(&ps)
		if crashed {
			_, fn, _, _ = panicSite(stderr)
			if fn == "" {
				fn = "?"
			}
		} else {
			c.stop()
		}
	}
	m.mu.Lock()
	m.crashFn[key] = fn
	m.mu.Unlock()
	return fn
}

func (m *monitor) crashed(s *Spec, stderr string, env []string, prefix string) {
	m.run.Eval(1)
	m.run.Distinct(shapeOf(s))
	m.run.Add(prefix+"sequences", 1)
	m.run.Add("child_crashes", 1)
	msg, fn, loc, stack := panicSite(stderr)
	if fn == "" {
		m.run.Inconclusive(fmt.Sprintf("seq %d (%s): the child process died without a panic in the library or the emitted code: %s", s.Idx, shapeOf(s), msg))
		return
	}
	var culprits []string
	for _, k := range s.Kinds {
		if m.crashProbe(s, k, env) == fn {
			culprits = append(culprits, k)
		}
	}
	w := map[string]interface{}{"spec": s, "panic": msg, "function": fn, "location": loc, "stack": stack,
		"replay": "VERIF_SEED and tier reproduce the sequence list; the spec alone reproduces the message list (child sub-command reads it on stdin)"}
	what := fmt.Sprintf("the subscriber's process crashed (%s in %s at %s): every subscription in the process stops getting messages", msg, fn, loc)
	if len(culprits) == 0 {
		m.run.Violation("C07:crash:"+fn, what+"; no malformed kind of the sequence reproduces it on its own", w)
		return
	}
	for _, k := range culprits {
		w2 := map[string]interface{}{}
		for a, b := range w {
			w2[a] = b
		}
		w2["culprit_kind"] = k
		w2["culprit_kind_definition"] = kindDoc[k]
		w2["probe_shape"] = "V V <kind>x8 V V V S on fresh subscribers of the same configuration crashes in the same function"
		m.run.Violation("C07:crash:"+fn+":"+k, what+fmt.Sprintf("; a lone %s message on the topic reproduces it", k), w2)
	}
}

// sweep runs specs on p parallel children of bin.
func (m *monitor) sweep(specs []*Spec, p int, env []string, prefix string) {
	ch := make(chan *Spec)
	var wg sync.WaitGroup
	for i := 0; i < p; i++ {
		wg.Add(1)
		go func() {
			defer wg.Done()
			var c *child
			for s := range ch {
				if c == nil {
					var err error
					if c, err = startChild(m.bin, env); err != nil {
						m.run.Inconclusive("cannot start a child process: " + err.Error())
						continue
					}
					m.run.Add("child_processes", 1)
				}
				res, crashed, timedOut, stderr := c.run(s)
				switch {
				case res != nil:
					m.absorb(res, prefix)
				case timedOut:
					c = nil
					m.run.Eval(1)
					m.run.Inconclusive(fmt.Sprintf("seq %d (%s): no result within 5 minutes; goroutines: %v", s.Idx, shapeOf(s), grep(stderr, "frugal/lib/go")))
				case crashed:
					c = nil
					m.crashed(s, stderr, env, prefix)
				}
			}
			if c != nil {
				c.stop()
			}
		}()
	}
	for _, s := range specs {
		ch <- s
	}
	close(ch)
	wg.Wait()
}

var reRaceFn = regexp.MustCompile(`(?m)^(?:Write|Read|Previous write|Previous read) at \S+ by [^\n]*\n  (\S+)\(`)

func (m *monitor) raceSample(specs []*Spec) {
	raceBin := os.Getenv("C07_RACE_BIN")
	if raceBin == "" {
		return
	}
	logPrefix := filepath.Join(ev.ScratchDir(), "c07-race")
	env := []string{"GORACE=halt_on_error=0 log_path=" + logPrefix}
	var sample []*Spec
	for _, s := range specs {
		if len(sample) < 80 && s.N <= 300 {
			sample = append(sample, s)
		}
	}
	save := m.bin
	m.bin = raceBin
	m.sweep(sample, 4, env, "race_")
	m.bin = save
	files, _ := filepath.Glob(logPrefix + ".*")
	reports := 0
	sites := map[string]int{}
	for _, f := range files {
		b, _ := os.ReadFile(f)
		for _, rep := range strings.Split(string(b), "WARNING: DATA RACE")[1:] {
			reports++
			var fns []string
			for _, mm := range reRaceFn.FindAllStringSubmatch(rep, 2) {
				f := mm[1]
				if p := strings.LastIndex(f, "/"); p >= 0 {
					f = f[p+1:]
				}
				fns = append(fns, f)
			}
			sort.Strings(fns)
			sites[strings.Join(fns, " <-> ")]++
		}
		os.Remove(f)
	}
	var list []string
	for k, v := range sites {
		list = append(list, fmt.Sprintf("%s x%d", k, v))
	}
	sort.Strings(list)
	if len(list) > 12 {
		list = list[:12]
	}
	m.run.Set("race_detector_reports", reports)
	if list == nil {
		list = []string{}
	}
	m.run.Set("race_detector_sites", list)
}

func parent() int {
	run := ev.New("C07", ev.ArgTier(), "exploration")
	run.Rule("one case = one sequence: (broker nats|stomp, protocol, subscriber factory and worker count, scope operation, prefix variable value, 50-2000 interleaved steps of valid publishes through the emitted publisher / malformed raw publishes of 0-3 kinds on the same subject / foreign-topic publishes, about 1 valid message in 40 with more than 64 KiB of FContext headers (one 70 KiB value or 50 x 4 KiB), in a third of the sequences a rejected second Subscribe on A's own transport before the traffic starts, optional in-flight burst at Unsubscribe with a slow handler, k publishes after Unsubscribe returned); judged on the invocation logs of two emitted subscribers (A unsubscribed mid-way, B subscribed throughout); plus sequences on the oddly named scopes of fixtures/c07scopes.frugal (user_events, Api, http_url_Id, alerts, Id_map) and shared-provider sequences (2-3 live subscriptions on different topics through ONE scope provider / subscriber transport factory, valid publishes interleaved on all topics, each log must hold exactly its own topic's messages, the first subscription unsubscribed mid-way) frugal-word-topic sequences (2-3 live subscriptions on topics of one family T / frugal.T / frugal.frugal.T - IDL prefix 'frugal', 'frugal.{env}', or a leading prefix variable whose value is 'frugal', next to the same scope and operation without that prefix (harness/c07/idl) - valid publishes interleaved on all of them through the emitted publishers: each log must hold exactly its own topic's messages; on NATS 'routed' is counted by a wildcard tap so that a message sent on another subject than its topic's is still seen; plus ordinary two-subscriber sequences on those topics, with the foreign kind transport-word-topic = the subscribed topic with one more / one less leading 'frugal.' in every sequence with foreign messages), concurrent-publisher sequences (4 goroutines publish 1500-2999 messages each at the same time through ONE emitted publisher, goroutine i to topic i = other prefix-variable value / other operation; one single-worker subscriber per topic on another connection; exactly once, own topic only, per-topic order), NATS prompt sequences (subscriber's connection behind a relay that delays client->server bytes by 20-59 ms without dropping or reordering, publisher on its own connection, first 5 publishes immediately after Subscribe returned nil) and STOMP backpressure sequences (handler held at its first invocation while a burst of 45-104 messages arrives, 20 frames published through the subscriber's own connection, handler released: everything must still be delivered once; a stall is decided from the goroutine dump: processMessages parked in the ACK send, go-stomp's processLoop and Subscription.readLoop parked on the full Subscription.C); end of stream = sentinel seen by a raw tap subscriber, then by the emitted subscribers or their worker goroutines established dead / idle from a goroutine dump; distinct = (broker, protocol, factory, workers, operation, malformed-kind set, foreign/in-flight/slow/inject/prefix flags); the list is a pure function of (seed, tier)")
	run.Assume("embedded nats-server v2.10.11 and nats.go deliver one connection's publishes on a subject in order to every subscriber, and nothing after UNSUB was processed by the client")
	run.Assume("the rig's STOMP 1.2 broker (rig/stomp_broker.go, tested against the go-stomp client) fans out per destination in SEND order, exact destination match, no redelivery of un-acked messages, RECEIPT for every frame that asks")
	run.Assume("'subscribed' starts when Subscribe has returned AND the broker has the subscription (go-stomp's Subscribe does not wait for the broker; the monitor waits on the broker's own table)")
	run.Assume("variable values are [A-Za-z0-9_-]{1,12}: NATS wildcards and the delimiter legitimately widen a subscription")
	run.Assume("a message whose operation name and Thrift encoding are valid but whose struct is of another type (kind wrong-struct) may or may not reach the handler; it only must not disturb later messages")
	run.Assume("goroutine dumps (runtime.Stack) report creator goroutine and wait state truthfully; they are only used to establish 'no worker goroutine left' and 'all workers parked idle'")
	bin, err := os.Executable()
	if err != nil {
		run.Inconclusive("os.Executable: " + err.Error())
		return run.Finish()
	}
	m := &monitor{run: run, bin: bin, crashFn: map[string]string{}}
	specs := genSpecs(run.Rand("specs"), run.Thorough())
	for _, s := range specs[:3] {
		run.Sample(s)
	}
	p := 6
	if run.Thorough() {
		p = 8
	}
	m.sweep(specs, p, nil, "")
	if run.Thorough() {
		m.raceSample(specs)
	}
	run.Set("note_queue_length", "FNatsSubscriberFactoryBuilder.WithQueueLength has no effect on subscribers: GetTransport() always makes a 64-slot work channel; only the worker count is configurable")
	return run.Finish()
}
