package main

// Mode "resub": ONE subscriber transport object goes through several
// subscription periods (Subscribe, publishes, Unsubscribe, Subscribe again,
// ...).  Every period is a subscription like any other: everything published
// on the topic while it is subscribed is delivered exactly once to the
// handler given to THAT Subscribe call, nothing published after its
// Unsubscribe returned reaches its handler.  A publish made between two
// periods (nobody subscribed) belongs to nobody.

import (
	"fmt"
	"strings"
	"time"
)

// anyWorker reports whether any goroutine of the process runs fn.
func anyWorker(text, fn string) bool {
	for _, g := range parseDump(text) {
		for _, f := range g.Funcs {
			if strings.Contains(f, fn) {
				return true
			}
		}
	}
	return false
}

func (q *seqRun) runResub() {
	s := q.spec
	var err error
	for _, lp := range []**link{&q.pubL, &q.aL, &q.tapL} {
		if *lp, err = q.bus.connect(s.Broker); err != nil {
			q.inconclusive("broker connection failed: " + err.Error())
			return
		}
	}
	if q.topic == "" {
		q.inconclusive("the emitted publisher did not publish on the capture transport")
		return
	}
	if !q.openPublishers() {
		return
	}
	if err := q.startTap(); err != nil {
		q.inconclusive("tap: " + err.Error())
		return
	}
	prov := q.stickyProviderFor(q.aL) // one transport object for every period
	label := "resubscribed"
	tapped := map[string]bool{}
	for p := 0; p < s.Periods; p++ {
		setting := fmt.Sprintf("in subscription period %d of one subscriber transport object (Subscribe/Unsubscribe %d time(s) before)", p+1, p)
		delay := time.Duration(0)
		if p == 0 || (s.Burst > 0 && p < s.Periods-1) {
			delay = time.Duration(s.DelayUs) * time.Microsecond
		}
		user := s.User
		if s.VaryTopic && hasVar(s.Op) && p > 0 {
			// every period subscribes to another topic of the scope
			user = fmt.Sprintf("%s%d", s.User, p+1)
		}
		x, err := q.subscribeVia(fmt.Sprintf("R%d", p+1), prov, s.Op, user, delay)
		if err != nil {
			if p == 0 {
				q.inconclusive("Subscribe: " + err.Error())
			} else {
				q.vio(label+":subscribe-refused", fmt.Sprintf("Subscribe on a transport whose Unsubscribe had returned was refused (%s): %v", setting, err), map[string]interface{}{"period": p + 1, "error": err.Error()})
			}
			return
		}
		x.idx = p
		q.subs = append(q.subs, x)
		if !x.dumpOK {
			q.count("worker_goroutines_not_identified", 1)
		}
		if x.topic != q.topic && !tapped[x.topic] {
			tapped[x.topic] = true
			if err := q.startTapOn(x.topic); err != nil {
				q.inconclusive("tap: " + err.Error())
				return
			}
		}
		if !q.waitBrokerSubscriptions([]string{x.topic}, []*subscriber{x}) {
			return
		}
		if p > 0 && q.subs[p-1].topic != x.topic {
			// strays on the topic of the period before: nobody is subscribed to
			// it any more, nobody may get them (published first, so that they are
			// routed before this period's own messages)
			for i := 0; i < 2; i++ {
				if _, e := q.publishTo(q.subs[p-1], "valid", 10+p); e != nil {
					q.inconclusive("publish failed: " + e.Error())
					return
				}
				q.count("resubscribe_strays_on_the_previous_topic", 1)
			}
		}
		n := s.N
		if p > 0 {
			n = s.K
		}
		for i := 0; i < n; i++ {
			var e error
			if len(s.Kinds) > 0 && q.rng.Intn(6) == 0 {
				e = q.publishMalformed(s.Kinds[q.rng.Intn(len(s.Kinds))], 10+p)
			} else {
				_, e = q.publishTo(x, "valid", 10+p)
			}
			if e != nil {
				q.inconclusive("publish failed: " + e.Error())
				return
			}
		}
		if _, e := q.publishTo(x, "sentinel", 10+p); e != nil {
			q.inconclusive("publish failed: " + e.Error())
			return
		}
		if !q.waitTap() {
			q.inconclusive("the raw tap subscriber did not see everything published")
			return
		}
		if !x.dumpOK && p > 0 {
			// the workers of this period never showed up in a dump: if no
			// goroutine of the whole process runs the transport's worker
			// function while the broker has routed the messages, nothing can
			// ever invoke the handler (this process runs one sequence at a time
			// and every earlier period is unsubscribed)
			deadline := time.Now().Add(waitBound)
			for len(q.missing(x)) > 0 && time.Now().Before(deadline) {
				text := rawDump()
				if !anyWorker(text, x.workerFn) && len(q.missing(x)) > 0 {
					miss := q.missing(x)
					q.vio(label+":not-delivered:dead", fmt.Sprintf("%s, the subscription never got %d of %d valid messages published on its topic: no goroutine runs %s", setting, len(miss), len(q.required(x)), x.workerFn),
						map[string]interface{}{"subscription": x.name, "topic": x.topic, "missing_count": len(miss), "first_missing_cid": miss[0].Cid, "logged": x.rec.length(), "goroutines": grep(text, "frugal/lib/go.")})
					q.aborted = true
					return
				}
				time.Sleep(5 * time.Millisecond)
			}
		}
		if !q.settleSub(x, 10+p, label, setting) {
			return
		}
		if s.Burst > 0 && p < s.Periods-1 {
			// a backlog inside the subscriber at Unsubscribe (slow handler): in
			// flight for this period, and never anything a later period may get
			for i := 0; i < s.Burst; i++ {
				m, e := q.publishTo(x, "valid", 10+p)
				if e != nil {
					q.inconclusive("publish failed: " + e.Error())
					return
				}
				m.Sub = "burst"
				q.count("resubscribe_inflight_at_unsubscribe_published", 1)
			}
			if !q.waitTap() {
				q.inconclusive("the raw tap subscriber did not see everything published")
				return
			}
		}
		done := make(chan error, 1)
		go func() { done <- x.sub.Unsubscribe() }()
		select {
		case err := <-done:
			if err != nil {
				q.inconclusive("Unsubscribe failed: " + err.Error())
				return
			}
		case <-time.After(waitBound):
			q.inconclusive(fmt.Sprintf("Unsubscribe did not return within %v: %v", waitBound, grepShort(rawDump(), "Unsubscribe", x.workerFn)))
			return
		}
		x.unsub = true
		q.letters = append(q.letters, '|')
		q.count("resubscribe_periods_completed", 1)
		if p > 0 {
			q.count("resubscribe_later_periods_completed", 1)
		}
	}
	q.count("resubscribe_sequences_completed", 1)
	q.count("sequences_completed", 1)
}
