package main

// One sequence = one publisher connection, two emitted subscribers (A is
// unsubscribed mid-way, B stays), one raw tap subscriber, an interleaving of
// valid / malformed / foreign-topic publishes, and the oracle over the two
// invocation logs.

import (
	"encoding/hex"
	"fmt"
	"math/rand"
	"os"
	"sort"
	"strings"
	"sync"
	"sync/atomic"
	"time"

	frugal "github.com/Workiva/frugal/lib/go"
	"github.com/apache/thrift/lib/go/thrift"
	"github.com/go-stomp/stomp"
	"github.com/nats-io/nats.go"

	"verif/rig"
	"vh/gen/base"
	"vh/gen/c07scopes"
	"vh/gen/mainsvc"
)

// Spec describes one sequence; the message list is a pure function of it.
type Spec struct {
	Idx         int      `json:"idx"`
	Broker      string   `json:"broker"` // nats | stomp
	Proto       string   `json:"proto"`
	Factory     string   `json:"factory"` // nats: plain | builder; stomp: builder
	Workers     int      `json:"workers"`
	QueueLen    int      `json:"queue_len"` // passed to WithQueueLength (see note in main.go)
	Op          string   `json:"op"`        // Sent | Num | Ping
	User        string   `json:"user"`
	StompPrefix string   `json:"stomp_prefix,omitempty"`
	N           int      `json:"n"`
	Kinds       []string `json:"kinds"`
	Foreign     bool     `json:"foreign"`
	Burst       int      `json:"burst"`    // valid messages in flight when Unsubscribe is called
	DelayUs     int      `json:"delay_us"` // handler delay of subscriber A
	K           int      `json:"k"`        // valid messages published after Unsubscribe returned
	ViaInject   bool     `json:"via_inject,omitempty"`
	Seed        int64    `json:"seed,string"`
	Probe       string   `json:"probe,omitempty"` // attribution probe for one malformed kind
	// Mode "shared": ONE scope provider (one subscriber transport factory)
	// serves all of Subs at the same time; valid publishes interleaved on all
	// their topics; Subs[0] is unsubscribed mid-way.
	// Mode "prompt" (NATS): the subscriber's connection goes through a relay
	// that delays client->server bytes by RelayMs; the first publishes come
	// from another connection immediately after Subscribe returned.
	RelayMs int `json:"relay_ms,omitempty"`
	// DupSub: after A subscribed, Subscribe is called once more on A's very
	// transport (rejected: already subscribed); everything else as usual.
	DupSub bool      `json:"dup_sub,omitempty"`
	// Mode "resub": Periods subscription periods on ONE subscriber transport
	// object (resub.go).
	Periods int `json:"periods,omitempty"`
	// VaryTopic (resub): every period subscribes to another topic.
	VaryTopic bool `json:"vary_topic,omitempty"`
	Mode   string    `json:"mode,omitempty"`
	Subs   []SubSpec `json:"subs,omitempty"`
}

// SubSpec is one subscription of a shared-provider sequence.
type SubSpec struct {
	Op   string `json:"op"`
	User string `json:"user"`
}

// Operations: Sent, Num (scope Events prefix foo.{user}), Ping (scope Plain) of
// fixtures/main.frugal, and one operation per oddly named scope of
// fixtures/c07scopes.frugal.
var scopeOps = []string{"UserEvents", "Api", "HttpUrlId", "Alerts", "IdMap"}

// wireName is the operation name inside the frame.
func wireName(op string) string {
	if isNested(op) {
		return "Made"
	}
	switch op {
	case "UserEvents":
		return "Created"
	case "Api":
		return "Hit"
	case "HttpUrlId":
		return "Seen"
	case "Alerts":
		return "Raised"
	case "IdMap":
		return "Put"
	}
	return op
}

// scopeName is the IDL name of the operation's scope.
func scopeName(op string) string {
	if isNested(op) {
		return nestedScope(op)
	}
	switch op {
	case "UserEvents":
		return "user_events"
	case "Api":
		return "Api"
	case "HttpUrlId":
		return "http_url_Id"
	case "Alerts":
		return "alerts"
	case "IdMap":
		return "Id_map"
	case "Ping":
		return "Plain"
	}
	return "Events"
}

func hasVar(op string) bool {
	if isNested(op) {
		return nestedHasVar(op)
	}
	return op != "Ping" && op != "Api" && op != "Alerts"
}

type scopePubs struct {
	ue  c07scopes.UserEventsPublisher
	api c07scopes.APIPublisher
	hui c07scopes.HTTPURLIDPublisher
	al  c07scopes.AlertsPublisher
	idm c07scopes.IDMapPublisher
	nst *nestPubs
}

func newScopePubs(p *frugal.FScopeProvider) *scopePubs {
	return &scopePubs{ue: c07scopes.NewUserEventsPublisher(p), api: c07scopes.NewAPIPublisher(p), hui: c07scopes.NewHTTPURLIDPublisher(p),
		al: c07scopes.NewAlertsPublisher(p), idm: c07scopes.NewIDMapPublisher(p), nst: newNestPubs(p)}
}

func (sp *scopePubs) open() {
	sp.ue.Open()
	sp.api.Open()
	sp.hui.Open()
	sp.al.Open()
	sp.idm.Open()
	sp.nst.open()
}

// publish sends a Note on the operation's topic; false if op is not one of
// the c07scopes operations.
func (sp *scopePubs) publish(ctx frugal.FContext, op, user string, n *c07scopes.Note) (bool, error) {
	switch op {
	case "UserEvents":
		return true, sp.ue.PublishCreated(ctx, user, n)
	case "Api":
		return true, sp.api.PublishHit(ctx, n)
	case "HttpUrlId":
		return true, sp.hui.PublishSeen(ctx, "t-"+user, user, n)
	case "Alerts":
		return true, sp.al.PublishRaised(ctx, n)
	case "IdMap":
		return true, sp.idm.PublishPut(ctx, user, n)
	}
	if isNested(op) {
		return sp.nst.publish(ctx, op, user, n)
	}
	return false, nil
}

// Vio is a violation found by the child, reported by the parent through ev.
type Vio struct {
	Sig     string      `json:"sig"`
	What    string      `json:"what"`
	Witness interface{} `json:"witness"`
}

// Result is what the child reports for one sequence.
type Result struct {
	Idx          int            `json:"idx"`
	Shape        string         `json:"shape"`
	Counters     map[string]int `json:"counters"`
	Vios         []Vio          `json:"vios,omitempty"`
	Inconclusive []string       `json:"inconclusive,omitempty"`
	Stalled      bool           `json:"stalled,omitempty"`
}

const waitBound = 15 * time.Second

type bus struct {
	ns *rig.NatsServer
	sb *rig.StompBroker
}

type link struct {
	nc *nats.Conn
	sc *stomp.Conn
}

func (b *bus) connect(broker string) (*link, error) {
	if broker == "nats" {
		nc, err := b.ns.Connect()
		return &link{nc: nc}, err
	}
	sc, err := b.sb.Dial()
	return &link{sc: sc}, err
}

func (l *link) close() {
	if l == nil {
		return
	}
	if l.nc != nil {
		l.nc.Close()
	}
	if l.sc != nil {
		done := make(chan struct{})
		go func() { l.sc.MustDisconnect(); close(done) }()
		select {
		case <-done:
		case <-time.After(2 * time.Second):
		}
	}
}

type entry struct {
	ID    int64
	Cid   string
	Canon string
	Hdrs  map[string]string
	G     int
}

type recorder struct {
	mu     sync.Mutex
	log    []entry
	have   map[string]int
	active int32
	delay  time.Duration
	gate   chan struct{}
}

func (r *recorder) add(id int64, canon string, fctx frugal.FContext) {
	atomic.AddInt32(&r.active, 1)
	e := entry{ID: id, Cid: fctx.CorrelationID(), Canon: canon, Hdrs: fctx.RequestHeaders(), G: myGID()}
	r.mu.Lock()
	r.log = append(r.log, e)
	r.have[e.Cid]++
	r.mu.Unlock()
	if r.delay > 0 {
		time.Sleep(r.delay)
	}
	if r.gate != nil {
		<-r.gate // backpressure sequences hold the handler until the gate is opened
	}
	atomic.AddInt32(&r.active, -1)
}
func (r *recorder) onThing(fctx frugal.FContext, t *base.Thing) {
	r.add(int64(t.AnID), canonThing(t), fctx)
}
func (r *recorder) onPayload(fctx frugal.FContext, p *mainsvc.Payload) {
	r.add(payloadID(p), canonPayload(p), fctx)
}
func (r *recorder) onNote(fctx frugal.FContext, n *c07scopes.Note) {
	r.add(int64(n.ID), canonNote(n), fctx)
}
func (r *recorder) length() int { r.mu.Lock(); defer r.mu.Unlock(); return len(r.log) }
func (r *recorder) has(cid string) bool {
	r.mu.Lock()
	defer r.mu.Unlock()
	return r.have[cid] > 0
}
func (r *recorder) snapshot() []entry {
	r.mu.Lock()
	defer r.mu.Unlock()
	return append([]entry(nil), r.log...)
}

type subscriber struct {
	name     string
	rec      *recorder
	sub      *frugal.FSubscription
	gid      int    // goroutine that called Subscribe: creator of the worker goroutines
	workerFn string // function run by the transport's worker goroutines
	dumpOK   bool   // the workers were visible in a dump right after Subscribe
	unsub    bool
	op, user string
	topic    string // the topic the emitted publisher publishes this operation on
	idx      int
}

type msg struct {
	Step     int
	Kind     string // valid | sentinel | followup | malformed | foreign
	Sub      string // malformed kind / foreign kind
	ID       int64
	Cid      string
	Phase    int
	OnTopic  bool
	Canon    string
	PubHdrs  map[string]string
	Raw      []byte
	RawTopic string
	HdrBytes int         // user request headers of a valid publish
	Target   *subscriber // shared mode: the subscription whose topic it was published on
}

type seqRun struct {
	spec  *Spec
	bus   *bus
	res   *Result
	rng   *rand.Rand
	tag   string
	topic string

	pubL, aL, bL, tapL *link
	pubE               mainsvc.EventsPublisher
	pubP               mainsvc.PlainPublisher
	capE               mainsvc.EventsPublisher
	capP               mainsvc.PlainPublisher
	pubX, capX         *scopePubs
	cap                *capFactory
	subs               []*subscriber // shared mode
	onSubscribed       func()        // prompt mode
	relay              *rig.DelayRelay

	msgs    []*msg
	byCid   map[string]*msg
	byID    map[int64]*msg
	letters []byte

	tapCount  int64 // bodies the tap received
	wide      bool  // the tap is a NATS wildcard subscription: every publish of the sequence counts
	onSubject int64 // bodies published on the subscribed subject
	tapStops  []func()

	A, B    *subscriber
	aborted bool
	cleaned bool
	pending []pendingMissing
}

var idCounter int64 // unique payload ids within a child process

// capFactory is a publisher transport that only records (topic, frame): used
// to learn the topic string the emitted publisher computes.
type capFactory struct {
	mu    sync.Mutex
	topic string
	data  []byte
}

func (c *capFactory) GetTransport() frugal.FPublisherTransport { return c }
func (c *capFactory) Open() error                              { return nil }
func (c *capFactory) Close() error                             { return nil }
func (c *capFactory) IsOpen() bool                             { return true }
func (c *capFactory) GetPublishSizeLimit() uint                { return 0 }
func (c *capFactory) Publish(topic string, data []byte) error {
	c.mu.Lock()
	c.topic, c.data = topic, append([]byte(nil), data...)
	c.mu.Unlock()
	return nil
}

func (q *seqRun) count(k string, n int) { q.res.Counters[k] += n }

func (q *seqRun) vio(sig, what string, witness map[string]interface{}) {
	witness["spec"] = q.spec
	witness["steps"] = string(q.letters)
	witness["steps_legend"] = "shared mode: a b c = valid message on the topic of subscription 0 1 2, digits 0 1 2 = its sentinel; P = frame published through the subscriber's own connection (backpressure mode); otherwise: V valid, S sentinel, F follow-up sentinel, | Unsubscribe(A), lower case = malformed kind (s short-frame l len4 b bad-version n neg-header-size h huge-header-size t tiny-header-size p bad-pair-size o no-opid w wrong-op c truncated g garbage x wrong-struct), digits = foreign (1 other-op 2 other-user 3 prefix-topic 4 extension-topic 5 transport-word-topic)"
	q.res.Vios = append(q.res.Vios, Vio{Sig: "C07:" + q.spec.Broker + ":" + sig, What: what, Witness: witness})
}

func (q *seqRun) inconclusive(what string) {
	q.res.Inconclusive = append(q.res.Inconclusive, fmt.Sprintf("seq %d (%s): %s", q.spec.Idx, q.res.Shape, what))
	q.aborted = true
}

func shapeOf(s *Spec) string {
	k := append([]string(nil), s.Kinds...)
	sort.Strings(k)
	fl := ""
	if s.Foreign {
		fl += "+foreign"
	}
	if s.Burst > 0 {
		fl += "+inflight"
	}
	if s.DelayUs > 0 {
		fl += "+slow"
	}
	if s.ViaInject {
		fl += "+inject"
	}
	if s.StompPrefix != "" {
		fl += "+prefix"
	}
	if s.Probe != "" {
		fl += "+probe"
	}
	if s.Mode == "backpressure" && s.Probe == "" {
		fl += "+backpressure"
	}
	if s.Mode == "prompt" && s.Probe == "" {
		fl += "+prompt"
	}
	if s.Mode == "resub" && s.Probe == "" {
		fl += fmt.Sprintf("+resub%d", s.Periods)
		if s.VaryTopic {
			fl += "+varytopic"
		}
	}
	op := s.Op
	if (s.Mode == "shared" || s.Mode == "concurrent" || s.Mode == "nested") && s.Probe == "" {
		op = s.Mode + "("
		for i, x := range s.Subs {
			if i > 0 {
				op += ","
			}
			op += x.Op
			if s.Mode == "nested" && x.User == transportWord {
				op += "=word"
			} else if s.Mode == "nested" && strings.EqualFold(x.User, transportWord) {
				op += "=Word"
			}
		}
		op += ")"
	}
	return fmt.Sprintf("%s/%s/%s%d/%s/[%s]%s", s.Broker, s.Proto, s.Factory, s.Workers, op, strings.Join(k, ","), fl)
}

func (q *seqRun) subject(topic string) string {
	if q.spec.Broker == "nats" {
		return "frugal." + topic
	}
	return "/topic/" + q.spec.StompPrefix + "frugal." + topic
}

// rawPublish sends body on the publisher's own connection, so that it is
// ordered with the valid publishes.
func (q *seqRun) rawPublish(topic string, body []byte, inject bool) error {
	if q.spec.Broker == "nats" {
		return q.pubL.nc.Publish(q.subject(topic), body)
	}
	if inject {
		q.bus.sb.Inject(q.subject(topic), body)
		return nil
	}
	return q.pubL.sc.Send(q.subject(topic), "application/octet-stream", body)
}

// stickyProviderFor is providerFor with a subscriber factory that keeps
// handing out one transport.
func (q *seqRun) stickyProviderFor(l *link) *frugal.FScopeProvider {
	s := q.spec
	pf := rig.ProtocolFactory(s.Proto)
	if s.Broker == "nats" {
		var sf frugal.FSubscriberTransportFactory
		if s.Factory == "plain" {
			sf = frugal.NewFNatsSubscriberTransportFactory(l.nc)
		} else {
			sf = frugal.NewFNatsSubscriberFactoryBuilder(l.nc).WithWorkerCount(uint(s.Workers)).WithQueueLength(uint(s.QueueLen)).Build()
		}
		return frugal.NewFScopeProvider(frugal.NewFNatsPublisherTransportFactory(l.nc), &stickyFactory{inner: sf}, pf)
	}
	return frugal.NewFScopeProvider(
		frugal.NewFStompPublisherTransportFactoryBuilder(l.sc).WithTopicPrefix(s.StompPrefix).Build(),
		&stickyFactory{inner: frugal.NewFStompSubscriberTransportFactoryBuilder(l.sc).WithTopicPrefix(s.StompPrefix).Build()}, pf)
}

func (q *seqRun) providerFor(l *link) *frugal.FScopeProvider {
	s := q.spec
	pf := rig.ProtocolFactory(s.Proto)
	if s.Broker == "nats" {
		var sf frugal.FSubscriberTransportFactory
		if s.Factory == "plain" {
			sf = frugal.NewFNatsSubscriberTransportFactory(l.nc)
		} else {
			sf = frugal.NewFNatsSubscriberFactoryBuilder(l.nc).WithWorkerCount(uint(s.Workers)).WithQueueLength(uint(s.QueueLen)).Build()
		}
		return frugal.NewFScopeProvider(frugal.NewFNatsPublisherTransportFactory(l.nc), sf, pf)
	}
	return frugal.NewFScopeProvider(
		frugal.NewFStompPublisherTransportFactoryBuilder(l.sc).WithTopicPrefix(s.StompPrefix).Build(),
		frugal.NewFStompSubscriberTransportFactoryBuilder(l.sc).WithTopicPrefix(s.StompPrefix).Build(), pf)
}

func (q *seqRun) topicOf(op, user string) string {
	ctx := frugal.NewFContext("topic-probe")
	switch op {
	case "Sent":
		q.capE.PublishSent(ctx, user, &mainsvc.Payload{First: &mainsvc.BigFirst{}})
	case "Num":
		q.capE.PublishNum(ctx, user, &base.Thing{})
	case "Ping":
		q.capP.PublishPing(ctx, &base.Thing{})
	default:
		q.capX.publish(ctx, op, user, &c07scopes.Note{})
	}
	q.cap.mu.Lock()
	defer q.cap.mu.Unlock()
	return q.cap.topic
}

func (q *seqRun) subscribe(name string, l *link, delay time.Duration) (*subscriber, error) {
	return q.subscribeVia(name, q.providerFor(l), q.spec.Op, q.spec.User, delay)
}

// emittedSubscribe calls the emitted Subscribe<Op> of the operation's scope.
func emittedSubscribe(prov *frugal.FScopeProvider, op, user string, rec *recorder) (*frugal.FSubscription, error) {
	if sub, ok, err := nestedSubscribe(prov, op, user, rec); ok {
		return sub, err
	}
	switch op {
	case "Sent":
		return mainsvc.NewEventsSubscriber(prov).SubscribeSent(user, rec.onPayload)
	case "Num":
		return mainsvc.NewEventsSubscriber(prov).SubscribeNum(user, rec.onThing)
	case "Ping":
		return mainsvc.NewPlainSubscriber(prov).SubscribePing(rec.onThing)
	case "UserEvents":
		return c07scopes.NewUserEventsSubscriber(prov).SubscribeCreated(user, rec.onNote)
	case "Api":
		return c07scopes.NewAPISubscriber(prov).SubscribeHit(rec.onNote)
	case "HttpUrlId":
		return c07scopes.NewHTTPURLIDSubscriber(prov).SubscribeSeen("t-"+user, user, rec.onNote)
	case "Alerts":
		return c07scopes.NewAlertsSubscriber(prov).SubscribeRaised(rec.onNote)
	case "IdMap":
		return c07scopes.NewIDMapSubscriber(prov).SubscribePut(user, rec.onNote)
	}
	return nil, fmt.Errorf("unknown operation %q", op)
}

// stickyFactory hands out ONE subscriber transport again and again, so that
// the emitted Subscribe<Op> can be called twice on the same transport (the
// second call must be rejected and must change nothing).
type stickyFactory struct {
	inner frugal.FSubscriberTransportFactory
	t     frugal.FSubscriberTransport
}

func (f *stickyFactory) GetTransport() frugal.FSubscriberTransport {
	if f.t == nil {
		f.t = f.inner.GetTransport()
	}
	return f.t
}

// subscribeVia makes one subscription of (op, user) through prov.
func (q *seqRun) subscribeVia(name string, prov *frugal.FScopeProvider, op, user string, delay time.Duration) (*subscriber, error) {
	x := &subscriber{name: name, rec: &recorder{have: map[string]int{}, delay: delay}, op: op, user: user, topic: q.topicOf(op, user)}
	if q.spec.Broker == "nats" {
		x.workerFn = "fNatsSubscriberTransport).worker"
	} else {
		x.workerFn = "fStompSubscriberTransport).processMessages"
	}
	done := make(chan error, 1)
	go func() {
		x.gid = myGID()
		var err error
		x.sub, err = emittedSubscribe(prov, op, user, x.rec)
		done <- err
	}()
	select {
	case err := <-done:
		if err != nil {
			return nil, err
		}
	case <-time.After(waitBound):
		return nil, fmt.Errorf("Subscribe did not return within %v", waitBound)
	}
	if q.onSubscribed != nil {
		q.onSubscribed() // first thing after Subscribe returned nil
	}
	// the worker goroutines must be identifiable in a dump (by the function
	// they run and the goroutine that created them), else the dump-based
	// classification is not used for this subscriber
	var text string
	for i := 0; i < 300 && !x.dumpOK; i++ {
		if i > 0 {
			time.Sleep(time.Millisecond)
		}
		text = rawDump()
		n := 0
		for _, g := range workersOf(parseDump(text), x.gid, x.workerFn) {
			if !strings.Contains(g.Funcs[0], ".Subscribe.gowrap") {
				n++
			}
		}
		x.dumpOK = n == q.spec.Workers
	}
	if !x.dumpOK && os.Getenv("C07_DEBUG") != "" {
		fmt.Fprintf(os.Stderr, "DEBUG dump not ok: gid=%d fn=%s want=%d\n%s\n", x.gid, x.workerFn, q.spec.Workers, text)
	}
	return x, nil
}

// The tap is a raw broker subscription on the exact subject.  It only counts
// bodies: "the broker has routed everything published so far" = the tap has
// received as many bodies as were published on the subject.  (It does not look
// into the frames, so it keeps working when the code under test writes bad
// frames.)
func (q *seqRun) startTap() error {
	if isNested(q.spec.Op) && q.spec.Broker == "nats" {
		return q.startWideTap()
	}
	return q.startTapOn(q.topic)
}

func (q *seqRun) startTapOn(topic string) error {
	if q.spec.Broker == "nats" {
		sub, err := q.tapL.nc.Subscribe(q.subject(topic), func(m *nats.Msg) { atomic.AddInt64(&q.tapCount, 1) })
		if err != nil {
			return err
		}
		q.tapStops = append(q.tapStops, func() { sub.Unsubscribe() })
		return q.tapL.nc.Flush()
	}
	sub, err := q.tapL.sc.Subscribe(q.subject(topic), stomp.AckAuto)
	if err != nil {
		return err
	}
	go func() {
		for m := range sub.C {
			if m.Err == nil {
				atomic.AddInt64(&q.tapCount, 1)
			}
		}
	}()
	return nil
}

// waitTap waits until the broker has routed every message published on the
// subscribed subject so far.
func (q *seqRun) waitTap() bool {
	deadline := time.Now().Add(waitBound)
	for atomic.LoadInt64(&q.tapCount) < q.onSubject {
		if time.Now().After(deadline) {
			return false
		}
		time.Sleep(100 * time.Microsecond)
	}
	return true
}

func (q *seqRun) newMsg(kind, sub string, phase int) *msg {
	id := atomic.AddInt64(&idCounter, 1)
	m := &msg{Step: len(q.msgs), Kind: kind, Sub: sub, ID: id, Cid: fmt.Sprintf("%s%d", q.tag, id), Phase: phase}
	q.msgs = append(q.msgs, m)
	q.byCid[m.Cid] = m
	q.byID[id] = m
	return m
}

// publishValid publishes through the emitted publisher.
func (q *seqRun) publishValid(kind, sub, op, user string, phase int) (*msg, error) {
	m := q.newMsg(kind, sub, phase)
	ctx := frugal.NewFContext(m.Cid)
	hdrs := genHeaders(q.rng)
	if kind == "valid" && q.rng.Intn(40) == 0 {
		// header blocks beyond 64 KiB (the frame stays far below 1 MiB)
		if q.rng.Intn(2) == 0 {
			hdrs["big"] = bigText(q.rng, 70*1024)
		} else {
			for i := 0; i < 50; i++ {
				hdrs[fmt.Sprintf("medium-%02d", i)] = bigText(q.rng, 4*1024)
			}
		}
		q.count("valid_published_with_headers_over_64KiB", 1)
	}
	for k, v := range hdrs {
		ctx.AddRequestHeader(k, v)
		m.HdrBytes += 8 + len(k) + len(v)
	}
	var err error
	switch op {
	case "Sent":
		p := genPayload(q.rng, int32(m.ID))
		m.Canon = canonPayload(p)
		err = q.pubE.PublishSent(ctx, user, p)
	case "Num":
		t := genThing(q.rng, int32(m.ID))
		m.Canon = canonThing(t)
		err = q.pubE.PublishNum(ctx, user, t)
	case "Ping":
		t := genThing(q.rng, int32(m.ID))
		m.Canon = canonThing(t)
		err = q.pubP.PublishPing(ctx, t)
	default:
		n := genNote(q.rng, int32(m.ID))
		m.Canon = canonNote(n)
		_, err = q.pubX.publish(ctx, op, user, n)
	}
	m.PubHdrs = ctx.RequestHeaders()
	m.OnTopic = op == q.spec.Op && (!hasVar(op) || user == q.spec.User)
	return m, err
}

func (q *seqRun) structFor(op string, id int64) thrift.TStruct {
	switch op {
	case "Sent":
		return genPayload(q.rng, int32(id))
	case "Num", "Ping":
		return genThing(q.rng, int32(id))
	}
	return genNote(q.rng, int32(id))
}

func otherOp(op string) string {
	if op == "Sent" {
		return "Num"
	}
	return "Sent"
}

// publishMalformed sends one malformed body of the kind on the exact topic.
func (q *seqRun) publishMalformed(kind string, phase int) error {
	m := q.newMsg("malformed", kind, phase)
	hdrs := baseHeaders(m.Cid, m.ID, genHeaders(q.rng))
	op := q.spec.Op
	switch kind {
	case "wrong-op":
		m.Raw = refFrame(q.spec.Proto, wireName(otherOp(op)), q.structFor(otherOp(op), m.ID), hdrs)
	case "wrong-struct":
		m.Raw = refFrame(q.spec.Proto, wireName(op), q.structFor(otherOp(op), m.ID), hdrs)
	case "no-opid":
		delete(hdrs, "_opid")
		m.Raw = refFrame(q.spec.Proto, wireName(op), q.structFor(op, m.ID), hdrs)
	default:
		m.Raw = mutate(q.rng, kind, refFrame(q.spec.Proto, wireName(op), q.structFor(op, m.ID), hdrs))
	}
	m.RawTopic = q.topic
	q.letters = append(q.letters, kindLetter[kind])
	q.count("malformed_injected", 1)
	q.onSubject++
	return q.rawPublish(q.topic, m.Raw, q.spec.ViaInject && q.rng.Intn(2) == 0)
}

// transport-word-topic: the subscribed topic with the transports' own word
// ("frugal.") put in front once more, or - if the subscribed topic itself
// begins with that word - with the leading word taken away.
var foreignKinds = []string{"other-op", "other-user", "prefix-topic", "extension-topic", "transport-word-topic"}

func (q *seqRun) variantUser() string {
	u := q.spec.User
	for {
		var v string
		switch q.rng.Intn(5) {
		case 0:
			v = u + string(userAlphabet[q.rng.Intn(len(userAlphabet))])
		case 1:
			v = u[:len(u)-1]
		case 2:
			v = strings.ToUpper(u)
		case 3:
			v = strings.ToLower(u)
		default:
			v = genUser(q.rng)
		}
		if v != "" && v != u {
			return v
		}
	}
}

// publishForeign publishes a well-formed message of the subscribed operation's
// type on a topic the subscribers did not subscribe to.
func (q *seqRun) publishForeign(phase int) error {
	kind := foreignKinds[q.rng.Intn(len(foreignKinds))]
	if !hasVar(q.spec.Op) && kind == "other-user" {
		kind = "extension-topic"
	}
	q.count("foreign_injected", 1)
	if q.wide {
		q.onSubject++ // the wildcard tap sees every publish
	}
	q.letters = append(q.letters, byte('1'+indexOf(foreignKinds, kind)))
	switch kind {
	case "other-op":
		op, user := otherOp(q.spec.Op), q.spec.User
		if !hasVar(q.spec.Op) {
			user = genUser(q.rng)
		}
		_, err := q.publishValid("foreign", kind, op, user, phase)
		return err
	case "other-user":
		_, err := q.publishValid("foreign", kind, q.spec.Op, q.variantUser(), phase)
		return err
	}
	m := q.newMsg("foreign", kind, phase)
	t := q.topic
	if kind == "prefix-topic" {
		switch i := strings.LastIndex(t, "."); {
		case q.rng.Intn(2) == 0 && i > 0:
			t = t[:i]
		default:
			t = t[:len(t)-1]
		}
	} else if kind == "transport-word-topic" {
		ns := neighbours(t)
		t = ns[1+q.rng.Intn(len(ns)-1)]
		q.count("foreign_injected_on_transport_word_topic", 1)
	} else {
		t += []string{".x", "x", ".Sent", "." + wireName(q.spec.Op)}[q.rng.Intn(4)]
	}
	m.RawTopic = t
	m.Raw = refFrame(q.spec.Proto, wireName(q.spec.Op), q.structFor(q.spec.Op, m.ID), baseHeaders(m.Cid, m.ID, nil))
	return q.rawPublish(t, m.Raw, false)
}

func indexOf(l []string, s string) int {
	for i, x := range l {
		if x == s {
			return i
		}
	}
	return -1
}

func (q *seqRun) publishOnTopic(kind string, phase int) (*msg, error) {
	user := q.spec.User
	m, err := q.publishValid(kind, "", q.spec.Op, user, phase)
	switch kind {
	case "sentinel":
		q.letters = append(q.letters, 'S')
	case "followup":
		q.letters = append(q.letters, 'F')
	default:
		q.letters = append(q.letters, 'V')
	}
	q.count("valid_published", 1)
	q.onSubject++
	return m, err
}

// publishTo (shared mode) publishes a valid message on x's topic.
func (q *seqRun) publishTo(x *subscriber, kind string, phase int) (*msg, error) {
	m, err := q.publishValid(kind, "", x.op, x.user, phase)
	m.Target = x
	switch kind {
	case "sentinel":
		q.letters = append(q.letters, byte('0'+x.idx))
	case "followup":
		q.letters = append(q.letters, 'F')
	default:
		q.letters = append(q.letters, byte('a'+x.idx))
	}
	q.count("valid_published", 1)
	q.onSubject++
	return m, err
}

func (q *seqRun) multiTopic() bool {
	return q.spec.Mode == "shared" || q.spec.Mode == "concurrent" || q.spec.Mode == "nested" || q.spec.Mode == "resub"
}

// followup publishes one more valid message x must get.
func (q *seqRun) followup(x *subscriber, phase int) (*msg, error) {
	if q.multiTopic() {
		return q.publishTo(x, "followup", phase)
	}
	return q.publishOnTopic("followup", phase)
}

// role of message m for subscriber x.
func (q *seqRun) role(x *subscriber, m *msg) string {
	if q.spec.Mode == "resub" && q.spec.Probe == "" {
		switch {
		case m.Kind == "malformed" && m.Sub == "wrong-struct":
			return "ignore"
		case m.Kind == "malformed":
			return "forbidden:malformed-delivered:" + m.Sub
		case m.Target == nil:
			return "ignore"
		case m.Target.idx > x.idx:
			return "forbidden:delivered-after-unsubscribe"
		case m.Target.idx < x.idx && m.Target.topic != x.topic:
			return "forbidden:foreign-topic-delivered:topic-of-an-earlier-subscription-period-of-the-transport"
		case m.Target.idx < x.idx && m.Sub == "burst":
			return "forbidden:message-published-before-this-subscription-was-made-delivered"
		case m.Target == x && m.Sub == "burst":
			return "optional"
		case m.Target.idx < x.idx:
			// every period is settled before its Unsubscribe: this is a second delivery
			return "forbidden:message-of-an-earlier-subscription-period-delivered-again"
		case m.Kind == "followup":
			return "optional"
		}
		return "required"
	}
	if q.multiTopic() && q.spec.Probe == "" {
		switch {
		case m.Target != x && q.spec.Mode == "nested":
			return "forbidden:foreign-topic-delivered:" + nestedRelation(m.Target.topic, x.topic)
		case m.Target != x && q.spec.Mode == "concurrent":
			return "forbidden:foreign-topic-delivered:other-topic-of-the-same-publisher"
		case m.Target != x:
			return "forbidden:foreign-topic-delivered:other-subscription-of-the-same-provider"
		case x.unsub && m.Phase == 3:
			return "forbidden:delivered-after-unsubscribe"
		case m.Kind == "followup":
			return "optional"
		}
		return "required"
	}
	switch m.Kind {
	case "malformed":
		if m.Sub == "wrong-struct" {
			return "ignore"
		}
		return "forbidden:malformed-delivered:" + m.Sub
	case "foreign":
		return "forbidden:foreign-topic-delivered:" + m.Sub
	}
	if !m.OnTopic {
		return "forbidden:foreign-topic-delivered:" + m.Sub
	}
	if x == q.A {
		switch m.Phase {
		case 2:
			return "optional"
		case 3:
			return "forbidden:delivered-after-unsubscribe"
		}
	}
	if m.Kind == "followup" {
		return "optional"
	}
	return "required"
}

func (q *seqRun) required(x *subscriber) []*msg {
	var out []*msg
	for _, m := range q.msgs {
		if q.role(x, m) == "required" {
			out = append(out, m)
		}
	}
	return out
}

func (q *seqRun) missing(x *subscriber) []*msg {
	var out []*msg
	x.rec.mu.Lock()
	for _, m := range q.msgs {
		if q.role(x, m) == "required" && x.rec.have[m.Cid] == 0 {
			out = append(out, m)
		}
	}
	x.rec.mu.Unlock()
	return out
}

// settle waits until x has logged every required message.  It returns
// "complete"; "dead" (x has no worker goroutine left: it can never invoke the
// handler again); "lost" (x logged a follow-up sentinel published after
// everything else and all its workers are parked idle, yet earlier required
// messages are missing); or "inconclusive".
func (q *seqRun) settle(x *subscriber, phase int) (string, string) {
	deadline := time.Now().Add(waitBound)
	lastLen, lastChange := x.rec.length(), time.Now()
	quiet := 250*time.Millisecond + 4*x.rec.delay
	var followups []*msg
	var firstFollowup time.Time
	deadlockSeen := false
	for {
		if len(q.missing(x)) == 0 {
			return "complete", ""
		}
		time.Sleep(200 * time.Microsecond)
		now := time.Now()
		if n := x.rec.length(); n != lastLen {
			lastLen, lastChange = n, now
		}
		if now.After(deadline) {
			return "inconclusive", rawDump()
		}
		if now.Sub(lastChange) < quiet || !x.dumpOK {
			continue
		}
		lastChange = now
		// order matters: a follow-up seen in the log BEFORE the dump was
		// taken, all workers parked idle IN the dump => everything published
		// before that follow-up has been dequeued and fully processed
		followupLogged := false
		for _, f := range followups {
			if x.rec.has(f.Cid) {
				followupLogged = true
			}
		}
		text := rawDump()
		ws := workersOf(parseDump(text), x.gid, x.workerFn)
		if len(ws) == 0 {
			return "dead", text
		}
		if stompAckDeadlock(parseDump(text), x) {
			// seen in two dumps a quiet period apart with no handler invocation
			// in between: the cycle cannot resolve itself
			if deadlockSeen {
				return "deadlock", text
			}
			deadlockSeen = true
			continue
		}
		deadlockSeen = false
		idle := atomic.LoadInt32(&x.rec.active) == 0
		for _, w := range ws {
			if !parkedIn(w, x.workerFn) {
				idle = false
			}
		}
		if !idle {
			continue
		}
		if followupLogged && len(q.missing(x)) > 0 {
			return "lost", text
		}
		if len(followups) < 4 {
			if f, err := q.followup(x, phase); err == nil && q.waitTap() {
				if len(followups) == 0 {
					firstFollowup = time.Now()
				}
				followups = append(followups, f)
			}
			continue
		}
		// four follow-ups, each published while x was idle and each routed by
		// the broker (the tap has them), none logged, x idle in every dump in
		// between, for more than 2 s: x discards or never gets what is published
		if time.Since(firstFollowup) > 2*time.Second {
			return "lost", text
		}
	}
}

func hexCap(b []byte) string {
	if len(b) > 96 {
		return hex.EncodeToString(b[:96]) + fmt.Sprintf("...(%d bytes)", len(b))
	}
	return hex.EncodeToString(b)
}

func grepShort(text string, subs ...string) []string {
	out := grep(text, subs...)
	for i := range out {
		if len(out[i]) > 160 {
			out[i] = out[i][:160] + "..."
		}
	}
	if len(out) > 4 {
		out = out[:4]
	}
	return out
}

func grep(text string, subs ...string) []string {
	var out []string
	for _, block := range strings.Split(text, "\n\n") {
		for _, s := range subs {
			if strings.Contains(block, s) {
				lines := strings.Split(block, "\n")
				if len(lines) > 7 {
					lines = lines[:7]
				}
				out = append(out, strings.Join(lines, " | "))
				break
			}
		}
	}
	if len(out) > 12 {
		out = out[:12]
	}
	return out
}

var probeCache = map[string]*Result{}

// reportMissing records "x did not get required messages"; attribute() turns
// the records into violations once the sequence has been torn down.
func (q *seqRun) reportMissing(x *subscriber, status, dump string) {
	miss := q.missing(x)
	if len(miss) == 0 {
		return
	}
	if q.spec.Probe != "" {
		q.res.Stalled = true
		return
	}
	if status == "deadlock" {
		q.vioDeadlock(x, dump)
		return
	}
	first := miss[0]
	w := map[string]interface{}{
		"subscriber": x.name, "status": status, "missing_count": len(miss), "required_count": len(q.required(x)),
		"first_missing_step": first.Step, "first_missing_cid": first.Cid, "logged": x.rec.length(),
		"goroutines":      grep(dump, "frugal/lib/go."),
		"publisher_topic": q.topic, "subscription_topic": x.sub.Topic(), "scope": scopeName(q.spec.Op),
	}
	var prev *msg
	kinds := map[string]bool{}
	// every malformed kind published so far is a suspect (injected bodies and
	// multi-worker subscribers do not keep the publish order)
	for _, m := range q.msgs {
		if m.Kind == "malformed" {
			kinds[m.Sub] = true
			if m.Step < first.Step {
				prev = m
			}
		}
	}
	if prev != nil {
		w["last_malformed_before"] = map[string]interface{}{"step": prev.Step, "kind": prev.Sub, "body_hex": hexCap(prev.Raw)}
	}
	var ks []string
	for k := range kinds {
		ks = append(ks, k)
	}
	sort.Strings(ks)
	bigOnly := true
	for _, m := range miss {
		bigOnly = bigOnly && m.HdrBytes > 64*1024
	}
	w["first_missing_header_bytes"] = first.HdrBytes
	q.pending = append(q.pending, pendingMissing{x: x, status: status, witness: w, kinds: ks, missing: len(miss), required: len(q.required(x)), bigOnly: bigOnly})
}

// stompAckDeadlock recognises the wait cycle "subscriber's processMessages
// parked sending a frame (the ACK) into the connection's full write channel"
// <-> "go-stomp's processLoop (the only reader of that channel) parked
// forwarding a MESSAGE towards the subscription" <-> "the subscription's
// readLoop parked on the full Subscription.C that only processMessages reads".
func stompAckDeadlock(gs []gor, x *subscriber) bool {
	worker, loop, sub := false, false, false
	// any subscription of the sequence (they may share the connection; one
	// sequence runs at a time in this process)
	for _, g := range gs {
		if !strings.HasPrefix(g.State, "chan send") {
			continue
		}
		inSend, inWorker := false, false
		for _, f := range g.Funcs {
			inSend = inSend || strings.Contains(f, "stomp.(*Conn).sendFrame")
			inWorker = inWorker || strings.Contains(f, x.workerFn)
		}
		worker = worker || (inSend && inWorker)
	}
	for _, g := range gs {
		if !strings.HasPrefix(g.State, "chan send") || len(g.Funcs) == 0 {
			continue
		}
		if strings.Contains(g.Funcs[0], "stomp.processLoop") {
			loop = true
		}
		if strings.Contains(g.Funcs[0], "stomp.(*Subscription).readLoop") {
			sub = true
		}
	}
	return worker && loop && sub
}

func (q *seqRun) vioDeadlock(x *subscriber, dump string) {
	miss := q.missing(x)
	w := map[string]interface{}{"subscriber": x.name, "logged": x.rec.length(), "missing_count": len(miss), "required_count": len(q.required(x)),
		"goroutines": grep(dump, "fStompSubscriberTransport", "stomp.processLoop", "stomp.(*Subscription).readLoop")}
	q.vio("subscriber-deadlock:ack-send-vs-message-forward", fmt.Sprintf("subscriber %s stopped invoking its handler for good (%d of %d valid messages missing): processMessages is parked sending an ACK into the connection's full write channel while go-stomp's processLoop, the only reader of that channel, is parked forwarding a MESSAGE to the full Subscription.C that only processMessages reads", x.name, len(miss), len(q.required(x))), w)
}

type pendingMissing struct {
	x                 *subscriber
	status            string
	witness           map[string]interface{}
	kinds             []string
	missing, required int
	bigOnly           bool // every missing message carried more than 64 KiB of headers
}

func (q *seqRun) probe(kind string) *Result {
	ps := *q.spec
	ps.Probe, ps.Kinds, ps.Foreign, ps.Burst, ps.K, ps.DelayUs, ps.ViaInject = kind, []string{kind}, false, 0, 0, 0, false
	if kind == "control" {
		ps.Kinds = nil
	}
	key := fmt.Sprintf("%s|%s|%d|%s|%s|%s|%s", ps.Broker, ps.Factory, ps.Workers, ps.Proto, ps.Op, ps.StompPrefix, kind)
	pr, ok := probeCache[key]
	if !ok {
		pr = runSeq(q.bus, &ps)
		probeCache[key] = pr
		q.count("attribution_probes", 1)
	}
	return pr
}

// attribute runs after the sequence's own connections are closed (the probes
// use the same topic): a stall is attributed to the malformed kind that
// reproduces it on its own on fresh subscribers; if even a sequence of valid
// messages alone is not delivered there is nothing to attribute.
func (q *seqRun) attribute() {
	for _, p := range q.pending {
		w, x := p.witness, p.x
		if p.bigOnly {
			q.vio("valid-message-with-large-headers-not-delivered", fmt.Sprintf("subscriber %s never got %d valid message(s) whose FContext request headers total more than 64 KiB (first: %d bytes; the frame is far below the transport's size limit); every other message was delivered", x.name, p.missing, w["first_missing_header_bytes"]), w)
			continue
		}
		if q.probe("control").Stalled {
			w["control_probe"] = "V V V V V S (valid messages only) on fresh subscribers of the same configuration is not delivered either"
			if x.sub.Topic() != q.topic {
				q.vio("subscriber-topic-differs-from-publisher-topic:scope="+scopeName(q.spec.Op), fmt.Sprintf("the emitted subscriber of scope %s subscribed to %q while the emitted publisher publishes on %q: the handler is never invoked (%d of %d valid messages missing, no error anywhere)", scopeName(q.spec.Op), x.sub.Topic(), q.topic, p.missing, p.required), w)
				continue
			}
			q.vio("valid-messages-not-delivered", fmt.Sprintf("subscriber %s never got %d of %d valid messages published on its topic while it was subscribed (%s); valid messages alone are not delivered", x.name, p.missing, p.required, p.status), w)
			continue
		}
		var culprits []string
		probes := map[string]string{}
		for _, k := range p.kinds {
			pr := q.probe(k)
			switch {
			case pr.Stalled:
				culprits = append(culprits, k)
				probes[k] = "later valid messages not delivered"
			case len(pr.Inconclusive) > 0:
				probes[k] = "inconclusive"
			default:
				probes[k] = "delivered"
			}
		}
		w["probes"] = probes
		defs := map[string]string{}
		for _, k := range p.kinds {
			defs[k] = kindDoc[k]
		}
		w["kind_definitions"] = defs
		w["probe_shape"] = "V V <kind>x8 V V V S on fresh subscribers of the same configuration"
		if len(culprits) == 0 {
			q.vio("not-delivered:"+p.status, fmt.Sprintf("subscriber %s never got %d of %d valid messages published on its topic while it was subscribed (%s; no single malformed kind reproduces it)", x.name, p.missing, p.required, p.status), w)
			continue
		}
		for _, k := range culprits {
			q.vio("messages-after-"+k+"-not-delivered", fmt.Sprintf("after a %s message on its topic, subscriber %s (%s, %d worker(s)) never got the valid messages that followed (%d of %d missing; %s)", k, x.name, q.spec.Factory, q.spec.Workers, p.missing, p.required, p.status), w)
		}
	}
}

// verify checks x's log against the roles of all messages.
func (q *seqRun) verify(x *subscriber) {
	log := x.rec.snapshot()
	ordered := q.spec.Broker == "stomp" || q.spec.Workers == 1
	seen := map[string]int{}
	lastStep := -1
	gs := map[int]bool{}
	for i, e := range log {
		gs[e.G] = true
		m := q.byCid[e.Cid]
		if m == nil {
			m = q.byID[e.ID]
		}
		ew := map[string]interface{}{"subscriber": x.name, "log_index": i, "entry_cid": e.Cid, "entry_id": e.ID}
		if m == nil {
			ew["entry_payload"] = capStr(e.Canon)
			q.vio("unknown-message-delivered", "the handler was invoked for a message this sequence never published", ew)
			continue
		}
		ew["step"], ew["kind"], ew["sub"], ew["phase"] = m.Step, m.Kind, m.Sub, m.Phase
		if m.Raw != nil {
			ew["body_hex"], ew["raw_topic"], ew["subscribed_topic"] = hexCap(m.Raw), m.RawTopic, q.topic
		}
		role := q.role(x, m)
		if role == "ignore" {
			q.count("wrong_struct_invocations", 1)
			continue
		}
		if strings.HasPrefix(role, "forbidden:") {
			ew["entry_payload"] = capStr(e.Canon)
			q.vio(strings.TrimPrefix(role, "forbidden:"), fmt.Sprintf("the handler of subscriber %s was invoked for a message it must not get (%s)", x.name, strings.TrimPrefix(role, "forbidden:")), ew)
			continue
		}
		seen[m.Cid]++
		if seen[m.Cid] == 2 {
			q.vio("duplicate-delivery", "the handler was invoked more than once for one published message", ew)
		}
		if e.Canon != m.Canon {
			ew["published"], ew["delivered"] = capStr(m.Canon), capStr(e.Canon)
			q.vio("payload-differs", "the handler got a payload that differs from the published one", ew)
		}
		for k, v := range m.PubHdrs {
			if k == "_opid" {
				continue
			}
			if got, ok := e.Hdrs[k]; !ok || got != v {
				ew["header"], ew["published_value"], ew["delivered_value"], ew["delivered_present"] = k, v, got, ok
				sig := "headers-differ"
				if k == "_cid" {
					sig += ":cid"
				}
				q.vio(sig, "the handler's FContext lacks a request header of the publisher's FContext (or its value differs)", ew)
				break
			}
		}
		if ordered {
			if m.Step < lastStep {
				ew["previous_step"] = lastStep
				q.vio("out-of-order:single-worker", "a single-worker subscriber invoked the handler out of publish order", ew)
			}
			lastStep = m.Step
		}
		q.count("delivered_checked", 1)
	}
	if len(gs) > q.res.Counters["max_handler_goroutines"] {
		q.res.Counters["max_handler_goroutines"] = len(gs)
	}
}

func capStr(s string) string {
	if len(s) > 200 {
		return s[:200] + fmt.Sprintf("...(%d chars)", len(s))
	}
	return s
}

func (q *seqRun) cleanup() {
	if q.cleaned {
		return
	}
	q.cleaned = true
	if q.B != nil && q.B.sub != nil {
		done := make(chan struct{})
		go func() { q.B.sub.Unsubscribe(); close(done) }()
		select {
		case <-done:
		case <-time.After(2 * time.Second):
		}
	}
	for _, x := range q.subs {
		if x.sub != nil && !x.unsub {
			done := make(chan struct{})
			go func(x *subscriber) { x.sub.Unsubscribe(); close(done) }(x)
			select {
			case <-done:
			case <-time.After(2 * time.Second):
			}
		}
	}
	for _, f := range q.tapStops {
		f()
	}
	if q.relay != nil {
		defer q.relay.Stop()
	}
	for _, l := range []*link{q.pubL, q.aL, q.bL, q.tapL} {
		l.close()
	}
	if q.spec.Broker == "stomp" {
		for _, i := range q.bus.sb.Subscriptions(q.subject(q.topic)) {
			if i.Ack != "auto" {
				q.count("stomp_messages_left_unacked", i.Unacked)
				q.count("stomp_messages_acked", i.Acked)
			}
		}
		for _, t := range neighbours(q.topic) {
			q.bus.sb.Forget(q.subject(t))
		}
		for _, x := range q.subs {
			for _, t := range neighbours(x.topic) {
				q.bus.sb.Forget(q.subject(t))
			}
		}
	}
}

// steps publishes n interleaved steps of the given phase.
func (q *seqRun) steps(n, phase int) error {
	s := q.spec
	for i := 0; i < n; i++ {
		x := q.rng.Intn(100)
		var err error
		switch {
		case x >= 70 && x < 86 && len(s.Kinds) > 0:
			err = q.publishMalformed(s.Kinds[q.rng.Intn(len(s.Kinds))], phase)
		case x >= 86 && s.Foreign:
			err = q.publishForeign(phase)
		default:
			_, err = q.publishOnTopic("valid", phase)
		}
		if err != nil {
			return err
		}
	}
	return nil
}

func runSeq(b *bus, s *Spec) *Result {
	q := &seqRun{spec: s, bus: b, rng: rand.New(rand.NewSource(s.Seed)), byCid: map[string]*msg{}, byID: map[int64]*msg{},
		res: &Result{Idx: s.Idx, Shape: shapeOf(s), Counters: map[string]int{}}}
	q.tag = fmt.Sprintf("q%d.%d-", s.Idx, atomic.AddInt64(&idCounter, 1))
	q.cap = &capFactory{}
	capProv := frugal.NewFScopeProvider(q.cap, nil, rig.ProtocolFactory(s.Proto))
	q.capE, q.capP, q.capX = mainsvc.NewEventsPublisher(capProv), mainsvc.NewPlainPublisher(capProv), newScopePubs(capProv)
	q.topic = q.topicOf(s.Op, s.User)
	if (s.Mode == "shared" || s.Mode == "nested") && s.Probe == "" {
		q.runShared()
	} else if s.Mode == "backpressure" && s.Probe == "" {
		q.runBackpressure()
	} else if s.Mode == "prompt" && s.Probe == "" {
		q.runPrompt()
	} else if s.Mode == "concurrent" && s.Probe == "" {
		q.runConcurrent()
	} else if s.Mode == "resub" && s.Probe == "" {
		q.runResub()
	} else {
		q.run()
	}
	// the logs are judged after everything has been torn down, so that a
	// subscriber that kept consuming after Unsubscribe had time to show it
	q.cleanup()
	if s.Probe == "" && q.A != nil && q.A.unsub && q.A.dumpOK {
		// diagnostic only (the property does not speak about goroutines):
		// worker goroutines of A that outlive Unsubscribe and the teardown
		q.count("diag_A_worker_goroutines_alive_after_teardown", len(workersOf(parseDump(rawDump()), q.A.gid, q.A.workerFn)))
	}
	if s.Probe == "" {
		for _, x := range append([]*subscriber{q.A, q.B}, q.subs...) {
			if x != nil {
				q.verify(x)
			}
		}
		q.attribute()
	}
	return q.res
}

func (q *seqRun) openPublishers() bool {
	prov := q.providerFor(q.pubL)
	q.pubE, q.pubP, q.pubX = mainsvc.NewEventsPublisher(prov), mainsvc.NewPlainPublisher(prov), newScopePubs(prov)
	if err := q.pubE.Open(); err != nil {
		q.inconclusive("publisher Open: " + err.Error())
		return false
	}
	q.pubP.Open()
	q.pubX.open()
	return true
}

// waitBrokerSubscriptions (STOMP): go-stomp's Subscribe does not wait for the
// broker; "subscribed" starts when the broker has the subscription.  Counted
// per destination the subscriptions were actually made on.
func (q *seqRun) waitBrokerSubscriptions(tapTopics []string, xs []*subscriber) bool {
	if q.spec.Broker != "stomp" {
		return true
	}
	want := map[string]int{}
	for _, t := range tapTopics {
		want[q.subject(t)]++
	}
	for _, x := range xs {
		want[q.subject(x.sub.Topic())]++
	}
	for dest, n := range want {
		if q.bus.sb.SubscriberCount(dest) < n {
			q.count("stomp_subscribe_returned_before_broker_had_it", 1)
		}
		if !q.bus.sb.WaitSubscribers(dest, n, waitBound) {
			q.inconclusive("the STOMP broker did not get the SUBSCRIBE frames for " + dest)
			return false
		}
	}
	return true
}

// runPrompt (NATS): publisher on its own connection, subscriber's connection
// behind a relay with a one-way latency, first publishes immediately after
// Subscribe returned nil.  Everything published after that moment must be
// delivered exactly once.
func (q *seqRun) runPrompt() {
	s := q.spec
	var err error
	for _, lp := range []**link{&q.pubL, &q.tapL} {
		if *lp, err = q.bus.connect(s.Broker); err != nil {
			q.inconclusive("broker connection failed: " + err.Error())
			return
		}
	}
	if q.relay, err = rig.StartDelayRelay(strings.TrimPrefix(q.bus.ns.URL, "nats://"), time.Duration(s.RelayMs)*time.Millisecond); err != nil {
		q.inconclusive("relay: " + err.Error())
		return
	}
	nc, err := nats.Connect("nats://"+q.relay.Addr(), nats.MaxReconnects(-1), nats.Timeout(10*time.Second))
	if err != nil {
		q.inconclusive("connection through the relay failed: " + err.Error())
		return
	}
	q.aL = &link{nc: nc}
	if q.topic == "" {
		q.inconclusive("the emitted publisher did not publish on the capture transport")
		return
	}
	if !q.openPublishers() {
		return
	}
	if err := q.startTap(); err != nil {
		q.inconclusive("tap: " + err.Error())
		return
	}
	const first = 5
	var perr error
	q.onSubscribed = func() {
		for i := 0; i < first && perr == nil; i++ {
			_, perr = q.publishOnTopic("valid", 1)
		}
	}
	q.A, err = q.subscribeVia("A", q.providerFor(q.aL), s.Op, s.User, 0)
	q.onSubscribed = nil
	if err != nil {
		q.inconclusive("Subscribe(A): " + err.Error())
		return
	}
	if perr == nil {
		perr = q.steps(s.N, 1)
	}
	if perr == nil {
		_, perr = q.publishOnTopic("sentinel", 1)
	}
	if perr != nil {
		q.inconclusive("publish failed: " + perr.Error())
		return
	}
	if !q.waitTap() {
		q.inconclusive("the raw tap subscriber did not see everything published")
		return
	}
	if st, dump := q.settle(q.A, 1); st != "complete" {
		if st == "inconclusive" {
			q.inconclusive(fmt.Sprintf("subscriber A did not log %d required messages within %v although its workers are alive: %v", len(q.missing(q.A)), waitBound, grepShort(dump, q.A.workerFn)))
			return
		}
		if q.bigHeadersOnly(q.A, st) {
			return
		}
		miss := q.missing(q.A)
		if miss[0].Step < first && (len(miss) <= first || st == "lost") {
			var steps []int
			for _, m := range miss {
				steps = append(steps, m.Step)
			}
			if len(steps) > 12 {
				steps = steps[:12]
			}
			q.vio("not-delivered:published-right-after-subscribe-returned", fmt.Sprintf("subscriber A never got %d of %d valid messages, starting with message %d published (from another connection) immediately after Subscribe returned nil; the subscriber's connection is healthy with a one-way latency of %d ms; later messages are delivered", len(miss), len(q.required(q.A)), miss[0].Step, s.RelayMs),
				map[string]interface{}{"status": st, "missing_steps": steps, "missing_count": len(miss), "logged": q.A.rec.length(), "relay_client_to_server_delay_ms": s.RelayMs})
			q.aborted = true
			return
		}
		q.reportMissing(q.A, st, dump)
		q.aborted = true
		return
	}
	done := make(chan error, 1)
	go func() { done <- q.A.sub.Unsubscribe() }()
	select {
	case <-done:
	case <-time.After(waitBound):
		q.inconclusive(fmt.Sprintf("Unsubscribe(A) did not return within %v", waitBound))
		return
	}
	q.count("prompt_sequences_completed", 1)
	q.count("sequences_completed", 1)
}

// runBackpressure (STOMP): the subscriber's connection is also used by a
// publisher (one stomp.Conn for both factories of a provider, the usual set-up).
// The handler is held at its first invocation while N messages arrive, so the
// client's inbound path fills up; 20 frames are then published through the
// same connection; then the handler is released.  Every message must still be
// delivered exactly once.
func (q *seqRun) runBackpressure() {
	s := q.spec
	var err error
	for _, lp := range []**link{&q.pubL, &q.aL, &q.tapL} {
		if *lp, err = q.bus.connect(s.Broker); err != nil {
			q.inconclusive("broker connection failed: " + err.Error())
			return
		}
	}
	if !q.openPublishers() {
		return
	}
	user2 := s.User + "2"
	t2 := q.topicOf("Num", user2)
	if q.topic == "" || t2 == "" {
		q.inconclusive("the emitted publisher did not publish on the capture transport")
		return
	}
	if err := q.startTap(); err == nil {
		err = q.startTapOn(t2)
	}
	if err != nil {
		q.inconclusive("tap: " + err.Error())
		return
	}
	provA := q.providerFor(q.aL)
	if q.A, err = q.subscribeVia("A", provA, s.Op, s.User, 0); err != nil {
		q.inconclusive("Subscribe(A): " + err.Error())
		return
	}
	gate := make(chan struct{})
	q.A.rec.gate = gate
	opened := false
	open := func() {
		if !opened {
			opened = true
			close(gate)
		}
	}
	defer open()
	co := mainsvc.NewEventsPublisher(provA) // publisher on the subscriber's connection
	if err := co.Open(); err != nil {
		q.inconclusive("publisher Open: " + err.Error())
		return
	}
	if !q.waitBrokerSubscriptions([]string{q.topic, t2}, []*subscriber{q.A}) {
		return
	}
	for i := 0; i < s.N; i++ {
		if _, err := q.publishOnTopic("valid", 1); err != nil {
			q.inconclusive("publish failed: " + err.Error())
			return
		}
	}
	if !q.waitTap() {
		q.inconclusive("the raw tap subscriber did not see the burst")
		return
	}
	// the broker has queued the whole burst for A; wait until the handler is
	// held and the connection's dispatcher is parked on the full subscription
	parked := false
	for deadline := time.Now().Add(3 * time.Second); time.Now().Before(deadline) && !parked; time.Sleep(2 * time.Millisecond) {
		if atomic.LoadInt32(&q.A.rec.active) == 0 {
			continue
		}
		for _, g := range parseDump(rawDump()) {
			if strings.HasPrefix(g.State, "chan send") && len(g.Funcs) > 0 && strings.Contains(g.Funcs[0], "stomp.processLoop") {
				parked = true
			}
		}
	}
	if parked {
		q.count("backpressure_dispatcher_parked_on_full_subscription", 1)
	}
	// 20 frames through the subscriber's own connection (prepared here; the
	// goroutine only calls the emitted publisher)
	type item struct {
		ctx frugal.FContext
		t   *base.Thing
	}
	var items []item
	for i := 0; i < 20; i++ {
		m := q.newMsg("foreign", "co-published-on-the-subscribers-connection", 1)
		q.letters = append(q.letters, 'P')
		items = append(items, item{frugal.NewFContext(m.Cid), genThing(q.rng, int32(m.ID))})
	}
	done := make(chan int, 1)
	go func() {
		n := 0
		for _, it := range items {
			if co.PublishNum(it.ctx, user2, it.t) == nil {
				n++
			}
		}
		done <- n
	}()
	published := -1
	select {
	case published = <-done:
	case <-time.After(time.Second):
	}
	open()
	seen := false
	lastDump := time.Now()
	for published < 0 {
		select {
		case published = <-done:
		case <-time.After(250 * time.Millisecond):
			text := rawDump()
			if stompAckDeadlock(parseDump(text), q.A) {
				if seen {
					q.vioDeadlock(q.A, text)
					q.aborted = true
					return
				}
				seen = true
			} else {
				seen = false
			}
		}
	}
	q.onSubject += int64(published)
	q.count("co_published_on_subscriber_connection", published)
	if published != len(items) {
		q.inconclusive(fmt.Sprintf("only %d of %d publishes through the subscriber's connection succeeded", published, len(items)))
		return
	}
	for i := 0; i < s.K; i++ {
		if _, err := q.publishOnTopic("valid", 1); err != nil {
			q.inconclusive("publish failed: " + err.Error())
			return
		}
	}
	if _, err := q.publishOnTopic("sentinel", 1); err != nil {
		q.inconclusive("publish failed: " + err.Error())
		return
	}
	// the frames published through A's connection reach the broker only if
	// that connection's write path keeps moving: watch for the wait cycle
	// while waiting for the tap
	seen = false
	for deadline := time.Now().Add(waitBound); atomic.LoadInt64(&q.tapCount) < q.onSubject; time.Sleep(time.Millisecond) {
		if time.Now().After(deadline) {
			q.inconclusive("the raw tap subscribers did not see everything published")
			return
		}
		if time.Since(lastDump) < 250*time.Millisecond {
			continue
		}
		lastDump = time.Now()
		text := rawDump()
		if !stompAckDeadlock(parseDump(text), q.A) {
			seen = false
			continue
		}
		if seen {
			q.vioDeadlock(q.A, text)
			q.aborted = true
			return
		}
		seen = true
	}
	if st, dump := q.settle(q.A, 1); st != "complete" {
		if st == "inconclusive" {
			q.inconclusive(fmt.Sprintf("subscriber A did not log %d required messages within %v although its workers are alive: %v", len(q.missing(q.A)), waitBound, grepShort(dump, q.A.workerFn)))
			return
		}
		q.reportMissing(q.A, st, dump)
		q.aborted = true
		return
	}
	q.count("backpressure_sequences_completed", 1)
	q.count("sequences_completed", 1)
}

// bigHeadersOnly reports the missing messages of x if every one of them
// carried more than 64 KiB of headers.
func (q *seqRun) bigHeadersOnly(x *subscriber, st string) bool {
	miss := q.missing(x)
	for _, m := range miss {
		if m.HdrBytes <= 64*1024 {
			return false
		}
	}
	q.vio("valid-message-with-large-headers-not-delivered", fmt.Sprintf("subscriber %s never got %d valid message(s) whose FContext request headers total more than 64 KiB (first: %d bytes; the frame is far below the transport's size limit); every other message was delivered", x.name, len(miss), miss[0].HdrBytes),
		map[string]interface{}{"subscriber": x.name, "status": st, "missing_count": len(miss), "first_missing_step": miss[0].Step, "first_missing_cid": miss[0].Cid, "first_missing_header_bytes": miss[0].HdrBytes})
	q.aborted = true
	return true
}

// settleSub settles one subscription of a multi-topic sequence and reports.
func (q *seqRun) settleSub(x *subscriber, ph int, label, setting string) bool {
	st, dump := q.settle(x, ph)
	switch st {
	case "complete":
		return true
	case "inconclusive":
		q.inconclusive(fmt.Sprintf("subscription %s did not log %d required messages within %v although its workers are alive: %v", x.name, len(q.missing(x)), waitBound, grepShort(dump, x.workerFn)))
		return false
	case "deadlock":
		q.vioDeadlock(x, dump)
		q.aborted = true
		return false
	}
	miss := q.missing(x)
	if x.sub.Topic() != x.topic {
		q.vio("subscriber-topic-differs-from-publisher-topic:scope="+scopeName(x.op), fmt.Sprintf("the emitted subscriber of scope %s subscribed to %q while the emitted publisher publishes on %q: the handler is never invoked (%d of %d valid messages missing, no error anywhere)", scopeName(x.op), x.sub.Topic(), x.topic, len(miss), len(q.required(x))),
			map[string]interface{}{"subscription": x.name, "publisher_topic": x.topic, "subscription_topic": x.sub.Topic(), "status": st})
		q.aborted = true
		return false
	}
	if q.bigHeadersOnly(x, st) {
		return false
	}
	q.vio(label+":not-delivered:"+st, fmt.Sprintf("%s, subscription %s never got %d of %d valid messages published on its own topic (%s)", setting, x.name, len(miss), len(q.required(x)), st),
		map[string]interface{}{"subscription": x.name, "topic": x.topic, "status": st, "missing_count": len(miss), "first_missing_step": miss[0].Step, "first_missing_cid": miss[0].Cid, "logged": x.rec.length(), "goroutines": grep(dump, "frugal/lib/go.")})
	q.aborted = true
	return false
}

// runConcurrent: ONE emitted publisher (one FScopeClient / publisher
// transport) is used by several goroutines at the same time, each publishing
// to its own topic (different prefix-variable values and operations);
// single-worker subscribers, one per topic, on another connection.
func (q *seqRun) runConcurrent() {
	s := q.spec
	var err error
	for _, lp := range []**link{&q.pubL, &q.aL, &q.tapL} {
		if *lp, err = q.bus.connect(s.Broker); err != nil {
			q.inconclusive("broker connection failed: " + err.Error())
			return
		}
	}
	if !q.openPublishers() {
		return
	}
	var taps []string
	for i, ss := range s.Subs {
		// every subscription gets its own provider: only the publisher is shared
		x, err := q.subscribeVia(fmt.Sprintf("S%d(%s %s)", i, ss.Op, ss.User), q.providerFor(q.aL), ss.Op, ss.User, 0)
		if err != nil {
			q.inconclusive("Subscribe: " + err.Error())
			return
		}
		x.idx = i
		q.subs = append(q.subs, x)
		if x.topic == "" {
			q.inconclusive("the emitted publisher did not publish on the capture transport")
			return
		}
		taps = append(taps, x.topic)
	}
	if s.Broker == "nats" {
		// everything the broker routes is counted, also a message that went
		// out on a subject nobody subscribed to
		sub, err := q.tapL.nc.Subscribe(">", func(m *nats.Msg) { atomic.AddInt64(&q.tapCount, 1) })
		if err == nil {
			err = q.tapL.nc.Flush()
		}
		if err != nil {
			q.inconclusive("tap: " + err.Error())
			return
		}
		q.tapStops = append(q.tapStops, func() { sub.Unsubscribe() })
	} else {
		for _, t := range taps {
			if err := q.startTapOn(t); err != nil {
				q.inconclusive("tap: " + err.Error())
				return
			}
		}
	}
	if !q.waitBrokerSubscriptions(taps, q.subs) {
		return
	}
	// prepared in this goroutine (the harness state is not shared); the
	// publishing goroutines only call the emitted publisher
	type item struct {
		m   *msg
		ctx frugal.FContext
		p   *mainsvc.Payload
		t   *base.Thing
	}
	lists := make([][]item, len(q.subs))
	for n := 0; n < s.N; n++ {
		for i, x := range q.subs {
			m := q.newMsg("valid", "", 1)
			m.Target = x
			it := item{m: m, ctx: frugal.NewFContext(m.Cid)}
			if n%16 == 0 {
				it.ctx.AddRequestHeader("k", fmt.Sprint(n))
			}
			if x.op == "Sent" {
				it.p = &mainsvc.Payload{First: &mainsvc.BigFirst{N: int32(m.ID), Big: x.user}}
				m.Canon = canonPayload(it.p)
			} else {
				it.t = &base.Thing{AnID: int32(m.ID), AString: x.user}
				m.Canon = canonThing(it.t)
			}
			lists[i] = append(lists[i], it)
		}
	}
	q.letters = append(q.letters, fmt.Sprintf("[%d goroutines x %d publishes, goroutine i -> topic i]", len(q.subs), s.N)...)
	var wg sync.WaitGroup
	errs := make([]error, len(q.subs))
	start := make(chan struct{})
	for i, x := range q.subs {
		wg.Add(1)
		go func(i int, x *subscriber) {
			defer wg.Done()
			<-start
			for _, it := range lists[i] {
				var err error
				if x.op == "Sent" {
					err = q.pubE.PublishSent(it.ctx, x.user, it.p)
				} else {
					err = q.pubE.PublishNum(it.ctx, x.user, it.t)
				}
				if err != nil {
					errs[i] = err
					return
				}
			}
		}(i, x)
	}
	close(start)
	wg.Wait()
	for i := range lists {
		if errs[i] != nil {
			q.inconclusive("publish failed: " + errs[i].Error())
			return
		}
		for _, it := range lists[i] {
			it.m.PubHdrs = it.ctx.RequestHeaders()
		}
		q.onSubject += int64(len(lists[i]))
		q.count("valid_published", len(lists[i]))
		q.count("concurrently_published", len(lists[i]))
	}
	for _, x := range q.subs {
		if _, err := q.publishTo(x, "sentinel", 1); err != nil {
			q.inconclusive("publish failed: " + err.Error())
			return
		}
	}
	if !q.waitTap() {
		// the publisher reported success for more messages than the broker
		// routed on any subject: the subscribers' logs decide
		q.count("concurrent_published_but_never_routed", int(q.onSubject-atomic.LoadInt64(&q.tapCount)))
		q.onSubject = atomic.LoadInt64(&q.tapCount)
	}
	for _, x := range q.subs {
		if !q.settleSub(x, 1, "concurrent-publishers", fmt.Sprintf("with %d goroutines publishing to different topics through one emitted publisher", len(q.subs))) {
			return
		}
	}
	q.count("concurrent_publisher_sequences_completed", 1)
	q.count("sequences_completed", 1)
}

// runShared: several live subscriptions through ONE scope provider.
func (q *seqRun) runShared() {
	s := q.spec
	var err error
	for _, lp := range []**link{&q.pubL, &q.aL, &q.tapL} {
		if *lp, err = q.bus.connect(s.Broker); err != nil {
			q.inconclusive("broker connection failed: " + err.Error())
			return
		}
	}
	if !q.openPublishers() {
		return
	}
	prov := q.providerFor(q.aL) // the one provider / subscriber transport factory
	nested := s.Mode == "nested"
	label, setting := "shared-provider", fmt.Sprintf("with %d live subscriptions made through one scope provider", len(s.Subs))
	if nested {
		label, setting = "frugal-word-topics", fmt.Sprintf("with %d live subscriptions on topics that differ by a leading %q word", len(s.Subs), transportWord+".")
		if s.Broker == "nats" {
			if err := q.startWideTap(); err != nil {
				q.inconclusive("tap: " + err.Error())
				return
			}
		}
	}
	var taps []string
	tapped := map[string]bool{}
	for i, ss := range s.Subs {
		if nested && s.Seed&1 == 1 {
			prov = q.providerFor(q.aL) // a provider of its own per subscription
		}
		x, err := q.subscribeVia(fmt.Sprintf("S%d(%s %s)", i, ss.Op, ss.User), prov, ss.Op, ss.User, 0)
		if err != nil {
			q.inconclusive("Subscribe: " + err.Error())
			return
		}
		x.idx = i
		q.subs = append(q.subs, x)
		if x.topic == "" {
			q.inconclusive("the emitted publisher did not publish on the capture transport")
			return
		}
		tapOn := []string{x.topic}
		if nested {
			// STOMP has no wildcard: tap the topic and its neighbours in the
			// family (a publish folded onto a neighbour is then still routed)
			tapOn = neighbours(x.topic)
		}
		for _, t := range tapOn {
			if q.wide || tapped[t] {
				continue
			}
			tapped[t] = true
			if err := q.startTapOn(t); err != nil {
				q.inconclusive("tap: " + err.Error())
				return
			}
			taps = append(taps, t)
		}
		if !x.dumpOK {
			q.count("worker_goroutines_not_identified", 1)
		}
	}
	if !q.waitBrokerSubscriptions(taps, q.subs) {
		return
	}
	phase := func(n, ph int, live []*subscriber) bool {
		for i := 0; i < n; i++ {
			if _, err := q.publishTo(q.subs[q.rng.Intn(len(q.subs))], "valid", ph); err != nil {
				q.inconclusive("publish failed: " + err.Error())
				return false
			}
		}
		for _, x := range live {
			if _, err := q.publishTo(x, "sentinel", ph); err != nil {
				q.inconclusive("publish failed: " + err.Error())
				return false
			}
		}
		if !q.waitTap() {
			q.inconclusive("the raw tap subscribers did not see everything published")
			return false
		}
		for _, x := range live {
			if !q.settleSub(x, ph, label, setting) {
				return false
			}
		}
		return true
	}
	if !phase(s.N, 1, q.subs) {
		return
	}
	// Unsubscribe the first subscription; the others must keep working and it
	// must get nothing that is published afterwards
	x0 := q.subs[0]
	done := make(chan error, 1)
	go func() { done <- x0.sub.Unsubscribe() }()
	select {
	case err := <-done:
		if err != nil {
			q.inconclusive("Unsubscribe failed: " + err.Error())
			return
		}
	case <-time.After(waitBound):
		q.inconclusive(fmt.Sprintf("Unsubscribe did not return within %v", waitBound))
		return
	}
	x0.unsub = true
	q.letters = append(q.letters, '|')
	before := len(q.msgs)
	if !phase(s.K, 3, q.subs[1:]) {
		return
	}
	time.Sleep(2 * time.Millisecond)
	for _, m := range q.msgs[before:] {
		if m.Target == x0 {
			q.count("unsubscribe_checks", 1)
		}
	}
	if nested {
		q.count("frugal_word_topic_sequences_completed", 1)
	} else {
		q.count("shared_provider_sequences_completed", 1)
	}
	q.count("sequences_completed", 1)
}

func (q *seqRun) run() {
	s := q.spec
	var err error
	for _, lp := range []**link{&q.pubL, &q.aL, &q.bL, &q.tapL} {
		if *lp, err = q.bus.connect(s.Broker); err != nil {
			q.inconclusive("broker connection failed: " + err.Error())
			return
		}
	}
	if q.topic == "" {
		q.inconclusive("the emitted publisher did not publish on the capture transport")
		return
	}
	if !q.openPublishers() {
		return
	}
	if err := q.startTap(); err != nil {
		q.inconclusive("tap: " + err.Error())
		return
	}
	if q.B, err = q.subscribe("B", q.bL, 0); err != nil {
		q.inconclusive("Subscribe(B): " + err.Error())
		return
	}
	provA := q.providerFor(q.aL)
	if s.DupSub {
		provA = q.stickyProviderFor(q.aL)
	}
	if q.A, err = q.subscribeVia("A", provA, s.Op, s.User, time.Duration(s.DelayUs)*time.Microsecond); err != nil {
		q.inconclusive("Subscribe(A): " + err.Error())
		return
	}
	if s.DupSub {
		// same transport, already subscribed: must be rejected and harmless
		if sub2, err2 := emittedSubscribe(provA, s.Op, s.User, q.A.rec); err2 == nil {
			q.count("duplicate_subscribe_accepted", 1)
			sub2.Unsubscribe()
		} else {
			q.count("duplicate_subscribe_rejected", 1)
		}
		q.letters = append(q.letters, 'D')
	}
	if !q.A.dumpOK || !q.B.dumpOK {
		q.count("worker_goroutines_not_identified", 1)
	}
	if !q.waitBrokerSubscriptions([]string{q.topic}, []*subscriber{q.A, q.B}) {
		return
	}

	// phase 1: both subscribed
	if s.Probe != "" {
		for i := 0; i < 2 && err == nil; i++ {
			_, err = q.publishOnTopic("valid", 1)
		}
		for i := 0; i < 8 && err == nil && s.Probe != "control"; i++ {
			err = q.publishMalformed(s.Probe, 1)
		}
		for i := 0; i < 3 && err == nil; i++ {
			_, err = q.publishOnTopic("valid", 1)
		}
	} else {
		err = q.steps(s.N, 1)
	}
	var s1 *msg
	if err == nil {
		s1, err = q.publishOnTopic("sentinel", 1)
	}
	if err != nil {
		q.inconclusive("publish failed: " + err.Error())
		return
	}
	_ = s1
	if !q.waitTap() {
		q.inconclusive("the raw tap subscriber did not see the phase-1 sentinel")
		return
	}
	for _, x := range []*subscriber{q.A, q.B} {
		if st, dump := q.settle(x, 1); st != "complete" {
			if st == "inconclusive" {
				q.inconclusive(fmt.Sprintf("subscriber %s did not log %d required messages within %v although its workers are alive: %v", x.name, len(q.missing(x)), waitBound, grepShort(dump, x.workerFn)))
				break
			} else {
				q.reportMissing(x, st, dump)
				q.aborted = true
				break
			}
		}
	}
	if q.aborted || s.Probe != "" {
		return
	}

	// phase 2: in-flight burst, then Unsubscribe(A)
	for i := 0; i < s.Burst; i++ {
		if _, err := q.publishOnTopic("valid", 2); err != nil {
			q.inconclusive("publish failed: " + err.Error())
			return
		}
	}
	done := make(chan error, 1)
	go func() { done <- q.A.sub.Unsubscribe() }()
	select {
	case err := <-done:
		if err != nil {
			q.inconclusive("Unsubscribe(A) failed: " + err.Error())
			return
		}
	case <-time.After(waitBound):
		q.inconclusive(fmt.Sprintf("Unsubscribe(A) did not return within %v: %v", waitBound, grepShort(rawDump(), "Unsubscribe", q.A.workerFn)))
		return
	}
	q.A.unsub = true
	lenAtReturn := q.A.rec.length()
	q.letters = append(q.letters, '|')

	// phase 3: published after Unsubscribe returned
	before := len(q.msgs)
	for i := 0; i < s.K && err == nil; i++ {
		_, err = q.publishOnTopic("valid", 3)
		if err == nil && len(s.Kinds) > 0 && q.rng.Intn(4) == 0 {
			err = q.publishMalformed(s.Kinds[q.rng.Intn(len(s.Kinds))], 3)
		}
	}
	var s2 *msg
	if err == nil {
		s2, err = q.publishOnTopic("sentinel", 3)
	}
	if err != nil {
		q.inconclusive("publish failed: " + err.Error())
		return
	}
	_ = s2
	if !q.waitTap() {
		q.inconclusive("the raw tap subscriber did not see the phase-3 sentinel")
		return
	}
	if st, dump := q.settle(q.B, 3); st != "complete" {
		if st == "inconclusive" {
			q.inconclusive(fmt.Sprintf("subscriber B did not log %d required messages within %v although its workers are alive: %v", len(q.missing(q.B)), waitBound, grepShort(dump, q.B.workerFn)))
			return
		}
		q.reportMissing(q.B, st, dump)
		q.aborted = true
	}
	// B has everything published after Unsubscribe(A) returned: the broker has
	// fanned those messages out.  A short pause only widens the window in which
	// a leaking A would show itself; it is not part of the oracle.
	time.Sleep(2 * time.Millisecond)
	for _, m := range q.msgs[before:] {
		if m.Kind != "malformed" {
			q.count("unsubscribe_checks", 1)
		}
	}
	q.count("inflight_invocations_started_after_unsubscribe_returned", q.A.rec.length()-lenAtReturn)
	q.res.Counters["max_inflight_invocations_after_unsubscribe_returned_in_one_sequence"] = q.A.rec.length() - lenAtReturn
	q.count("sequences_completed", 1)
}
