package main

// The body of an HTTP response IS the reply frame: base64 of four size bytes
// (big endian) followed by exactly that many bytes (header block + message).
//
// Two things are added here.
//
// Oracle (all HTTP sequences): a 200 response whose decoded body is not a
// well-formed frame - size bytes that do not count the bytes that follow, an
// undecodable header block - is a corrupted reply.  On the stream legs the
// reference reader cuts frames by their size bytes, so a wrong size shows up
// as a desynchronised connection; over HTTP the body ends with the response
// and nothing but this comparison looks at the four bytes (the Go client
// transport skips them unread; other clients cut the frame by them).
//
// Workload dimension: MANY posts inside ONE handler function at the same time,
// each poster on a connection of its own which it keeps open, and request /
// reply sizes that differ from post to post (a few bytes to a few thousand,
// every request kind), so that whatever the handler function keeps between or
// across requests meets a request of another size.  The generated sequences
// have 1-32 posters and at most 200 posts: too few posts at once to make two
// requests meet in the few instructions a handler spends per response.

import (
	"encoding/binary"
	"fmt"
	"math/rand"
	"strings"

	"verif/rig"
	"verif/wire"
)

const (
	crowdPosters = 24
	crowdPosts   = 2400
)

// concurrentSizesProbes: per protocol one HTTP sequence of crowdPosts posts by
// crowdPosters concurrent posters; no two neighbouring posts have replies of
// the same size.
func concurrentSizesProbes(id int) []*seqSpec {
	fixed := rand.New(rand.NewSource(20261029))
	kinds := []int{kGetBig, kPing, kGetBig, kAdd, kGetBig, kEchoOK, kGetBig, kUnknown, kGetBig, kEchoOops, kGetBig, kErrInternal, kGetBig, kBlob, kGetBig, kAppEx, kGetBig, kNothingOops, kGetBig, kMalType, kGetBig, kEchoAPIErr}
	var out []*seqSpec
	for _, proto := range rig.Protocols {
		s := &seqSpec{id: id, leg: "http", proto: proto, mode: "probe-many-concurrent-posts-of-different-sizes", conns: crowdPosters, rng: fixed, keepAlive: true,
			note: fmt.Sprintf("%d posts by %d concurrent posters (one kept-open connection each) to one handler function; request and reply sizes differ from post to post", crowdPosts, crowdPosters)}
		for i := 0; i < crowdPosts; i++ {
			k := kinds[i%len(kinds)]
			r := newRequest(fixed, proto, k, genOpts{smallOnly: true})
			if k == kGetBig {
				// result sizes spread over 0 ... 4095 bytes, so that all four size
				// bytes' low half differs between posts that meet
				n := fixed.Intn(1 << uint(4+fixed.Intn(9)))
				big := r.token + strings.Repeat("0123456789abcdef", n/16+1)[:n]
				if v, ok := plans.Load(r.token); ok {
					v.(*plan).ret = big
				}
				e := wire.Struct(wire.F(0, wire.Str(big)))
				r.expBody = &e
			}
			r.idx = i
			s.reqs = append(s.reqs, r)
		}
		s.perConn = [][]*request{s.reqs}
		s.sentinel = []*request{newSentinel(fixed, proto)}
		out = append(out, s)
		id++
	}
	return out
}

// judgeHTTPBody: true when the request's 200 response did not hold a
// well-formed frame (reported here, nothing else is judged about it).
func judgeHTTPBody(run verdictSink, s *seqSpec, r *request, witness func(*request, map[string]interface{}) map[string]interface{}) bool {
	if s.leg != "http" {
		return false
	}
	if r.httpStatus == 200 && r.sendErr == "" {
		run.Add("http_response_bodies_checked_as_frames", 1)
	}
	if r.badFrame == nil {
		return false
	}
	f := r.badFrame
	extra := map[string]interface{}{"response_body_decoded_hex": hexCap(f, 3000), "response_body_decoded_bytes": len(f), "concurrent_posters": s.conns}
	if len(f) >= 4 && int(binary.BigEndian.Uint32(f)) != len(f)-4 {
		said := binary.BigEndian.Uint32(f)
		what := fmt.Sprintf("the HTTP 200 response to this %s request is a frame whose size bytes say %d (0x%08x), but %d bytes follow them", r.kindName(), said, said, len(f)-4)
		// is the rest the reply this request is owed?  (tells a wrong size from a wrong body)
		fixedUp := append([]byte(nil), f...)
		binary.BigEndian.PutUint32(fixedUp, uint32(len(f)-4))
		if hdrs, _, err := wire.ParseFrame(fixedUp); err == nil {
			what += fmt.Sprintf("; the %d bytes that follow are a well-formed header block + message with _opid %q (this request's: %q)", len(f)-4, hdrs["_opid"], r.opid)
		}
		what += fmt.Sprintf("; %d posters were posting requests with replies of other sizes to the same handler function at the time", s.conns)
		run.Violation("C14:http-reply-frame-size-wrong:"+s.proto, what, witness(r, extra))
		return true
	}
	run.Violation("C14:http-reply-frame-malformed:"+s.proto, fmt.Sprintf("the HTTP 200 response to this %s request does not hold a well-formed frame: %s", r.kindName(), r.badFrameWhy), witness(r, extra))
	return true
}
