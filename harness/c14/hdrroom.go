package main

// Response headers that nearly fill the server's output limit.
//
// A handler may add response headers of any size.  On the NATS server (the only
// server with a bounded output: 1 MiB per reply frame) a header block that
// still fits alone can leave less room than the reply message needs.  The
// statement does not exempt that situation: the request has decodable headers,
// so exactly one frame with its op id and a well-formed REPLY / EXCEPTION
// message for its method is owed - whichever way the server makes room for it.
//
// The handler pads the response headers so that the header block of the reply
// ends `room` bytes below the limit; room sweeps from 0 (nothing fits next to
// the headers) over a few tens of bytes (a short message fits, an error reply
// with its text does not) to several thousand bytes (control: everything
// fits).  Every outcome that ends in a message is combined with that: handler
// error (INTERNAL_ERROR), handler TApplicationException (its own type),
// declared exception and plain success (their result struct does not fit:
// RESPONSE_TOO_LARGE, like any other reply over the limit; with room to spare
// the ordinary reply), and a result that is over the limit by itself.  Ordinary
// requests in between must be answered as usual.  The reply frame captured at
// the raw NATS connection is judged by the reference reader (judge).

import (
	"fmt"
	"math/rand"
	"sort"

	"github.com/apache/thrift/lib/go/thrift"

	"verif/rig"
	"vh/e2e"
)

const natsOutputLimit = 1024 * 1024

// headerBlockLen is the size of a v0 header block holding hdrs.
func headerBlockLen(hdrs map[string]string) int {
	n := 5
	for k, v := range hdrs {
		n += 8 + len(k) + len(v)
	}
	return n
}

const padHeaderName = "x-pad"

// padResponseHeaders adds one response header to the call's context so that the
// response header block is natsOutputLimit-room bytes long.
func padResponseHeaders(c *e2e.Call, room int) {
	cur := headerBlockLen(c.Ctx.ResponseHeaders())
	l := natsOutputLimit - room - cur - (8 + len(padHeaderName))
	if l < 0 {
		return
	}
	b := make([]byte, l)
	for i := range b {
		b[i] = "0123456789abcdef"[i%16]
	}
	c.Ctx.AddResponseHeader(padHeaderName, string(b))
}

func hdrNames(h map[string]string) []string {
	var ns []string
	for k := range h {
		ns = append(ns, k)
	}
	sort.Strings(ns)
	return ns
}

// hdrRoomProbes: one NATS sequence per protocol.
func hdrRoomProbes(id int) []*seqSpec {
	var out []*seqSpec
	for i, proto := range rig.Protocols {
		fixed := rand.New(rand.NewSource(20261001 + int64(i)))
		s := &seqSpec{id: id + i, leg: "nats", proto: proto, mode: "probe-nats-response-headers-near-output-limit", conns: 1, workers: 2, rng: fixed}
		add := func(kind, room int, outcome string) *request {
			r := newRequest(fixed, proto, kind, genOpts{smallOnly: true})
			if v, ok := plans.Load(r.token); ok {
				v.(*plan).hdrRoom = room + 1
			}
			r.class = "response-headers-near-output-limit"
			r.label = fmt.Sprintf("%s-with-response-headers-ending-%d-bytes-below-output-limit", outcome, room)
			s.reqs = append(s.reqs, r)
			// an ordinary request after it
			s.reqs = append(s.reqs, newRequest(fixed, proto, []int{kPing, kAdd, kEchoOK, kErrInternal}[len(s.reqs)/2%4], genOpts{smallOnly: true}))
			return r
		}
		tooLarge := func(r *request) {
			r.expType, r.expExType, r.expBody, r.expMsgSub = thrift.EXCEPTION, 100, nil, ""
		}
		for _, room := range []int{0, 3, 10, 40, 120, 400, 5000} {
			add(kErrInternal, room, "handler-error")
			add(kAppEx, room, "handler-appex")
		}
		for _, room := range []int{0, 4, 5000} {
			for _, k := range []int{kAdd, kEchoOops, kNothingOops} {
				name := map[int]string{kAdd: "success", kEchoOops: "declared-exception", kNothingOops: "declared-exception-void"}[k]
				r := add(k, room, name)
				if room < 5000 {
					// no message at all fits next to the headers: the reply is over the limit
					tooLarge(r)
				}
			}
		}
		for _, room := range []int{0, 40, 5000} {
			tooLarge(add(kOversize, room, "reply-over-limit"))
		}
		for j, r := range s.reqs {
			r.idx, r.conn = j, 0
		}
		s.perConn = [][]*request{s.reqs}
		s.sentinel = []*request{newSentinel(fixed, proto)}
		s.note = "handlers pad the response headers (header " + padHeaderName + ") so that the reply's header block ends `room` bytes below the NATS server's 1 MiB output limit; room is in each request's kind name"
		out = append(out, s)
	}
	return out
}
