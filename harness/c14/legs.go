package main

// Servers used by C14.  pipe / tcp / http come from the rig (e2e.StartLeg);
// the NATS server is built here directly with the library's builder so that
// the monitor can count finished frames (exact quiescence, no grace period);
// the "shared" leg is a tiny server that processes the frames of one
// connection concurrently and writes every reply through ONE output FProtocol
// - the situation the processor's write mutex exists for.

import (
	"bytes"
	"encoding/binary"
	"fmt"
	"io"
	"net"
	"sync"
	"sync/atomic"
	"time"

	frugal "github.com/Workiva/frugal/lib/go"
	"github.com/apache/thrift/lib/go/thrift"
	"github.com/nats-io/nats.go"

	"verif/rig"
	"vh/e2e"
	"vh/gen/mainsvc"
)

// natsLeg ---------------------------------------------------------------------

type natsLeg struct {
	handler  *e2e.Handler
	subject  string
	sconn    *nats.Conn
	srv      frugal.FServer
	served   chan struct{}
	received int64
	finished int64
	broker   *rig.NatsServer
	writeMu  *sync.Mutex // the processor-wide write mutex (exported accessor)
	wedged   bool        // workers proven parked for good: do not wait for Serve to return
}

var natsLegSeq uint64

func startNatsLeg(broker *rig.NatsServer, proto string, workers uint) (*natsLeg, error) {
	l := &natsLeg{handler: &e2e.Handler{Behave: behave}, broker: broker, served: make(chan struct{})}
	sconn, err := broker.Connect()
	if err != nil {
		return nil, err
	}
	l.sconn = sconn
	l.subject = fmt.Sprintf("verif.c14.%d", atomic.AddUint64(&natsLegSeq, 1))
	p := mainsvc.NewFFooProcessor(l.handler)
	l.writeMu = p.GetWriteMutex()
	l.srv = frugal.NewFNatsServerBuilder(sconn, p, rig.ProtocolFactory(proto), []string{l.subject}).
		WithWorkerCount(workers).
		WithRequestReceivedEventHandler(func(map[interface{}]interface{}) { atomic.AddInt64(&l.received, 1) }).
		WithRequestFinishedEventHandler(func(map[interface{}]interface{}) { atomic.AddInt64(&l.finished, 1) }).
		Build()
	go func() { l.srv.Serve(); close(l.served) }()
	deadline := time.Now().Add(20 * time.Second)
	for {
		sconn.Flush()
		if broker.HasInterest(l.subject) {
			return l, nil
		}
		if time.Now().After(deadline) {
			return nil, fmt.Errorf("nats server did not subscribe")
		}
		time.Sleep(time.Millisecond)
	}
}

func (l *natsLeg) stop() {
	stopped := make(chan struct{})
	go func() { l.srv.Stop(); close(stopped) }()
	wait := 20 * time.Second
	if l.wedged {
		wait = 200 * time.Millisecond // Serve waits for workers that will never return
	}
	select {
	case <-stopped:
	case <-time.After(wait):
	}
	select {
	case <-l.served:
	case <-time.After(wait):
	}
	l.sconn.Close()
}

// natsConn is one raw client connection: every request has its own reply
// subject, so a reply can also be checked against the request it was sent to.
type natsConn struct {
	c     *nats.Conn
	to    string
	sub   *nats.Subscription
	inbox string
	mu    sync.Mutex
	got   []natsReply
}

type natsReply struct {
	subject string
	data    []byte
}

func (l *natsLeg) open(n int) (*natsConn, error) {
	c, err := l.broker.Connect()
	if err != nil {
		return nil, err
	}
	nc := &natsConn{c: c, to: l.subject, inbox: fmt.Sprintf("_INBOX.c14.%s.%d", l.subject, n)}
	nc.sub, err = c.Subscribe(nc.inbox+".*", func(m *nats.Msg) {
		nc.mu.Lock()
		nc.got = append(nc.got, natsReply{m.Subject, append([]byte(nil), m.Data...)})
		nc.mu.Unlock()
	})
	if err != nil {
		return nil, err
	}
	nc.sub.SetPendingLimits(-1, -1)
	return nc, c.Flush()
}

func (nc *natsConn) replySubject(r *request) string {
	return fmt.Sprintf("%s.%d", nc.inbox, r.idx)
}

func (nc *natsConn) send(r *request) error {
	return nc.c.PublishRequest(nc.to, nc.replySubject(r), r.frame)
}

// drain waits until everything the broker has routed to this connection has
// been handed to the subscription callback.
func (nc *natsConn) drain() error {
	if err := nc.c.FlushTimeout(20 * time.Second); err != nil {
		return err
	}
	deadline := time.Now().Add(20 * time.Second)
	for {
		n, _, err := nc.sub.Pending()
		if err != nil || n == 0 {
			return err
		}
		if time.Now().After(deadline) {
			return fmt.Errorf("subscription still has %d pending messages", n)
		}
		time.Sleep(200 * time.Microsecond)
	}
}

func (nc *natsConn) snapshot() []natsReply {
	nc.mu.Lock()
	defer nc.mu.Unlock()
	return append([]natsReply(nil), nc.got...)
}

// sharedLeg -------------------------------------------------------------------

type sharedLeg struct {
	handler  *e2e.Handler
	client   net.Conn
	finished int64
	procErrs int64
	firstErr atomic.Value
	done     chan struct{}
}

// startSharedLeg serves one in-memory connection: frames are read in order and
// processed by up to conc goroutines at once; all replies go through one
// FProtocol over one framed transport.
func startSharedLeg(proto string, conc int) *sharedLeg {
	a, b := net.Pipe()
	l := &sharedLeg{handler: &e2e.Handler{Behave: behave}, client: a, done: make(chan struct{})}
	pf := rig.ProtocolFactory(proto)
	p := mainsvc.NewFFooProcessor(l.handler)
	out := frugal.NewTFramedTransport(thrift.NewTSocketFromConnConf(b, nil))
	oprot := pf.GetProtocol(out)
	sem := make(chan struct{}, conc)
	go func() {
		defer close(l.done)
		var wg sync.WaitGroup
		defer wg.Wait()
		for {
			hdr := make([]byte, 4)
			if _, err := io.ReadFull(b, hdr); err != nil {
				return
			}
			body := make([]byte, binary.BigEndian.Uint32(hdr))
			if _, err := io.ReadFull(b, body); err != nil {
				return
			}
			sem <- struct{}{}
			wg.Add(1)
			go func() {
				defer wg.Done()
				iprot := pf.GetProtocol(&thrift.TMemoryBuffer{Buffer: bytes.NewBuffer(body)})
				if err := p.Process(iprot, oprot); err != nil {
					atomic.AddInt64(&l.procErrs, 1)
					l.firstErr.CompareAndSwap(nil, err.Error())
				}
				atomic.AddInt64(&l.finished, 1)
				<-sem
			}()
		}
	}()
	return l
}

func (l *sharedLeg) stop() {
	l.client.Close()
	select {
	case <-l.done:
	case <-time.After(20 * time.Second):
	}
}
