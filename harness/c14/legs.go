package main

// Servers used by C14.  pipe / tcp / http come from the rig (e2e.StartLeg);
// the NATS server is built here directly with the library's builder so that
// the monitor can count finished frames (exact quiescence, no grace period);
// the "shared" leg is a tiny server that processes the frames of one
// connection concurrently and writes every reply through ONE output FProtocol
// - the situation the processor's write mutex exists for.

import (
	"bytes"
	"encoding/base64"
	"encoding/binary"
	"fmt"
	"io"
	"net"
	"net/http"
	"net/http/httptest"
	"strings"
	"sync"
	"sync/atomic"
	"time"

	frugal "github.com/Workiva/frugal/lib/go"
	"github.com/apache/thrift/lib/go/thrift"
	"github.com/nats-io/nats.go"

	"verif/rig"
	"vh/e2e"
	"vh/gen/mainsvc"
)

// natsLeg ---------------------------------------------------------------------

type natsLeg struct {
	handler  *e2e.Handler
	subject  string
	sconn    *nats.Conn
	srv      frugal.FServer
	served   chan struct{}
	received int64
	finished int64
	broker   *rig.NatsServer
	writeMu  *sync.Mutex // the processor-wide write mutex (exported accessor)
	wedged   bool        // workers proven parked for good: do not wait for Serve to return
}

var natsLegSeq uint64

func startNatsLeg(broker *rig.NatsServer, proto string, workers uint, watermark time.Duration) (*natsLeg, error) {
	l := &natsLeg{handler: &e2e.Handler{Behave: behave}, broker: broker, served: make(chan struct{})}
	sconn, err := broker.Connect()
	if err != nil {
		return nil, err
	}
	l.sconn = sconn
	l.subject = fmt.Sprintf("verif.c14.%d", atomic.AddUint64(&natsLegSeq, 1))
	p := mainsvc.NewFFooProcessor(l.handler)
	l.writeMu = p.GetWriteMutex()
	b := frugal.NewFNatsServerBuilder(sconn, p, rig.ProtocolFactory(proto), []string{l.subject})
	if watermark > 0 {
		// the high watermark is the time a request may wait in the server's
		// queue before a warning is logged: a diagnostic, never a reason not
		// to answer
		b = b.WithHighWatermark(watermark)
	}
	l.srv = b.
		WithWorkerCount(workers).
		WithRequestReceivedEventHandler(func(props map[interface{}]interface{}) {
			frugal.DefaultFNatsServerOnRequestReceived(props) // keep what a server without custom handlers does
			atomic.AddInt64(&l.received, 1)
		}).
		WithRequestFinishedEventHandler(func(map[interface{}]interface{}) { atomic.AddInt64(&l.finished, 1) }).
		Build()
	go func() { l.srv.Serve(); close(l.served) }()
	deadline := time.Now().Add(20 * time.Second)
	for {
		sconn.Flush()
		if broker.HasInterest(l.subject) {
			return l, nil
		}
		if time.Now().After(deadline) {
			return nil, fmt.Errorf("nats server did not subscribe")
		}
		time.Sleep(time.Millisecond)
	}
}

func (l *natsLeg) stop() {
	stopped := make(chan struct{})
	go func() { l.srv.Stop(); close(stopped) }()
	wait := 20 * time.Second
	if l.wedged {
		wait = 200 * time.Millisecond // Serve waits for workers that will never return
	}
	select {
	case <-stopped:
	case <-time.After(wait):
	}
	select {
	case <-l.served:
	case <-time.After(wait):
	}
	l.sconn.Close()
}

// natsConn is one raw client connection: every request has its own reply
// subject, so a reply can also be checked against the request it was sent to.
type natsConn struct {
	c     *nats.Conn
	to    string
	sub   *nats.Subscription
	inbox string
	mu    sync.Mutex
	got   []natsReply
}

type natsReply struct {
	subject string
	data    []byte
}

func (l *natsLeg) open(n int) (*natsConn, error) {
	c, err := l.broker.Connect()
	if err != nil {
		return nil, err
	}
	nc := &natsConn{c: c, to: l.subject, inbox: fmt.Sprintf("_INBOX.c14.%s.%d", l.subject, n)}
	nc.sub, err = c.Subscribe(nc.inbox+".*", func(m *nats.Msg) {
		nc.mu.Lock()
		nc.got = append(nc.got, natsReply{m.Subject, append([]byte(nil), m.Data...)})
		nc.mu.Unlock()
	})
	if err != nil {
		return nil, err
	}
	nc.sub.SetPendingLimits(-1, -1)
	return nc, c.Flush()
}

func (nc *natsConn) replySubject(r *request) string {
	return fmt.Sprintf("%s.%d", nc.inbox, r.idx)
}

func (nc *natsConn) send(r *request) error {
	return nc.c.PublishRequest(nc.to, nc.replySubject(r), r.frame)
}

// drain waits until everything the broker has routed to this connection has
// been handed to the subscription callback.
func (nc *natsConn) drain() error {
	if err := nc.c.FlushTimeout(20 * time.Second); err != nil {
		return err
	}
	deadline := time.Now().Add(20 * time.Second)
	for {
		n, _, err := nc.sub.Pending()
		if err != nil || n == 0 {
			return err
		}
		if time.Now().After(deadline) {
			return fmt.Errorf("subscription still has %d pending messages", n)
		}
		time.Sleep(200 * time.Microsecond)
	}
}

func (nc *natsConn) snapshot() []natsReply {
	nc.mu.Lock()
	defer nc.mu.Unlock()
	return append([]natsReply(nil), nc.got...)
}

// sharedLeg -------------------------------------------------------------------

type sharedLeg struct {
	handler  *e2e.Handler
	client   net.Conn
	finished int64
	procErrs int64
	firstErr atomic.Value
	done     chan struct{}
}

// startSharedLeg serves one in-memory connection: frames are read in order and
// processed by up to conc goroutines at once; all replies go through one
// FProtocol over one framed transport.
func startSharedLeg(proto string, conc int) *sharedLeg {
	a, b := net.Pipe()
	l := &sharedLeg{handler: &e2e.Handler{Behave: behave}, client: a, done: make(chan struct{})}
	pf := rig.ProtocolFactory(proto)
	p := mainsvc.NewFFooProcessor(l.handler)
	out := frugal.NewTFramedTransport(thrift.NewTSocketFromConnConf(b, nil))
	oprot := pf.GetProtocol(out)
	sem := make(chan struct{}, conc)
	go func() {
		defer close(l.done)
		var wg sync.WaitGroup
		defer wg.Wait()
		for {
			hdr := make([]byte, 4)
			if _, err := io.ReadFull(b, hdr); err != nil {
				return
			}
			body := make([]byte, binary.BigEndian.Uint32(hdr))
			if _, err := io.ReadFull(b, body); err != nil {
				return
			}
			sem <- struct{}{}
			wg.Add(1)
			go func() {
				defer wg.Done()
				iprot := pf.GetProtocol(&thrift.TMemoryBuffer{Buffer: bytes.NewBuffer(body)})
				if err := p.Process(iprot, oprot); err != nil {
					atomic.AddInt64(&l.procErrs, 1)
					l.firstErr.CompareAndSwap(nil, err.Error())
				}
				atomic.AddInt64(&l.finished, 1)
				<-sem
			}()
		}
	}()
	return l
}

func (l *sharedLeg) stop() {
	l.client.Close()
	select {
	case <-l.done:
	case <-time.After(20 * time.Second):
	}
}

// streamLeg -------------------------------------------------------------------

// streamLeg is an FSimpleServer on an in-memory (pipe) or TCP listener whose
// accepted transports are known to the monitor by address, so that a goroutine
// dump can tell whether a connection still has its serving goroutine
// (FSimpleServer.accept(srv, transport)): FSimpleServer neither closes a
// connection it stops serving nor tells anybody.
type streamLeg struct {
	kind    string
	handler *e2e.Handler
	srv     *frugal.FSimpleServer
	st      *trackingServerTransport
	addr    string
	writeMu *sync.Mutex
}

type trackedTransport struct {
	thrift.TTransport
	key string
}

type trackingServerTransport struct {
	inner thrift.TServerTransport // tcp
	pipes chan *trackedTransport  // pipe
	quit  chan struct{}
	once  sync.Once
	mu    sync.Mutex
	byKey map[string]*trackedTransport
}

func (t *trackingServerTransport) Listen() error {
	if t.inner != nil {
		return t.inner.Listen()
	}
	return nil
}

func (t *trackingServerTransport) Accept() (thrift.TTransport, error) {
	if t.inner != nil {
		c, err := t.inner.Accept()
		if err != nil {
			return nil, err
		}
		w := &trackedTransport{TTransport: c}
		if s, ok := c.(*thrift.TSocket); ok && s.Conn() != nil {
			w.key = s.Conn().RemoteAddr().String()
		}
		t.mu.Lock()
		t.byKey[w.key] = w
		t.mu.Unlock()
		return w, nil
	}
	select {
	case w := <-t.pipes:
		t.mu.Lock()
		t.byKey[w.key] = w
		t.mu.Unlock()
		return w, nil
	case <-t.quit:
		return nil, thrift.NewTTransportException(thrift.NOT_OPEN, "server transport closed")
	}
}

func (t *trackingServerTransport) Close() error {
	t.once.Do(func() { close(t.quit) })
	if t.inner != nil {
		return t.inner.Close()
	}
	return nil
}

func (t *trackingServerTransport) Interrupt() error {
	t.once.Do(func() { close(t.quit) })
	if t.inner != nil {
		return t.inner.Interrupt()
	}
	return nil
}

var pipeSeq uint64

func startStreamLeg(kind, proto string) (*streamLeg, error) {
	l := &streamLeg{kind: kind, handler: &e2e.Handler{Behave: behave}}
	l.st = &trackingServerTransport{quit: make(chan struct{}), byKey: map[string]*trackedTransport{}}
	if kind == "tcp" {
		ss, err := thrift.NewTServerSocket("127.0.0.1:0")
		if err != nil {
			return nil, err
		}
		if err := ss.Listen(); err != nil {
			return nil, err
		}
		l.addr = ss.Addr().String()
		l.st.inner = ss
	} else {
		l.st.pipes = make(chan *trackedTransport, 64)
	}
	proc := mainsvc.NewFFooProcessor(l.handler)
	l.writeMu = proc.GetWriteMutex()
	l.srv = frugal.NewFSimpleServer(proc, l.st, rig.ProtocolFactory(proto))
	go l.srv.Serve()
	return l, nil
}

func (l *streamLeg) stop() { l.srv.Stop() }

// open returns a raw connection and the key under which the server side of it
// is tracked.
func (l *streamLeg) open() (rig.RawConn, string, error) {
	c, key, err := l.dial()
	if err != nil {
		return nil, "", err
	}
	return rig.NewStreamRaw(c), key, nil
}

// dial returns the bare client side of a new connection.
func (l *streamLeg) dial() (net.Conn, string, error) {
	if l.kind == "tcp" {
		c, err := net.Dial("tcp", l.addr)
		if err != nil {
			return nil, "", err
		}
		return c, c.LocalAddr().String(), nil
	}
	a, b := net.Pipe()
	w := &trackedTransport{TTransport: thrift.NewTSocketFromConnConf(b, nil), key: fmt.Sprintf("pipe-%d", atomic.AddUint64(&pipeSeq, 1))}
	l.st.pipes <- w
	return a, w.key, nil
}

// serving reports what a goroutine dump says about the connection: served =
// a goroutine is inside FSimpleServer.accept for this server and this
// transport; undecided = the server has not accepted it yet or a connection
// goroutine of this process has been created but has not entered accept yet.
func (l *streamLeg) serving(key string) (served, undecided, idle bool) {
	l.st.mu.Lock()
	w := l.st.byKey[key]
	l.st.mu.Unlock()
	if w == nil {
		return false, true, false
	}
	srvPtr, trPtr := fmt.Sprintf("(%p, ", l.srv), fmt.Sprintf("%p}", w)
	for _, g := range strings.Split(allStacks(), "\n\n") {
		lines := strings.Split(g, "\n")
		hasAccept := false
		for _, ln := range lines {
			if strings.HasPrefix(ln, "github.com/Workiva/frugal/lib/go.(*FSimpleServer).accept(") {
				hasAccept = true
				if strings.Contains(ln, srvPtr) && strings.Contains(ln, trPtr) {
					// idle = parked at a request boundary: Process is waiting for the
					// size prefix of the next frame, nothing is buffered or half read
					idle = strings.Contains(g, "(*TFramedTransport).readFrameHeader(") &&
						strings.Contains(g, "lib/go.readHeader(") &&
						strings.Contains(g, "(*FProtocol).ReadRequestHeader(") &&
						(strings.Contains(lines[0], "[IO wait") || strings.Contains(lines[0], "[select"))
					return true, false, idle
				}
			}
		}
		if !hasAccept && strings.Contains(g, "(*FSimpleServer).acceptLoop.func1") && !strings.Contains(g, "(*FSimpleServer).acceptLoop(") {
			undecided = true // a connection goroutine that has not reached accept yet
		}
	}
	return false, undecided, false
}

// abandonProbe decides, from goroutine dumps taken while a connection makes no
// progress, that waiting is pointless.  Two dumps at least 1.5 s apart, no
// reply frame in between, and both times either
//   - "abandoned": no goroutine is serving a connection the server had accepted
//     (FSimpleServer.accept returned and left the connection open), or
//   - "idle": the serving goroutine is parked at a request boundary, waiting
//     for the size prefix of a NEXT frame: a simple server works a connection
//     off sequentially, so everything sent before has been consumed and will
//     not be answered any more.
type abandonProbe struct {
	leg      *streamLeg
	key      string
	progress func() int64 // reply frames collected on this connection
	last     time.Time
	lastProg int64
	state    string
	count    int
	verdict  atomic.Value // string
	sample   string
}

func (p *abandonProbe) result() string {
	if p == nil {
		return ""
	}
	v, _ := p.verdict.Load().(string)
	return v
}

func (p *abandonProbe) check() bool {
	if p == nil {
		return false
	}
	if p.result() != "" {
		return true
	}
	if time.Since(p.last) < 1500*time.Millisecond {
		return false
	}
	p.last = time.Now()
	prog := p.progress()
	served, undecided, idle := p.leg.serving(p.key)
	state := ""
	switch {
	case undecided:
	case !served:
		state = "abandoned"
	case idle:
		state = "idle"
	default:
		// busy: is it parked on a write mutex that nobody holds any more?
		if ids, sample := orphanedWriteMutex(p.leg.writeMu); ids != "" {
			state = "write-mutex-orphaned:" + ids
			p.sample = sample
		}
	}
	if state == "" || state != p.state || prog != p.lastProg {
		p.state, p.count, p.lastProg = state, 0, prog
		if state != "" {
			p.count = 1
		}
		return false
	}
	p.count++
	if p.count >= 2 {
		p.verdict.Store(state)
		return true
	}
	return false
}

// httpLeg ---------------------------------------------------------------------

// httpLeg is the library's HTTP handler behind net/http/httptest; requests are
// posted by the monitor itself so that it controls the headers (a client may
// announce a response size limit with x-frugal-payload-limit).
type httpLeg struct {
	handler *e2e.Handler
	srv     *httptest.Server
	client  *http.Client // nil: http.DefaultClient
}

// keepAlive: n concurrent posters each keep a connection of their own open
// (the default client keeps two per host and dials anew for the others).
func (l *httpLeg) keepAlive(n int) {
	l.client = &http.Client{Transport: &http.Transport{MaxIdleConns: n + 2, MaxIdleConnsPerHost: n + 2}}
}

func startHTTPLeg(proto string) *httpLeg {
	l := &httpLeg{handler: &e2e.Handler{Behave: behave}}
	l.srv = httptest.NewServer(frugal.NewFrugalHandlerFunc(mainsvc.NewFFooProcessor(l.handler), rig.ProtocolFactory(proto)))
	return l
}

func (l *httpLeg) stop() {
	if l.client != nil {
		l.client.Transport.(*http.Transport).CloseIdleConnections()
	}
	l.srv.Close()
}

// post sends one frame; it returns the decoded response frame (200 only), the
// status and a transport-level error text.
func (l *httpLeg) post(frame []byte, respLimit int) ([]byte, int, string) {
	req, err := http.NewRequest("POST", l.srv.URL, strings.NewReader(base64.StdEncoding.EncodeToString(frame)))
	if err != nil {
		return nil, 0, err.Error()
	}
	req.Header.Set("content-type", "application/x-frugal")
	req.Header.Set("content-transfer-encoding", "base64")
	if respLimit > 0 {
		req.Header.Set("x-frugal-payload-limit", fmt.Sprint(respLimit))
	}
	cl := l.client
	if cl == nil {
		cl = http.DefaultClient
	}
	resp, err := cl.Do(req)
	if err != nil {
		return nil, 0, err.Error()
	}
	defer resp.Body.Close()
	b, _ := io.ReadAll(resp.Body)
	if resp.StatusCode != 200 {
		return nil, resp.StatusCode, fmt.Sprintf("http status %d: %s", resp.StatusCode, strings.TrimSpace(string(b)))
	}
	dec, err := base64.StdEncoding.DecodeString(string(b))
	if err != nil {
		return nil, 200, "reply is not base64: " + err.Error()
	}
	return dec, 200, ""
}
