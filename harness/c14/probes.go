package main

// Fixed probes run before the generated sequences.  They look for one specific
// failure of the simple server that otherwise poisons every later request of a
// connection: a well-formed frame rejected as malformed because it was not
// completely buffered when its tail was read (a big frame, or several frames
// arriving in one segment).  The outcome decides whether the generated JSON
// sequences on stream legs are restricted (genSpec).

import (
	"fmt"
	"math/rand"
	"strings"
	"time"

	"github.com/apache/thrift/lib/go/thrift"

	"verif/rig"
	"verif/wire"
)

const probeBase = 1000000

// probeSpecs: for pipe and tcp and every protocol (a) one connection with one
// big echo request per size, (b) 60 small requests written with one Write.
func probeSpecs() (bigs, bursts []*seqSpec) {
	// the probes are the same in every run: their outcome, not their content,
	// is what the rest of the run depends on
	fixed := rand.New(rand.NewSource(20260929))
	rng := func(string) *rand.Rand { return fixed }
	id := probeBase
	for _, leg := range []string{"pipe", "tcp"} {
		for _, proto := range rig.Protocols {
			for _, size := range []int{3000, 6000, 20000, 70000} {
				s := &seqSpec{id: id, leg: leg, proto: proto, mode: "probe-big", conns: 1, lockstep: true, rng: rng("probe")}
				r := newRequest(s.rng, proto, kPing, genOpts{stream: true})
				r.idx = 0
				big := bigEcho(s.rng, proto, size)
				big.idx = 1
				s.reqs = []*request{r, big}
				s.perConn = [][]*request{s.reqs}
				s.sentinel = []*request{newSentinel(s.rng, proto)}
				s.sentinel[0].idx = 100000
				bigs = append(bigs, s)
				id++
			}
			s := &seqSpec{id: id, leg: leg, proto: proto, mode: "probe-burst", conns: 1, burst: true, rng: rng("probe")}
			for i := 0; i < 60; i++ {
				k := []int{kAdd, kEchoOK, kPing, kGetBig}[i%4]
				// every frame below 3000 bytes: what fails here fails although each
				// frame alone would fit the server's read buffer
				r := newRequest(s.rng, proto, k, genOpts{stream: true, smallOnly: i%3 != 0})
				for len(r.frame) > 3000 {
					plans.Delete(r.token)
					r = newRequest(s.rng, proto, k, genOpts{stream: true, smallOnly: i%3 != 0})
				}
				r.idx = i
				s.reqs = append(s.reqs, r)
			}
			s.perConn = [][]*request{s.reqs}
			s.sentinel = []*request{newSentinel(s.rng, proto)}
			s.sentinel[0].idx = 100000
			bursts = append(bursts, s)
			id++
		}
	}
	// unknown method, then valid requests, on ONE persistent connection, every
	// protocol: a server that keeps one input protocol per connection must leave
	// it at a message boundary after the unknown-method branch
	for _, leg := range []string{"pipe", "tcp"} {
		for _, proto := range rig.Protocols {
			for _, lock := range []bool{true, false} {
				s := &seqSpec{id: id, leg: leg, proto: proto, mode: "probe-unknown-then-valid", conns: 1, lockstep: lock, rng: fixed}
				for i, k := range []int{kPing, kUnknown, kPing, kUnknown, kEchoOK, kUnknown, kUnknown, kAdd, kErrInternal, kUnknown, kGetBig} {
					r := newRequest(fixed, proto, k, genOpts{stream: true, smallOnly: true})
					r.idx = i
					s.reqs = append(s.reqs, r)
				}
				s.perConn = [][]*request{s.reqs}
				s.sentinel = []*request{newSentinel(fixed, proto)}
				s.sentinel[0].idx = 100000
				bursts = append(bursts, s)
				id++
			}
		}
	}
	// one HTTP handler: requests refused with 413 (reply over the limit the
	// client announced) in between ordinary requests, one request at a time
	for _, proto := range rig.Protocols {
		s := &seqSpec{id: id, leg: "http", proto: proto, mode: "probe-413-then-valid", conns: 1, rng: fixed}
		for i := 0; i < 48; i++ {
			k := []int{kPing, kHTTPOverLimit, kAdd, kEchoOK, kHTTPOverLimit, kGetBig, kUnknown, kErrInternal}[i%8]
			r := newRequest(fixed, proto, k, genOpts{smallOnly: k != kHTTPOverLimit})
			r.idx = i
			s.reqs = append(s.reqs, r)
		}
		s.perConn = [][]*request{s.reqs}
		s.sentinel = []*request{newSentinel(fixed, proto)}
		bursts = append(bursts, s)
		id++
	}
	// op id "" and friends, one request at a time, on every kind of server; and
	// a NATS server whose queue holds requests for longer than its high watermark
	for _, leg := range []string{"pipe", "tcp", "http", "nats", "shared"} {
		for _, proto := range rig.Protocols {
			s := &seqSpec{id: id, leg: leg, proto: proto, mode: "probe-opid-forms", conns: 1, workers: 1, lockstep: true, rng: fixed}
			if leg == "shared" {
				s.conns = 2
			}
			for i, form := range []string{"", "007", "-", "+5", "-", "18446744073709551616", "-", "req-42", "-", "1e3", "-", "18446744073709551615"} {
				r := newRequest(fixed, proto, []int{kPing, kAdd, kEchoOK}[i%3], genOpts{stream: true, smallOnly: true})
				r.idx = i
				if i%2 == 1 || i == 0 {
					setOpid(r, proto, form)
				}
				s.reqs = append(s.reqs, r)
			}
			s.perConn = [][]*request{s.reqs}
			s.sentinel = []*request{newSentinel(fixed, proto)}
			s.sentinel[0].idx = 100000
			bursts = append(bursts, s)
			id++
		}
	}
	for _, proto := range rig.Protocols {
		s := &seqSpec{id: id, leg: "nats", proto: proto, mode: "probe-backlog-beyond-high-watermark", conns: 1, workers: 1, watermark: 5 * time.Millisecond, rng: fixed}
		for i := 0; i < 12; i++ {
			r := newRequest(fixed, proto, []int{kAdd, kPing, kEchoOK, kGetBig}[i%4], genOpts{smallOnly: true})
			r.idx = i
			if v, ok := plans.Load(r.token); ok {
				v.(*plan).delay = 8 * time.Millisecond
			}
			s.reqs = append(s.reqs, r)
		}
		s.perConn = [][]*request{s.reqs}
		s.sentinel = []*request{newSentinel(fixed, proto)}
		bursts = append(bursts, s)
		id++
	}
	// many callers at once, three requests in four naming a method the server
	// has never seen (a fresh name each time)
	for _, v := range []struct {
		leg            string
		conns, workers int
	}{{"http", 16, 0}, {"nats", 4, 8}, {"pipe", 16, 0}, {"tcp", 16, 0}, {"shared", 16, 0}} {
		for _, proto := range rig.Protocols {
			s := &seqSpec{id: id, leg: v.leg, proto: proto, mode: "probe-concurrent-fresh-unknown-methods", conns: v.conns, workers: v.workers, rng: fixed}
			nc := v.conns
			if v.leg == "http" || v.leg == "shared" {
				nc = 1
			}
			s.perConn = make([][]*request, nc)
			for i := 0; i < 160; i++ {
				k := kUnknown
				if i%4 == 3 {
					k = []int{kAdd, kPing, kEchoOK}[(i/4)%3]
				}
				r := newRequest(fixed, proto, k, genOpts{stream: v.leg == "pipe" || v.leg == "tcp", smallOnly: true})
				if k == kUnknown {
					setMethod(r, proto, fmt.Sprintf("fresh%d.%s", i, r.token))
				}
				r.idx = i
				r.conn = i % nc
				s.reqs = append(s.reqs, r)
				s.perConn[r.conn] = append(s.perConn[r.conn], r)
			}
			for c := 0; c < nc; c++ {
				sn := newSentinel(fixed, proto)
				sn.conn, sn.idx = c, 100000+c
				s.sentinel = append(s.sentinel, sn)
			}
			bursts = append(bursts, s)
			id++
		}
	}
	return bigs, bursts
}

// setMethod rebuilds r's frame with another method name (same headers, same
// arguments are not kept: an empty argument struct).
func setMethod(r *request, proto, name string) {
	hdrs, _, err := wire.ParseFrame(r.frame)
	if err != nil {
		panic(err)
	}
	msg, err := wire.EncodeMessage(rig.TProtocolFactory(proto), &wire.Message{Name: name, Type: thrift.CALL, Body: wire.Struct(wire.F(1, wire.Str(r.token)))})
	if err != nil {
		panic(err)
	}
	r.method = name
	r.frame = wire.BuildFrame(wire.MapToPairs(hdrs), msg)
}

// natsBoundary: replies of a NATS server whose frame size sweeps the 1 MiB
// output limit byte by byte.  The fixed overhead of a getBig reply is
// calibrated with a measured reply (op ids of constant width), then results of
// limit-2 ... limit+3 framed bytes are asked for: up to the limit exactly one
// REPLY with the string, above it exactly one EXCEPTION RESPONSE_TOO_LARGE;
// ordinary requests in between and after must be answered too.
func natsBoundary(id int, proto string, broker *rig.NatsServer, runOne func(*seqSpec) *seqResult) {
	fixed := rand.New(rand.NewSource(20260930))
	const limit = 1024 * 1024
	seq := uint64(0)
	getBig := func(n int) *request {
		r := newRequest(fixed, proto, kGetBig, genOpts{smallOnly: true})
		seq++
		setOpid(r, proto, fmt.Sprintf("7%09d", uint64(id)*1000+seq))
		r.opidForm = ""
		big := strings.Repeat("0123456789abcdef", n/16+1)[:n]
		if v, ok := plans.Load(r.token); ok {
			v.(*plan).ret = big
		}
		e := wire.Struct(wire.F(0, wire.Str(big)))
		r.expBody = &e
		return r
	}
	mk := func(mode string, reqs []*request) *seqSpec {
		s := &seqSpec{id: id, leg: "nats", proto: proto, mode: mode, conns: 1, workers: 2, rng: fixed}
		for i, r := range reqs {
			r.idx, r.conn = i, 0
		}
		s.reqs = reqs
		s.perConn = [][]*request{reqs}
		s.sentinel = []*request{newSentinel(fixed, proto)}
		return s
	}
	const n0 = 1000000
	cal := getBig(n0)
	res := runOne(mk("probe-nats-reply-boundary-calibration", []*request{cal}))
	if res == nil || cal.replyCount() != 1 {
		return // judged (and reported) like any other sequence
	}
	r0 := len(cal.replies[0])
	var reqs []*request
	for d := -2; d <= 3; d++ {
		n := n0 + (limit + d - r0)
		r := getBig(n)
		r.label = fmt.Sprintf("reply-frame-of-limit%+d-bytes", d)
		if d > 0 {
			r.kind = kOversize
			r.expType, r.expExType, r.expBody = thrift.EXCEPTION, 100, nil
		}
		reqs = append(reqs, r, newRequest(fixed, proto, []int{kPing, kAdd, kEchoOK}[(d+2)%3], genOpts{smallOnly: true}))
	}
	s := mk("probe-nats-reply-boundary", reqs)
	s.id = id + 1
	s.note = fmt.Sprintf("reply frame sizes %d-2 ... %d+3 (calibrated: a getBig reply of %d result bytes is a frame of %d bytes)", limit, limit, n0, r0)
	runOne(s)
}

// setOpid rebuilds r's frame with the given _opid value (other headers and the
// message unchanged).
func setOpid(r *request, proto, opid string) {
	hdrs, payload, err := wire.ParseFrame(r.frame)
	if err != nil {
		panic(err)
	}
	hdrs["_opid"] = opid
	r.opid = opid
	r.opidForm = "non-canonical"
	if opid == "" {
		r.opidForm = "empty"
	}
	r.frame = wire.BuildFrame(wire.MapToPairs(hdrs), payload)
}

// bigEcho is an echo of a BigMap payload of about n bytes.
func bigEcho(rng *rand.Rand, proto string, n int) *request {
	r := newRequest(rng, proto, kPing, genOpts{})
	plans.Delete(r.token)
	r.kind = kEchoOK
	r.method = "echo"
	// a container with many short members: the shape of ordinary data
	var ks, vs []wire.Value
	for i := 0; i*40 < n; i++ {
		ks = append(ks, wire.Str(fmt.Sprintf("key-%06d", i)))
		v := make([]byte, 12+rng.Intn(6))
		for j := range v {
			v[j] = byte('a' + rng.Intn(26))
		}
		vs = append(vs, wire.Str(string(v)))
	}
	p := wire.Struct(wire.F(4, wire.Struct(wire.F(1, wire.I32(7)), wire.F(2, wire.Map(thrift.STRING, thrift.STRING, ks, vs)))))
	e := wire.Struct(wire.F(0, p))
	r.expBody = &e
	msg, err := wire.EncodeMessage(rig.TProtocolFactory(proto), &wire.Message{Name: "echo", Type: thrift.CALL, Body: wire.Struct(wire.F(1, p), wire.F(2, wire.Str("t")))})
	if err != nil {
		panic(err)
	}
	r.frame = wire.BuildFrame([]wire.Pair{{Name: "_opid", Value: r.opid}, {Name: "_cid", Value: r.cid}}, msg)
	return r
}
