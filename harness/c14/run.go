package main

import (
	"encoding/hex"
	"fmt"
	"math/rand"
	"strconv"
	"strings"
	"sync"
	"sync/atomic"
	"time"

	"github.com/apache/thrift/lib/go/thrift"

	"verif/rig"
	"verif/wire"
)

// seqSpec is one generated request sequence.
type seqSpec struct {
	id         int
	leg        string // pipe tcp http nats shared
	proto      string
	mode       string // seq | conc
	conns      int    // connections (pipe/tcp/nats) or concurrent posts (http) or handler concurrency (shared)
	workers    int    // nats
	lockstep   bool
	restricted bool
	note       string        // probes: what the sequence is about
	watermark  time.Duration // nats: server high watermark, with handlers slow enough to build a backlog older than it
	abort      *request      // pipe/tcp: sent on an extra connection that is closed at once, before the reply can be read
	burst      bool          // probe: all frames of a connection written with one Write
	keepAlive  bool          // http probe: every concurrent poster keeps its own connection to the server open
	reqs       []*request
	perConn    [][]*request
	sentinel   []*request
	rng        *rand.Rand
}

func (s *seqSpec) shape() string {
	var sb strings.Builder
	for _, r := range s.reqs {
		sb.WriteByte(kindLetters[r.kind])
	}
	return sb.String()
}

func (s *seqSpec) abortNote() string {
	if s.abort == nil {
		return "none"
	}
	return fmt.Sprintf("an extra connection sent an unknown-method request (%d-byte frame) and closed without reading the reply", len(s.abort.frame))
}

func (s *seqSpec) describe() map[string]interface{} {
	return map[string]interface{}{"sequence": s.id, "leg": s.leg, "proto": s.proto, "mode": s.mode, "conns": s.conns,
		"note": s.note, "nats_workers": s.workers, "nats_high_watermark": s.watermark.String(), "lockstep": s.lockstep, "kinds": s.shape(), "json_stream_restricted": s.restricted,
		"one_write_burst": s.burst, "regenerate": fmt.Sprintf("VERIF_SEED=<seed> ./check C14 <tier> --seq %d (ids >= 1000000 are the fixed probes)", s.id)}
}

// genSpec derives sequence id from the seeded stream.  restrictJSONStream is
// set when the probes found that the simple server rejects well-formed JSON
// frames that are not completely buffered (see probes.go): JSON sequences on
// stream legs then stay lock-step with small frames so that the monitor does
// not drown in consequences of that one defect.
func genSpec(id int, rng *rand.Rand, restrictJSONStream, oversize bool) *seqSpec {
	variants := []struct{ leg, mode string }{{"pipe", "seq"}, {"tcp", "seq"}, {"pipe", "conc"}, {"tcp", "conc"}, {"http", "conc"}, {"nats", "conc"}, {"shared", "conc"}}
	v := variants[id%7]
	s := &seqSpec{id: id, leg: v.leg, mode: v.mode, proto: rig.Protocols[(id/7)%3], rng: rng, conns: 1}
	u := rng.Float64()
	n := 5 + int(195*u*u)
	switch {
	case v.mode == "seq":
		s.lockstep = rng.Intn(2) == 0
	case v.leg == "pipe" || v.leg == "tcp":
		s.conns = 1 + rng.Intn(16)
		s.lockstep = rng.Intn(3) == 0
	case v.leg == "http":
		s.conns = 1 + rng.Intn(32)
	case v.leg == "nats":
		s.conns = 1 + rng.Intn(4)
		s.workers = 1 + rng.Intn(8)
	case v.leg == "shared":
		s.conns = 2 + rng.Intn(15)
	}
	stream := v.leg == "pipe" || v.leg == "tcp"
	opts := genOpts{stream: stream}
	if stream && s.proto == "json" && restrictJSONStream {
		opts.smallOnly = true
		s.lockstep = true
		s.restricted = true
	}
	nc := s.conns
	if v.leg == "http" || v.leg == "shared" {
		nc = 1
	}
	s.perConn = make([][]*request, nc)
	// NATS: one request whose (successful) reply exceeds the server's 1 MiB
	// output buffer, never last: requests on the same and on other client
	// connections follow it
	overAt, hugeAt := -1, -1
	if v.leg == "nats" && oversize {
		overAt = rng.Intn(n - 2)
		hugeAt = rng.Intn(n - 2)
	}
	unanswered := make([]bool, nc)
	for i := 0; i < n; i++ {
		c := rng.Intn(nc)
		k := pickKind(rng, !stream)
		if i == overAt {
			k = kOversize
		} else if i == hugeAt {
			k = kUnknownHuge
		}
		if v.leg == "http" && i < n-1 && rng.Intn(10) == 0 {
			k = kHTTPOverLimit // several per sequence, each followed by other requests
		}
		if opts.smallOnly && unanswered[c] {
			for k == kFire || k == kFireFail {
				k = pickKind(rng, false)
			}
		}
		r := newRequest(rng, s.proto, k, opts)
		if v.leg == "http" && fitsLimitEligible(r) && rng.Intn(4) == 0 {
			// a caller that announces a response limit which this reply fits
			r.limitFill = drawFill(rng)
		}
		unanswered[c] = r.oneway || r.lenient
		r.idx = i
		r.conn = c
		s.reqs = append(s.reqs, r)
		s.perConn[r.conn] = append(s.perConn[r.conn], r)
	}
	if stream {
		// a malformed request may only end a connection (false-alarm guard)
		for c := 0; c < nc; c++ {
			if rng.Intn(3) == 0 {
				k := kMalType
				if rng.Intn(3) == 0 {
					k = kMalTrunc
				}
				r := newRequest(rng, s.proto, k, opts)
				r.idx = len(s.reqs)
				r.conn = c
				s.reqs = append(s.reqs, r)
				s.perConn[c] = append(s.perConn[c], r)
			}
		}
	}
	if v.leg == "nats" && rng.Intn(3) == 0 {
		// a small high watermark and slow handlers: most requests wait in the
		// server's queue for longer than the watermark - and are answered
		s.watermark = time.Duration(1+rng.Intn(3)) * time.Millisecond
		s.workers = 1 + rng.Intn(2)
		for _, r := range s.reqs {
			if v, ok := plans.Load(r.token); ok {
				v.(*plan).delay = time.Duration(500+rng.Intn(1500)) * time.Microsecond
			}
		}
	}
	if stream && rng.Intn(2) == 0 {
		// a client that goes away while its unknown-method request is being
		// answered: nothing is asserted about that request, everything about
		// the other connections (tcp: a reply too big for the socket buffers)
		k := kUnknown
		if v.leg == "tcp" {
			k = kUnknownHuge
		}
		s.abort = newRequest(rng, s.proto, k, genOpts{stream: true})
		s.abort.idx = 200000
	}
	for c := 0; c < nc; c++ {
		sn := newSentinel(rng, s.proto)
		sn.conn = c
		sn.idx = 100000 + c
		s.sentinel = append(s.sentinel, sn)
	}
	return s
}

// seqResult is what the monitor saw besides the per-request replies.
type seqResult struct {
	mu           sync.Mutex
	inconclusive []string
	strays       []stray
	closed       map[int]string // conn -> reason the server side ended it
	stacks       map[int]string
	abandoned    map[int]string  // stream conn: the server has no goroutine serving it any more, yet left it open
	deadlock     *deadlockReport // NATS: workers proven parked for good on the write mutex
	desync       map[int]int     // stream conn -> index of the well-formed request the server rejected as malformed
	byOpid       map[string]*request
	pf           thrift.TProtocolFactory
	framesIn     int
	notes        []string
}

type stray struct {
	conn   int
	reason string
	frame  []byte
}

func (res *seqResult) inconc(s string) {
	res.mu.Lock()
	res.inconclusive = append(res.inconclusive, s)
	res.mu.Unlock()
}

// attribute files a received frame under the request whose op id it carries.
func (res *seqResult) attribute(conn int, frame []byte, via string) {
	res.mu.Lock()
	res.framesIn++
	res.mu.Unlock()
	hdrs, _, err := wire.ParseFrame(frame)
	if err != nil {
		res.addStray(conn, "frame does not parse: "+err.Error(), frame)
		return
	}
	r := res.byOpid[hdrs["_opid"]]
	if r == nil {
		for _, o := range res.byOpid {
			if o.opidForm == "" {
				continue
			}
			if v, err := strconv.ParseUint(strings.TrimSpace(o.opid), 10, 64); err == nil && strconv.FormatUint(v, 10) == hdrs["_opid"] {
				res.addStray(conn, fmt.Sprintf("op id rewritten: the request carried _opid %q, the reply carries %q", o.opid, hdrs["_opid"]), frame)
				o.mu.Lock()
				o.rewritten = true
				o.mu.Unlock()
				return
			}
		}
		res.addStray(conn, fmt.Sprintf("reply carries op id %q which no request of this sequence has", hdrs["_opid"]), frame)
		return
	}
	if r.conn != conn {
		res.addStray(conn, fmt.Sprintf("reply for op id %s arrived on connection %d, the request went out on connection %d", r.opid, conn, r.conn), frame)
	}
	r.mu.Lock()
	r.replies = append(r.replies, frame)
	r.mu.Unlock()
	if via == "stream" && !r.taints && rejectedAsMalformed(res.pf, frame) {
		res.mu.Lock()
		if _, ok := res.desync[conn]; !ok {
			res.desync[conn] = r.idx
		}
		res.mu.Unlock()
	}
}

// rejectedAsMalformed: the reply is EXCEPTION / PROTOCOL_ERROR.
func rejectedAsMalformed(pf thrift.TProtocolFactory, frame []byte) bool {
	_, payload, err := wire.ParseFrame(frame)
	if err != nil {
		return false
	}
	m, err := wire.DecodeMessage(pf, payload)
	if err != nil || m.Type != thrift.EXCEPTION {
		return false
	}
	tv, ok := m.Body.Get(2)
	return ok && tv.T == thrift.I32 && tv.I == thrift.PROTOCOL_ERROR
}

func (res *seqResult) isDesync(conn int) bool {
	res.mu.Lock()
	defer res.mu.Unlock()
	_, ok := res.desync[conn]
	return ok
}

func (res *seqResult) addStray(conn int, reason string, frame []byte) {
	res.mu.Lock()
	res.strays = append(res.strays, stray{conn, reason, frame})
	res.mu.Unlock()
}

func (r *request) replyCount() int {
	r.mu.Lock()
	defer r.mu.Unlock()
	return len(r.replies)
}

// waitFor polls cond until it holds or the deadline passes.
func waitFor(deadline time.Time, cond func() bool) bool {
	d := 50 * time.Microsecond
	for {
		if cond() {
			return true
		}
		if time.Now().After(deadline) {
			return cond()
		}
		time.Sleep(d)
		if d < 2*time.Millisecond {
			d *= 2
		}
	}
}

const watchdog = 20 * time.Second

// sendWithWatchdog runs a blocking send; false = still blocked at the deadline.
func sendWithWatchdog(deadline time.Time, send func() error, abort ...func() bool) (error, bool) {
	done := make(chan error, 1)
	go func() { done <- send() }()
	tick := time.NewTicker(50 * time.Millisecond)
	defer tick.Stop()
	for {
		select {
		case err := <-done:
			return err, true
		case <-tick.C:
			if time.Now().After(deadline) {
				return nil, false
			}
			for _, a := range abort {
				if a() {
					return nil, false
				}
			}
		}
	}
}

// runStreamConn drives one connection of a simple-server (or shared) leg.
func runStreamConn(s *seqSpec, c int, raw rig.RawConn, res *seqResult, barrier func(deadline time.Time) bool, probe *abandonProbe) {
	deadline := time.Now().Add(watchdog)
	var closed int32
	var got int64
	if probe != nil {
		probe.progress = func() int64 { return atomic.LoadInt64(&got) }
	}
	collected := make(chan struct{})
	go func() {
		defer close(collected)
		for f := range raw.Replies() {
			res.attribute(c, f, "stream")
			atomic.AddInt64(&got, 1)
		}
		reason := "closed"
		select {
		case err := <-raw.Errs():
			reason = err.Error()
		default:
		}
		res.mu.Lock()
		res.closed[c] = reason
		res.mu.Unlock()
		atomic.StoreInt32(&closed, 1)
	}()
	// the server treated a well-formed frame as malformed: from here on the
	// connection is in the state the design's guard describes - stop using it
	isClosed := func() bool { return atomic.LoadInt32(&closed) == 1 || res.isDesync(c) || probe.check() }
	if probe != nil {
		probe.last = time.Now()
	}
	tainted := false
	stuck := false
	if s.burst {
		var all []byte
		for _, r := range s.perConn[c] {
			all = append(all, r.frame...)
		}
		if _, ok := sendWithWatchdog(deadline, func() error { return raw.Send(all) }, probe.check); !ok && !probe.check() {
			res.inconc(fmt.Sprintf("sequence %d (%s/%s): the one-write burst is still blocked after %v", s.id, s.leg, s.proto, watchdog))
			stuck = true
		}
	}
	for _, r := range s.perConn[c] {
		r := r
		if s.burst || res.isDesync(c) {
			break
		}
		err, ok := sendWithWatchdog(deadline, func() error { return raw.Send(r.frame) }, probe.check)
		if !ok && probe.check() {
			stuck = true
			break
		}
		if !ok {
			res.inconc(fmt.Sprintf("sequence %d (%s/%s): sending request %d (%s) on connection %d is still blocked after %v (server not reading)", s.id, s.leg, s.proto, r.idx, r.kindName(), c, watchdog))
			stuck = true
			break
		}
		if err != nil {
			r.sendErr = err.Error()
			break
		}
		if r.taints {
			tainted = true
		}
		if s.lockstep && !r.oneway && !r.lenient {
			waitFor(deadline, func() bool { return r.replyCount() > 0 || isClosed() })
		}
	}
	if !stuck {
		all := waitFor(deadline, func() bool {
			if isClosed() {
				return true
			}
			for _, r := range s.perConn[c] {
				if !r.oneway && !r.lenient && r.sendErr == "" && r.replyCount() == 0 {
					return false
				}
			}
			return true
		})
		switch {
		case isClosed():
		case s.burst && stuck:
		case !all:
			res.inconc(fmt.Sprintf("sequence %d (%s/%s): connection %d still open but replies are outstanding after %v", s.id, s.leg, s.proto, c, watchdog))
		case tainted:
			// after malformed arguments the rest of the connection is undefined:
			// no barrier request possible; a short grace only for the lenient case
			time.Sleep(30 * time.Millisecond)
		default:
			if barrier != nil && !barrier(deadline) {
				res.inconc(fmt.Sprintf("sequence %d (%s/%s): server did not finish all frames within %v", s.id, s.leg, s.proto, watchdog))
			}
			sn := s.sentinel[c]
			err, ok := sendWithWatchdog(deadline, func() error { return raw.Send(sn.frame) }, probe.check)
			if !ok || err != nil {
				if !ok && probe.check() {
				} else if !ok {
					res.inconc(fmt.Sprintf("sequence %d (%s/%s): barrier request on connection %d blocked", s.id, s.leg, s.proto, c))
				} else {
					sn.sendErr = err.Error()
				}
			} else if !waitFor(deadline, func() bool { return sn.replyCount() > 0 || isClosed() }) {
				res.inconc(fmt.Sprintf("sequence %d (%s/%s): barrier request on connection %d unanswered after %v", s.id, s.leg, s.proto, c, watchdog))
			}
		}
	}
	if v := probe.result(); v != "" {
		res.mu.Lock()
		res.abandoned[c] = v
		res.stacks[c] = probe.sample
		res.mu.Unlock()
	}
	wasClosed := atomic.LoadInt32(&closed) == 1
	raw.Close()
	select {
	case <-collected:
	case <-time.After(10 * time.Second):
	}
	if !wasClosed {
		res.mu.Lock()
		delete(res.closed, c) // we closed it ourselves
		res.mu.Unlock()
	}
}

// runSequence executes one sequence against a fresh server.
func runSequence(s *seqSpec, broker *rig.NatsServer) *seqResult {
	res := &seqResult{closed: map[int]string{}, abandoned: map[int]string{}, stacks: map[int]string{}, desync: map[int]int{}, byOpid: map[string]*request{}, pf: rig.TProtocolFactory(s.proto)}
	for _, r := range s.reqs {
		res.byOpid[r.opid] = r
	}
	for _, r := range s.sentinel {
		res.byOpid[r.opid] = r
	}
	switch s.leg {
	case "pipe", "tcp":
		leg, err := startStreamLeg(s.leg, s.proto)
		if err != nil {
			res.inconc("cannot start leg: " + err.Error())
			return res
		}
		var wg sync.WaitGroup
		if s.abort != nil {
			wg.Add(1)
			go func() {
				defer wg.Done()
				if c, _, err := leg.dial(); err == nil {
					done := make(chan struct{})
					go func() { c.Write(s.abort.frame); close(done) }()
					select {
					case <-done:
					case <-time.After(5 * time.Second):
					}
					c.Close()
				}
			}()
		}
		for c := range s.perConn {
			raw, key, err := leg.open()
			if err != nil {
				res.inconc("cannot open connection: " + err.Error())
				continue
			}
			wg.Add(1)
			go func(c int) {
				defer wg.Done()
				runStreamConn(s, c, raw, res, nil, &abandonProbe{leg: leg, key: key})
			}(c)
		}
		wg.Wait()
		leg.stop()
	case "shared":
		leg := startSharedLeg(s.proto, s.conns)
		raw := rig.NewStreamRaw(leg.client)
		sent := int64(len(s.perConn[0]))
		runStreamConn(s, 0, raw, res, func(deadline time.Time) bool {
			return waitFor(deadline, func() bool { return atomic.LoadInt64(&leg.finished) >= sent })
		}, nil)
		leg.stop()
		if n := atomic.LoadInt64(&leg.procErrs); n > 0 {
			res.notes = append(res.notes, fmt.Sprintf("process-error:%d:%v", n, leg.firstErr.Load()))
		}
	case "http":
		leg := startHTTPLeg(s.proto)
		if s.keepAlive {
			leg.keepAlive(s.conns)
		}
		var next int64 = -1
		var wg sync.WaitGroup
		deadline := time.Now().Add(watchdog)
		if len(s.reqs) > 1000 {
			deadline = time.Now().Add(6 * watchdog) // thousands of posts on a loaded machine
		}
		for w := 0; w < s.conns; w++ {
			wg.Add(1)
			go func() {
				defer wg.Done()
				for {
					i := int(atomic.AddInt64(&next, 1))
					if i >= len(s.reqs) {
						return
					}
					r := s.reqs[i]
					var f []byte
					var errText string
					if r.limitFill > 0 {
						// what this request's reply weighs: the same frame posted
						// without a limit (a measurement, not the judged reply)
						var mf []byte
						var mst int
						var merr string
						if _, ok := sendWithWatchdog(deadline, func() error { mf, mst, merr = leg.post(r.frame, 0); return nil }); !ok {
							res.inconc(fmt.Sprintf("sequence %d (http/%s): measuring POST of request %d (%s) unanswered after %v", s.id, s.proto, r.idx, r.kindName(), watchdog))
							return
						}
						if mst == 200 && merr == "" && len(mf) > 4 {
							r.unlimitedLen = len(mf)
							r.respLimit = limitFor(len(mf), r.limitFill)
						}
						// otherwise there is no reply frame to measure: the request goes
						// out without a limit and is judged like any other
					}
					_, ok := sendWithWatchdog(deadline, func() error { f, r.httpStatus, errText = leg.post(r.frame, r.respLimit); return nil })
					if !ok {
						res.inconc(fmt.Sprintf("sequence %d (http/%s): POST of request %d (%s) unanswered after %v", s.id, s.proto, r.idx, r.kindName(), watchdog))
						return
					}
					switch {
					case errText != "":
						r.sendErr = errText
					case len(f) == 4 && f[0]|f[1]|f[2]|f[3] == 0:
						r.mu.Lock()
						r.empties++
						r.mu.Unlock()
						res.mu.Lock()
						res.framesIn++
						res.mu.Unlock()
					default:
						hdrs, _, err := wire.ParseFrame(f)
						if err != nil {
							// the decoded body is not a well-formed frame (size bytes that
							// do not count what follows, undecodable header block): there
							// is no reader that announces it as a stray on this leg
							r.mu.Lock()
							r.badFrame = f
							r.badFrameWhy = err.Error()
							r.mu.Unlock()
							break
						}
						if hdrs["_opid"] != r.opid {
							why := fmt.Sprintf("the HTTP response to the request with op id %s carries op id %q", r.opid, hdrs["_opid"])
							if o := res.byOpid[hdrs["_opid"]]; o != nil {
								why += fmt.Sprintf(" - the op id of request %d (%s) of this sequence", o.idx, o.kindName())
							}
							res.addStray(r.idx, why, f)
							r.foreign = true
							break
						}
						res.mu.Lock()
						res.framesIn++
						res.mu.Unlock()
						r.mu.Lock()
						r.replies = append(r.replies, f)
						r.mu.Unlock()
					}
				}
			}()
		}
		wg.Wait()
		leg.stop()
	case "nats":
		leg, err := startNatsLeg(broker, s.proto, uint(s.workers), s.watermark)
		if err != nil {
			res.inconc("cannot start nats leg: " + err.Error())
			return res
		}
		conns := make([]*natsConn, len(s.perConn))
		for c := range conns {
			if conns[c], err = leg.open(c); err != nil {
				res.inconc("cannot open nats connection: " + err.Error())
				leg.stop()
				return res
			}
		}
		var wg sync.WaitGroup
		for c := range conns {
			wg.Add(1)
			go func(c int) {
				defer wg.Done()
				for _, r := range s.perConn[c] {
					if err := conns[c].send(r); err != nil {
						r.sendErr = err.Error()
					}
				}
				conns[c].c.Flush()
			}(c)
		}
		wg.Wait()
		sent := int64(0)
		for _, r := range s.reqs {
			if r.sendErr == "" {
				sent++
			}
		}
		deadline := time.Now().Add(watchdog)
		// wait for the finished-frame counter; when it stalls, look at the
		// goroutines instead of at the clock
		last, lastChange := int64(-1), time.Now()
		prevOrphans := ""
		for {
			fin := atomic.LoadInt64(&leg.finished)
			if fin >= sent {
				break
			}
			if fin != last {
				last, lastChange = fin, time.Now()
			} else if time.Since(lastChange) > 1500*time.Millisecond {
				if rep := diagnoseWriteMutex(leg.writeMu); rep != nil && len(rep.selfDeadlocked) > 0 {
					res.mu.Lock()
					res.deadlock = rep
					res.mu.Unlock()
					leg.wedged = true
					break
				}
				if ids, sample := orphanedWriteMutex(leg.writeMu); ids != "" {
					if ids == prevOrphans {
						res.mu.Lock()
						res.deadlock = &deadlockReport{orphaned: ids, sample: sample}
						res.mu.Unlock()
						leg.wedged = true
						break
					}
					prevOrphans = ids
				} else {
					prevOrphans = ""
				}
				lastChange = time.Now() // look again after the next stall
			}
			if time.Now().After(deadline) {
				res.inconc(fmt.Sprintf("sequence %d (nats/%s, %d workers): the server finished %d of %d frames within %v", s.id, s.proto, s.workers, fin, sent, watchdog))
				break
			}
			time.Sleep(500 * time.Microsecond)
		}
		// everything the workers published is at the broker after this round trip
		if err := leg.sconn.FlushTimeout(20 * time.Second); err != nil {
			res.inconc("server connection flush: " + err.Error())
		}
		for c, nc := range conns {
			if err := nc.drain(); err != nil {
				res.inconc("draining replies: " + err.Error())
			}
			for _, m := range nc.snapshot() {
				res.attribute(c, m.data, "nats")
				if hdrs, _, err := wire.ParseFrame(m.data); err == nil {
					if r := res.byOpid[hdrs["_opid"]]; r != nil && r.conn == c && m.subject != nc.replySubject(r) {
						res.addStray(c, fmt.Sprintf("reply for op id %s was published to %s, the request asked for %s", r.opid, m.subject, nc.replySubject(r)), m.data)
					}
				}
			}
			nc.c.Close()
		}
		leg.stop()
	}
	return res
}

// judging ---------------------------------------------------------------------

type verdictSink interface {
	Violation(sig, what string, witness interface{}) bool
	Add(k string, n int)
}

func hexCap(b []byte, n int) string {
	if len(b) <= n {
		return hex.EncodeToString(b)
	}
	return hex.EncodeToString(b[:n]) + fmt.Sprintf("...(%d bytes in all)", len(b))
}

func judge(run verdictSink, s *seqSpec, res *seqResult) {
	witness := func(r *request, extra map[string]interface{}) map[string]interface{} {
		w := s.describe()
		if r != nil {
			w["request_index"] = r.idx
			w["request_kind"] = r.kindName()
			w["request_method"] = r.method
			w["request_opid"] = r.opid
			w["request_connection"] = r.conn
			w["request_frame_hex"] = hexCap(r.frame, 1500)
			w["request_header_block"] = r.hdrShape
			var reps []string
			for _, f := range r.replies {
				reps = append(reps, hexCap(f, 1500))
			}
			w["reply_frames_hex"] = reps
			if r.sendErr != "" {
				w["transport_error"] = r.sendErr
			}
			if r.respLimit > 0 {
				w["announced_x_frugal_payload_limit"] = r.respLimit
			}
			var before []string
			for _, q := range s.perConn[r.conn] {
				if q == r {
					break
				}
				before = append(before, q.kindName())
			}
			if s.leg != "http" && len(before) > 12 {
				before = before[len(before)-12:]
			}
			if s.leg != "http" {
				w["preceding_on_connection"] = before
			}
		}
		if why, ok := res.closed[0]; ok && r == nil {
			w["connection_0_closed"] = why
		}
		for k, v := range extra {
			w[k] = v
		}
		return w
	}
	for _, st := range res.strays {
		sig := "C14:reply-unattributable:" + s.leg + ":" + s.proto
		if strings.HasPrefix(st.reason, "op id rewritten") {
			sig = "C14:reply-opid-rewritten:" + s.leg
		}
		if s.leg == "http" && strings.Contains(st.reason, "of this sequence") {
			sig = "C14:http-response-holds-another-requests-reply:" + s.proto
		}
		run.Violation(sig, st.reason, witness(nil, map[string]interface{}{"connection": st.conn, "frame_hex": hexCap(st.frame, 3000)}))
	}
	for _, n := range res.notes {
		if strings.HasPrefix(n, "process-error:") {
			run.Violation("C14:process-returned-error:"+s.leg, "FProcessor.Process returned an error for a request with decodable headers (a stream server tears the connection down on that): "+n, witness(nil, nil))
		}
	}
	pf := rig.TProtocolFactory(s.proto)
	all := append(append([]*request(nil), s.reqs...), s.sentinel...)
	// requests that follow, on the same stream connection, a well-formed request
	// which the server rejected as malformed are consequences of that one event
	skip := map[*request]bool{}
	for c, d := range res.desync {
		after := false
		for _, q := range s.perConn[c] {
			if after {
				skip[q] = true
			}
			if q.idx == d {
				after = true
			}
		}
		skip[s.sentinel[c]] = true
	}
	for c, how := range res.abandoned {
		// the last request the server still answered on that connection
		lastAnswered, pos := (*request)(nil), -1
		for i, q := range s.perConn[c] {
			if q.replyCount() > 0 {
				lastAnswered, pos = q, i
			}
		}
		after := "nothing"
		if lastAnswered != nil {
			after = lastAnswered.kindName()
		}
		unanswered := 0
		for i, q := range s.perConn[c] {
			if i > pos && q.replyCount() == 0 {
				if !q.oneway {
					unanswered++
				}
				skip[q] = true // consequences of the one event
			}
		}
		skip[s.sentinel[c]] = true
		var next *request
		if pos+1 < len(s.perConn[c]) {
			next = s.perConn[c][pos+1]
		}
		nk := "none"
		if next != nil {
			nk = next.kindName()
		}
		if unanswered == 0 {
			continue // nothing was owed on this connection (only oneways / optional replies)
		}
		sig, how2 := "C14:connection-abandoned:", "stopped serving connection %d without closing it (two goroutine dumps 1.5 s apart, no reply in between: no goroutine in FSimpleServer.accept for this connection's transport)"
		if strings.HasPrefix(how, "write-mutex-orphaned") {
			run.Violation("C14:server-deadlocked:"+s.leg+":write-mutex-never-released",
				fmt.Sprintf("the processor's write mutex is locked and every goroutine inside FBaseProcessor.Process of this processor (goroutines %s) is parked in sync.Mutex.Lock on it (two dumps 1.5 s apart, no reply in between): its holder left without unlocking; connection %d: last answered request %s, %d two-way requests never answered", strings.TrimPrefix(how, "write-mutex-orphaned:"), c, after, unanswered),
				witness(next, map[string]interface{}{"connection": c, "goroutine": res.stacks[c], "aborted_connection": s.abortNote()}))
			continue
		}
		if how == "idle" {
			sig, how2 = "C14:request-consumed-without-reply:", "consumed everything sent on connection %d and is parked waiting for the size prefix of a next frame (two goroutine dumps 1.5 s apart, no reply in between; a simple server works a connection off sequentially)"
		}
		if next != nil && next.opidForm != "" {
			run.Violation("C14:request-with-"+next.opidForm+"-opid-unanswered:"+s.leg, fmt.Sprintf("the server "+how2+"; the first unanswered request (%s) has the _opid header value %q (a decodable header); %d two-way requests never answered", c, nk, next.opid, unanswered), witness(next, map[string]interface{}{"connection": c}))
			continue
		}
		if next != nil && next.hdrShape != "plain" && !next.taints {
			sig, after = "C14:request-with-"+next.hdrShape+"-header-unanswered:", "-"
			run.Violation(sig+s.leg, fmt.Sprintf("the server "+how2+"; the first unanswered request (%s) has a well-formed header block of the shape %q; last answered request %s, %d two-way requests never answered", c, nk, next.hdrShape, func() string {
				if lastAnswered == nil {
					return "none"
				}
				return lastAnswered.kindName()
			}(), unanswered), witness(next, map[string]interface{}{"connection": c}))
			continue
		}
		run.Violation(sig+s.leg+":"+s.proto+":after-"+after,
			fmt.Sprintf("the server "+how2+"; the last answered request was %s, the next one (%s) and %d two-way requests in all were never answered", c, after, nk, unanswered),
			witness(next, map[string]interface{}{"connection": c, "last_answered_kind": after, "last_answered_frame_hex": func() string {
				if lastAnswered == nil {
					return ""
				}
				return hexCap(lastAnswered.frame, 1500)
			}()}))
	}
	if res.deadlock != nil && res.deadlock.orphaned != "" {
		var culprit *request
		unanswered := 0
		for _, r := range s.reqs {
			if !r.oneway && r.replyCount() == 0 {
				unanswered++
				if culprit == nil && (r.kind == kUnknownHuge || r.kind == kUnknown) {
					culprit = r
				}
			}
		}
		run.Violation("C14:server-deadlocked:"+s.leg+":write-mutex-never-released",
			fmt.Sprintf("the processor's write mutex is locked and every goroutine inside FBaseProcessor.Process of this processor (goroutines %s) is parked in sync.Mutex.Lock on it (two dumps, no frame finished in between): its holder left without unlocking; %d two-way requests of the sequence were never answered", res.deadlock.orphaned, unanswered),
			witness(culprit, map[string]interface{}{"goroutine": res.deadlock.sample, "unanswered_requests": unanswered,
				"trigger": "an unknown-method request whose reply could not be written (kind unknown-method-huge-name: the reply repeats the 600 KB name twice and exceeds the 1 MiB output buffer)"}))
		for _, r := range all {
			if r.replyCount() == 0 {
				skip[r] = true
			}
		}
	} else if res.deadlock != nil {
		// which request did it: the first reply-over-limit request without a reply
		var culprit *request
		unanswered := 0
		for _, r := range s.reqs {
			if !r.oneway && r.replyCount() == 0 {
				unanswered++
				if culprit == nil && r.kind == kOversize {
					culprit = r
				}
			}
		}
		run.Violation("C14:server-deadlocked:"+s.leg+":write-mutex-reentered",
			fmt.Sprintf("a server worker is parked for good in sync.Mutex.Lock on the processor's write mutex, which its own SendReply frame already holds (%d goroutine(s) re-entering, %d waiting on the mutex in all); %d two-way requests of the sequence were never answered although their handlers ran", len(res.deadlock.selfDeadlocked), res.deadlock.waiters, unanswered),
			witness(culprit, map[string]interface{}{"goroutine": res.deadlock.selfDeadlocked[0], "unanswered_requests": unanswered,
				"trigger": "a handler result whose reply frame exceeds the NATS server's 1 MiB output buffer (kind reply-over-limit)"}))
		for _, r := range all {
			if r.replyCount() == 0 {
				skip[r] = true // consequences of the one event
			}
		}
	}
	for _, r := range all {
		if skip[r] {
			run.Add("requests_not_judged_after_desync_or_deadlock", 1)
			continue
		}
		if r.sentinel && r.replyCount() == 0 && r.sendErr == "" {
			continue // never sent (tainted / closed connection) or already reported inconclusive
		}
		run.Add("requests_judged", 1)
		n := r.replyCount()
		closedWhy, connClosed := res.closed[r.conn]
		if r.foreign || r.rewritten {
			continue // reported with the frame it received
		}
		if r.kind == kHTTPOverLimit {
			// the reply does not fit the limit this client announced: HTTP 413, no frame
			if r.httpStatus != 413 {
				run.Violation("C14:reply-over-client-limit-not-refused:http:"+s.proto, fmt.Sprintf("the client announced x-frugal-payload-limit %d, the reply is larger; want HTTP 413, got status %d, %d frame(s) %s", r.respLimit, r.httpStatus, n, r.sendErr), witness(r, nil))
			}
			continue
		}
		if judgeWithinLimit(run, s, r, witness) {
			continue
		}
		if judgeHTTPBody(run, s, r, witness) {
			continue
		}
		if r.sendErr != "" {
			if s.leg == "http" && r.opidForm != "" && r.httpStatus >= 500 {
				run.Violation("C14:request-with-"+r.opidForm+"-opid-refused:"+s.leg, fmt.Sprintf("a request whose _opid header value is %q (a decodable header) was answered with a transport-level failure instead of a reply frame: %s", r.opid, r.sendErr), witness(r, nil))
			} else if s.leg == "http" && r.hdrShape != "plain" && r.httpStatus >= 500 {
				run.Violation("C14:request-with-"+r.hdrShape+"-header-refused:"+s.leg, "a request whose (well-formed) header block has the shape \""+r.hdrShape+"\" was answered with a transport-level failure instead of a reply frame: "+r.sendErr, witness(r, nil))
			} else if s.leg == "http" {
				run.Violation("C14:transport-error:"+s.leg+":"+r.kindName(), "instead of a reply frame the server answered with a transport-level failure: "+r.sendErr, witness(r, nil))
			} else if !r.sentinel {
				run.Violation("C14:connection-lost:"+s.leg+":"+r.kindName(), "the request could not be sent, the server ended the connection: "+r.sendErr, witness(r, nil))
			}
			continue
		}
		// reply count
		switch {
		case r.oneway:
			if n != 0 {
				run.Violation("C14:reply-count:"+s.leg+":"+r.kindName(), fmt.Sprintf("a successful oneway request got %d reply frame(s)", n), witness(r, nil))
			}
			if s.leg == "http" && r.empties != 1 {
				run.Violation("C14:reply-count:"+s.leg+":"+r.kindName(), fmt.Sprintf("oneway over HTTP: %d empty-frame responses, want 1", r.empties), witness(r, nil))
			}
		case r.lenient:
			if n > 1 {
				run.Violation("C14:reply-count:"+s.leg+":"+r.kindName(), fmt.Sprintf("%d reply frames for one request", n), witness(r, nil))
			}
		default:
			if n != 1 {
				if n == 0 && !connClosed && (s.leg == "pipe" || s.leg == "tcp") && len(res.inconclusive) > 0 {
					// the watchdog fired on an open connection: already inconclusive
					break
				}
				what := fmt.Sprintf("%d reply frames for a two-way request (want exactly 1)", n)
				if connClosed {
					what += "; the server closed the connection: " + closedWhy
				}
				if s.leg == "http" && r.empties > 0 {
					what += "; the HTTP response was the empty frame"
				}
				if n == 0 && r.opidForm != "" {
					run.Violation("C14:request-with-"+r.opidForm+"-opid-unanswered:"+s.leg, fmt.Sprintf("a request whose _opid header value is %q (a decodable header): ", r.opid)+what, witness(r, nil))
					break
				}
				if n == 0 && s.watermark > 0 {
					run.Violation("C14:backlogged-request-unanswered:"+s.leg, fmt.Sprintf("NATS server with %d worker(s), high watermark %v and handlers slow enough for requests to queue longer than that: ", s.workers, s.watermark)+what, witness(r, nil))
					break
				}
				if n == 0 && r.hdrShape != "plain" && !r.taints {
					run.Violation("C14:request-with-"+r.hdrShape+"-header-unanswered:"+s.leg, "a request whose (well-formed) header block has the shape \""+r.hdrShape+"\": "+what, witness(r, nil))
					break
				}
				run.Violation("C14:reply-count:"+s.leg+":"+r.kindName(), what, witness(r, nil))
			}
		}
		// reply contents
		for _, f := range r.replies {
			run.Add("replies_parsed", 1)
			hdrs, payload, err := wire.ParseFrame(f)
			if err != nil {
				continue // reported as stray
			}
			if hdrs["_cid"] != r.cid {
				run.Violation("C14:reply-cid-mismatch:"+s.leg, fmt.Sprintf("reply carries _cid %q, the request %q", hdrs["_cid"], r.cid), witness(r, nil))
			}
			m, err := wire.DecodeMessage(pf, payload)
			if err != nil {
				if len(payload) == 0 && r.class != "" {
					run.Violation("C14:reply-frame-without-message:"+s.leg+":"+s.proto+":"+r.class, fmt.Sprintf("the one reply frame (%d bytes, headers %v) consists of the header block only: no REPLY / EXCEPTION message follows it (%s)", len(f), hdrNames(hdrs), r.kindName()), witness(r, nil))
					continue
				}
				run.Violation("C14:reply-unparseable:"+s.leg+":"+s.proto, "the reference reader cannot parse the reply completely: "+err.Error(), witness(r, nil))
				continue
			}
			if m.Name != r.method || m.Seq != 0 {
				run.Violation("C14:wrong-method-name:"+r.kindName(), fmt.Sprintf("reply envelope (%q, seq %d), request method %q", m.Name, m.Seq, r.method), witness(r, nil))
			}
			if !r.taints && m.Type == thrift.EXCEPTION {
				if tv, ok := m.Body.Get(2); ok && tv.T == thrift.I32 && tv.I == thrift.PROTOCOL_ERROR && !(r.expType == thrift.EXCEPTION && r.expExType == thrift.PROTOCOL_ERROR) {
					class := "frame<=4096"
					if len(r.frame) > 4096 {
						class = "frame>4096"
					}
					if s.burst {
						class = "several-frames-in-one-write"
					}
					run.Violation("C14:good-request-rejected-as-malformed:"+s.leg+":"+s.proto+":"+class,
						fmt.Sprintf("a well-formed %s request (%d-byte frame) was answered with EXCEPTION PROTOCOL_ERROR: %s", r.method, len(r.frame), m.Body.String()), witness(r, nil))
					continue
				}
			}
			if m.Type != r.expType {
				run.Violation("C14:wrong-message-type:"+r.kindName(), fmt.Sprintf("reply message type %d, want %d (2=REPLY 3=EXCEPTION); body %s", m.Type, r.expType, m.Body.String()), witness(r, nil))
				continue
			}
			if m.Type == thrift.EXCEPTION {
				tv, ok := m.Body.Get(2)
				got := int64(-1)
				if ok && tv.T == thrift.I32 {
					got = tv.I
				}
				if got != int64(r.expExType) {
					run.Violation("C14:wrong-exception-type:"+r.kindName(), fmt.Sprintf("TApplicationException type %d, want %d; body %s", got, r.expExType, m.Body.String()), witness(r, nil))
				}
				if r.expMsgSub != "" {
					mv, ok := m.Body.Get(1)
					if !ok || !strings.Contains(mv.S, r.expMsgSub) {
						run.Violation("C14:wrong-exception-message:"+r.kindName(), fmt.Sprintf("exception message does not carry this request's token %q: %s", r.expMsgSub, m.Body.String()), witness(r, nil))
					}
				}
				continue
			}
			if r.expBody != nil && !wire.Equal(&m.Body, r.expBody) {
				run.Violation("C14:wrong-reply-body:"+r.kindName(), fmt.Sprintf("result struct %s, want %s", m.Body.String(), r.expBody.String()), witness(r, nil))
			}
		}
	}
}
