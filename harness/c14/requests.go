package main

// Reference request writer for C14: every request frame is built from the
// fixture IDL by hand (field ids / types), never through the emitted client.

import (
	"encoding/base64"
	"errors"
	"fmt"
	"math/rand"
	"strconv"
	"strings"
	"sync"
	"sync/atomic"
	"time"

	"github.com/apache/thrift/lib/go/thrift"

	"verif/rig"
	"verif/wire"
	"vh/e2e"
	"vh/gen/base"
	"vh/gen/mainsvc"
)

// request kinds
const (
	kAdd = iota
	kEchoOK
	kEchoOops
	kEchoAPIErr
	kPing
	kNothingOops
	kGetBig
	kBlob
	kUnknown
	kMalTrunc
	kMalType
	kErrInternal
	kAppEx
	kFire
	kFireFail
	kOversize      // handler success whose reply does not fit the server's output buffer (NATS: 1 MiB)
	kUnknownHuge   // unknown method whose name is so long that the UNKNOWN_METHOD reply (which repeats it twice) exceeds 1 MiB
	kHTTPOverLimit // HTTP: the client announces a response limit (x-frugal-payload-limit) smaller than the reply: HTTP 413, no frame
	kindCount
)

var kindNames = [...]string{"add", "echo", "echo-oops", "echo-apierr", "ping", "nothing-oops", "getbig", "blob",
	"unknown-method", "malformed-truncated", "malformed-badtype", "handler-error", "handler-appex", "oneway", "oneway-fail", "reply-over-limit", "unknown-method-huge-name", "reply-over-client-limit"}

// one letter per kind for the sequence shape string
const kindLetters = "aeoxpngbUTMIAfFLHC"

type request struct {
	idx        int
	kind       int
	method     string
	opid       string
	cid        string
	token      string
	frame      []byte
	oneway     bool
	lenient    bool   // 0 or 1 replies are both acceptable
	respLimit  int    // HTTP: value of the x-frugal-payload-limit header (0: none)
	httpStatus int    // HTTP: status of the response
	opidForm   string // "" or "non-canonical" / "empty"
	hdrShape   string // "plain", or what is special about the header block (empty-valued pair last, ...)
	label      string // probes: overrides the kind name in signatures
	class      string // probes: the situation the request is in (part of some signatures)
	rewritten  bool   // a reply arrived whose op id is this request's op id in another spelling
	foreign    bool   // HTTP: the response frame carried another request's op id
	taints     bool   // leaves a stream connection in an undefined state
	sentinel   bool

	// HTTP, any two-way kind: the caller announces a response limit L which this
	// request's reply FITS.  limitFill in (0.5, 1] is the share of L the reply
	// (frame plus its 4 size bytes) takes up; L itself is derived from the size
	// of the reply the server gives to the same frame posted without a limit
	// (unlimitedLen, measured in the run, see limitFor)
	limitFill    float64
	unlimitedLen int

	expType   thrift.TMessageType // REPLY or EXCEPTION
	expExType int32
	expBody   *wire.Value // expected result struct of a REPLY
	expMsgSub string      // substring demanded in an EXCEPTION message

	conn int

	mu      sync.Mutex
	replies [][]byte
	empties int // HTTP: "no reply" responses (frame 00000000)
	// HTTP: the (base64-decoded) body of a 200 response that is not a well-formed frame
	badFrame    []byte
	badFrameWhy string
	sendErr     string
}

func (r *request) kindName() string {
	if r.label != "" {
		return r.label
	}
	if r.sentinel {
		return "sentinel"
	}
	return kindNames[r.kind]
}

// plan is what the recording handler does for one token.
type plan struct {
	err   error
	ret   interface{}
	delay time.Duration // the handler takes this long (builds a backlog on a NATS server)
	// hdrRoom-1 (when hdrRoom > 0): the handler pads its response headers so that
	// the reply's header block ends that many bytes below the NATS output limit
	hdrRoom int
}

var (
	plans   sync.Map // token -> *plan
	opidSeq uint64
	tokSeq  uint64
)

// behave is installed as Handler.Behave on every leg.
func behave(c *e2e.Call) *e2e.Outcome {
	tok := c.ReqHdrs["tok"]
	if tok == "" {
		return nil
	}
	v, ok := plans.Load(tok)
	if !ok {
		return nil
	}
	p := v.(*plan)
	if p.delay > 0 {
		time.Sleep(p.delay)
	}
	if p.hdrRoom > 0 {
		padResponseHeaders(c, p.hdrRoom-1)
	}
	if p.err == nil && p.ret == nil {
		return nil
	}
	return &e2e.Outcome{Ret: p.ret, Err: p.err}
}

func randText(rng *rand.Rand, n int) string {
	const al = "abcdefghijklmnopqrstuvwxyzABCDEFGHIJKLMNOPQRSTUVWXYZ0123456789 _-\"\\/{}[],:é世"
	rs := []rune(al)
	var sb strings.Builder
	for sb.Len() < n {
		sb.WriteRune(rs[rng.Intn(len(rs))])
	}
	return sb.String()
}

func randBytes(rng *rand.Rand, n int) []byte {
	b := make([]byte, n)
	rng.Read(b)
	return b
}

// smallOnly caps generated payloads (used for JSON on stream legs while the
// framed-transport defect found by the probes is present).
type genOpts struct {
	stream    bool // goes to a simple-server connection
	smallOnly bool
}

func payloadSize(rng *rand.Rand, small bool) int {
	if small {
		return rng.Intn(120)
	}
	switch rng.Intn(10) {
	case 0:
		return 0
	case 1:
		return 4000 + rng.Intn(12000) // crosses bufio / pipe chunk sizes
	case 2:
		return 20000 + rng.Intn(50000)
	}
	return rng.Intn(300)
}

// binReq / binExp: a binary field as written by the reference writer and as
// the schema-less reader returns it (JSON: base64 text).
func binExp(proto string, b []byte) wire.Value {
	if proto == "json" {
		return wire.Str(base64.StdEncoding.EncodeToString(b))
	}
	return wire.Str(string(b))
}

// randPayload builds a Payload union value (request form, expected form).
func randPayload(rng *rand.Rand, proto, token string, small bool) (wire.Value, wire.Value) {
	n := payloadSize(rng, small)
	switch rng.Intn(4) {
	case 0: // BigFirst {1: string big, 2: i32 n, 3: bool flag}
		v := wire.Struct(wire.F(1, wire.Str(token+randText(rng, n))), wire.F(2, wire.I32(rng.Int31())), wire.F(3, wire.Bool(rng.Intn(2) == 0)))
		u := wire.Struct(wire.F(1, v))
		return u, u
	case 1: // BigMid {1: i32 n, 2: binary big, 3: string tail}
		b := randBytes(rng, n)
		req := wire.Struct(wire.F(2, wire.Struct(wire.F(1, wire.I32(rng.Int31())), wire.F(2, wire.Bin(b)), wire.F(3, wire.Str(token)))))
		exp := req
		inner := req.Fields[0].V
		exp = wire.Struct(wire.F(2, wire.Struct(wire.F(1, inner.Fields[0].V), wire.F(2, binExp(proto, b)), wire.F(3, wire.Str(token)))))
		return req, exp
	case 2: // BigLast {1: i32 n, 2: list<i64> nums, 3: string big}
		var nums []wire.Value
		for i := rng.Intn(6); i > 0; i-- {
			nums = append(nums, wire.I64(rng.Int63()-rng.Int63()))
		}
		u := wire.Struct(wire.F(3, wire.Struct(wire.F(1, wire.I32(-rng.Int31())), wire.F(2, wire.List(thrift.I64, nums...)), wire.F(3, wire.Str(randText(rng, n)+token)))))
		return u, u
	default: // BigMap {1: i32 n, 2: map<string,string> m}
		var ks, vs []wire.Value
		ks = append(ks, wire.Str("tok"))
		vs = append(vs, wire.Str(token))
		for i := rng.Intn(5); i > 0; i-- {
			ks = append(ks, wire.Str(fmt.Sprintf("k%d-%d", i, rng.Intn(1000))))
			vs = append(vs, wire.Str(randText(rng, n/4)))
		}
		u := wire.Struct(wire.F(4, wire.Struct(wire.F(1, wire.I32(rng.Int31())), wire.F(2, wire.Map(thrift.STRING, thrift.STRING, ks, vs)))))
		return u, u
	}
}

// randTree is an arbitrary args struct for unknown methods (exercises Skip).
func randTree(rng *rand.Rand, depth int) wire.Value {
	var fs []wire.Field
	id := int16(0)
	for i := rng.Intn(5); i >= 0; i-- {
		id += int16(1 + rng.Intn(4))
		var v wire.Value
		switch k := rng.Intn(9); {
		case k == 0:
			v = wire.Bool(rng.Intn(2) == 0)
		case k == 1:
			v = wire.Byte(int8(rng.Intn(256)))
		case k == 2:
			v = wire.I16(int16(rng.Intn(65536)))
		case k == 3:
			v = wire.I64(rng.Int63())
		case k == 4:
			v = wire.Str(randText(rng, rng.Intn(400)))
		case k == 5:
			v = wire.List(thrift.I32, wire.I32(1), wire.I32(rng.Int31()))
		case k == 6:
			v = wire.Map(thrift.STRING, thrift.I64, []wire.Value{wire.Str("a"), wire.Str("b")}, []wire.Value{wire.I64(1), wire.I64(2)})
		case k == 7 && depth < 3:
			v = randTree(rng, depth+1)
		default:
			v = wire.I32(rng.Int31())
		}
		fs = append(fs, wire.F(id, v))
	}
	return wire.Struct(fs...)
}

var appExTypes = []int32{0, 2, 3, 4, 5, 8, 9, 10, 42, 100}

// newRequest builds one request of the given kind for protocol proto.  onStream
// tells whether it goes to a stream (simple server) connection, where a
// truncated frame may leave the server waiting for more bytes.
func newRequest(rng *rand.Rand, proto string, kind int, o genOpts) *request {
	for {
		r := newRequest1(rng, proto, kind, o)
		if !o.smallOnly || len(r.frame) <= 1200 {
			return r
		}
		plans.Delete(r.token)
	}
}

func newRequest1(rng *rand.Rand, proto string, kind int, o genOpts) *request {
	r := &request{kind: kind}
	n := atomic.AddUint64(&opidSeq, 1)
	r.opid = strconv.FormatUint(n, 10)
	if rng.Intn(6) == 0 {
		// op ids are header VALUES: any byte string is a decodable header and
		// the reply has to carry the same string, canonical decimal or not
		switch rng.Intn(7) {
		case 0:
			r.opid = "00" + r.opid
		case 1:
			r.opid = "+" + r.opid
		case 2:
			r.opid = fmt.Sprintf("9%020d", n) // above 2^64
		case 3:
			r.opid = "req-" + r.opid
		case 4:
			r.opid = " " + r.opid
		case 5:
			r.opid = fmt.Sprintf("0x%x-é", n)
		default:
			r.opid = "-" + r.opid
		}
		r.opidForm = "non-canonical"
	}
	r.cid = fmt.Sprintf("cid-%08x%08x", rng.Uint32(), rng.Uint32())
	r.token = fmt.Sprintf("tk%dz", atomic.AddUint64(&tokSeq, 1))
	pl := &plan{}
	var args wire.Value
	mt := thrift.CALL
	r.expType = thrift.REPLY
	switch kind {
	case kAdd:
		a, b := rng.Int31(), rng.Int63()-rng.Int63()
		r.method = "add"
		args = wire.Struct(wire.F(1, wire.I32(a)), wire.F(2, wire.I64(b)))
		e := wire.Struct(wire.F(0, wire.I64(int64(a)+b)))
		r.expBody = &e
	case kEchoOK:
		r.method = "echo"
		req, exp := randPayload(rng, proto, r.token, o.smallOnly)
		args = wire.Struct(wire.F(1, req), wire.F(2, wire.Str(r.token)))
		e := wire.Struct(wire.F(0, exp))
		r.expBody = &e
	case kEchoOops, kEchoAPIErr:
		r.method = "echo"
		req, _ := randPayload(rng, proto, r.token, o.smallOnly)
		args = wire.Struct(wire.F(1, req), wire.F(2, wire.Str(r.token)))
		if kind == kEchoOops {
			pl.err = &mainsvc.Oops{Why: "oops " + r.token}
			e := wire.Struct(wire.F(1, wire.Struct(wire.F(1, wire.Str("oops "+r.token)))))
			r.expBody = &e
		} else {
			code := rng.Int31()
			pl.err = &base.ApiError{Message: "api " + r.token, Code: code}
			e := wire.Struct(wire.F(2, wire.Struct(wire.F(1, wire.Str("api "+r.token)), wire.F(2, wire.I32(code)))))
			r.expBody = &e
		}
	case kPing:
		r.method = "basePing"
		args = wire.Struct()
		e := wire.Struct()
		r.expBody = &e
	case kNothingOops:
		r.method = "nothing"
		args = wire.Struct()
		pl.err = &mainsvc.Oops{Why: r.token}
		e := wire.Struct(wire.F(1, wire.Struct(wire.F(1, wire.Str(r.token)))))
		r.expBody = &e
	case kGetBig:
		r.method = "getBig"
		s := r.token + randText(rng, payloadSize(rng, o.smallOnly))
		pl.ret = s
		args = wire.Struct(wire.F(1, wire.I32(int32(len(s)))), wire.F(2, wire.Str(r.token)))
		e := wire.Struct(wire.F(0, wire.Str(s)))
		r.expBody = &e
	case kBlob:
		r.method = "blob"
		b := append([]byte(r.token), randBytes(rng, payloadSize(rng, o.smallOnly))...)
		args = wire.Struct(wire.F(1, wire.Bin(b)))
		e := wire.Struct(wire.F(0, binExp(proto, b)))
		r.expBody = &e
	case kUnknown:
		r.method = []string{"nope", "Add", "echo2", "", "add ", "basePing.x", "écho"}[rng.Intn(7)] + fmt.Sprint(rng.Intn(50))
		if rng.Intn(4) != 0 {
			r.method += "." + r.token // a name the server has never seen before
		}
		args = randTree(rng, 0)
		r.expType = thrift.EXCEPTION
		r.expExType = thrift.UNKNOWN_METHOD
		if rng.Intn(4) == 0 {
			mt = thrift.ONEWAY // the server cannot know the method is oneway: still answered
		}
	case kMalTrunc, kMalType:
		r.method = []string{"add", "echo", "getBig", "blob"}[rng.Intn(4)]
		switch r.method {
		case "add":
			args = wire.Struct(wire.F(1, wire.I32(rng.Int31())), wire.F(2, wire.I64(rng.Int63())))
		case "echo":
			req, _ := randPayload(rng, proto, r.token, o.smallOnly)
			args = wire.Struct(wire.F(1, req), wire.F(2, wire.Str(r.token)))
		case "getBig":
			args = wire.Struct(wire.F(1, wire.I32(10)), wire.F(2, wire.Str(r.token)))
		default:
			args = wire.Struct(wire.F(1, wire.Bin(randBytes(rng, 1+rng.Intn(200)))))
		}
		r.expType = thrift.EXCEPTION
		r.expExType = thrift.PROTOCOL_ERROR
		r.taints = true
		if kind == kMalTrunc && o.stream {
			r.lenient = true
		}
	case kErrInternal:
		r.method = []string{"add", "echo", "getBig", "basePing", "nothing"}[rng.Intn(5)]
		args = goodArgs(rng, proto, r, o)
		pl.err = errors.New("boom " + r.token)
		r.expType = thrift.EXCEPTION
		r.expExType = thrift.INTERNAL_ERROR
		r.expMsgSub = "boom " + r.token
	case kAppEx:
		r.method = []string{"add", "echo", "getBig", "basePing", "nothing"}[rng.Intn(5)]
		args = goodArgs(rng, proto, r, o)
		t := appExTypes[rng.Intn(len(appExTypes))]
		pl.err = thrift.NewTApplicationException(t, "appex "+r.token)
		r.expType = thrift.EXCEPTION
		r.expExType = t
		r.expMsgSub = "appex " + r.token
	case kFire:
		r.method = "fire"
		mt = thrift.ONEWAY
		args = wire.Struct(wire.F(1, wire.Str(r.token+randText(rng, rng.Intn(200)))))
		r.oneway = true
	case kOversize:
		// the result is produced all right, but its frame exceeds the NATS
		// server's 1 MiB output buffer: the server must answer with exactly one
		// EXCEPTION of type RESPONSE_TOO_LARGE (100) - and go on serving
		n := 1024*1024 + 1 + rng.Intn(3000)
		big := strings.Repeat("0123456789abcdef", n/16+1)[:n]
		if rng.Intn(2) == 0 {
			r.method = "getBig"
			pl.ret = big
			args = wire.Struct(wire.F(1, wire.I32(int32(n))), wire.F(2, wire.Str(r.token)))
		} else {
			r.method = "blob"
			pl.ret = []byte(big)
			args = wire.Struct(wire.F(1, wire.Bin([]byte(r.token))))
		}
		r.expType = thrift.EXCEPTION
		r.expExType = 100 // frugal.APPLICATION_EXCEPTION_RESPONSE_TOO_LARGE
	case kUnknownHuge:
		r.method = "nope" + strings.Repeat("0123456789abcdef", 600*1024/16) + fmt.Sprint(rng.Intn(50))
		args = randTree(rng, 0)
		r.expType = thrift.EXCEPTION
		r.expExType = thrift.UNKNOWN_METHOD
	case kHTTPOverLimit:
		r.method = "getBig"
		big := r.token + strings.Repeat("x", 3000+rng.Intn(3000))
		pl.ret = big
		args = wire.Struct(wire.F(1, wire.I32(int32(len(big)))), wire.F(2, wire.Str(r.token)))
		r.respLimit = 200 + rng.Intn(2000)
		e := wire.Struct(wire.F(0, wire.Str(big)))
		r.expBody = &e
	case kFireFail:
		// the emitted processor answers a failing oneway with an EXCEPTION; the
		// statement does not say what happens here: zero or one replies accepted
		r.method = "fire"
		mt = thrift.ONEWAY
		args = wire.Struct(wire.F(1, wire.Str(r.token)))
		pl.err = errors.New("boom " + r.token)
		r.lenient = true
		r.expType = thrift.EXCEPTION
		r.expExType = thrift.INTERNAL_ERROR
	}
	plans.Store(r.token, pl)
	hdrs := []wire.Pair{{Name: "_opid", Value: r.opid}, {Name: "_cid", Value: r.cid}, {Name: "tok", Value: r.token}}
	if rng.Intn(3) == 0 {
		hdrs = append(hdrs, wire.Pair{Name: "_timeout", Value: strconv.Itoa(30000 + rng.Intn(30000))})
	}
	// user headers, some with an empty value, one possibly with an empty name:
	// all of them legal v0 header pairs, in every position of the block
	if rng.Intn(2) == 0 {
		emptyName := false
		for i, n := 0, 1+rng.Intn(3); i < n; i++ {
			name := fmt.Sprintf("%s%d", []string{"x-user-", "k", "trace.id/", "h"}[rng.Intn(4)], i)
			if !emptyName && rng.Intn(6) == 0 {
				name, emptyName = "", true
			}
			val := ""
			if rng.Intn(2) == 0 {
				val = randText(rng, 1+rng.Intn(30))
			}
			hdrs = append(hdrs, wire.Pair{Name: name, Value: val})
		}
	}
	rng.Shuffle(len(hdrs), func(i, j int) { hdrs[i], hdrs[j] = hdrs[j], hdrs[i] })
	if rng.Intn(3) == 0 {
		// an empty-valued pair as the very last bytes of the header block
		for i := range hdrs {
			if hdrs[i].Value == "" {
				hdrs[i], hdrs[len(hdrs)-1] = hdrs[len(hdrs)-1], hdrs[i]
				break
			}
		}
	}
	r.hdrShape = "plain"
	for _, h := range hdrs {
		if h.Name == "" {
			r.hdrShape = "empty-name"
		}
	}
	for _, h := range hdrs {
		if h.Value == "" && r.hdrShape == "plain" {
			r.hdrShape = "empty-value"
		}
	}
	if hdrs[len(hdrs)-1].Value == "" {
		r.hdrShape = "empty-value-last"
	}
	msg := &wire.Message{Name: r.method, Type: mt, Seq: 0, Body: args}
	full, begin, end, err := wire.EncodeMessageSplit(rig.TProtocolFactory(proto), msg)
	if err != nil {
		panic(err)
	}
	switch kind {
	case kMalTrunc:
		// cut inside the args struct: the struct never ends
		keep := 0
		if end-begin > 1 {
			keep = rng.Intn(end - begin - 1)
		}
		if proto == "json" && keep < 1 {
			keep = 1 // keep the separating comma; "[1,"add",1,0" alone is also fine
		}
		full = append([]byte(nil), full[:begin+keep]...)
	case kMalType:
		var raw []byte
		switch proto {
		case "binary":
			// unknown ttype 0x63 for field 9; what follows starts with a non-zero
			// byte so that a stream server which goes on reading inside this
			// frame sees an unsupported protocol version, not a header block
			raw = append([]byte{0x63, 0x00, 0x09, 0x01}, randBytes(rng, 7)...)
			raw = append(raw, 0)
		case "compact":
			raw = append([]byte{0x1f, 0x01}, randBytes(rng, 7)...)
			raw = append(raw, 0)
		default:
			raw = []byte(`,{"9":{"zzz":1}}`)
		}
		full = append(append(append([]byte(nil), full[:begin]...), raw...), full[end:]...)
	}
	r.frame = wire.BuildFrame(hdrs, full)
	return r
}

func goodArgs(rng *rand.Rand, proto string, r *request, o genOpts) wire.Value {
	switch r.method {
	case "add":
		return wire.Struct(wire.F(1, wire.I32(rng.Int31())), wire.F(2, wire.I64(rng.Int63())))
	case "echo":
		req, _ := randPayload(rng, proto, r.token, o.smallOnly)
		return wire.Struct(wire.F(1, req), wire.F(2, wire.Str(r.token)))
	case "getBig":
		return wire.Struct(wire.F(1, wire.I32(10)), wire.F(2, wire.Str(r.token)))
	}
	return wire.Struct()
}

// newSentinel is a plain add used as a barrier.
func newSentinel(rng *rand.Rand, proto string) *request {
	r := newRequest(rng, proto, kAdd, genOpts{})
	r.sentinel = true
	return r
}

// kind mix: weights per kind
var kindWeights = [kindCount]int{kAdd: 10, kEchoOK: 12, kEchoOops: 4, kEchoAPIErr: 4, kPing: 5, kNothingOops: 3, kGetBig: 6, kBlob: 4,
	kUnknown: 10, kMalTrunc: 4, kMalType: 4, kErrInternal: 9, kAppEx: 9, kFire: 8, kFireFail: 2}

func pickKind(rng *rand.Rand, allowMalformed bool) int {
	for {
		tot := 0
		for _, w := range kindWeights {
			tot += w
		}
		x := rng.Intn(tot)
		for k, w := range kindWeights {
			if x < w {
				if !allowMalformed && (k == kMalTrunc || k == kMalType) {
					break
				}
				return k
			}
			x -= w
		}
	}
}
