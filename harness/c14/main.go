// C14 monitor: the server answers every two-way request exactly once with a
// well-formed reply (DESIGN.md §4 C14).  Requests are written by a reference
// writer (verif/wire), replies parsed by a reference reader; the emitted
// client is never involved.
package main

import (
	"fmt"
	"os"
	"strconv"
	"sync"

	"verif/ev"
	"verif/rig"
)

func main() {
	rig.Quiet()
	run := ev.New("C14", ev.ArgTier(), "exploration")
	run.Rule("a case is one request sequence (5-200 reference-built requests mixing good calls, declared exceptions, unknown methods, malformed arguments, handler errors, handler TApplicationExceptions and oneways) run against a fresh server: one simple-server connection (pipe, tcp; lock-step or pipelined), 1-16 concurrent simple-server connections, HTTP with 1-32 concurrent posts (one request in four announcing a response limit which its reply fills to 50-100%, others a limit the reply exceeds; fixed probes: 2400 posts by 24 posters with kept-open connections to one handler function, reply sizes differing from post to post; every 200 body must be a frame whose size bytes count what follows), the NATS server with 1-8 workers and 1-4 client connections (fixed probes: reply sizes around the 1 MiB output limit byte by byte; handlers whose response headers end 0-5000 bytes below that limit combined with handler error, TApplicationException, declared exception, success and an oversize result), and a server that processes one connection's frames concurrently through one shared output protocol; all three protocols. Distinct = (leg, protocol, mode, kind sequence).")
	run.Assume("Apache Thrift's plain protocols (the reference writer/reader use only their primitive Read*/Write* calls), nats-server, net/http; the emitted processor and recording handler are the code under observation")
	run.Assume("after malformed arguments on a stream connection nothing more is asserted about that connection (false-alarm guard of the design); a failing oneway may be answered or not; frames without _opid are C05's")

	only, limit := -1, -1
	args := ev.ArgRest()
	for i := 0; i+1 < len(args); i++ {
		switch args[i] {
		case "--seq":
			only, _ = strconv.Atoi(args[i+1])
		case "--limit":
			limit, _ = strconv.Atoi(args[i+1])
		}
	}
	total := 105
	if run.Thorough() {
		total = 5040
	}
	if limit >= 0 && limit < total {
		total = limit
	}
	broker, err := rig.StartNats()
	if err != nil {
		run.Inconclusive("cannot start the embedded nats-server: " + err.Error())
		os.Exit(run.Finish())
	}
	defer broker.Stop()

	// progress log: a sequence that was started but not finished when the
	// process dies (a panic inside the server under test cannot be recovered
	// from here) is the witness the driver re-runs on its own
	var progress *os.File
	if pth := os.Getenv("C14_PROGRESS"); pth != "" {
		progress, _ = os.OpenFile(pth, os.O_CREATE|os.O_APPEND|os.O_WRONLY, 0o644)
	}
	var pmu sync.Mutex
	mark := func(ev string, s *seqSpec) {
		if progress != nil {
			pmu.Lock()
			fmt.Fprintf(progress, "%s %d %s %s %s\n", ev, s.id, s.leg, s.proto, s.mode)
			pmu.Unlock()
		}
	}
	var jmu sync.Mutex
	record := func(s *seqSpec, res *seqResult) {
		mark("D", s)
		jmu.Lock()
		defer jmu.Unlock()
		run.Eval(1)
		run.Distinct(s.leg + ":" + s.proto + ":" + s.mode + ":" + s.shape())
		run.Add("sequences_"+s.leg, 1)
		run.Add("requests_sent", len(s.reqs))
		run.Add("reply_frames_received", res.framesIn)
		for _, r := range s.reqs {
			run.Add("kind_"+r.kindName(), 1)
		}
		for _, in := range res.inconclusive {
			run.Inconclusive(in)
		}
		judge(run, s, res)
		for _, r := range s.reqs {
			plans.Delete(r.token)
		}
	}
	// phase 0: fixed probes on the stream legs
	restrict := false
	if only < 0 || only >= probeBase {
		big, burst := probeSpecs()
		for _, s := range big {
			if only >= 0 && s.id != only {
				continue
			}
			mark("S", s)
			res := runSequence(s, broker)
			if len(res.desync) > 0 && s.proto == "json" {
				restrict = true
			}
			run.Add("probe_sequences", 1)
			record(s, res)
		}
		for _, s := range burst {
			if only >= 0 && s.id != only {
				continue
			}
			if restrict && s.proto == "json" && only < 0 {
				// same defect, different trigger: the outcome (rejected / stuck)
				// would only depend on how the frames happen to be buffered
				run.Add("probe_sequences_skipped_json_stream_defect_present", 1)
				continue
			}
			mark("S", s)
			res := runSequence(s, broker)
			if len(res.desync) > 0 && s.proto == "json" {
				restrict = true
			}
			run.Add("probe_sequences", 1)
			record(s, res)
		}
	}
	if only < 0 || only >= 2*probeBase {
		// NATS reply sizes around the server's output limit, byte by byte
		for i, proto := range rig.Protocols {
			natsBoundary(2*probeBase+10*i, proto, broker, func(s *seqSpec) *seqResult {
				if only >= 0 && s.id != only && s.id+1 != only {
					return nil
				}
				mark("S", s)
				res := runSequence(s, broker)
				run.Add("probe_sequences", 1)
				record(s, res)
				return res
			})
		}
	}
	if only < 0 || only >= 3*probeBase {
		// HTTP: replies that fit the limit their caller announced, filling 51% ... 100% of it
		for _, s := range withinLimitProbes(3 * probeBase) {
			if only >= 0 && s.id != only {
				continue
			}
			mark("S", s)
			res := runSequence(s, broker)
			run.Add("probe_sequences", 1)
			record(s, res)
		}
	}
	if only < 0 || only >= 4*probeBase {
		// HTTP: many posts inside one handler function at once, sizes differing from post to post
		for _, s := range concurrentSizesProbes(4 * probeBase) {
			if only >= 0 && s.id != only {
				continue
			}
			mark("S", s)
			res := runSequence(s, broker)
			run.Add("probe_sequences", 1)
			record(s, res)
		}
	}
	if only < 0 || only >= 5*probeBase {
		// NATS: handlers whose response headers leave 0 ... a few hundred bytes of the output limit
		for _, s := range hdrRoomProbes(5 * probeBase) {
			if only >= 0 && s.id != only {
				continue
			}
			mark("S", s)
			res := runSequence(s, broker)
			run.Add("probe_sequences", 1)
			run.Add("probe_requests_with_response_headers_near_output_limit", len(s.reqs)/2)
			record(s, res)
		}
	}
	if os.Getenv("C14_RESTRICT_JSON_STREAM") != "" {
		restrict = true
	}
	run.Set("json_on_stream_legs_restricted_to_small_lockstep_frames", restrict)

	ids := make(chan int)
	var wg sync.WaitGroup
	for w := 0; w < 6; w++ {
		wg.Add(1)
		go func() {
			defer wg.Done()
			for id := range ids {
				s := genSpec(id, run.Rand(fmt.Sprintf("seq-%d", id)), restrict, !run.Thorough() || id < 420 || (id/7)%5 == 0)
				mark("S", s)
				res := runSequence(s, broker)
				if id < 4 {
					run.Sample(s.describe())
				}
				record(s, res)
			}
		}()
	}
	for id := 0; id < total; id++ {
		if only >= 0 && id != only {
			continue
		}
		ids <- id
	}
	close(ids)
	wg.Wait()
	if v := os.Getenv("C14_RACE_REPORTS"); v != "" {
		n, _ := strconv.Atoi(v)
		run.Set("race_detector_reports_in_sample", n)
		run.Set("race_detector_sample", os.Getenv("C14_RACE_SAMPLE"))
	}
	code := run.Finish()
	if code == 0 && run.Count("requests_judged") == 0 {
		code = 3
	}
	os.Exit(code)
}
