package main

// Attribution of a server that stops answering.  When the finished-frame
// counter of the NATS leg stalls, the monitor does not just wait: it takes a
// goroutine dump and looks for a goroutine parked in sync.(*Mutex).lockSlow on
// THIS processor's write mutex (the dump prints the mutex address) whose own
// stack already passed through FBaseProcessorFunction.SendReply - the function
// that acquires that same mutex and holds it until it returns.  Such a
// goroutine waits for itself: a logical blocked-forever condition, no clock
// involved.  Every later reply of the processor queues up behind it.

import (
	"fmt"
	"runtime"
	"sort"
	"strings"
	"sync"
)

type deadlockReport struct {
	orphaned       string // ids of the goroutines parked on a write mutex nobody holds any more
	sample         string
	selfDeadlocked []string // stacks (trimmed) of goroutines re-entering the write mutex
	waiters        int      // goroutines parked on the write mutex in all
}

func allStacks() string {
	buf := make([]byte, 1<<20)
	for {
		n := runtime.Stack(buf, true)
		if n < len(buf) {
			return string(buf[:n])
		}
		buf = make([]byte, 2*len(buf))
	}
}

// diagnoseWriteMutex inspects the goroutines parked on mu.
func diagnoseWriteMutex(mu *sync.Mutex) *deadlockReport {
	if mu.TryLock() {
		mu.Unlock()
		return nil // free: whatever stalls the server, it is not this mutex
	}
	addr := fmt.Sprintf("%p", mu)
	rep := &deadlockReport{}
	for _, g := range strings.Split(allStacks(), "\n\n") {
		lines := strings.Split(g, "\n")
		lockLine := -1
		for i, l := range lines {
			if strings.HasPrefix(l, "sync.(*Mutex).lockSlow(") && strings.Contains(l, addr) {
				lockLine = i
				break
			}
		}
		if lockLine < 0 {
			continue
		}
		rep.waiters++
		// frames below the Lock call (callers): does this goroutine already hold
		// the mutex?  SendReply locks it on entry and calls out only while holding it.
		var callers []string
		for _, l := range lines[lockLine+1:] {
			if !strings.HasPrefix(l, "\t") && strings.Contains(l, "(") {
				callers = append(callers, l)
			}
		}
		viaOther := false
		for _, c := range callers {
			if strings.Contains(c, "(*FBaseProcessorFunction).SendReply(") {
				// a plain waiter calls Lock from SendReply directly; with another
				// processor-function frame in between, SendReply - which holds
				// the mutex from entry to return - is being re-entered
				if viaOther {
					keep := lines
					if len(keep) > 24 {
						keep = keep[:24]
					}
					rep.selfDeadlocked = append(rep.selfDeadlocked, strings.Join(keep, "\n"))
				}
				break
			}
			if strings.Contains(c, "(*FBaseProcessorFunction).") || strings.Contains(c, "(*FBaseProcessor).") {
				viaOther = true
			}
		}
	}
	return rep
}

// orphanedWriteMutex looks for the other way to lose the processor's write
// mutex: it is locked, and EVERY goroutine that is inside
// FBaseProcessor.Process of this very processor (the receiver address in the
// dump equals the mutex address, the mutex being the struct's first field) is
// parked in lockSlow on it.  The mutex is only ever taken inside Process, so
// its holder has left without releasing it and nobody can.  It returns the
// sorted ids of the parked goroutines ("" if the condition does not hold) and
// one of their stacks; the caller demands the same answer twice.
func orphanedWriteMutex(mu *sync.Mutex) (ids string, sample string) {
	if mu.TryLock() {
		mu.Unlock()
		return "", ""
	}
	addr := fmt.Sprintf("%p", mu)
	var parked []string
	for _, g := range strings.Split(allStacks(), "\n\n") {
		if !strings.Contains(g, "(*FBaseProcessor).Process("+addr+",") {
			continue
		}
		waits := false
		for _, l := range strings.Split(g, "\n") {
			if strings.HasPrefix(l, "sync.(*Mutex).lockSlow(") && strings.Contains(l, addr) {
				waits = true
				break
			}
		}
		if !waits {
			return "", "" // a goroutine of this processor that may hold the mutex and is not parked on it
		}
		head := g
		if i := strings.Index(g, "\n"); i > 0 {
			head = g[:i]
		}
		parked = append(parked, strings.Fields(head + " x x")[1])
		if sample == "" {
			lines := strings.Split(g, "\n")
			if len(lines) > 22 {
				lines = lines[:22]
			}
			sample = strings.Join(lines, "\n")
		}
	}
	if len(parked) == 0 {
		return "", ""
	}
	sort.Strings(parked)
	return strings.Join(parked, ","), sample
}
