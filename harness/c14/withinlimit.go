package main

// Replies that FIT the response limit an HTTP caller announced.
//
// A caller of the HTTP server may announce, per request, the largest reply it
// accepts (x-frugal-payload-limit, FHTTPTransportBuilder.WithResponseSizeLimit).
// A reply over that limit is refused with 413 (kind reply-over-client-limit);
// every reply that fits is owed like any other: exactly one REPLY / EXCEPTION
// frame with the request's op id.  The dimension added here is the size of the
// reply RELATIVE to the announced limit, spread over the whole upper half of
// the range (fill = reply bytes / limit in (0.5, 1]), for limits from a few
// dozen bytes to hundreds of kilobytes and for every request kind (results,
// declared exceptions, UNKNOWN_METHOD, PROTOCOL_ERROR, INTERNAL_ERROR, ...).
//
// The limit is derived from observation, not from a model of the reply: the
// same request frame is first posted without a limit; the frame the server
// answers with (n bytes including its 4 size bytes) is what that request's
// reply weighs, and L = ceil(n / fill) >= n.  The reply counted and judged is
// the one to the post that announces L.  Whatever the limit is compared with
// by a reasonable server (frame with or without the size bytes), n <= L fits.

import (
	"fmt"
	"math"
	"math/rand"
	"strings"

	"github.com/apache/thrift/lib/go/thrift"

	"verif/rig"
	"verif/wire"
)

// limitFor: the limit a caller announces so that a reply of n bytes (size
// bytes included) fills the share fill of it; never below n.
func limitFor(n int, fill float64) int {
	l := int(math.Ceil(float64(n) / fill))
	if l < n {
		l = n
	}
	return l
}

// drawFill: uniform over (0.5, 1], one draw in five exactly 1 (the reply and
// its size bytes are exactly what the caller accepts).
func drawFill(rng *rand.Rand) float64 {
	if rng.Intn(5) == 0 {
		return 1
	}
	return 1 - rng.Float64()/2
}

// fitsLimitEligible: kinds that are owed exactly one reply frame over HTTP.
func fitsLimitEligible(r *request) bool {
	return !r.oneway && !r.lenient && r.kind != kHTTPOverLimit && r.kind != kOversize && r.kind != kUnknownHuge
}

func fillBucket(n, limit int) string {
	pct := 100 * n / limit
	lo := pct / 10 * 10
	if lo >= 100 {
		return "100"
	}
	return fmt.Sprintf("%d-%d", lo, lo+9)
}

// withinLimitProbes: per protocol one HTTP sequence in which every two-way
// request announces a limit its reply fits; fills sweep (0.5, 1] for every
// request kind, result sizes from nothing to 300 KB; requests whose reply is
// OVER the announced limit (413) are mixed in.
func withinLimitProbes(id int) []*seqSpec {
	fixed := rand.New(rand.NewSource(20261013))
	var out []*seqSpec
	kinds := []int{kPing, kGetBig, kAdd, kEchoOK, kEchoOops, kErrInternal, kGetBig, kAppEx, kUnknown, kBlob, kEchoAPIErr, kNothingOops, kGetBig, kMalType}
	sizes := []int{0, 100, 700, 3000, 20000, 300000}
	fills := []float64{0.51, 0.6, 0.7, 0.76, 0.8, 0.9, 0.97, 1}
	for _, proto := range rig.Protocols {
		s := &seqSpec{id: id, leg: "http", proto: proto, mode: "probe-replies-within-client-limit", conns: 4, rng: fixed,
			note: "every two-way request announces an x-frugal-payload-limit L which its reply fits (reply bytes / L sweeping 0.51 ... 1)"}
		nbig := 0
		for i := 0; i < 72; i++ {
			k := kinds[i%len(kinds)]
			if i%9 == 8 {
				k = kHTTPOverLimit
			}
			r := newRequest(fixed, proto, k, genOpts{smallOnly: k != kHTTPOverLimit})
			if k == kGetBig {
				// result sizes chosen here: the reply sizes (and with them the
				// limits) span four orders of magnitude
				n := sizes[nbig%len(sizes)]
				nbig++
				big := r.token + strings.Repeat("0123456789abcdef", n/16+1)[:n]
				if v, ok := plans.Load(r.token); ok {
					v.(*plan).ret = big
				}
				e := wire.Struct(wire.F(0, wire.Str(big)))
				r.expBody = &e
			}
			if fitsLimitEligible(r) {
				// 72 requests, 14 kinds, 8 fills: every kind meets every fill class
				r.limitFill = fills[(i+i/len(kinds))%len(fills)]
			}
			r.idx = i
			s.reqs = append(s.reqs, r)
		}
		s.perConn = [][]*request{s.reqs}
		s.sentinel = []*request{newSentinel(fixed, proto)}
		out = append(out, s)
		id++
	}
	return out
}

// judgeWithinLimit decides the one thing that is special about a request whose
// caller announced a limit: it reports true when the request is done with.
func judgeWithinLimit(run verdictSink, s *seqSpec, r *request, witness func(*request, map[string]interface{}) map[string]interface{}) bool {
	if r.limitFill == 0 || r.respLimit == 0 {
		return false
	}
	run.Add("http_requests_announcing_a_limit_their_reply_fits", 1)
	run.Add("http_reply_fill_of_announced_limit_pct_"+fillBucket(r.unlimitedLen, r.respLimit), 1)
	if r.httpStatus != 413 {
		return false // answered (or failed) like any other request: judged as such
	}
	run.Violation("C14:reply-within-client-limit-refused:http:"+s.proto,
		fmt.Sprintf("the caller announced x-frugal-payload-limit %d; the reply to this request is a frame of %d bytes (%d with its size bytes; measured by posting the same frame without a limit), i.e. %d%% of what the caller accepts - the server answered HTTP 413 instead of the %s frame: %s",
			r.respLimit, r.unlimitedLen-4, r.unlimitedLen, 100*r.unlimitedLen/r.respLimit, map[bool]string{true: "REPLY", false: "EXCEPTION"}[r.expType == thrift.REPLY], r.sendErr),
		witness(r, map[string]interface{}{"reply_frame_bytes_without_limit": r.unlimitedLen - 4, "reply_bytes_with_size_prefix": r.unlimitedLen}))
	return true
}
