package main

// STOMP subscriber leg (needs verif/rig/stomp_broker.go; the driver replaces
// this file by stomp_off.go when the broker is not there).

import (
	frugal "github.com/Workiva/frugal/lib/go"

	"verif/rig"
	"vh/gen/mainsvc"
)

const stompAvailable = true

type stompSubscriber struct {
	proto  string
	broker *rig.StompBroker
	got    chan *mainsvc.Payload
}

const stompSubWorker = "(*fStompSubscriberTransport).processMessages"

func newStompSubscriber(proto string) (entryPoint, error) {
	b, err := rig.StartStompBroker()
	if err != nil {
		return nil, subscriberSetupError("stomp broker", err)
	}
	conn, err := b.Dial()
	if err != nil {
		return nil, subscriberSetupError("stomp dial", err)
	}
	s := &stompSubscriber{proto: proto, broker: b, got: make(chan *mainsvc.Payload, 4096)}
	provider := frugal.NewFScopeProvider(
		frugal.NewFStompPublisherTransportFactoryBuilder(conn).Build(),
		frugal.NewFStompSubscriberTransportFactoryBuilder(conn).Build(),
		rig.ProtocolFactory(proto))
	if _, err := mainsvc.NewEventsSubscriber(provider).SubscribeSent("u1", func(_ frugal.FContext, p *mainsvc.Payload) { s.got <- p }); err != nil {
		return nil, subscriberSetupError("stomp subscribe", err)
	}
	if !b.WaitSubscribers(stompDestination, 1, hardWait) {
		return nil, subscriberSetupError("stomp subscribe", errNoSubscriber)
	}
	return s, nil
}

const stompDestination = "/topic/frugal.foo.u1.Events.Sent"

func (s *stompSubscriber) mode(idx int) string { return "message" }

func (s *stompSubscriber) deliver(idx int, in input) outcome {
	s.broker.Inject(stompDestination, in.Data)
	s.broker.Inject(stompDestination, pubCanary(s.proto, idx))
	_, o := await(s.got, isCanary(idx), stompSubWorker)
	if o.kind == "stall" {
		o.note = "well-formed message delivered after the input never reached the subscriber callback: " + o.note
	}
	if o.kind != "ok" {
		return o
	}
	if idx%256 == 255 {
		s.broker.Forget(stompDestination)
	}
	return okOutcome("same-subscription")
}
