package main

// STOMP subscriber leg (needs verif/rig/stomp_broker.go; the driver replaces
// this file by stomp_off.go when the broker is not there).

import (
	"io"
	"log"

	frugal "github.com/Workiva/frugal/lib/go"

	"verif/rig"
	"vh/gen/mainsvc"
)

const stompAvailable = true

type stompSubscriber struct {
	proto  string
	broker *rig.StompBroker
	got    chan *mainsvc.Payload
}

const stompSubWorker = "(*fStompSubscriberTransport).processMessages"

func newStompSubscriber(proto string) (entryPoint, error) {
	log.SetOutput(io.Discard) // go-stomp reports connection errors on the standard logger
	b, err := rig.StartStompBroker()
	if err != nil {
		return nil, subscriberSetupError("stomp broker", err)
	}
	s := &stompSubscriber{proto: proto, broker: b}
	if err := s.subscribe(); err != nil {
		return nil, err
	}
	return s, nil
}

// subscribe makes a new connection and a new generated subscription on it.
func (s *stompSubscriber) subscribe() error {
	conn, err := s.broker.Dial()
	if err != nil {
		return subscriberSetupError("stomp dial", err)
	}
	got := make(chan *mainsvc.Payload, 4096)
	s.got = got
	before := s.broker.FrameCounts()["SUBSCRIBE"]
	provider := frugal.NewFScopeProvider(
		frugal.NewFStompPublisherTransportFactoryBuilder(conn).Build(),
		frugal.NewFStompSubscriberTransportFactoryBuilder(conn).Build(),
		rig.ProtocolFactory(s.proto))
	if _, err := mainsvc.NewEventsSubscriber(provider).SubscribeSent("u1", func(_ frugal.FContext, p *mainsvc.Payload) { got <- p }); err != nil {
		return subscriberSetupError("stomp subscribe", err)
	}
	// the broker has seen this SUBSCRIBE (an older, failed connection may still
	// be on its way out of the broker's tables)
	if o := awaitCond(func() bool {
		return s.broker.FrameCounts()["SUBSCRIBE"] > before && s.broker.SubscriberCount(stompDestination) >= 1
	}, nil); o.kind != "ok" {
		return subscriberSetupError("stomp subscribe", errNoSubscriber)
	}
	return nil
}

const stompDestination = "/topic/frugal.foo.u1.Events.Sent"

// mode: besides MESSAGE frames the peer can end a live subscription - with an
// ERROR frame or by dropping the connection - after good messages.
func (s *stompSubscriber) mode(idx int) string {
	switch idx % 64 {
	case 13:
		return "message+broker-ERROR-frame"
	case 45:
		return "message+connection-dropped"
	}
	return "message"
}

func (s *stompSubscriber) canary(idx int) outcome {
	s.broker.Inject(stompDestination, pubCanary(s.proto, idx))
	_, o := await(s.got, isCanary(idx), stompSubWorker)
	if o.kind == "stall" {
		o.note = "well-formed message delivered after the input never reached the subscriber callback: " + o.note
	}
	return o
}

func (s *stompSubscriber) deliver(idx int, in input) outcome {
	s.broker.Inject(stompDestination, in.Data)
	if o := s.canary(idx); o.kind != "ok" {
		return o
	}
	if idx%256 == 255 {
		s.broker.Forget(stompDestination)
	}
	m := s.mode(idx)
	if m == "message" {
		return okOutcome("same-subscription")
	}
	// the peer ends the subscription: the subscriber's receive loop must come to
	// an end without taking the process down (its goroutine going away is the
	// logical fence), and a new subscription must be served
	if m == "message+broker-ERROR-frame" {
		s.broker.FailSubscribers(stompDestination, "broker shutting down")
	} else {
		s.broker.DropSubscribers(stompDestination)
	}
	if o := awaitCond(func() bool { return goroutinesWith(stompSubWorker) == 0 }, nil); o.kind != "ok" {
		o.note = "the subscriber's receive loop is still there after the peer ended the connection: " + o.note
		return o
	}
	if err := s.subscribe(); err != nil {
		return outcome{"wrong", "[resubscribe] new connection and subscription after the peer ended the old one: " + err.Error()}
	}
	if o := s.canary(idx); o.kind != "ok" {
		return o
	}
	return okOutcome("new-subscription-after-peer-fault")
}
