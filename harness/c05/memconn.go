package main

// An in-memory duplex connection with half-close, and a TServerTransport that
// hands such connections to FSimpleServer.  Writes never block (the buffer is
// unbounded), so after the server goroutine of a connection has gone every
// reply it wrote can be read synchronously.

import (
	"io"
	"net"
	"sync"
	"time"

	"github.com/apache/thrift/lib/go/thrift"
)

type halfPipe struct {
	mu     sync.Mutex
	cond   *sync.Cond
	buf    []byte
	wclose bool // writer closed: readers drain then get EOF
	rclose bool // reader closed: writes fail
	reads  int  // Read calls that returned
	sawEOF bool
}

func newHalfPipe() *halfPipe {
	h := &halfPipe{}
	h.cond = sync.NewCond(&h.mu)
	return h
}

func (h *halfPipe) write(p []byte) (int, error) {
	h.mu.Lock()
	defer h.mu.Unlock()
	if h.wclose || h.rclose {
		return 0, io.ErrClosedPipe
	}
	h.buf = append(h.buf, p...)
	h.cond.Broadcast()
	return len(p), nil
}

func (h *halfPipe) read(p []byte) (int, error) {
	h.mu.Lock()
	defer h.mu.Unlock()
	for {
		if h.rclose {
			h.reads++
			return 0, io.ErrClosedPipe
		}
		if len(h.buf) > 0 {
			n := copy(p, h.buf)
			h.buf = h.buf[n:]
			h.reads++
			return n, nil
		}
		if h.wclose {
			h.reads++
			h.sawEOF = true
			return 0, io.EOF
		}
		if len(p) == 0 {
			h.reads++
			return 0, nil
		}
		h.cond.Wait()
	}
}

func (h *halfPipe) closeWrite() { h.mu.Lock(); h.wclose = true; h.cond.Broadcast(); h.mu.Unlock() }
func (h *halfPipe) closeRead()  { h.mu.Lock(); h.rclose = true; h.cond.Broadcast(); h.mu.Unlock() }

// takeAll returns and removes everything buffered (non-blocking).
func (h *halfPipe) takeAll() []byte {
	h.mu.Lock()
	defer h.mu.Unlock()
	b := h.buf
	h.buf = nil
	return b
}

type memAddr struct{}

func (memAddr) Network() string { return "mem" }
func (memAddr) String() string  { return "mem" }

// memConn is one end of the duplex connection.
type memConn struct {
	in, out *halfPipe
	once    sync.Once
}

func memPipe() (client, server *memConn) {
	a, b := newHalfPipe(), newHalfPipe()
	return &memConn{in: b, out: a}, &memConn{in: a, out: b}
}

func (c *memConn) Read(p []byte) (int, error)  { return c.in.read(p) }
func (c *memConn) Write(p []byte) (int, error) { return c.out.write(p) }
func (c *memConn) CloseWrite()                 { c.out.closeWrite() }
func (c *memConn) Close() error {
	c.once.Do(func() { c.out.closeWrite(); c.in.closeRead() })
	return nil
}
func (c *memConn) LocalAddr() net.Addr              { return memAddr{} }
func (c *memConn) RemoteAddr() net.Addr             { return memAddr{} }
func (c *memConn) SetDeadline(time.Time) error      { return nil }
func (c *memConn) SetReadDeadline(time.Time) error  { return nil }
func (c *memConn) SetWriteDeadline(time.Time) error { return nil }

// memServerTransport is the listening side.
type memServerTransport struct {
	conns    chan net.Conn
	quit     chan struct{}
	once     sync.Once
	mu       sync.Mutex
	accepted int
}

func newMemServerTransport() *memServerTransport {
	return &memServerTransport{conns: make(chan net.Conn, 16), quit: make(chan struct{})}
}
func (p *memServerTransport) Listen() error { return nil }
func (p *memServerTransport) Accept() (thrift.TTransport, error) {
	select {
	case c := <-p.conns:
		p.mu.Lock()
		p.accepted++
		p.mu.Unlock()
		return thrift.NewTSocketFromConnConf(c, nil), nil
	case <-p.quit:
		return nil, thrift.NewTTransportException(thrift.NOT_OPEN, "mem server transport closed")
	}
}
func (p *memServerTransport) Close() error     { p.once.Do(func() { close(p.quit) }); return nil }
func (p *memServerTransport) Interrupt() error { return p.Close() }
func (p *memServerTransport) dial() *memConn {
	c, s := memPipe()
	p.conns <- s
	return c
}
