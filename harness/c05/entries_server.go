package main

// Server request path: what a client (or anybody who can connect / publish on
// the service subject / POST to the handler) can deliver.

import (
	"bytes"
	"encoding/base64"
	"fmt"
	"net/http"
	"net/http/httptest"
	"strconv"
	"strings"
	"time"

	frugal "github.com/Workiva/frugal/lib/go"
	"github.com/nats-io/nats.go"

	"verif/rig"
)

// ---- FSimpleServer connection (byte stream) -------------------------------------

type simpleServer struct {
	proto string
	st    *memServerTransport
}

const simpleAcceptFrame = "(*FSimpleServer).accept"
const simpleAcceptLoop = "(*FSimpleServer).acceptLoop"

func newSimpleServer(proto string) (entryPoint, error) {
	st := newMemServerTransport()
	srv := frugal.NewFSimpleServer(newProcessor(), st, rig.ProtocolFactory(proto))
	go srv.Serve()
	return &simpleServer{proto: proto, st: st}, nil
}

func (s *simpleServer) mode(idx int) string { return "stream" }

// exchange writes chunks on a new connection, half-closes it, waits until the
// server goroutine of that connection is gone and returns the reply frames.
func (s *simpleServer) exchange(chunks ...[]byte) ([][]byte, outcome) {
	c := s.st.dial()
	for _, b := range chunks {
		c.Write(b)
	}
	c.CloseWrite()
	// the connection goroutine exists once the server has read from the
	// connection; it is over when no goroutine is inside accept() any more
	lastReads := 0
	o := awaitCond(func() bool {
		c.out.mu.Lock()
		reads := c.out.reads
		c.out.mu.Unlock()
		if reads == 0 {
			return false
		}
		if reads != lastReads {
			// still consuming its input: no goroutine dump now (a dump stops the
			// world and unwinds every stack, however deep)
			lastReads = reads
			return false
		}
		return goroutinesWith(simpleAcceptFrame) == 0
	}, func() (bool, string) {
		// nobody will ever take the connection if the accept loop is gone
		return goroutinesWith(simpleAcceptLoop) > 0, simpleAcceptLoop
	})
	if o.kind != "ok" {
		if o.kind == "stall" {
			o.note = "the server goroutine of a connection whose input has ended never finished: " + o.note
		}
		return nil, o
	}
	frames := splitFrames(c.in.takeAll())
	c.Close()
	return frames, okOutcome("")
}

func (s *simpleServer) deliver(idx int, in input) outcome {
	canary, opid, check := serverCanary(s.proto, idx)
	frames, o := s.exchange(in.Data, canary)
	if o.kind != "ok" {
		return o
	}
	for _, f := range frames {
		if replyOpid(f) == opid && check(f) == nil {
			return okOutcome("same-connection")
		}
	}
	// the server may have given up on that connection; it must still accept
	frames, o = s.exchange(canary)
	if o.kind != "ok" {
		return o
	}
	var last error = fmt.Errorf("no reply frame")
	for _, f := range frames {
		if last = check(f); last == nil {
			return okOutcome("new-connection")
		}
	}
	return outcome{"wrong", fmt.Sprintf("canary request on a new connection: %v (%d reply frames)", last, len(frames))}
}

// ---- FNatsServer (message -> worker) --------------------------------------------

type natsServer struct {
	proto   string
	ns      *rig.NatsServer
	peer    *nats.Conn
	replies chan *nats.Msg
	subject string
}

const natsServerWorker = "(*fNatsServer).worker"

func newNatsServer(proto string) (entryPoint, error) {
	ns, err := rig.StartNats()
	if err != nil {
		return nil, err
	}
	n := &natsServer{proto: proto, ns: ns, subject: "c05.service", replies: make(chan *nats.Msg, 4096)}
	sc, err := ns.Connect()
	if err != nil {
		return nil, err
	}
	srv := frugal.NewFNatsServerBuilder(sc, newProcessor(), rig.ProtocolFactory(proto), []string{n.subject}).Build()
	go srv.Serve()
	deadline := time.Now().Add(10 * time.Second)
	for !ns.HasInterest(n.subject) {
		sc.Flush()
		if time.Now().After(deadline) {
			return nil, fmt.Errorf("FNatsServer did not subscribe")
		}
		time.Sleep(time.Millisecond)
	}
	if n.peer, err = ns.Connect(); err != nil {
		return nil, err
	}
	if _, err = n.peer.Subscribe("c05.reply.v.*", func(m *nats.Msg) { n.replies <- m }); err != nil {
		return nil, err
	}
	n.peer.Flush()
	return n, nil
}

func (n *natsServer) mode(idx int) string {
	if idx%8 == 5 {
		return "no-reply-subject"
	}
	return "request"
}

func (n *natsServer) deliver(idx int, in input) outcome {
	canary, _, check := serverCanary(n.proto, idx)
	if n.mode(idx) == "no-reply-subject" {
		n.peer.Publish(n.subject, in.Data)
	} else {
		n.peer.PublishRequest(n.subject, fmt.Sprintf("c05.reply.h.%d", idx), in.Data)
	}
	want := fmt.Sprintf("c05.reply.v.%d", idx)
	n.peer.PublishRequest(n.subject, want, canary)
	n.peer.Flush()
	m, o := await(n.replies, func(m *nats.Msg) bool { return m.Subject == want }, natsServerWorker)
	if o.kind != "ok" {
		if o.kind == "stall" {
			o.note = "well-formed request published after the input was never answered: " + o.note
		}
		return o
	}
	if err := check(m.Data); err != nil {
		return outcome{"wrong", "canary request on the same subscription: " + err.Error()}
	}
	return okOutcome("same-subscription")
}

// ---- NewFrugalHandlerFunc, invoked directly ---------------------------------------

type httpHandler struct {
	proto   string
	handler http.HandlerFunc
}

func newHTTPHandler(proto string) (entryPoint, error) {
	return &httpHandler{proto: proto, handler: frugal.NewFrugalHandlerFunc(newProcessor(), rig.ProtocolFactory(proto))}, nil
}

var httpLimits = []string{"0", "-1", "abc", "99999999999999999999", "16", "1", ""}

var httpLengths = []string{"-1", "1000000", "1125899906842624", "72057594037927936", "9223372036854775807",
	"274877906944", "8589934592", "2147483648", "4294967295", "5"}

func (h *httpHandler) mode(idx int) string {
	switch idx % 8 {
	case 3:
		return "b64+limit=1"
	case 4:
		return "raw-body"
	case 5:
		// the declared length is a size field of its own: it need not have
		// anything to do with the bytes that follow
		return "b64+content-length=" + httpLengths[(idx/8)%len(httpLengths)]
	case 6:
		return "b64+content-length=4"
	case 7:
		return "b64+limit=" + httpLimits[(idx/8)%len(httpLimits)]
	}
	return "b64"
}

func (h *httpHandler) post(body []byte, contentLength int64, limit *string) *httptest.ResponseRecorder {
	req, _ := http.NewRequest("POST", "http://c05.invalid/frugal", bytes.NewReader(body))
	req.Header.Set("content-type", "application/x-frugal")
	req.Header.Set("content-transfer-encoding", "base64")
	if contentLength != -2 {
		req.ContentLength = contentLength
	}
	if limit != nil {
		req.Header.Set("x-frugal-payload-limit", *limit)
	}
	rec := httptest.NewRecorder()
	// called directly: a panic is not hidden by net/http's per-connection recover
	h.handler(rec, req)
	return rec
}

func (h *httpHandler) deliver(idx int, in input) outcome {
	body := []byte(base64.StdEncoding.EncodeToString(in.Data))
	cl := int64(-2)
	var limit *string
	switch m := h.mode(idx); m {
	case "b64+limit=1":
		s := "1"
		limit = &s
	case "raw-body":
		body = in.Data
	case "b64+content-length=4":
		cl = 4
	case "b64":
	default:
		if strings.HasPrefix(m, "b64+content-length=") {
			cl, _ = strconv.ParseInt(m[len("b64+content-length="):], 10, 64)
			break
		}
		s := m[len("b64+limit="):]
		limit = &s
	}
	h.post(body, cl, limit)
	canary, _, check := serverCanary(h.proto, idx)
	rec := h.post([]byte(base64.StdEncoding.EncodeToString(canary)), -2, nil)
	if rec.Code != 200 {
		return outcome{"wrong", fmt.Sprintf("canary POST: status %d %q", rec.Code, rec.Body.String())}
	}
	reply, err := base64.StdEncoding.DecodeString(rec.Body.String())
	if err != nil {
		return outcome{"wrong", "canary POST: reply is not base64: " + err.Error()}
	}
	if err := check(reply); err != nil {
		return outcome{"wrong", "canary POST: " + err.Error()}
	}
	return okOutcome("next-request")
}
