package main

// Stub used when verif/rig/stomp_broker.go does not exist (the driver deletes
// stomp_on.go in that case, otherwise it deletes this file).

import "fmt"

const stompAvailable = false

func newStompSubscriber(proto string) (entryPoint, error) {
	return nil, fmt.Errorf("no STOMP broker in verif/rig")
}
