// C05 monitor: no byte sequence a peer can deliver may crash or wedge a Frugal
// process.  Parent mode plans the inputs, runs the receivers in child
// processes (this same binary, sub-command "child"), reads their logs and
// decides; see child.go for the child side and inputs.go for the case list.
package main

import (
	"bufio"
	"encoding/json"
	"fmt"
	"os"
	"os/exec"
	"path/filepath"
	"sort"
	"strconv"
	"strings"
	"sync"
	"syscall"
	"time"

	"verif/ev"
	"verif/rig"
)

func main() {
	if len(os.Args) > 1 && os.Args[1] == "child" {
		os.Exit(runChild(os.Args[2:]))
	}
	os.Exit(runParent())
}

var allEntries = []string{
	"adapter-client-response", "nats-client-response", "http-client-response",
	"simple-server-request", "nats-server-request", "http-handler-request",
	"nats-subscriber", "stomp-subscriber",
}

// logged is one "I" line of a child log.
type logged struct {
	idx               int
	class, mode, hexs string
}

type crash struct {
	Entry   string `json:"entry_point"`
	Proto   string `json:"protocol"`
	Idx     int    `json:"input_index"`
	Class   string `json:"mutation_class"`
	Mode    string `json:"delivery"`
	Hex     string `json:"input_hex"`
	Kind    string `json:"kind"` // panic | fatal | oom | dead | blocked | stall | wrong | exit
	Sig     string `json:"signature"`
	Msg     string `json:"message"`
	Where   string `json:"where"`
	Stack   string `json:"stack,omitempty"`
	Attrib  string `json:"attribution"` // in-flight | last-verified
	Confirm string `json:"confirmed,omitempty"`
}

type batchResult struct {
	entry, proto string
	from         int
	delivered    int
	skipped      int
	notRun       int
	canaries     int
	hows         map[string]int
	classes      map[string]int
	children     int
	crashes      []crash
	incon        []string
	sample       *logged
}

type job struct {
	entry, proto string
	from, to     int
}

var (
	selfBin   string
	tierArg   string
	scratch   string
	childWall time.Duration
)

func runParent() int {
	tierArg = ev.ArgTier()
	run := ev.New("C05", tierArg, "exploration")
	selfBin, _ = os.Executable()
	scratch = filepath.Join(ev.ScratchDir(), "c05-logs")
	os.MkdirAll(scratch, 0o755)
	childWall = 6 * time.Minute
	batch := 200
	if run.Thorough() {
		childWall = 20 * time.Minute
		batch = 2500
	}
	if rest := ev.ArgRest(); len(rest) >= 2 && rest[0] == "--replay" {
		return replay(rest[1])
	}
	entries := allEntries
	if !stompAvailable {
		entries = entries[:len(entries)-1]
	}
	run.Rule("inputs per (entry point, protocol) = pure function of (seed, tier): (i) every byte string of length 0-1 and (thorough) 2, fills of length 0-64 with 00/FF/counter; " +
		"(v) on the stream entry points one run of 8-16 MiB of a repeated small unit (00000000, a minimal frame with an empty header block, a frame the receiver skips) per protocol; (iv) structurally valid frames with 600 KiB - 1 MiB method names, header values, string and binary arguments (larger than the bounded buffers on the way); (ii) structured mutations of valid fixture frames built with the reference codec (every Frugal and Thrift size field set to 0,1,2,3,len-1,len+1,7FFFFFFF,80000000,FFFFFFFF; version byte; truncation at every offset with and without a consistent frame size; duplicate/missing/non-numeric _opid; _timeout extremes; method name; message type) - all of them in thorough, a stratified PRNG sample in quick; " +
		"(iii) PRNG byte flips and splices; (vi) on the server request path, well-formed requests to known methods (getBig, whose reply is bigger than its request, add, basePing, echo) whose total size is swept over limit-99 .. limit (+ 5 sizes above) of the 1 MiB bounded reply buffer, with all of the padding in the values of the headers every reply has to echo (_opid / _cid / both), with and without _timeout (class edgehdr). Each input is logged, delivered to a receiver living in a child process, and followed by a well-formed canary whose handling is verified. distinct = entry point x protocol x mutation class x delivery variant, counted when at least one such input was delivered")
	run.Assume("Apache Thrift, nats.go, the embedded nats-server, go-stomp and net/http are trusted; the STOMP broker is verif/rig's; a child that runs out of memory is excluded (memory amplification is not part of the statement)")
	run.Assume("while a class edgehdr input (flat, well-formed: 2-3 headers, a known method, scalar arguments) is in flight the child bounds goroutine stacks to 2 MiB instead of 256 MiB, so that recursion which does not end reaches the runtime's fatal stack overflow after thousands of rounds instead of millions")
	run.Assume("the panic signature is the first frame of the panicking goroutine inside github.com/Workiva/frugal/lib/go (function name, no line)")

	// plan
	var jobs []job
	planned := map[string]int{}
	for _, proto := range rig.Protocols {
		for _, e := range entries {
			n := len(specList(e, proto, run.Thorough(), run.Rand(streamName(e, proto))))
			planned[e] += n
			for f := 0; f < n; f += batch {
				t := f + batch
				if t > n {
					t = n
				}
				jobs = append(jobs, job{e, proto, f, t})
			}
		}
	}
	// interleave entry points so that children of different kinds run together
	sort.SliceStable(jobs, func(i, j int) bool { return jobs[i].from < jobs[j].from })

	procs := 16
	if s := os.Getenv("C05_PROCS"); s != "" {
		if n, err := strconv.Atoi(s); err == nil && n > 0 {
			procs = n
		}
	}
	results := make([]*batchResult, len(jobs))
	var wg sync.WaitGroup
	next := make(chan int)
	for w := 0; w < procs; w++ {
		wg.Add(1)
		go func() {
			defer wg.Done()
			for i := range next {
				results[i] = runBatch(jobs[i])
			}
		}()
	}
	for i := range jobs {
		next <- i
	}
	close(next)
	wg.Wait()

	// aggregate
	type entryStat struct {
		Planned   int            `json:"planned"`
		Delivered int            `json:"inputs_delivered"`
		Skipped   int            `json:"skipped_after_crash_in_same_class"`
		NotRun    int            `json:"not_run"`
		Canaries  int            `json:"canaries_verified"`
		How       map[string]int `json:"canary_how"`
		Children  int            `json:"child_processes"`
		Crashes   int            `json:"child_failures"`
	}
	stats := map[string]*entryStat{}
	for _, e := range entries {
		stats[e] = &entryStat{Planned: planned[e], How: map[string]int{}}
	}
	var crashes []crash
	samples := map[string]*logged{}
	for _, r := range results {
		s := stats[r.entry]
		s.Delivered += r.delivered
		s.Skipped += r.skipped
		s.NotRun += r.notRun
		s.Canaries += r.canaries
		s.Children += r.children
		s.Crashes += len(r.crashes)
		for k, v := range r.hows {
			s.How[k] += v
		}
		for k := range r.classes {
			run.Distinct(r.entry + "|" + r.proto + "|" + k)
		}
		run.Eval(r.delivered)
		crashes = append(crashes, r.crashes...)
		for _, m := range r.incon {
			run.Inconclusive(m)
		}
		if r.sample != nil {
			k := r.entry + "/" + r.proto
			if cur, ok := samples[k]; !ok || r.sample.idx < cur.idx {
				samples[k] = r.sample
			}
		}
	}
	run.Set("per_entry_point", stats)
	total := map[string]int{}
	for _, s := range stats {
		total["inputs"] += s.Delivered
		total["canaries"] += s.Canaries
		total["children"] += s.Children
		total["failures"] += s.Crashes
		total["skipped"] += s.Skipped
	}
	run.Add("inputs_delivered", total["inputs"])
	run.Add("canaries_verified", total["canaries"])
	run.Add("child_processes", total["children"])
	run.Add("child_failures", total["failures"])
	run.Add("skipped_after_crash_in_same_class", total["skipped"])
	run.Set("entry_points", entries)
	run.Set("stomp_leg", stompAvailable)
	keys := make([]string, 0, len(samples))
	for k := range samples {
		keys = append(keys, k)
	}
	sort.Strings(keys)
	for i, k := range keys {
		if i%4 == 0 { // a few, from different entry points
			l := samples[k]
			run.Sample(map[string]interface{}{"entry_point/protocol": k, "index": l.idx, "class": l.class, "delivery": l.mode, "hex": l.hexs})
		}
	}

	// verdicts: one violation per signature, minimal confirmed witness
	bySig := map[string][]crash{}
	oom := 0
	for _, c := range crashes {
		if c.Kind == "oom" {
			oom++
			continue
		}
		bySig[c.Sig] = append(bySig[c.Sig], c)
	}
	run.Add("children_out_of_memory_excluded", oom)
	sigs := make([]string, 0, len(bySig))
	for s := range bySig {
		sigs = append(sigs, s)
	}
	sort.Strings(sigs)
	for _, sig := range sigs {
		cs := bySig[sig]
		sort.SliceStable(cs, func(i, j int) bool {
			if len(cs[i].Hex) != len(cs[j].Hex) {
				return len(cs[i].Hex) < len(cs[j].Hex)
			}
			if cs[i].Proto != cs[j].Proto {
				return protoIndex(cs[i].Proto) < protoIndex(cs[j].Proto)
			}
			return cs[i].Idx < cs[j].Idx
		})
		best := cs[0]
		best.Confirm = "not reproduced alone"
		if run.IsKnown(sig) {
			best.Confirm = "not replayed (known finding)"
		} else {
			for k := 0; k < len(cs) && k < 3; k++ {
				r := runBatch(job{cs[k].Entry, cs[k].Proto, cs[k].Idx, cs[k].Idx + 1})
				if len(r.crashes) > 0 && r.crashes[0].Sig == sig {
					best = cs[k]
					best.Confirm = "reproduced alone in a fresh child"
					break
				}
			}
		}
		switch best.Kind {
		case "stall", "exit":
			run.Inconclusive(fmt.Sprintf("%s: %s (input %s/%s #%d %s)", sig, best.Msg, best.Entry, best.Proto, best.Idx, best.Hex))
			continue
		}
		if best.Where == "" {
			best.Where = "-"
		}
		what := fmt.Sprintf("%s: %s [%s] after input #%d (%s, %s, %d bytes, delivery %s); %d occurrence(s) in this run; %s",
			best.Entry, describe(best), best.Where, best.Idx, best.Class, best.Proto, inputSize(best.Hex), best.Mode, len(cs), best.Confirm)
		if n := len(best.Hex); n > 8192 {
			best.Hex = fmt.Sprintf("%s...(%d bytes in all: %s; regenerate with --replay from entry point, protocol, index, seed and tier)", best.Hex[:1024], n/2, summarize(best.Hex))
		}
		run.Violation(sig, what, map[string]interface{}{
			"entry_point": best.Entry, "protocol": best.Proto, "input_index": best.Idx, "mutation_class": best.Class,
			"delivery": best.Mode, "input_hex": best.Hex, "kind": best.Kind, "message": best.Msg, "where": best.Where,
			"stack": best.Stack, "occurrences": len(cs), "confirmed": best.Confirm, "attribution": best.Attrib,
		})
	}
	// sanity gate
	for _, e := range entries {
		if stats[e].Canaries == 0 {
			run.Inconclusive(fmt.Sprintf("entry point %s verified no canary", e))
		}
	}
	code := run.Finish()
	return code
}

// inputSize is the length in bytes of a logged input ("rle:<unit>*<n>" or hex).
func inputSize(h string) int {
	if n, ok := labelBytes(h); ok {
		return n
	}
	if strings.HasPrefix(h, "rle:") {
		if k := strings.Index(h, "*"); k > 4 {
			n, _ := strconv.Atoi(h[k+1:])
			return n * (k - 4) / 2
		}
	}
	return len(h) / 2
}

// summarize describes a big input by its runs of one repeated byte.
func summarize(h string) string {
	var parts []string
	for i := 0; i+2 <= len(h) && len(parts) < 12; {
		j := i + 2
		for j+2 <= len(h) && h[j:j+2] == h[i:i+2] {
			j += 2
		}
		if (j-i)/2 >= 64 {
			parts = append(parts, fmt.Sprintf("%d x %s at offset %d", (j-i)/2, h[i:i+2], i/2))
		}
		i = j
	}
	return strings.Join(parts, ", ")
}

func describe(c crash) string {
	switch c.Kind {
	case "panic", "fatal":
		return "the process died: " + c.Msg
	case "dead":
		return "the receiver goroutine " + c.Msg + " returned; later well-formed messages are never served"
	case "blocked":
		return "the receiver is parked for good: " + c.Msg
	case "cause":
		return "the connection was closed but the cause was not reported properly: " + c.Msg
	case "wrong":
		return "the well-formed canary after the input was not handled: " + c.Msg
	}
	return c.Msg
}

// runBatch runs inputs [from,to) of one (entry point, protocol) in as many
// children as it takes: a child that dies is replaced by one that continues
// after the input that was in flight.
func runBatch(j job) *batchResult {
	res := &batchResult{entry: j.entry, proto: j.proto, from: j.from, hows: map[string]int{}, classes: map[string]int{}}
	cur := j.from
	failsByClass := map[string]int{}
	oomByClass := map[string]int{}
	for restarts := 0; cur < j.to; {
		if restarts > 60 {
			res.notRun += j.to - cur
			res.incon = append(res.incon, fmt.Sprintf("%s/%s: more than 60 child failures in inputs %d-%d; %d inputs not run", j.entry, j.proto, j.from, j.to, j.to-cur))
			break
		}
		skipSet := map[string]bool{}
		for c, n := range failsByClass {
			if n >= 2 {
				skipSet[c] = true
			}
		}
		for c, n := range oomByClass {
			if n >= 40 {
				skipSet[c] = true
			}
		}
		var skip []string
		for c := range skipSet {
			skip = append(skip, c)
		}
		sort.Strings(skip)
		base := filepath.Join(scratch, fmt.Sprintf("%s-%s-%d-%d", j.entry, j.proto, j.from, res.children))
		logPath, errPath := base+".log", base+".err"
		exit, timedOut := runChildProc(j, cur, strings.Join(skip, ","), logPath, errPath)
		res.children++
		var pending, lastOK *logged
		done := false
		var tail string
		if f, err := os.Open(logPath); err == nil {
			sc := bufio.NewScanner(f)
			sc.Buffer(make([]byte, 1<<20), 1<<26)
			for sc.Scan() {
				fs := strings.SplitN(sc.Text(), " ", 5)
				switch fs[0] {
				case "I":
					if len(fs) < 5 {
						continue
					}
					n, _ := strconv.Atoi(fs[1])
					pending = &logged{n, fs[2], fs[3], fs[4]}
					res.delivered++
					res.classes[fs[2]+"|"+fs[3]]++
					if res.sample == nil && fs[2] != "short" && fs[2] != "fill" && len(fs[4]) <= 600 {
						res.sample = pending
					}
				case "K":
					res.canaries++
					if len(fs) > 2 {
						res.hows[fs[2]]++
					}
					lastOK, pending = pending, nil
				case "S":
					res.skipped++
				case "D":
					done = true
				case "W", "X", "E":
					tail = sc.Text()
				}
			}
			f.Close()
		}
		stderr, _ := os.ReadFile(errPath)
		os.Remove(logPath)
		os.Remove(errPath)
		if done && exit == 0 {
			break
		}
		if exit == exitSetup || (pending == nil && lastOK == nil) {
			res.notRun += j.to - cur
			res.incon = append(res.incon, fmt.Sprintf("%s/%s inputs %d-%d: child could not set the rig up (exit %d): %s %s", j.entry, j.proto, cur, j.to, exit, tail, firstLines(string(stderr), 3)))
			break
		}
		culprit, attrib := pending, "in-flight"
		if culprit == nil {
			culprit, attrib = lastOK, "last-verified"
		}
		c := classify(j, culprit, exit, timedOut, tail, string(stderr))
		c.Attrib = attrib
		res.crashes = append(res.crashes, c)
		if c.Kind == "oom" {
			oomByClass[culprit.class]++ // cheap: the child dies at once
		} else {
			failsByClass[culprit.class]++
			restarts++
		}
		cur = culprit.idx + 1
	}
	return res
}

func firstLines(s string, n int) string {
	ls := strings.Split(strings.TrimSpace(s), "\n")
	if len(ls) > n {
		ls = ls[:n]
	}
	return strings.Join(ls, " | ")
}

func runChildProc(j job, from int, skip, logPath, errPath string) (exit int, timedOut bool) {
	errF, err := os.Create(errPath)
	if err != nil {
		return exitSetup, false
	}
	defer errF.Close()
	cmd := exec.Command(selfBin, "child", tierArg, j.entry, j.proto, strconv.Itoa(from), strconv.Itoa(j.to), logPath, skip)
	cmd.Stderr = errF
	cmd.Stdout = errF
	cmd.Env = os.Environ()
	if err := cmd.Start(); err != nil {
		fmt.Fprintln(errF, "start:", err)
		return exitSetup, false
	}
	waitC := make(chan error, 1)
	go func() { waitC <- cmd.Wait() }()
	select {
	case err = <-waitC:
	case <-time.After(childWall):
		timedOut = true
		cmd.Process.Signal(syscall.SIGQUIT) // goroutine dump to stderr
		select {
		case err = <-waitC:
		case <-time.After(20 * time.Second):
			cmd.Process.Kill()
			err = <-waitC
		}
	}
	if err != nil {
		if ee, ok := err.(*exec.ExitError); ok {
			return ee.ExitCode(), timedOut
		}
		return -2, timedOut
	}
	return 0, timedOut
}

// panicSite finds the panic message and the first frame of the panicking
// goroutine inside the runtime library under test.
func panicSite(stderr string) (kind, msg, fn, where, stack string) {
	lines := strings.Split(stderr, "\n")
	start := -1
	for i, l := range lines {
		if strings.HasPrefix(l, "panic: ") {
			kind, msg, start = "panic", l, i
			break
		}
		if strings.HasPrefix(l, "fatal error: ") {
			kind, msg, start = "fatal", l, i
			break
		}
	}
	if start < 0 {
		return
	}
	// the first goroutine block after the message is the one that died
	g := -1
	for i := start; i < len(lines); i++ {
		if strings.HasPrefix(lines[i], "goroutine ") {
			g = i
			break
		}
	}
	if g < 0 {
		return
	}
	var excerpt []string
	firstOther := ""
	for i := g + 1; i < len(lines) && lines[i] != ""; i++ {
		if len(excerpt) < 16 {
			excerpt = append(excerpt, lines[i])
		}
		l := lines[i]
		if strings.HasPrefix(l, "\t") || strings.HasPrefix(l, "created by ") {
			continue
		}
		name := l
		if k := strings.LastIndex(name, "("); k > 0 {
			name = name[:k]
		}
		if strings.HasPrefix(name, "runtime.") || strings.HasPrefix(name, "panic") || strings.HasPrefix(name, "runtime/") {
			continue
		}
		loc := ""
		inLib := false
		if i+1 < len(lines) {
			if m := lineRe.FindStringSubmatch(lines[i+1]); m != nil {
				loc = filepath.Base(m[1]) + ":" + m[2]
				inLib = strings.HasPrefix(m[1], filepath.Join(ev.RepoDir(), "lib/go")+"/")
			}
		}
		if !strings.HasPrefix(name, frugalPkg) && inLib {
			// a closure of a library function inlined into its caller is named
			// after the caller (pkg.caller.LibFunc.func1): the source file decides
			if p := strings.SplitN(name, ".", 3); len(p) == 3 {
				name = frugalPkg + p[2]
			}
		}
		if strings.HasPrefix(name, frugalPkg) {
			if fn == "" {
				fn, where = strings.TrimPrefix(name, frugalPkg), loc
			}
		} else if firstOther == "" && fn == "" {
			firstOther = name + " " + loc
		}
	}
	if strings.Contains(msg, "stack overflow") {
		// runaway recursion: whichever function happened to run when the stack
		// ended is an accident; the recursive one is the library function that
		// fills the printed frames
		count := map[string]int{}
		loc := map[string]string{}
		for i := g + 1; i < len(lines) && lines[i] != ""; i++ {
			l := lines[i]
			if strings.HasPrefix(l, "\t") || !strings.HasPrefix(l, frugalPkg) {
				continue
			}
			name := l
			if k := strings.LastIndex(name, "("); k > 0 {
				name = name[:k]
			}
			name = strings.TrimPrefix(name, frugalPkg)
			count[name]++
			if loc[name] == "" && i+1 < len(lines) {
				if m := lineRe.FindStringSubmatch(lines[i+1]); m != nil {
					loc[name] = filepath.Base(m[1]) + ":" + m[2]
				}
			}
		}
		best := ""
		for n, c := range count {
			if c > count[best] || (c == count[best] && n < best) {
				best = n
			}
		}
		if best != "" && count[best] > 3 {
			fn, where = best, loc[best]
		}
	}
	if fn == "" && firstOther != "" {
		fs := strings.SplitN(firstOther, " ", 2)
		fn, where = fs[0], fs[1]
	}
	stack = strings.Join(excerpt, "\n")
	return
}

// blockedSite inspects the dump a stalled child wrote.
func blockedSite(stderr string) (fn, where, state string) {
	i := strings.Index(stderr, "C05-STALL-DUMP-BEGIN")
	if i < 0 {
		i = strings.Index(stderr, "SIGQUIT")
	}
	if i < 0 {
		return
	}
	return blockedCandidate(parseGoroutines(stderr[i:]))
}

func classify(j job, l *logged, exit int, timedOut bool, tail, stderr string) crash {
	c := crash{Entry: j.entry, Proto: j.proto, Idx: l.idx, Class: l.class, Mode: l.mode, Hex: l.hexs}
	if strings.Contains(stderr, "pthread_create failed") || strings.Contains(stderr, "failed to create new OS thread") {
		// the memory limit of the child refused a thread stack: same exclusion
		c.Kind, c.Msg, c.Sig = "oom", firstLines(stderr, 1), "C05:oom:"+j.entry
		return c
	}
	if kind, msg, fn, where, stack := panicSite(stderr); kind != "" && !timedOut {
		c.Kind, c.Msg, c.Where, c.Stack = kind, msg, where, stack
		if kind == "fatal" && (strings.Contains(msg, "out of memory") || strings.Contains(msg, "cannot allocate memory")) {
			c.Kind = "oom"
			c.Sig = "C05:oom:" + j.entry
			return c
		}
		if fn == "" {
			fn = "unknown-frame"
		}
		c.Sig = fmt.Sprintf("C05:%s:%s:%s", kind, j.entry, fn)
		return c
	}
	fs := strings.SplitN(tail, " ", 4)
	switch {
	case exit == exitBlock && len(fs) >= 4:
		w := strings.SplitN(fs[3], " ", 3)
		c.Kind = "blocked"
		c.Msg = fs[3] + "; no other goroutine is inside the library except at a waiting point, and the canary was not served"
		if len(w) > 1 {
			c.Where = w[1]
		}
		c.Sig = fmt.Sprintf("C05:blocked:%s:%s", j.entry, w[0])
		for _, blk := range strings.Split(stderr, "\n\n") {
			if strings.Contains(blk, frugalPkg+w[0]+"(") && (strings.Contains(blk, "[sync.") || strings.Contains(blk, "[chan ") || strings.Contains(blk, "[select")) {
				c.Stack = firstLines(blk, 16)
				break
			}
		}
	case exit == exitDead && len(fs) >= 4:
		c.Kind, c.Msg = "dead", fs[3]
		c.Sig = fmt.Sprintf("C05:stopped-serving:%s:%s", j.entry, fs[3])
	case exit == exitWrong && len(fs) >= 3:
		c.Kind, c.Msg = "wrong", strings.Join(fs[2:], " ")
		c.Sig = fmt.Sprintf("C05:canary-failed:%s", j.entry)
		if strings.HasPrefix(c.Msg, "[") {
			if k := strings.Index(c.Msg, "]"); k > 1 {
				if tag := c.Msg[1:k]; strings.HasPrefix(tag, "cause-") {
					c.Kind = "cause"
					c.Sig = fmt.Sprintf("C05:close-cause:%s:%s", j.entry, tag)
				} else {
					c.Sig += ":" + tag
				}
			}
		}
	case exit == exitStall || timedOut:
		note := ""
		if len(fs) >= 4 {
			note = fs[3]
		}
		if fn, where, st := blockedSite(stderr); fn != "" {
			c.Kind, c.Where = "blocked", where
			c.Msg = fmt.Sprintf("%s %s in %s; %s", st, where, fn, note)
			c.Sig = fmt.Sprintf("C05:blocked:%s:%s", j.entry, fn)
		} else {
			c.Kind = "stall"
			c.Msg = "canary made no progress but no goroutine is parked inside the library away from its idle point: " + note
			c.Sig = fmt.Sprintf("C05:stall:%s:%s", j.entry, l.class)
		}
	default:
		c.Kind = "exit"
		c.Msg = fmt.Sprintf("child ended with exit code %d without panic text: %s", exit, firstLines(stderr, 3))
		c.Sig = fmt.Sprintf("C05:exit:%s:%d", j.entry, exit)
	}
	return c
}

// replay re-runs the single input of a replay file.
func replay(path string) int {
	b, err := os.ReadFile(path)
	if err != nil {
		fmt.Println(err)
		return 2
	}
	var r struct {
		Tier      string `json:"tier"`
		Seed      int64  `json:"seed"`
		Signature string `json:"signature"`
		Witness   struct {
			Entry string `json:"entry_point"`
			Proto string `json:"protocol"`
			Idx   int    `json:"input_index"`
		} `json:"witness"`
	}
	if err := json.Unmarshal(b, &r); err != nil {
		fmt.Println(err)
		return 2
	}
	os.Setenv("VERIF_SEED", strconv.FormatInt(r.Seed, 10))
	tierArg = r.Tier
	res := runBatch(job{r.Witness.Entry, r.Witness.Proto, r.Witness.Idx, r.Witness.Idx + 1})
	for _, c := range res.crashes {
		out, _ := json.MarshalIndent(c, "", " ")
		fmt.Printf("REPLAY reproduced: %s\n", out)
		return 1
	}
	fmt.Printf("REPLAY %s: input %s/%s #%d handled, canaries verified %d\n", r.Signature, r.Witness.Entry, r.Witness.Proto, r.Witness.Idx, res.canaries)
	return 0
}
