package main

// Subscriber path: what anybody who can publish on the topic can deliver to
// the emitted recv<Op> callback.

import (
	"errors"
	"fmt"
	"strconv"

	frugal "github.com/Workiva/frugal/lib/go"
	"github.com/apache/thrift/lib/go/thrift"
	"github.com/nats-io/nats.go"

	"verif/rig"
	"vh/gen/mainsvc"
)

// pubCanary is a well-formed Events.Sent publish carrying idx.
func pubCanary(proto string, idx int) []byte {
	return buildFrame(proto, headerPairs(rolePub, strconv.Itoa(900000+idx)), "Sent", thrift.CALL, payloadFirst(int32(idx))).b
}

func isCanary(idx int) func(*mainsvc.Payload) bool {
	return func(p *mainsvc.Payload) bool {
		return p != nil && p.First != nil && p.First.Big == "canary" && p.First.N == int32(idx) && p.First.Flag
	}
}

// ---- NATS subscriber transport -> emitted recvSent ---------------------------------

type natsSubscriber struct {
	proto string
	peer  *nats.Conn
	got   chan *mainsvc.Payload
}

const natsSubWorker = "(*fNatsSubscriberTransport).worker"

func newNatsSubscriber(proto string) (entryPoint, error) {
	ns, err := rig.StartNats()
	if err != nil {
		return nil, err
	}
	conn, err := ns.Connect()
	if err != nil {
		return nil, err
	}
	n := &natsSubscriber{proto: proto, got: make(chan *mainsvc.Payload, 4096)}
	provider := frugal.NewFScopeProvider(frugal.NewFNatsPublisherTransportFactory(conn), frugal.NewFNatsSubscriberTransportFactory(conn), rig.ProtocolFactory(proto))
	if _, err := mainsvc.NewEventsSubscriber(provider).SubscribeSent("u1", func(_ frugal.FContext, p *mainsvc.Payload) { n.got <- p }); err != nil {
		return nil, err
	}
	if n.peer, err = ns.Connect(); err != nil {
		return nil, err
	}
	return n, nil
}

func (n *natsSubscriber) mode(idx int) string { return "publish" }

func (n *natsSubscriber) deliver(idx int, in input) outcome {
	const subject = "frugal.foo.u1.Events.Sent"
	n.peer.Publish(subject, in.Data)
	n.peer.Publish(subject, pubCanary(n.proto, idx))
	n.peer.Flush()
	_, o := await(n.got, isCanary(idx), natsSubWorker)
	if o.kind == "stall" {
		o.note = "well-formed message published after the input never reached the subscriber callback: " + o.note
	}
	if o.kind != "ok" {
		return o
	}
	return okOutcome("same-subscription")
}

func subscriberSetupError(what string, err error) error { return fmt.Errorf("%s: %v", what, err) }

var errNoSubscriber = errors.New("the subscription did not reach the broker")
