package main

// Goroutine-dump inspection shared by the child (early, in-process) and the
// parent (dump written by a stalled child).

import (
	"path/filepath"
	"regexp"
	"runtime"
	"strings"
)

const frugalPkg = "github.com/Workiva/frugal/lib/go."

var lineRe = regexp.MustCompile(`^\t(\S+):(\d+)`)

type gframe struct{ name, loc string }

type gor struct {
	id, state string // state without brackets, e.g. "sync.Mutex.Lock, 2 minutes"
	frames    []gframe
}

func parseGoroutines(text string) []gor {
	var out []gor
	for _, blk := range strings.Split(text, "\n\n") {
		ls := strings.Split(strings.TrimSpace(blk), "\n")
		if len(ls) < 2 || !strings.HasPrefix(ls[0], "goroutine ") {
			continue
		}
		g := gor{}
		fs := strings.Fields(ls[0])
		if len(fs) > 1 {
			g.id = fs[1]
		}
		if a, b := strings.Index(ls[0], "["), strings.LastIndex(ls[0], "]"); a >= 0 && b > a {
			g.state = ls[0][a+1 : b]
		}
		for k := 1; k < len(ls); k++ {
			l := ls[k]
			if strings.HasPrefix(l, "\t") || strings.HasPrefix(l, "created by ") {
				continue
			}
			name := l
			if p := strings.LastIndex(name, "("); p > 0 {
				name = name[:p]
			}
			loc := ""
			if k+1 < len(ls) {
				if m := lineRe.FindStringSubmatch(ls[k+1]); m != nil {
					loc = filepath.Base(m[1]) + ":" + m[2]
				}
			}
			g.frames = append(g.frames, gframe{name, loc})
		}
		out = append(out, g)
	}
	return out
}

// topUser is the first frame that is not the runtime's or sync's.
func (g gor) topUser() (gframe, bool) {
	for _, f := range g.frames {
		if strings.HasPrefix(f.name, "runtime.") || strings.HasPrefix(f.name, "sync.") || strings.HasPrefix(f.name, "internal/") {
			continue
		}
		return f, true
	}
	return gframe{}, false
}

// firstFrugal is the topmost frame inside the library under test.
func (g gor) firstFrugal() (gframe, bool) {
	for _, f := range g.frames {
		if strings.HasPrefix(f.name, frugalPkg) {
			return gframe{strings.TrimPrefix(f.name, frugalPkg), f.loc}, true
		}
	}
	return gframe{}, false
}

func (g gor) parked() bool {
	for _, p := range []string{"running", "runnable", "syscall"} {
		if strings.HasPrefix(g.state, p) {
			return false
		}
	}
	return true
}

func (g gor) lockParked() bool {
	for _, p := range []string{"sync.Mutex", "sync.RWMutex", "semacquire"} {
		if strings.HasPrefix(g.state, p) {
			return true
		}
	}
	return false
}

// idleStates: where the library's own goroutines legitimately wait for work
// or for their caller (not evidence of a wedge).
var idleStates = map[string]string{
	"(*fNatsServer).worker":                        "chan receive",
	"(*fNatsServer).Serve":                         "chan receive",
	"(*fNatsSubscriberTransport).worker":           "select",
	"(*fStompSubscriberTransport).processMessages": "select",
	"(*fAdapterTransport).Request":                 "select",
	"(*fAdapterTransport).Oneway":                  "select",
	"(*fNatsTransport).Request":                    "select",
	"(*monitorRunner).run":                         "chan receive",
}

// waitFuncs: when one of these is the topmost library frame of a parked
// goroutine, the goroutine waits for a peer, for work or for the wedged
// goroutine itself - it cannot be the one that holds a library lock while
// making progress.
var waitFuncs = map[string]bool{
	"(*FSimpleServer).acceptLoop":                         true,
	"(*FSimpleServer).Serve":                              true,
	"(*fNatsServer).Serve":                                true,
	"(*fNatsServer).worker":                               true,
	"(*fNatsServer).handler":                              true,
	"(*fNatsSubscriberTransport).worker":                  true,
	"(*fNatsSubscriberTransport).putMessageToWorkerQueue": true,
	"(*fStompSubscriberTransport).processMessages":        true,
	"(*fAdapterTransport).Request":                        true,
	"(*fAdapterTransport).Oneway":                         true,
	"(*fNatsTransport).Request":                           true,
	"(*monitorRunner).run":                                true,
	"(*TFramedTransport).Read":                            true,
	"(*TFramedTransport).readFrameHeader":                 true,
}

// blockedCandidate: a goroutine whose top user frame is in the library and
// which is parked on a channel or a lock anywhere but at its idle point waits
// for something its peer cannot release by sending bytes.
func blockedCandidate(gs []gor) (fn, where, state string) {
	for _, g := range gs {
		ok := false
		for _, p := range []string{"chan send", "chan receive", "select", "semacquire", "sync."} {
			if strings.HasPrefix(g.state, p) {
				ok = true
			}
		}
		if !ok {
			continue
		}
		tu, has := g.topUser()
		if !has || !strings.HasPrefix(tu.name, frugalPkg) {
			continue
		}
		f := strings.TrimPrefix(tu.name, frugalPkg)
		if idleStates[f] != "" && strings.HasPrefix(g.state, idleStates[f]) {
			continue
		}
		return f, tu.loc, "[" + g.state + "]"
	}
	return
}

// lockWedge is the strict in-process rule: a goroutine waits for a lock inside
// the library while no other goroutine is inside the library except at a
// waiting point (or waiting for a lock itself): nobody is left who could
// unlock.  Returns the goroutine id so that the caller can require persistence.
func lockWedge() (id, fn, where, state string, ok bool) {
	gs := parseGoroutines(allStacks())
	var cand, root *gor
	victims := map[string]bool{}
	for i := range gs {
		g := &gs[i]
		tu, has := g.topUser()
		if !has || !strings.HasPrefix(tu.name, frugalPkg) {
			continue
		}
		f := strings.TrimPrefix(tu.name, frugalPkg)
		switch {
		case g.lockParked():
			victims[g.id] = true
			if cand == nil {
				cand = g
			}
		case strings.HasPrefix(g.state, "chan send") || strings.HasPrefix(g.state, "chan receive") || strings.HasPrefix(g.state, "select"):
			// parked on a channel in the library's own code, away from an idle
			// point: it waits as well (possibly holding the lock the others want)
			if idleStates[f] != "" && strings.HasPrefix(g.state, idleStates[f]) {
				continue
			}
			if waitFuncs[f] {
				continue
			}
			victims[g.id] = true
			if root == nil {
				root = g
			}
		}
	}
	if cand == nil {
		return
	}
	for _, g := range gs {
		if victims[g.id] {
			continue
		}
		ff, has := g.firstFrugal()
		if !has {
			continue
		}
		if g.parked() && waitFuncs[ff.name] {
			continue
		}
		return // somebody is (or may be) at work inside the library
	}
	rep := cand
	if root != nil {
		rep = root // the one the lock waiters wait behind
	}
	tu, _ := rep.topUser()
	return cand.id + "/" + rep.id, strings.TrimPrefix(tu.name, frugalPkg), tu.loc, "[" + rep.state + "]", true
}

var stackBuf = make([]byte, 1<<18)

// allStacks returns the dump of every goroutine (callers hold stackMu).
func allStacks() string {
	stackMu.Lock()
	defer stackMu.Unlock()
	for {
		n := runtime.Stack(stackBuf, true)
		if n < len(stackBuf) {
			return string(stackBuf[:n])
		}
		stackBuf = make([]byte, 2*len(stackBuf))
	}
}
