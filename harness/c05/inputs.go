package main

// Input generation for C05: a pure function of (seed, tier, entry, protocol).
// Every input is a byte string a peer can put on the wire where a Frugal
// message (size | 0x00 | hsize | pairs | Thrift payload) is expected.

import (
	"bytes"
	"context"
	"encoding/binary"
	"encoding/hex"
	"fmt"
	"math/rand"
	"sort"
	"strconv"
	"strings"

	"github.com/apache/thrift/lib/go/thrift"

	"verif/rig"
	"verif/wire"
	"vh/gen/base"
	"vh/gen/mainsvc"
)

// roles of the valid frames a receiver expects
const (
	roleReq  = "req"  // server request path
	roleResp = "resp" // client response path
	rolePub  = "pub"  // subscriber path
)

// opidBase keeps every op id of the run at the same decimal width so that the
// offsets of a base frame do not depend on the input index.
const opidBase = 100000

func opidFor(idx int) uint64 { return uint64(opidBase + idx) }

// fenceOpid is never registered by any call.
const fenceOpid = 7

type baseFrame struct {
	name    string
	method  string
	msgType thrift.TMessageType
	body    thrift.TStruct
}

func i64p(v int64) *int64 { return &v }

func payloadLast() *mainsvc.Payload {
	return &mainsvc.Payload{Last: &mainsvc.BigLast{N: 1, Nums: []int64{1, 2, 3}, Big: "zz-big"}}
}
func payloadMap() *mainsvc.Payload {
	return &mainsvc.Payload{Bmap: &mainsvc.BigMap{N: 2, M: map[string]string{"k": "v"}}}
}
func payloadMid() *mainsvc.Payload {
	return &mainsvc.Payload{Mid: &mainsvc.BigMid{N: 3, Big: []byte{1, 2, 0xff, 0}, Tail: "tail"}}
}
func payloadFirst(n int32) *mainsvc.Payload {
	return &mainsvc.Payload{First: &mainsvc.BigFirst{Big: "canary", N: n, Flag: true}}
}
func thingsArg() map[string]*base.Thing {
	return map[string]*base.Thing{"a": {AnID: 1, AString: "x", At: 9}}
}
func thingsRet() []*base.Thing {
	return []*base.Thing{{AnID: 1, AString: "x", At: 9}, {AnID: 2, AString: "yy", At: 10}}
}

// bases returns the valid frames of a role that mutations start from.
func bases(role string) []baseFrame {
	switch role {
	case roleReq:
		return []baseFrame{
			{"add", "add", thrift.CALL, &mainsvc.FooAddArgs{A: 7, B: 35}},
			{"echoLast", "echo", thrift.CALL, &mainsvc.FooEchoArgs{P: payloadLast(), Tag: "tag"}},
			{"echoMap", "echo", thrift.CALL, &mainsvc.FooEchoArgs{P: payloadMap(), Tag: "t"}},
			{"echoMid", "echo", thrift.CALL, &mainsvc.FooEchoArgs{P: payloadMid(), Tag: "m"}},
			{"things", "things", thrift.CALL, &mainsvc.FooThingsArgs{M: thingsArg(), Ids: map[int32]bool{5: true}}},
			{"blob", "blob", thrift.CALL, &mainsvc.FooBlobArgs{B: []byte{1, 2, 3, 0xff}}},
			{"fire", "fire", thrift.ONEWAY, &mainsvc.FooFireArgs{S: "s"}},
			{"basePing", "basePing", thrift.CALL, &base.BaseFooBasePingArgs{}},
			{"echoThing", "echoThing", thrift.CALL, &base.BaseFooEchoThingArgs{T: &base.Thing{AnID: 7, AString: "x"}}},
		}
	case roleResp:
		return []baseFrame{
			{"add", "add", thrift.REPLY, &mainsvc.FooAddResult{Success: i64p(42)}},
			{"echoLast", "echo", thrift.REPLY, &mainsvc.FooEchoResult{Success: payloadLast()}},
			{"echoMap", "echo", thrift.REPLY, &mainsvc.FooEchoResult{Success: payloadMap()}},
			{"things", "things", thrift.REPLY, &mainsvc.FooThingsResult{Success: thingsRet()}},
			{"blob", "blob", thrift.REPLY, &mainsvc.FooBlobResult{Success: []byte{1, 2, 3, 0xff}}},
		}
	default:
		return []baseFrame{
			{"sentFirst", "Sent", thrift.CALL, payloadFirst(3)},
			{"sentMid", "Sent", thrift.CALL, payloadMid()},
			{"sentLast", "Sent", thrift.CALL, payloadLast()},
			{"sentMap", "Sent", thrift.CALL, payloadMap()},
		}
	}
}

// tsite is the byte range one size-carrying Thrift write produced.
type tsite struct {
	start, end int
	kind       string // str | list | map | msg
	size       int
}

// recProto records where the plain Thrift protocol wrote sizes.
type recProto struct {
	thrift.TProtocol
	buf   *thrift.TMemoryBuffer
	sites []tsite
}

func (r *recProto) mark(kind string, size int, f func() error) error {
	ctx := context.Background()
	r.TProtocol.Flush(ctx)
	s := r.buf.Len()
	err := f()
	r.TProtocol.Flush(ctx)
	r.sites = append(r.sites, tsite{s, r.buf.Len(), kind, size})
	return err
}
func (r *recProto) WriteString(ctx context.Context, v string) error {
	return r.mark("str", len(v), func() error { return r.TProtocol.WriteString(ctx, v) })
}
func (r *recProto) WriteBinary(ctx context.Context, v []byte) error {
	return r.mark("str", len(v), func() error { return r.TProtocol.WriteBinary(ctx, v) })
}
func (r *recProto) WriteListBegin(ctx context.Context, e thrift.TType, size int) error {
	return r.mark("list", size, func() error { return r.TProtocol.WriteListBegin(ctx, e, size) })
}
func (r *recProto) WriteSetBegin(ctx context.Context, e thrift.TType, size int) error {
	return r.mark("list", size, func() error { return r.TProtocol.WriteSetBegin(ctx, e, size) })
}
func (r *recProto) WriteMapBegin(ctx context.Context, k, v thrift.TType, size int) error {
	return r.mark("map", size, func() error { return r.TProtocol.WriteMapBegin(ctx, k, v, size) })
}
func (r *recProto) WriteMessageBegin(ctx context.Context, name string, t thrift.TMessageType, seq int32) error {
	return r.mark("msg", len(name), func() error { return r.TProtocol.WriteMessageBegin(ctx, name, t, seq) })
}

// thriftMessage serializes one message with the plain Thrift protocol.
func thriftMessage(proto, method string, t thrift.TMessageType, body thrift.TStruct) ([]byte, []tsite) {
	ctx := context.Background()
	buf := thrift.NewTMemoryBuffer()
	rp := &recProto{TProtocol: rig.TProtocolFactory(proto).GetProtocol(buf), buf: buf}
	rp.WriteMessageBegin(ctx, method, t, 0)
	body.Write(ctx, rp)
	rp.TProtocol.WriteMessageEnd(ctx)
	rp.TProtocol.Flush(ctx)
	return append([]byte(nil), buf.Bytes()...), rp.sites
}

// fsite is a 4-byte big-endian size field of the Frugal framing.
type fsite struct {
	off   int
	class string
	val   int
}

type frameInfo struct {
	b          []byte
	fsites     []fsite
	payloadOff int
	tsites     []tsite // relative to payloadOff
}

func headerPairs(role string, opid string) []wire.Pair {
	switch role {
	case roleReq:
		return []wire.Pair{{Name: "_opid", Value: opid}, {Name: "_cid", Value: "c05"}, {Name: "_timeout", Value: "5000"}}
	case roleResp:
		return []wire.Pair{{Name: "_opid", Value: opid}, {Name: "_cid", Value: "c05"}}
	default:
		return []wire.Pair{{Name: "_cid", Value: "c05"}, {Name: "_opid", Value: opid}, {Name: "_timeout", Value: "5000"}, {Name: "_topic_user", Value: "u1"}}
	}
}

func buildFrame(proto string, pairs []wire.Pair, method string, t thrift.TMessageType, body thrift.TStruct) *frameInfo {
	payload, ts := thriftMessage(proto, method, t, body)
	fi := &frameInfo{b: wire.BuildFrame(pairs, payload), tsites: ts}
	fi.fsites = append(fi.fsites, fsite{0, "framesize", len(fi.b) - 4})
	m := 0
	for _, p := range pairs {
		m += 8 + len(p.Name) + len(p.Value)
	}
	fi.fsites = append(fi.fsites, fsite{5, "hdrsize", m})
	off := 9
	for _, p := range pairs {
		fi.fsites = append(fi.fsites, fsite{off, "namesize", len(p.Name)})
		off += 4 + len(p.Name)
		fi.fsites = append(fi.fsites, fsite{off, "valuesize", len(p.Value)})
		off += 4 + len(p.Value)
	}
	fi.payloadOff = off
	return fi
}

func baseInfo(role, proto string, b baseFrame, opid uint64) *frameInfo {
	return buildFrame(proto, headerPairs(role, strconv.FormatUint(opid, 10)), b.method, b.msgType, b.body)
}

// validFrame is the unmutated frame of base b.
func validFrame(role, proto string, b baseFrame, opid uint64) []byte {
	return baseInfo(role, proto, b, opid).b
}

func sizeValues(v int) []uint32 {
	cand := []int64{0, 1, 2, 3, int64(v) - 1, int64(v) + 1, 0x7FFFFFFF, 0x80000000, 0xFFFFFFFF}
	seen := map[uint32]bool{uint32(v): true}
	var out []uint32
	for _, c := range cand {
		if c < 0 {
			continue
		}
		u := uint32(c)
		if !seen[u] {
			seen[u] = true
			out = append(out, u)
		}
	}
	return out
}

func be32(v uint32) []byte { return binary.BigEndian.AppendUint32(nil, v) }

func uvarint(v uint32) []byte { return binary.AppendUvarint(nil, uint64(v)) }

func varintLen(b []byte) int {
	n := 0
	for n < len(b) && n < 10 {
		n++
		if b[n-1]&0x80 == 0 {
			break
		}
	}
	return n
}

// splice replaces b[off:off+width] with repl.
func splice(b []byte, off, width int, repl []byte) []byte {
	out := make([]byte, 0, len(b)-width+len(repl))
	out = append(out, b[:off]...)
	out = append(out, repl...)
	return append(out, b[off+width:]...)
}

// fixFrameSize makes the leading size field consistent with the length.
func fixFrameSize(b []byte) []byte {
	if len(b) >= 4 {
		binary.BigEndian.PutUint32(b, uint32(len(b)-4))
	}
	return b
}

// spec is one input before it is materialized for an input index.
type spec struct {
	class string
	base  int    // index into bases(role); -1 = raw bytes
	raw   []byte // base == -1
	mut   func(fi *frameInfo) []byte
	// lazy, when set, builds raw bytes on demand (big inputs); label stands for
	// the bytes in logs and witnesses
	lazy  func() []byte
	label string
	// rebuild, when set, builds the whole frame itself (header-level changes)
	rebuild func(role, proto string, b baseFrame, opid string) []byte
}

type input struct {
	Label string // non-empty: what to log instead of the hex of Data
	Class string
	Base  int // base the call/canary is shaped after (0 for raw inputs)
	Data  []byte
}

func shortFill(thorough bool) [][]byte {
	var out [][]byte
	out = append(out, []byte{})
	for a := 0; a < 256; a++ {
		out = append(out, []byte{byte(a)})
	}
	if thorough {
		for a := 0; a < 256; a++ {
			for b := 0; b < 256; b++ {
				out = append(out, []byte{byte(a), byte(b)})
			}
		}
	} else {
		vals := []byte{0, 1, 2, 3, 4, 5, 8, 0x0f, 0x10, 0x7f, 0x80, 0x81, 0xfe, 0xff, '[', '"'}
		for _, a := range vals {
			for _, b := range vals {
				out = append(out, []byte{a, b})
			}
		}
	}
	return out
}

func fills() [][]byte {
	var out [][]byte
	for n := 0; n <= 64; n++ {
		z := make([]byte, n)
		f := make([]byte, n)
		c := make([]byte, n)
		for i := range f {
			f[i] = 0xff
			c[i] = byte(i)
		}
		out = append(out, z, f, c)
	}
	return out
}

// tinyFrames are the smallest frames that reach each header size check: they
// make the minimal witnesses.  One class per check so that a crash in one does
// not make the batch skip the others.
func tinyFrames() (frames [][]byte, classes []string) {
	add := func(class string, body []byte) {
		frames = append(frames, wire.Frame(body))
		classes = append(classes, class)
	}
	big := []uint32{0x80000000, 0xffffffff, 0x7fffffff}
	for _, v := range append([]uint32{0, 1, 2, 3, 4, 5, 8, 12}, big...) {
		class := "tinyhdr"
		if v >= 0x7fffffff {
			class = "tinyhdrbig"
		}
		for _, k := range []int{0, 1, 2, 3, 4, 8} {
			body := append([]byte{0}, be32(v)...)
			add(class, append(body, make([]byte, k)...))
		}
	}
	for _, ns := range append([]uint32{0, 1, 4, 5}, big...) {
		for _, m := range []uint32{8, 9, 12} {
			body := append([]byte{0}, be32(m)...)
			body = append(body, be32(ns)...)
			add("tinyname", append(body, make([]byte, int(m)-4)...))
			body = append([]byte{0}, be32(m)...)
			body = append(body, be32(0)...)
			body = append(body, be32(ns)...)
			add("tinyvalue", append(body, make([]byte, int(m)-8)...))
		}
	}
	return
}

// thriftSizeSpecs lists the mutations of the Thrift-level sizes of base bi.
func thriftSizeSpecs(proto string, bi int, fi *frameInfo) []spec {
	var out []spec
	add := func(f func(fi *frameInfo) []byte) {
		out = append(out, spec{class: "thriftsize", base: bi, mut: f})
	}
	switch proto {
	case "binary":
		for si, s := range fi.tsites {
			rel := 0
			switch s.kind {
			case "list":
				rel = 1
			case "map":
				rel = 2
			case "msg":
				rel = 4
			}
			for _, v := range sizeValues(s.size) {
				si, rel, v := si, rel, v
				add(func(fi *frameInfo) []byte {
					return splice(fi.b, fi.payloadOff+fi.tsites[si].start+rel, 4, be32(v))
				})
			}
		}
	case "compact":
		for si, s := range fi.tsites {
			for _, v := range sizeValues(s.size) {
				si, v, kind := si, v, s.kind
				add(func(fi *frameInfo) []byte {
					off := fi.payloadOff + fi.tsites[si].start
					switch kind {
					case "list":
						t := fi.b[off] & 0x0f
						w := 1
						if fi.b[off]>>4 == 0x0f {
							w += varintLen(fi.b[off+1:])
						}
						var repl []byte
						if v <= 14 {
							repl = []byte{byte(v)<<4 | t}
						} else {
							repl = append([]byte{0xf0 | t}, uvarint(v)...)
						}
						return fixFrameSize(splice(fi.b, off, w, repl))
					case "msg":
						off += 3
					}
					return fixFrameSize(splice(fi.b, off, varintLen(fi.b[off:]), uvarint(v)))
				})
			}
		}
	default: // json: every number token outside a string
		p := fi.b[fi.payloadOff:]
		type tok struct{ s, e int }
		var toks []tok
		inStr := false
		for i := 0; i < len(p); i++ {
			c := p[i]
			if inStr {
				if c == '\\' {
					i++
				} else if c == '"' {
					inStr = false
				}
				continue
			}
			if c == '"' {
				inStr = true
				continue
			}
			if c >= '0' && c <= '9' || c == '-' {
				j := i
				for j < len(p) && (p[j] >= '0' && p[j] <= '9' || p[j] == '-') {
					j++
				}
				toks = append(toks, tok{i, j})
				i = j - 1
			}
		}
		for _, t := range toks {
			for _, v := range []string{"0", "3", "-1", "2147483647", "2147483648", "4294967295", "99999999999999999999"} {
				if string(p[t.s:t.e]) == v {
					continue
				}
				t, v := t, v
				add(func(fi *frameInfo) []byte {
					return fixFrameSize(splice(fi.b, fi.payloadOff+t.s, t.e-t.s, []byte(v)))
				})
			}
		}
	}
	return out
}

func rebuildWith(f func(pairs []wire.Pair) []wire.Pair) func(role, proto string, b baseFrame, opid string) []byte {
	return func(role, proto string, b baseFrame, opid string) []byte {
		return buildFrame(proto, f(headerPairs(role, opid)), b.method, b.msgType, b.body).b
	}
}

func setPair(pairs []wire.Pair, name, value string) []wire.Pair {
	out := append([]wire.Pair(nil), pairs...)
	for i := range out {
		if out[i].Name == name {
			out[i].Value = value
			return out
		}
	}
	return append(out, wire.Pair{Name: name, Value: value})
}

// structuredSpecs enumerates class (ii) for one role and protocol.
func structuredSpecs(role, proto string) []spec {
	var out []spec
	bs := bases(role)
	for bi, b := range bs {
		bi := bi
		fi := baseInfo(role, proto, b, opidFor(0))
		for si, s := range fi.fsites {
			for _, v := range sizeValues(s.val) {
				si, v := si, v
				out = append(out, spec{class: s.class, base: bi, mut: func(fi *frameInfo) []byte {
					return splice(fi.b, fi.fsites[si].off, 4, be32(v))
				}})
			}
		}
		out = append(out, thriftSizeSpecs(proto, bi, fi)...)
		for _, v := range []byte{1, 2, 0x7f, 0x80, 0xff} {
			v := v
			out = append(out, spec{class: "version", base: bi, mut: func(fi *frameInfo) []byte {
				return splice(fi.b, 4, 1, []byte{v})
			}})
		}
		for k := 0; k < len(fi.b); k++ {
			k := k
			out = append(out, spec{class: "trunc", base: bi, mut: func(fi *frameInfo) []byte {
				return append([]byte(nil), fi.b[:k]...)
			}})
			if k >= 4 {
				out = append(out, spec{class: "truncfix", base: bi, mut: func(fi *frameInfo) []byte {
					return fixFrameSize(append([]byte(nil), fi.b[:k]...))
				}})
			}
		}
		// header-level changes
		out = append(out,
			spec{class: "duphdr", base: bi, rebuild: rebuildWith(func(p []wire.Pair) []wire.Pair {
				return append(append([]wire.Pair(nil), p...), wire.Pair{Name: "_opid", Value: "1"})
			})},
			spec{class: "duphdr", base: bi, rebuild: rebuildWith(func(p []wire.Pair) []wire.Pair {
				return append([]wire.Pair{{Name: "_opid", Value: "1"}}, p...)
			})},
			spec{class: "duphdr", base: bi, rebuild: rebuildWith(func(p []wire.Pair) []wire.Pair {
				return append(append([]wire.Pair(nil), p...), p...)
			})},
			spec{class: "duphdr", base: bi, rebuild: rebuildWith(func(p []wire.Pair) []wire.Pair {
				return append(append([]wire.Pair(nil), p...), wire.Pair{Name: "_cid", Value: "other"}, wire.Pair{Name: "", Value: ""}, wire.Pair{Name: "", Value: "x"})
			})},
			spec{class: "noopid", base: bi, rebuild: rebuildWith(func(p []wire.Pair) []wire.Pair {
				var o []wire.Pair
				for _, x := range p {
					if x.Name != "_opid" {
						o = append(o, x)
					}
				}
				return o
			})},
			spec{class: "noopid", base: bi, rebuild: rebuildWith(func(p []wire.Pair) []wire.Pair { return nil })},
		)
		for _, v := range []string{"", "abc", "-1", "18446744073709551615", "18446744073709551616", "1e3", " 7", "7 ", "0x10", "\x00", strings.Repeat("9", 64)} {
			v := v
			out = append(out, spec{class: "badopid", base: bi, rebuild: rebuildWith(func(p []wire.Pair) []wire.Pair { return setPair(p, "_opid", v) })})
		}
		for _, v := range []string{"9223372036854775807", "9223372036854775", "-1", "0", "1", "abc", "", "99999999999999999999", "-9223372036854775808"} {
			v := v
			out = append(out, spec{class: "timeout", base: bi, rebuild: rebuildWith(func(p []wire.Pair) []wire.Pair { return setPair(p, "_timeout", v) })})
		}
		for _, name := range []string{"nope", "", strings.Repeat("n", 300), "add\x00"} {
			name := name
			out = append(out, spec{class: "method", base: bi, rebuild: func(role, proto string, b baseFrame, opid string) []byte {
				return buildFrame(proto, headerPairs(role, opid), name, b.msgType, b.body).b
			}})
		}
		for _, t := range []thrift.TMessageType{thrift.CALL, thrift.REPLY, thrift.EXCEPTION, thrift.ONEWAY, 0, 7} {
			t := t
			if t == b.msgType {
				continue
			}
			out = append(out, spec{class: "msgtype", base: bi, rebuild: func(role, proto string, b baseFrame, opid string) []byte {
				return buildFrame(proto, headerPairs(role, opid), b.method, t, b.body).b
			}})
		}
	}
	return out
}

// bigSpecs: structurally valid frames whose strings are larger than the
// buffers on the way (the 1 MiB bounded reply buffer of the NATS server, the
// NATS message size): unknown method names of 600 and 900 KiB (the
// UNKNOWN_METHOD reply carries the name twice), huge header values, huge
// string / binary arguments and results.
func bigSpecs(role string) []spec {
	big := func(n int) string { return strings.Repeat("n", n) }
	mk := func(base int, f func(role, proto string, b baseFrame, opid string) []byte) spec {
		return spec{class: "bigstr", base: base, rebuild: f}
	}
	method := func(n int) spec {
		return mk(0, func(role, proto string, b baseFrame, opid string) []byte {
			return buildFrame(proto, headerPairs(role, opid), big(n), b.msgType, b.body).b
		})
	}
	header := func(name string, n int) spec {
		return mk(0, func(role, proto string, b baseFrame, opid string) []byte {
			return buildFrame(proto, setPair(headerPairs(role, opid), name, big(n)), b.method, b.msgType, b.body).b
		})
	}
	body := func(base int, method string, t thrift.TMessageType, st func() thrift.TStruct) spec {
		return mk(base, func(role, proto string, b baseFrame, opid string) []byte {
			return buildFrame(proto, headerPairs(role, opid), method, t, st()).b
		})
	}
	out := []spec{method(600 << 10), method(900 << 10), method(1100 << 10), header("_cid", 600<<10), header("x-big", 900<<10)}
	bigBytes := func(n int) []byte { return []byte(big(n)) }
	switch role {
	case roleReq:
		out = append(out,
			body(1, "echo", thrift.CALL, func() thrift.TStruct { return &mainsvc.FooEchoArgs{P: payloadLast(), Tag: big(600 << 10)} }),
			body(1, "echo", thrift.CALL, func() thrift.TStruct {
				return &mainsvc.FooEchoArgs{P: &mainsvc.Payload{First: &mainsvc.BigFirst{Big: big(900 << 10), N: 1}}, Tag: "t"}
			}),
			body(5, "blob", thrift.CALL, func() thrift.TStruct { return &mainsvc.FooBlobArgs{B: bigBytes(1040000)} }),
			body(8, "echoThing", thrift.CALL, func() thrift.TStruct {
				return &base.BaseFooEchoThingArgs{T: &base.Thing{AnID: 7, AString: big(900 << 10)}}
			}),
			body(0, big(600<<10), thrift.ONEWAY, func() thrift.TStruct { return &mainsvc.FooFireArgs{S: "s"} }),
		)
	case roleResp:
		out = append(out,
			body(1, "echo", thrift.REPLY, func() thrift.TStruct {
				return &mainsvc.FooEchoResult{Success: &mainsvc.Payload{Last: &mainsvc.BigLast{N: 1, Nums: []int64{1, 2, 3}, Big: big(900 << 10)}}}
			}),
			body(4, "blob", thrift.REPLY, func() thrift.TStruct { return &mainsvc.FooBlobResult{Success: bigBytes(1040000)} }),
			body(0, "add", thrift.EXCEPTION, func() thrift.TStruct {
				return thrift.NewTApplicationException(thrift.UNKNOWN_METHOD, big(900<<10))
			}),
		)
	default:
		out = append(out,
			body(0, "Sent", thrift.CALL, func() thrift.TStruct {
				return &mainsvc.Payload{First: &mainsvc.BigFirst{Big: big(900 << 10), N: 1}}
			}),
			body(0, "Sent", thrift.CALL, func() thrift.TStruct {
				return &mainsvc.Payload{Mid: &mainsvc.BigMid{N: 1, Big: bigBytes(1040000), Tail: "t"}}
			}),
		)
	}
	return out
}

// longRunSpecs: on the stream entry points, one long unbroken run of a small
// repeated unit per protocol: empty frames, minimal frames with an empty
// header block, and a unit the receiver skips and carries on after (a
// response nobody waits for / a oneway request).  Whatever a receiver does per
// unit - recursion, allocation, bookkeeping - it does millions of times.
func longRunSpecs(entry, proto string) []spec {
	if entry != "adapter-client-response" && entry != "simple-server-request" {
		return nil
	}
	var unit []byte
	total := 16 << 20
	switch proto {
	case "binary":
		unit = []byte{0, 0, 0, 0}
	case "compact":
		unit = wire.Frame([]byte{0, 0, 0, 0, 0})
	default:
		total = 8 << 20
		if entry == "adapter-client-response" {
			unit = validFrame(roleResp, proto, bases(roleResp)[0], fenceOpid)
		} else {
			unit = validFrame(roleReq, proto, bases(roleReq)[6], fenceOpid) // oneway fire
		}
	}
	n := total / len(unit)
	return []spec{{class: "longrun", base: -1, label: fmt.Sprintf("rle:%s*%d", hex.EncodeToString(unit), n),
		lazy: func() []byte { return bytes.Repeat(unit, n) }}}
}

// prngSpecs builds class (iii).
func prngSpecs(role string, rng *rand.Rand, nFlip, nSplice int) []spec {
	nb := len(bases(role))
	var out []spec
	for i := 0; i < nFlip; i++ {
		bi := rng.Intn(nb)
		n := 1 + rng.Intn(4)
		type fl struct {
			pos  float64
			mode int
			val  byte
		}
		fls := make([]fl, n)
		for j := range fls {
			fls[j] = fl{rng.Float64(), rng.Intn(3), byte(rng.Intn(256))}
		}
		out = append(out, spec{class: "flip", base: bi, mut: func(fi *frameInfo) []byte {
			b := append([]byte(nil), fi.b...)
			for _, f := range fls {
				p := int(f.pos * float64(len(b)))
				if p >= len(b) {
					p = len(b) - 1
				}
				switch f.mode {
				case 0:
					b[p] = f.val
				case 1:
					b[p] ^= 1 << (f.val & 7)
				default:
					b[p] = []byte{0, 0xff, 0x7f, 0x80}[f.val&3]
				}
			}
			return b
		}})
	}
	for i := 0; i < nSplice; i++ {
		bi := rng.Intn(nb)
		mode := rng.Intn(5)
		p1, p2 := rng.Float64(), rng.Float64()
		junk := make([]byte, 1+rng.Intn(24))
		rng.Read(junk)
		fix := rng.Intn(2) == 0
		other := rng.Intn(nb)
		out = append(out, spec{class: "splice", base: bi, rebuild: nil, mut: func(fi *frameInfo) []byte {
			b := fi.b
			a, z := int(p1*float64(len(b))), int(p2*float64(len(b)))
			if a > z {
				a, z = z, a
			}
			var r []byte
			switch mode {
			case 0: // delete a chunk
				r = splice(b, a, z-a, nil)
			case 1: // insert junk
				r = splice(b, a, 0, junk)
			case 2: // duplicate a chunk
				r = splice(b, z, 0, b[a:z])
			case 3: // overwrite a chunk with junk
				w := len(junk)
				if a+w > len(b) {
					w = len(b) - a
				}
				r = splice(b, a, w, junk)
			default: // head of this frame, tail of itself shifted by other
				k := (a + other) % (len(b) + 1)
				r = append(append([]byte(nil), b[:a]...), b[k:]...)
			}
			if fix {
				r = fixFrameSize(r)
			}
			return r
		}})
	}
	return out
}

func protoIndex(proto string) int {
	for i, p := range rig.Protocols {
		if p == proto {
			return i
		}
	}
	return 0
}

func roleOf(entry string) string {
	switch entry {
	case "adapter-client-response", "nats-client-response", "http-client-response":
		return roleResp
	case "simple-server-request", "nats-server-request", "http-handler-request":
		return roleReq
	}
	return rolePub
}

// specList is the ordered case list of one (entry, protocol).
func specList(entry, proto string, thorough bool, rng *rand.Rand) []spec {
	role := roleOf(entry)
	var out []spec
	pi := protoIndex(proto)
	for j, b := range shortFill(thorough) {
		if j%3 == pi {
			out = append(out, spec{class: "short", base: -1, raw: b})
		}
	}
	for j, b := range fills() {
		if j%3 == pi {
			out = append(out, spec{class: "fill", base: -1, raw: b})
		}
	}
	tf, tc := tinyFrames()
	for j, b := range tf {
		if j%3 == pi {
			out = append(out, spec{class: tc[j], base: -1, raw: b})
		}
	}
	// byte sequences that end a stream session with state left in a framed
	// reader (a rejected size followed by a partial header, a truncated 16 MB
	// frame, a frame that cannot be executed followed by a partial header):
	// twice each, so that both delivery variants of an entry point see them
	for _, h := range []string{"ffffffff00fa0000", "00fa00000102030405060708090a", "8000000000fa0000", "000000010100fa0000",
		"0000000000fa0000", "00fa0000", "00000005000000000000fa0000", "ffffffff0000", "00fa0001" + strings.Repeat("00", 40)} {
		b, _ := hex.DecodeString(h)
		out = append(out, spec{class: "poison", base: -1, raw: b}, spec{class: "poison", base: -1, raw: b})
	}
	st := structuredSpecs(role, proto)
	total, nStruct := 1000, 440
	if thorough {
		total, nStruct = 33400, len(st)
	}
	if nStruct > len(st) {
		nStruct = len(st)
	}
	if nStruct < len(st) {
		// stratified sample: round-robin over the classes, PRNG inside a class
		byClass := map[string][]int{}
		var classes []string
		for i, s := range st {
			if _, ok := byClass[s.class]; !ok {
				classes = append(classes, s.class)
			}
			byClass[s.class] = append(byClass[s.class], i)
		}
		for _, c := range classes {
			l := byClass[c]
			rng.Shuffle(len(l), func(i, j int) { l[i], l[j] = l[j], l[i] })
		}
		var pick []int
		for len(pick) < nStruct {
			progress := false
			for _, c := range classes {
				if l := byClass[c]; len(l) > 0 && len(pick) < nStruct {
					pick = append(pick, l[0])
					byClass[c] = l[1:]
					progress = true
				}
			}
			if !progress {
				break
			}
		}
		// keep classes contiguous and the order deterministic
		sort.Ints(pick)
		for _, i := range pick {
			out = append(out, st[i])
		}
	} else {
		out = append(out, st...)
	}
	out = append(out, bigSpecs(role)...)
	out = append(out, longRunSpecs(entry, proto)...)
	rest := total - len(out)
	if rest < 300 {
		rest = 300
	}
	out = append(out, prngSpecs(role, rng, rest*2/3, rest-rest*2/3)...)
	// after everything else: the indices of the inputs above stay what they were
	out = append(out, edgeSpecs(role, proto, thorough)...)
	out = append(out, repeatSpecs(role, thorough)...)
	return out
}

// materialize turns spec s into the bytes of input idx.
func materialize(entry, proto string, s spec, idx int) input {
	role := roleOf(entry)
	if s.lazy != nil {
		return input{Class: s.class, Base: 0, Data: s.lazy(), Label: s.label}
	}
	if s.base < 0 {
		return input{Class: s.class, Base: 0, Data: s.raw}
	}
	b := bases(role)[s.base]
	opid := opidFor(idx)
	var data []byte
	if s.rebuild != nil {
		data = s.rebuild(role, proto, b, strconv.FormatUint(opid, 10))
	} else {
		data = s.mut(baseInfo(role, proto, b, opid))
	}
	return input{Class: s.class, Base: s.base, Data: data}
}

func streamName(entry, proto string) string { return fmt.Sprintf("c05/%s/%s", entry, proto) }
