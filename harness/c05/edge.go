package main

// Class "edgehdr": WHERE the bulk of a near-limit, perfectly well-formed
// request sits.  The other big inputs (class bigstr) are big because of a
// method name, an argument or a header nobody echoes.  Here the request names
// a KNOWN method with small arguments, and practically all of its bytes are in
// the values of the headers a server has to repeat in every reply it can ever
// send (_opid, _cid) - the ordinary reply, the error reply and whatever
// fallback the error path has.  The total size of the request is swept byte
// by byte over the last bytes below the bounded reply buffer of the
// message-oriented server (natsMaxMessageSize = 1 MiB; a few sizes above it as
// well: the broker of the rig lets them through), so that every relation
// "request fits / reply fits / error reply fits / nothing fits" occurs for
// some size.  The oracle is the one of every other input: no panic, no parked
// or runaway worker, the following well-formed request is answered.  A request
// the server has no room to answer at all may go unanswered.

import (
	"fmt"
	"strconv"
	"strings"

	"github.com/apache/thrift/lib/go/thrift"

	"verif/wire"
	"vh/gen/base"
	"vh/gen/mainsvc"
)

// replyLimit is the size of the bounded reply buffer of the NATS server.
const replyLimit = 1 << 20

// flatStack bounds the goroutine stacks of the child while a flat well-formed
// request (2-3 headers, a known method, scalar arguments: a few dozen frames)
// is in flight: recursion that does not end runs into the runtime's "stack
// overflow" after thousands instead of millions of rounds.  Everything else
// keeps the child's default (childStack).
const (
	flatStack  = 2 << 20
	childStack = 256 << 20
)

type edgeMethod struct {
	name   string
	method string
	body   func() thrift.TStruct
}

// edgeMethods: known methods; getBig answers with more bytes than it is asked
// with (that is what it is for), the others with about as many or fewer.
var edgeMethods = []edgeMethod{
	{"getBig", "getBig", func() thrift.TStruct { return &mainsvc.FooGetBigArgs{Size: 256, Shape: ""} }},
	{"add", "add", func() thrift.TStruct { return &mainsvc.FooAddArgs{A: 7, B: 35} }},
	{"basePing", "basePing", func() thrift.TStruct { return &base.BaseFooBasePingArgs{} }},
	{"echoLast", "echo", func() thrift.TStruct { return &mainsvc.FooEchoArgs{P: payloadLast(), Tag: "tag"} }},
}

var edgeWhere = []string{"opid", "cid", "both"}

func edgePairs(a, b int, timeout bool) []wire.Pair {
	p := []wire.Pair{{Name: "_opid", Value: strings.Repeat("9", a)}, {Name: "_cid", Value: strings.Repeat("c", b)}}
	if timeout {
		p = append(p, wire.Pair{Name: "_timeout", Value: "5000"})
	}
	return p
}

// edgeSizes: the lengths of the two echoed header values that make the
// request total bytes in all (frame size field included).
func edgeSizes(proto string, m edgeMethod, where string, timeout bool, total int) (nOpid, nCid int) {
	// both values keep at least one byte
	fixed := len(buildFrame(proto, edgePairs(1, 1, timeout), m.method, thrift.CALL, m.body()).b) - 2
	pad := total - fixed
	if pad < 2 {
		pad = 2
	}
	switch where {
	case "opid":
		return pad - 1, 1
	case "cid":
		return 1, pad - 1
	}
	return pad / 2, pad - pad/2
}

func edgeSpec(proto string, m edgeMethod, where string, timeout bool, total int) spec {
	a, b := edgeSizes(proto, m, where, timeout, total)
	t := ""
	if timeout {
		t = ",_timeout=5000"
	}
	label := fmt.Sprintf("edge:%s(%s)[_opid=9*%d,_cid=c*%d%s]:limit%+d:bytes=%d", m.method, m.name, a, b, t, total-replyLimit, total)
	return spec{class: "edgehdr", base: -1, label: label,
		lazy: func() []byte { return buildFrame(proto, edgePairs(a, b, timeout), m.method, thrift.CALL, m.body()).b }}
}

// edgeSpecs is the case list of the class for the server request path.
//
//	quick:    getBig at every size limit-99 .. limit (the place of the padding
//	          and the presence of _timeout rotate), getBig above the limit,
//	          the other methods at 9 sizes
//	thorough: every method at every size limit-99 .. limit, with and
//	          without _timeout, the place of the padding rotating; above the limit
func edgeSpecs(role, proto string, thorough bool) []spec {
	if role != roleReq {
		return nil
	}
	var out []spec
	k := 0
	add := func(m edgeMethod, timeout bool, d int) {
		out = append(out, edgeSpec(proto, m, edgeWhere[k%len(edgeWhere)], timeout, replyLimit-d))
		k++
	}
	above := []int{-1, -2, -24, -64, -4096}
	if thorough {
		for _, m := range edgeMethods {
			for _, timeout := range []bool{false, true} {
				for d := 99; d >= 0; d-- {
					add(m, timeout, d)
				}
				for _, d := range above {
					add(m, timeout, d)
				}
			}
		}
		return out
	}
	for d := 99; d >= 0; d-- {
		add(edgeMethods[0], d%4 == 3, d)
	}
	for _, d := range above {
		add(edgeMethods[0], false, d)
	}
	for _, m := range edgeMethods[1:] {
		for _, d := range []int{64, 32, 16, 8, 4, 3, 2, 1, 0} {
			add(m, false, d)
		}
	}
	return out
}

// labelBytes reads the size out of an edge label ("...:bytes=<n>").
func labelBytes(h string) (int, bool) {
	if !strings.HasPrefix(h, "edge:") {
		return 0, false
	}
	k := strings.LastIndex(h, "bytes=")
	if k < 0 {
		return 0, false
	}
	n, err := strconv.Atoi(h[k+len("bytes="):])
	return n, err == nil
}
