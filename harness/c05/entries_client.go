package main

// Client response path: what a server (or anybody who can write to the
// connection / publish on the inbox / answer the HTTP request) can deliver.

import (
	"encoding/base64"
	"fmt"
	"net/http"
	"net/http/httptest"
	"runtime"
	"strings"
	"sync"
	"sync/atomic"
	"time"

	frugal "github.com/Workiva/frugal/lib/go"
	"github.com/nats-io/nats.go"

	"verif/rig"
	"vh/gen/mainsvc"
)

type callResult struct {
	ok  bool
	err error
}

// ---- fAdapterTransport read loop (byte stream) -------------------------------

type adapterClient struct {
	proto string
	pf    *frugal.FProtocolFactory
	hook  *hookLog
}

func newAdapterClient(proto string) (entryPoint, error) {
	return &adapterClient{proto: proto, pf: rig.ProtocolFactory(proto), hook: installHook()}, nil
}

// mode: the canary runs either on a new transport over a new connection, or -
// the history "hostile bytes on session 1, transport closes, the SAME
// FTransport is opened again, well-behaved peer on session 2" - on the
// reopened transport: the damage must stay confined to the one connection.
func (a *adapterClient) mode(idx int) string {
	switch idx % 4 {
	case 0:
		// three hostile sessions on one transport whose monitor has finished
		// (its policy is "do not reopen"), then the well-behaved one
		return "stream+3-hostile-sessions-same-transport"
	case 2:
		return "stream+reopen-same-transport"
	}
	return "stream"
}

// answersClosed: after a close the transport must answer IsOpen() (with
// false) - the call is made from a goroutine so that a wedged transport is
// found by the dump instead of wedging the monitor.
func (a *adapterClient) answersClosed(tr frugal.FTransport, when string) outcome {
	res := make(chan bool, 1)
	go func() { res <- tr.IsOpen() }()
	open, o := await(res, nil, "")
	if o.kind != "ok" {
		if o.kind == "stall" {
			o.note = "IsOpen() " + when + " never answered: " + o.note
		}
		return o
	}
	if open {
		return outcome{"wrong", "[still-open] IsOpen() answers true " + when}
	}
	return okOutcome("")
}

// hostileSession opens the transport again and lets the peer send data and
// hang up: the transport must close, say so on Closed() and answer IsOpen().
func (a *adapterClient) hostileSession(s *session, n int, data []byte) outcome {
	what := fmt.Sprintf("session %d of the same transport", n)
	if err := s.tr.Open(); err != nil {
		return outcome{"wrong", fmt.Sprintf("[reopen-open] opening %s: %v", what, err)}
	}
	closed := s.tr.Closed()
	s.st.Feed(data)
	s.st.FeedEOF()
	if _, o := await(closed, nil, adapterReadLoop); o.kind != "ok" {
		if o.kind == "stall" {
			o.note = "the transport never reported the end of " + what + " on Closed(): " + o.note
		}
		return o
	}
	return a.answersClosed(s.tr, "after the peer's bytes closed "+what)
}

// session is one adapter transport on a scripted byte stream.
type session struct {
	st *rig.ScriptTransport
	tr frugal.FTransport
	c  *mainsvc.FFooClient
}

func (a *adapterClient) newSession() (*session, error) {
	st := rig.NewScriptTransport()
	tr := frugal.NewAdapterTransport(st)
	if err := tr.Open(); err != nil {
		return nil, err
	}
	return &session{st, tr, mainsvc.NewFFooClient(frugal.NewFServiceProvider(tr, a.pf))}, nil
}

// monRec is an FTransportMonitor that only records how the transport closed
// (the monitor has its own channel: it tells the monitor of a close without
// touching what Closed() delivers to the application).
type monRec struct {
	ev   chan monEv
	told atomic.Int32 // closes the monitor has been told of (never consumed)
}
type monEv struct {
	clean bool
	cause error
}

func (m *monRec) OnClosedCleanly() { m.told.Add(1); m.ev <- monEv{true, nil} }
func (m *monRec) OnClosedUncleanly(cause error) (bool, time.Duration) {
	m.told.Add(1)
	m.ev <- monEv{false, cause}
	return false, 0
}
func (m *monRec) OnReopenFailed(uint, time.Duration) (bool, time.Duration) { return false, 0 }
func (m *monRec) OnReopenSucceeded()                                       {}

// goroutineID is the id of the calling goroutine as dumps print it.
func goroutineID() string {
	b := make([]byte, 64)
	b = b[:runtime.Stack(b, false)]
	if f := strings.Fields(string(b)); len(f) > 1 {
		return f[1]
	}
	return ""
}

// parkedIn reports that goroutine id is parked in state (prefix) inside
// library function fn.
func parkedIn(id, fn, state string) bool {
	head := "goroutine " + id + " [" + state
	for _, g := range strings.Split(allStacks(), "\n\n") {
		if strings.HasPrefix(g, head) {
			return strings.Contains(g, frugalPkg+fn+"(")
		}
	}
	return false
}

// callHeld starts the generated call; nothing is fed by itself.  flushed is
// closed when the request frame has left, gid is the id of the calling
// goroutine.
func (s *session) callHeld(base int, opid uint64) (done <-chan callResult, flushed <-chan struct{}, gid string) {
	var once sync.Once
	fl := make(chan struct{})
	s.st.OnFrame = func([]byte) { once.Do(func() { close(fl) }) }
	d := make(chan callResult, 1)
	idC := make(chan string, 1)
	go func() {
		idC <- goroutineID()
		ok, err := clientOp(base, s.c, callCtx(opid))
		d <- callResult{ok, err}
	}()
	return d, fl, <-idC
}

// call makes the generated call and feeds `feed` (then EOF if eof) when the
// request frame has been flushed; fed is closed once everything has been fed.
func (s *session) call(base int, opid uint64, feed [][]byte, eof bool) (done <-chan callResult, fed <-chan struct{}) {
	var once sync.Once
	fedC := make(chan struct{})
	s.st.OnFrame = func([]byte) {
		once.Do(func() {
			for _, f := range feed {
				s.st.Feed(f)
			}
			if eof {
				s.st.FeedEOF()
			}
			close(fedC)
		})
	}
	d := make(chan callResult, 1)
	go func() {
		ok, err := clientOp(base, s.c, callCtx(opid))
		d <- callResult{ok, err}
	}()
	return d, fedC
}

// served makes a canary call on a session whose peer is well-behaved and
// decides logically: the call returns the right value (ok); the transport
// closes although the peer did nothing wrong; or the complete response has
// been consumed, the reader is back waiting for more bytes and nothing was
// dispatched (swallowed) - no clock involved in any of them.
func (a *adapterClient) served(s *session, opid uint64, what string) outcome {
	a.hook.drain()
	closed := s.tr.Closed()
	done, fed := s.call(0, opid, [][]byte{validFrame(roleResp, a.proto, bases(roleResp)[0], opid)}, false)
	var res *callResult
	dispatched := false
	o := awaitCond(func() bool {
		select {
		case r := <-done:
			res = &r
			return true
		default:
		}
		select {
		case <-closed:
			return true
		default:
		}
		select {
		case <-fed:
		default:
			return false
		}
		// order matters: the reader parks (under the stream's lock) only after
		// it has dispatched what it read, so once it is seen idle the hook
		// event of a dispatch is already there
		if idle, _ := s.st.ReaderIdle(); !idle {
			return false
		}
		for _, e := range a.hook.drain() {
			if e.opid == opid {
				dispatched = true
			}
		}
		return true
	}, nil)
	if o.kind != "ok" {
		if o.kind == "stall" {
			o.note = "canary call on " + what + " never returned: " + o.note
		}
		return o
	}
	if res == nil && dispatched {
		// the response reached the caller's channel: the call comes back
		r, o := await(done, nil, "")
		if o.kind != "ok" {
			return o
		}
		res = &r
	}
	switch {
	case res != nil && res.ok:
		return okOutcome("")
	case res != nil:
		return outcome{"wrong", fmt.Sprintf("[%s-wrong-answer] canary call on %s: ok=%v err=%v", tag(what), what, res.ok, res.err)}
	}
	select {
	case cause := <-closed:
		return outcome{"wrong", fmt.Sprintf("[%s-closed] %s closed (cause: %v) although its peer only sent one well-formed response", tag(what), what, cause)}
	default:
	}
	return outcome{"wrong", fmt.Sprintf("[%s-swallowed] the well-formed response on %s was consumed, the reader is waiting for more bytes, nothing was dispatched and nothing was closed or reported", tag(what), what)}
}

func tag(what string) string {
	if strings.HasPrefix(what, "the reopened") {
		return "reopen"
	}
	return "new-transport"
}

func (a *adapterClient) deliver(idx int, in input) outcome {
	opid := opidFor(idx)
	valid := validFrame(roleResp, a.proto, bases(roleResp)[in.Base], opid)
	a.hook.drain()
	s1, err := a.newSession()
	if err != nil {
		return outcome{"wrong", "open: " + err.Error()}
	}
	mon := &monRec{ev: make(chan monEv, 4)}
	s1.tr.SetMonitor(mon)
	// the hostile bytes arrive WHILE a request is in flight: the request frame
	// has left and the caller is parked in Request's select (or has returned)
	done, flushed, gid := s1.callHeld(in.Base, opid)
	var early *callResult
	if o := awaitCond(func() bool {
		select {
		case r := <-done:
			early = &r
			return true
		default:
		}
		select {
		case <-flushed:
		default:
			return false
		}
		return parkedIn(gid, "(*fAdapterTransport).Request", "select")
	}, nil); o.kind != "ok" {
		if o.kind == "stall" {
			o.note = "the request never got as far as waiting for its response: " + o.note
		}
		return o
	}
	if in.Class == repeatClass {
		// slow requester: it keeps its registration until the read loop has been
		// through the whole stream (the monitor has been told of the close)
		hold.arm(opid, func() bool { return mon.told.Load() > 0 })
	}
	s1.st.Feed(in.Data)
	s1.st.Feed(valid)
	s1.st.FeedEOF()
	// the stream ends after the hostile bytes and the valid response: the read
	// loop must come to an end and say so.  The fence is the transport monitor
	// (its own channel); the application looks at Closed() only afterwards.
	ev, o := await(mon.ev, nil, adapterReadLoop+"|idle:(*monitorRunner).run")
	if o.kind != "ok" {
		if o.kind == "stall" {
			o.note = "adapter transport never reported the end of the stream: " + o.note
		}
		return o
	}
	cause := ev.cause
	closed := s1.tr.Closed()
	var first error
	select {
	case first = <-closed:
	default:
		return outcome{"wrong", fmt.Sprintf("[cause-not-published] the transport monitor was told of the close (cause: %v) but Closed() delivers nothing", cause)}
	}
	if cause != nil && first == nil {
		return outcome{"wrong", fmt.Sprintf("[cause-lost] the transport closed because of the peer's bytes (cause given to the transport monitor: %v) while a request was waiting, but the application's first read of Closed() yields nil, i.e. a clean close", cause)}
	}
	select {
	case second, open := <-closed:
		if second != nil || open {
			return outcome{"wrong", fmt.Sprintf("[cause-twice] Closed() yields a second value: %v", second)}
		}
	default:
		return outcome{"wrong", "[cause-channel-open] Closed() is not closed after it delivered the cause"}
	}
	if early != nil {
		dn := make(chan callResult, 1)
		dn <- *early
		done = dn
	}
	how := "/clean-close"
	if cause != nil {
		how = "/closed-with-cause"
	}
	dispatched := false
	for _, e := range a.hook.drain() {
		if e.point == "send.end" && e.opid == opid {
			dispatched = true
		}
	}
	same := false
	if dispatched {
		// a frame reached the caller: the call must come back (value or error)
		r, o := await(done, nil, "")
		if o.kind != "ok" {
			if o.kind == "stall" {
				o.note = "call that was handed a response frame never returned: " + o.note
			}
			return o
		}
		same = r.ok
	}
	if o := a.answersClosed(s1.tr, "after the peer's bytes closed the transport"); o.kind != "ok" {
		return o
	}
	if a.mode(idx) == "stream+3-hostile-sessions-same-transport" {
		for n := 2; n <= 3; n++ {
			if o := a.hostileSession(s1, n, in.Data); o.kind != "ok" {
				return o
			}
		}
		how = "/3-hostile-sessions" + how
	}
	if a.mode(idx) == "stream" {
		if same {
			return okOutcome("same-connection" + how)
		}
		// canary on a NEW transport over a new connection
		s2, err := a.newSession()
		if err != nil {
			return outcome{"wrong", "open of a new transport: " + err.Error()}
		}
		if o := a.served(s2, opid+500000, "a new adapter transport"); o.kind != "ok" {
			return o
		}
		s2.tr.Close()
		return okOutcome("new-connection" + how)
	}
	// session 2 of the SAME transport (what an FTransportMonitor does after an
	// unclean close): new connection, well-behaved peer
	if err := s1.tr.Open(); err != nil {
		return outcome{"wrong", "[reopen-open] reopening the transport after its read loop closed it: " + err.Error()}
	}
	if o := a.served(s1, opid+500000, "the reopened transport (well-behaved peer, new connection)"); o.kind != "ok" {
		return o
	}
	s1.tr.Close()
	return okOutcome("reopened-same-transport" + how)
}

const adapterReadLoop = "(*fAdapterTransport).readLoop"

// ---- fNatsTransport inbox callback (message) ----------------------------------

type natsClient struct {
	proto   string
	pf      *frugal.FProtocolFactory
	hook    *hookLog
	ns      *rig.NatsServer
	peer    *nats.Conn
	client  *mainsvc.FFooClient
	mu      sync.Mutex
	plan    []*nats.Msg // messages the peer publishes on the reply subject of the next request
	fenceC  chan hookEv
	subject string
}

func newNatsClient(proto string) (entryPoint, error) {
	n := &natsClient{proto: proto, pf: rig.ProtocolFactory(proto), subject: "c05.rpc"}
	ns, err := rig.StartNats()
	if err != nil {
		return nil, err
	}
	n.ns = ns
	n.hook = installHook()
	if n.peer, err = ns.Connect(); err != nil {
		return nil, err
	}
	// the peer: whoever can publish on the inbox
	if _, err = n.peer.Subscribe(n.subject, func(m *nats.Msg) {
		n.mu.Lock()
		plan := n.plan
		n.plan = nil
		n.mu.Unlock()
		for _, p := range plan {
			p.Subject = m.Reply
			n.peer.PublishMsg(p)
		}
		n.peer.Flush()
	}); err != nil {
		return nil, err
	}
	n.peer.Flush()
	cc, err := ns.Connect()
	if err != nil {
		return nil, err
	}
	tr := frugal.NewFNatsTransport(cc, n.subject, "_INBOX.c05client")
	if err := tr.Open(); err != nil {
		return nil, err
	}
	cc.Flush()
	n.client = mainsvc.NewFFooClient(frugal.NewFServiceProvider(tr, n.pf))
	return n, nil
}

func (n *natsClient) mode(idx int) string {
	if idx%50 == 7 {
		return "status503"
	}
	if idx%50 == 8 {
		return "status404"
	}
	return "data"
}

// call makes one generated call whose request the peer answers with msgs and
// then with a fence frame for an op id nobody waits for.
func (n *natsClient) call(base int, opid uint64, msgs []*nats.Msg) (callResult, outcome) {
	fence := validFrame(roleResp, n.proto, bases(roleResp)[0], fenceOpid)
	n.hook.drain()
	n.mu.Lock()
	n.plan = append(msgs, &nats.Msg{Data: fence})
	n.mu.Unlock()
	done := make(chan callResult, 1)
	go func() {
		ok, err := clientOp(base, n.client, callCtx(opid))
		done <- callResult{ok, err}
	}()
	// every message published before the fence has been through the inbox
	// callback once the fence has been dispatched
	_, o := await(n.hook.ch, func(e hookEv) bool { return e.point == "dispatch.unknown" && e.opid == fenceOpid }, "")
	if o.kind != "ok" {
		if o.kind == "stall" {
			o.note = "a well-formed frame published on the inbox after the input was never dispatched: " + o.note
		}
		return callResult{}, o
	}
	r, o := await(done, nil, "")
	if o.kind != "ok" {
		if o.kind == "stall" {
			o.note = "call never returned although a valid response was published on its inbox: " + o.note
		}
	}
	return r, o
}

func (n *natsClient) deliver(idx int, in input) outcome {
	opid := opidFor(idx)
	valid := validFrame(roleResp, n.proto, bases(roleResp)[in.Base], opid)
	if in.Class == repeatClass {
		return n.deliverRepeat(idx, in, opid, valid)
	}
	h := &nats.Msg{Data: in.Data}
	switch n.mode(idx) {
	case "status503":
		h.Header = nats.Header{"Status": []string{"503"}}
	case "status404":
		h.Header = nats.Header{"Status": []string{"404"}}
	}
	r, o := n.call(in.Base, opid, []*nats.Msg{h, {Data: valid}})
	if o.kind != "ok" {
		return o
	}
	if r.ok {
		return okOutcome("same-subscription")
	}
	// the input was taken as the response: a clean call on the same transport
	r, o = n.call(0, opid+500000, []*nats.Msg{{Data: validFrame(roleResp, n.proto, bases(roleResp)[0], opid+500000)}})
	if o.kind != "ok" {
		return o
	}
	if !r.ok {
		return outcome{"wrong", fmt.Sprintf("clean call after the input on the same NATS transport: ok=%v err=%v", r.ok, r.err)}
	}
	return okOutcome("same-subscription-next-call")
}

// deliverRepeat: the copies arrive as separate messages on the inbox of the
// request in flight, back to back, while the (slow) requester is still
// registered; then the fence.  Afterwards a clean call on the same transport.
func (n *natsClient) deliverRepeat(idx int, in input, opid uint64, valid []byte) outcome {
	var msgs []*nats.Msg
	for _, f := range splitFrames(in.Data) {
		msgs = append(msgs, &nats.Msg{Data: f})
	}
	hold.arm(opid, func() bool { return hold.fence.Load() })
	r, o := n.call(in.Base, opid, append(msgs, &nats.Msg{Data: valid}))
	if o.kind != "ok" {
		return o
	}
	if !r.ok {
		return outcome{"wrong", fmt.Sprintf("[repeat-wrong-answer] call answered with %d copies of its well-formed response: ok=%v err=%v", len(msgs)+1, r.ok, r.err)}
	}
	r, o = n.call(0, opid+500000, []*nats.Msg{{Data: validFrame(roleResp, n.proto, bases(roleResp)[0], opid+500000)}})
	if o.kind != "ok" {
		return o
	}
	if !r.ok {
		return outcome{"wrong", fmt.Sprintf("clean call after the repeated responses on the same NATS transport: ok=%v err=%v", r.ok, r.err)}
	}
	return okOutcome("same-subscription-next-call")
}

// ---- fHTTPTransport response body ----------------------------------------------

type httpClient struct {
	proto  string
	srv    *httptest.Server
	client *mainsvc.FFooClient
	mu     sync.Mutex
	status int    // 0 = answer with the real handler
	body   []byte // hostile body
}

func newHTTPClient(proto string) (entryPoint, error) {
	h := &httpClient{proto: proto}
	pf := rig.ProtocolFactory(proto)
	real := frugal.NewFrugalHandlerFunc(newProcessor(), pf)
	h.srv = httptest.NewServer(http.HandlerFunc(func(w http.ResponseWriter, r *http.Request) {
		h.mu.Lock()
		status, body := h.status, h.body
		h.mu.Unlock()
		if status == 0 {
			real(w, r)
			return
		}
		w.Header().Set("content-type", "application/x-frugal")
		w.WriteHeader(status)
		w.Write(body)
	}))
	tr := frugal.NewFHTTPTransportBuilder(&http.Client{Timeout: hardWait + 20*time.Second}, h.srv.URL).Build()
	if err := tr.Open(); err != nil {
		return nil, err
	}
	h.client = mainsvc.NewFFooClient(frugal.NewFServiceProvider(tr, pf))
	return h, nil
}

func (h *httpClient) mode(idx int) string {
	switch {
	case idx%5 == 4:
		return "raw-200"
	case idx%11 == 3:
		return "b64-500"
	case idx%13 == 5:
		return "b64-413"
	case idx%17 == 6:
		return "b64url-200"
	}
	return "b64-200"
}

func (h *httpClient) deliver(idx int, in input) outcome {
	status, body := 200, []byte(base64.StdEncoding.EncodeToString(in.Data))
	switch h.mode(idx) {
	case "raw-200":
		body = in.Data
	case "b64-500":
		status = 500
	case "b64-413":
		status = 413
	case "b64url-200":
		body = []byte(base64.RawURLEncoding.EncodeToString(in.Data))
	}
	h.mu.Lock()
	h.status, h.body = status, body
	h.mu.Unlock()
	done := make(chan callResult, 1)
	go func() {
		ok, err := clientOp(in.Base, h.client, callCtx(opidFor(idx)))
		done <- callResult{ok, err}
	}()
	if _, o := await(done, nil, ""); o.kind != "ok" {
		o.note = "call never returned although the HTTP response was complete: " + o.note
		return o
	}
	// canary: the same transport against the real handler
	h.mu.Lock()
	h.status = 0
	h.mu.Unlock()
	r, err := h.client.Add(callCtx(opidFor(idx)+500000), int32(idx), 1000)
	if err != nil || r != int64(idx)+1000 {
		return outcome{"wrong", fmt.Sprintf("canary call on the same HTTP transport: %v, %v", r, err)}
	}
	return okOutcome("same-transport")
}
