package main

// Class "repeat": well-formed frames repeated.  The byte sequence is k = 2..8
// copies of a correctly framed, correctly routed response for the op id of the
// request that is in flight, delivered in one write (stream) or back to back as
// k messages (NATS inbox), followed by the usual valid response / fence.  A
// repeated valid message is a hostile byte sequence like any other: a peer
// that retransmits, a proxy that duplicates, a broker that redelivers.
//
// Schedule: the requester is slow.  It is held at the yield point
// "request.gotResult" (it has taken its one response and is still registered)
// until the frame-delivering goroutine has been through everything that was
// delivered - or is parked inside the library away from its idle point.  Then
// it is let go and returns; whatever is decided is decided afterwards, on a
// process in which every call has returned.

import (
	"bytes"
	"runtime"
	"strings"
	"sync"
	"sync/atomic"
	"time"
)

const repeatClass = "repeat"

// repeatSpecs: response role only (the entry points that go through the
// registry; the HTTP client gets the same bytes as a body).
func repeatSpecs(role string, thorough bool) []spec {
	if role != roleResp {
		return nil
	}
	var out []spec
	nb := len(bases(role))
	add := func(bi, k int) {
		out = append(out, spec{class: repeatClass, base: bi, mut: func(fi *frameInfo) []byte {
			return bytes.Repeat(fi.b, k)
		}})
	}
	if thorough {
		for bi := 0; bi < nb; bi++ {
			for k := 2; k <= 8; k++ {
				add(bi, k)
			}
		}
		return out
	}
	// quick: every k once, the bases in turn; 9 inputs so that every delivery
	// variant of an entry point (index mod 4) sees k >= 3
	for i, k := range []int{2, 3, 4, 5, 6, 7, 8, 3, 5} {
		add(i%nb, k)
	}
	return out
}

// holder holds one requester at "request.gotResult".
type holder struct {
	mu      sync.Mutex
	opid    uint64
	release chan struct{}
	reached atomic.Bool
	fence   atomic.Bool // the fence frame has been dispatched (NATS)
}

var hold holder

// chanWedgeOn enables the channel rule of await (see chanWedge) while an input
// of class repeat is being evaluated.
var chanWedgeOn atomic.Bool

// atHook is called from the registry hook on the goroutine that reached point.
func (h *holder) atHook(point string, opid uint64) {
	switch point {
	case "dispatch.unknown":
		if opid == fenceOpid {
			h.fence.Store(true)
		}
	case "request.gotResult":
		h.mu.Lock()
		rel := h.release
		mine := rel != nil && opid == h.opid
		h.mu.Unlock()
		if mine {
			h.reached.Store(true)
			<-rel
		}
	}
}

// arm holds the next request of op id opid; the watcher lets it go as soon as
// delivered() holds, or a goroutine is parked inside the library away from its
// idle point, or (never a verdict) after hardWait.
func (h *holder) arm(opid uint64, delivered func() bool) {
	rel := make(chan struct{})
	h.mu.Lock()
	h.opid, h.release = opid, rel
	h.mu.Unlock()
	h.reached.Store(false)
	h.fence.Store(false)
	go func() {
		defer func() {
			h.mu.Lock()
			h.release = nil
			h.mu.Unlock()
			close(rel)
		}()
		start := time.Now()
		for i := 0; ; i++ {
			if delivered() {
				return
			}
			switch {
			case i < 50:
				runtime.Gosched()
				continue
			case i < 500:
				time.Sleep(20 * time.Microsecond)
				continue
			}
			// a goroutine dump stops the world: rarely
			if fn, _, _ := blockedCandidate(parseGoroutines(allStacks())); fn != "" {
				return
			}
			if time.Since(start) > hardWait {
				return
			}
			d := time.Duration(i-499) * time.Millisecond
			if d > 100*time.Millisecond {
				d = 100 * time.Millisecond
			}
			time.Sleep(d)
		}
	}()
}

// chanWedge is the channel twin of lockWedge: a goroutine whose top user frame
// is inside the library is parked on a channel operation away from every idle
// and waiting point, while no other goroutine is inside the library except
// parked at a waiting point: nobody is left inside the library who could take
// (or give) what it waits for, and the peer cannot release it by sending bytes.
// The caller requires the same goroutine on consecutive looks.
func chanWedge() (id, fn, where, state string, ok bool) {
	gs := parseGoroutines(allStacks())
	var cand *gor
	for i := range gs {
		g := &gs[i]
		if !strings.HasPrefix(g.state, "chan send") && !strings.HasPrefix(g.state, "chan receive") && !strings.HasPrefix(g.state, "select") {
			continue
		}
		tu, has := g.topUser()
		if !has || !strings.HasPrefix(tu.name, frugalPkg) {
			continue
		}
		f := strings.TrimPrefix(tu.name, frugalPkg)
		if idleStates[f] != "" && strings.HasPrefix(g.state, idleStates[f]) {
			continue
		}
		if waitFuncs[f] {
			continue
		}
		cand = g
		break
	}
	if cand == nil {
		return
	}
	for _, g := range gs {
		if g.id == cand.id {
			continue
		}
		ff, has := g.firstFrugal()
		if !has {
			continue
		}
		if g.parked() && waitFuncs[ff.name] {
			continue
		}
		return // somebody is (or may be) at work inside the library
	}
	tu, _ := cand.topUser()
	return cand.id, strings.TrimPrefix(tu.name, frugalPkg), tu.loc, "[" + cand.state + "]", true
}
