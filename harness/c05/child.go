package main

// Child mode: the receivers under test live in this process.  For every input
// the child appends "I <idx> <class> <mode> <hex>" to the log (a write(2) that
// survives the death of the process) BEFORE delivering it, delivers it,
// delivers the canary, and appends "K <idx> <how>" once the canary has been
// verified.  Anything else ends the child; the parent reads the log.

import (
	"bytes"
	"context"
	"encoding/hex"
	"fmt"
	"os"
	"runtime"
	"runtime/debug"
	"strconv"
	"strings"
	"sync"
	"syscall"
	"time"

	frugal "github.com/Workiva/frugal/lib/go"
	"github.com/apache/thrift/lib/go/thrift"

	"verif/ev"
	"verif/rig"
	"verif/wire"
	"vh/e2e"
	"vh/gen/mainsvc"
)

// exit codes of a child
const (
	exitDone  = 0
	exitWrong = 5 // canary answered wrongly / not at all without a stall
	exitDead  = 6 // the receiver goroutine is gone
	exitStall = 7 // canary made no progress within the hard wait
	exitBlock = 8 // a library goroutine waits for a lock nobody is left to release
	exitSetup = 9 // the rig could not be set up (not the subject's fault)
)

var hardWait = 30 * time.Second

type outcome struct {
	kind string // ok | wrong | dead | blocked | stall
	note string
}

func okOutcome(how string) outcome { return outcome{"ok", how} }

type entryPoint interface {
	// deliver feeds input idx and the canary; mode names the delivery variant.
	deliver(idx int, in input) outcome
	mode(idx int) string
}

func newEntry(entry, proto string) (entryPoint, error) {
	switch entry {
	case "adapter-client-response":
		return newAdapterClient(proto)
	case "nats-client-response":
		return newNatsClient(proto)
	case "http-client-response":
		return newHTTPClient(proto)
	case "simple-server-request":
		return newSimpleServer(proto)
	case "nats-server-request":
		return newNatsServer(proto)
	case "http-handler-request":
		return newHTTPHandler(proto)
	case "nats-subscriber":
		return newNatsSubscriber(proto)
	case "stomp-subscriber":
		return newStompSubscriber(proto)
	}
	return nil, fmt.Errorf("unknown entry point %q", entry)
}

// safeHandler is the fixture handler with outcomes that cannot hurt the
// monitor whatever the (hostile but well-formed) arguments are.
func safeHandler() *e2e.Handler {
	h := &e2e.Handler{}
	h.Behave = func(c *e2e.Call) *e2e.Outcome {
		h.Reset()
		if c.Method == "getBig" {
			// a modest size is served as asked (the reply is bigger than the
			// request); a hostile one is not
			if n, ok := c.Args[0].(int32); ok && n >= 0 && n <= 4096 {
				return nil
			}
			return &e2e.Outcome{Ret: "big"}
		}
		return nil
	}
	return h
}

func newProcessor() *mainsvc.FFooProcessor { return mainsvc.NewFFooProcessor(safeHandler()) }

var stackMu sync.Mutex

// goroutinesWith counts the goroutines that are INSIDE library function fn
// (e.g. "(*fNatsServer).worker"): fn is one of their frames.  "created by fn"
// lines do not count - a goroutine that fn started can outlive fn.
func goroutinesWith(fn string) int {
	want := frugalPkg + fn
	c := 0
	for _, g := range strings.Split(allStacks(), "\n\n") {
		for _, l := range strings.Split(g, "\n") {
			if !strings.HasPrefix(l, frugalPkg) {
				continue
			}
			if k := strings.LastIndex(l, "("); k > 0 && l[:k] == want {
				c++
				break
			}
		}
	}
	return c
}

// noneAlive: none of the library functions named in fns ("a|idle:b") has a
// goroutine at work inside it any more.  "idle:b" also accepts goroutines
// that sit in b at b's idle point: they have not been given anything to do.
func noneAlive(fns string) bool {
	for _, fn := range strings.Split(fns, "|") {
		if !strings.HasPrefix(fn, "idle:") {
			if goroutinesWith(fn) > 0 {
				return false
			}
			continue
		}
		fn = strings.TrimPrefix(fn, "idle:")
		for _, g := range parseGoroutines(allStacks()) {
			ff, has := g.firstFrugal()
			if !has {
				continue
			}
			inside := false
			for _, f := range g.frames {
				if f.name == frugalPkg+fn {
					inside = true
				}
			}
			if !inside {
				continue
			}
			if ff.name == fn && idleStates[fn] != "" && strings.HasPrefix(g.state, idleStates[fn]) {
				continue
			}
			return false
		}
	}
	return true
}

func dumpGoroutines() {
	buf := make([]byte, 1<<22)
	n := runtime.Stack(buf, true)
	os.Stderr.WriteString("C05-STALL-DUMP-BEGIN\n")
	os.Stderr.Write(buf[:n])
	os.Stderr.WriteString("\nC05-STALL-DUMP-END\n")
}

// await waits for a value matching match on ch.  recvFunc, when set, names the
// goroutine that must exist for the wait to make sense: once it is gone the
// wait is over for a logical reason (dead receiver), not for a timing one.
func await[T any](ch <-chan T, match func(T) bool, recvFunc string) (T, outcome) {
	var zero T
	start := time.Now()
	next := 100 * time.Millisecond
	wedgedID := ""
	chanID, chanLooks := "", 0
	for {
		t := time.NewTimer(next)
		select {
		case v := <-ch:
			t.Stop()
			if match == nil || match(v) {
				return v, okOutcome("")
			}
			continue
		case <-t.C:
		}
		if recvFunc != "" && noneAlive(recvFunc) {
			// one more look at the channel: the value may have been sent just
			// before the goroutine went away
			select {
			case v := <-ch:
				if match == nil || match(v) {
					return v, okOutcome("")
				}
			default:
			}
			return zero, outcome{"dead", strings.Split(recvFunc, "|")[0]}
		}
		// logical blocked-forever condition (two looks half a second apart)
		if id, fn, where, st, ok := lockWedge(); ok {
			if id == wedgedID {
				return zero, outcome{"blocked", fn + " " + where + " " + st}
			}
			wedgedID = id
		} else {
			wedgedID = ""
		}
		if chanWedgeOn.Load() {
			// channel twin of the rule above (three consecutive looks)
			if id, fn, where, st, ok := chanWedge(); ok && (chanLooks == 0 || id == chanID) {
				chanID = id
				if chanLooks++; chanLooks >= 3 {
					return zero, outcome{"blocked", fn + " " + where + " " + st}
				}
			} else {
				chanID, chanLooks = "", 0
			}
		}
		if time.Since(start) > hardWait {
			return zero, outcome{"stall", fmt.Sprintf("no progress for %v", hardWait)}
		}
		next = 500 * time.Millisecond
	}
}

// awaitCond polls cond (cheap, monotonic) until it holds; alive, when set, is
// the logical reason to keep waiting (checked rarely).
func awaitCond(cond func() bool, alive func() (bool, string)) outcome {
	start := time.Now()
	for i := 0; ; i++ {
		if cond() {
			return okOutcome("")
		}
		if alive != nil && (i%512 == 511 || (i > 2040 && i%8 == 0)) && time.Since(start) > 100*time.Millisecond {
			if ok, who := alive(); !ok && !cond() {
				return outcome{"dead", who}
			}
		}
		switch {
		case i < 50:
			runtime.Gosched()
		case i < 2000:
			time.Sleep(20 * time.Microsecond)
		default:
			// back off: cond may be a goroutine dump, which stops the world and
			// has to unwind every stack - it must not starve a receiver that is
			// busy (deep recursion, a long run of frames)
			d := time.Duration(i-1999) * 2 * time.Millisecond
			if d > 250*time.Millisecond {
				d = 250 * time.Millisecond
			}
			time.Sleep(d)
		}
		if (i%64 == 63 || i > 2000) && time.Since(start) > hardWait {
			return outcome{"stall", fmt.Sprintf("no progress for %v", hardWait)}
		}
	}
}

// ---- canaries ---------------------------------------------------------------

// serverCanary is a well-formed add(idx, 1000) request and the check of its reply.
func serverCanary(proto string, idx int) (frame []byte, opid string, check func(reply []byte) error) {
	opid = strconv.Itoa(900000 + idx)
	frame = buildFrame(proto, headerPairs(roleReq, opid), "add", thrift.CALL, &mainsvc.FooAddArgs{A: int32(idx), B: 1000}).b
	check = func(reply []byte) error {
		h, payload, err := wire.ParseFrame(reply)
		if err != nil {
			return fmt.Errorf("reply frame: %v", err)
		}
		if h["_opid"] != opid {
			return fmt.Errorf("reply op id %q, want %q", h["_opid"], opid)
		}
		ctx := context.Background()
		p := rig.TProtocolFactory(proto).GetProtocol(&thrift.TMemoryBuffer{Buffer: bytes.NewBuffer(payload)})
		name, typ, _, err := p.ReadMessageBegin(ctx)
		if err != nil || name != "add" || typ != thrift.REPLY {
			return fmt.Errorf("reply message begin %q type %d err %v", name, typ, err)
		}
		res := mainsvc.FooAddResult{}
		if err := res.Read(ctx, p); err != nil {
			return fmt.Errorf("reply result: %v", err)
		}
		if res.Success == nil || *res.Success != int64(idx)+1000 {
			return fmt.Errorf("reply value %v, want %d", res.Success, idx+1000)
		}
		return nil
	}
	return
}

// replyOpid extracts the op id of a reply frame ("" if unparseable).
func replyOpid(frame []byte) string {
	h, _, err := wire.ParseFrame(frame)
	if err != nil {
		return ""
	}
	return h["_opid"]
}

// splitFrames cuts a byte stream into size-prefixed frames (rest is dropped).
func splitFrames(b []byte) [][]byte {
	var out [][]byte
	for len(b) >= 4 {
		n := int(uint32(b[0])<<24 | uint32(b[1])<<16 | uint32(b[2])<<8 | uint32(b[3]))
		if n < 0 || len(b) < 4+n {
			break
		}
		out = append(out, b[:4+n])
		b = b[4+n:]
	}
	return out
}

// clientOp is one generated client call shaped after bases(roleResp)[i]; ok
// tells whether the call returned exactly what the valid response carries.
func clientOp(base int, c *mainsvc.FFooClient, ctx frugal.FContext) (ok bool, err error) {
	switch base {
	case 1:
		r, e := c.Echo(ctx, payloadLast(), "tag")
		return e == nil && r != nil && r.Last != nil && r.Last.Big == "zz-big" && len(r.Last.Nums) == 3 && r.Last.Nums[2] == 3, e
	case 2:
		r, e := c.Echo(ctx, payloadMap(), "t")
		return e == nil && r != nil && r.Bmap != nil && r.Bmap.N == 2 && r.Bmap.M["k"] == "v", e
	case 3:
		r, e := c.Things(ctx, thingsArg(), map[int32]bool{5: true})
		return e == nil && len(r) == 2 && r[1] != nil && r[1].AString == "yy", e
	case 4:
		r, e := c.Blob(ctx, []byte{9})
		return e == nil && bytes.Equal(r, []byte{1, 2, 3, 0xff}), e
	}
	r, e := c.Add(ctx, 1, 2)
	return e == nil && r == 42, e
}

func callCtx(opid uint64) frugal.FContext {
	ctx := frugal.NewFContext("c05")
	ctx.AddRequestHeader("_opid", strconv.FormatUint(opid, 10))
	ctx.SetTimeout(hardWait + 10*time.Second)
	return ctx
}

// hookLog records the yield points of the registry per op id.
type hookLog struct {
	ch chan hookEv
}
type hookEv struct {
	point string
	opid  uint64
}

func installHook() *hookLog {
	h := &hookLog{ch: make(chan hookEv, 4096)}
	frugal.VerifSetHook(func(point string, opid uint64) {
		switch point {
		case "send.end", "dispatch.unknown":
			select {
			case h.ch <- hookEv{point, opid}:
			default:
			}
		}
		hold.atHook(point, opid)
	})
	return h
}

func (h *hookLog) drain() []hookEv {
	var out []hookEv
	for {
		select {
		case e := <-h.ch:
			out = append(out, e)
		default:
			return out
		}
	}
}

// ---- child main ---------------------------------------------------------------

func runChild(args []string) int {
	if len(args) < 6 {
		fmt.Fprintln(os.Stderr, "child: usage: child <tier> <entry> <proto> <from> <to> <log> [skipclass,...]")
		return exitSetup
	}
	tier, entry, proto := args[0], args[1], args[2]
	from, _ := strconv.Atoi(args[3])
	to, _ := strconv.Atoi(args[4])
	logPath := args[5]
	skip := map[string]bool{}
	if len(args) > 6 && args[6] != "" {
		for _, c := range strings.Split(args[6], ",") {
			skip[c] = true
		}
	}
	if s := os.Getenv("C05_HARD_WAIT_S"); s != "" {
		if n, err := strconv.Atoi(s); err == nil && n > 0 {
			hardWait = time.Duration(n) * time.Second
		}
	}
	// memory limit (RLIMIT_DATA = private writable mappings: heap, thread
	// stacks): the receivers need a few tens of MB; an allocation of more than
	// a gigabyte for a 60-byte input ends the child at once ("out of memory",
	// which the parent counts as excluded memory amplification) instead of
	// zeroing gigabytes in 16 children at a time
	lim := uint64(1024) << 20
	if s := os.Getenv("C05_DATA_MB"); s != "" {
		if n, err := strconv.Atoi(s); err == nil && n > 0 {
			lim = uint64(n) << 20
		}
	}
	const rlimitData = 2 // RLIMIT_DATA on linux
	syscall.Setrlimit(rlimitData, &syscall.Rlimit{Cur: lim, Max: lim})

	// a quarter of the default maximum stack: runaway recursion ends in the
	// runtime's "stack overflow" well inside the memory limit above instead of
	// in "out of memory" (which is excluded)
	debug.SetMaxStack(childStack)

	run := ev.New("C05", tier, "exploration")
	specs := specList(entry, proto, run.Thorough(), run.Rand(streamName(entry, proto)))
	if to > len(specs) {
		to = len(specs)
	}
	lg, err := os.OpenFile(logPath, os.O_APPEND|os.O_CREATE|os.O_WRONLY, 0o644)
	if err != nil {
		fmt.Fprintln(os.Stderr, "child: log:", err)
		return exitSetup
	}
	defer lg.Close()
	ep, err := newEntry(entry, proto)
	if err != nil {
		fmt.Fprintln(os.Stderr, "C05-SETUP-FAILED:", err)
		fmt.Fprintf(lg, "E setup %v\n", err)
		return exitSetup
	}
	for idx := from; idx < to; idx++ {
		in := materialize(entry, proto, specs[idx], idx)
		if skip[in.Class] {
			fmt.Fprintf(lg, "S %d %s\n", idx, in.Class)
			continue
		}
		logged := in.Label
		if logged == "" {
			logged = hex.EncodeToString(in.Data)
		}
		fmt.Fprintf(lg, "I %d %s %s %s\n", idx, in.Class, ep.mode(idx), logged)
		if in.Class == "edgehdr" {
			debug.SetMaxStack(flatStack)
		}
		chanWedgeOn.Store(in.Class == repeatClass)
		out := ep.deliver(idx, in)
		chanWedgeOn.Store(false)
		if in.Class == repeatClass && out.kind == "ok" && hold.reached.Load() {
			out.note += "+requester-held-while-copies-dispatched"
		}
		debug.SetMaxStack(childStack)
		switch out.kind {
		case "ok":
			fmt.Fprintf(lg, "K %d %s\n", idx, out.note)
		case "wrong":
			fmt.Fprintf(lg, "W %d %s\n", idx, strings.ReplaceAll(out.note, "\n", " "))
			return exitWrong
		case "dead":
			fmt.Fprintf(lg, "X %d dead %s\n", idx, out.note)
			return exitDead
		case "blocked":
			fmt.Fprintf(lg, "X %d blocked %s\n", idx, out.note)
			dumpGoroutines()
			return exitBlock
		default:
			fmt.Fprintf(lg, "X %d stall %s\n", idx, out.note)
			dumpGoroutines()
			return exitStall
		}
	}
	fmt.Fprintf(lg, "D\n")
	return exitDone
}
