package main

import (
	"bytes"
	"encoding/base64"
	"fmt"
	"io"
	"net"
	"net/http"
	"net/http/httptest"
	"sort"
	"strings"
	"sync"
	"time"

	frugal "github.com/Workiva/frugal/lib/go"

	"verif/rig"
	"verif/wire"
	"vh/e2e"
	"vh/gen/mainsvc"
)

// Responses lost between the server-side processing and their delivery.
//
// The HTTP leg is the one whose transport is stateless (every call is an
// exchange of its own, on a pooled keep-alive connection or on a new one), so
// a client that does not get its response could send the frame again.  Here
// the server (or a proxy in front of it) HAS run the processor for a request
// and then the response does not arrive: the connection is closed (EOF), reset,
// closed in the middle of the response headers / of the response body, a
// gateway answers 502 in the server's place, or nothing comes back until the
// caller gives up.  Whatever the caller gets for such a call, the ONE call the
// application made must not have passed through any middleware - client side or
// processor side - or into the handler more than once.  The calls made before
// and after a lost response on the same transport are ordinary calls: exactly
// once through everything, their own values.
//
// The fault is keyed on the request (the correlation id in the frame the server
// received), never on timing: the server processes the frame into a recorder,
// then applies the fault to the real connection.  "once" faults hit the first
// arrival of that call's frame only (a second arrival would be answered),
// "always" faults hit every arrival.

const (
	lostEOF        = "closed-before-response"     // connection closed, nothing written
	lostReset      = "reset-before-response"      // connection reset (SO_LINGER 0), nothing written
	lostInHeaders  = "closed-in-response-headers" // closed after half a status line + header
	lostInBody     = "closed-in-response-body"    // headers announce the whole body, half of it arrives
	lostBadGateway = "gateway-502-after-processing"
	lostStall      = "no-response-until-caller-gives-up"
)

var lostKinds = []string{lostEOF, lostReset, lostInHeaders, lostInBody, lostBadGateway, lostStall}

type lostPlan struct {
	Kind   string
	Always bool
	hits   int
}

// lossyServer wraps the runtime's HTTP handler function.
type lossyServer struct {
	inner http.HandlerFunc
	mu    sync.Mutex
	plan  map[string]*lostPlan // correlation id -> fault
	seen  map[string][]string  // correlation id -> what happened to each arrival of its frame
	addrs map[string]bool      // client addresses seen so far (a second request from one = reused connection)
	// counters
	onReused, onNew, stallWatchdog int
}

func (s *lossyServer) expect(cid string, p *lostPlan) {
	s.mu.Lock()
	s.plan[cid] = p
	s.mu.Unlock()
}

func (s *lossyServer) arrivals(cid string) []string {
	s.mu.Lock()
	defer s.mu.Unlock()
	return append([]string(nil), s.seen[cid]...)
}

// cidOf extracts the correlation id from the HTTP request body (base64 of a
// framed frugal message) with the reference frame codec.
func cidOf(body []byte) string {
	raw, err := base64.StdEncoding.DecodeString(string(body))
	if err != nil {
		return ""
	}
	hdrs, _, err := wire.ParseFrame(raw)
	if err != nil {
		return ""
	}
	return hdrs["_cid"]
}

func (s *lossyServer) ServeHTTP(w http.ResponseWriter, r *http.Request) {
	body, _ := io.ReadAll(r.Body)
	r.Body = io.NopCloser(bytes.NewReader(body))
	cid := cidOf(body)
	s.mu.Lock()
	reused := s.addrs[r.RemoteAddr]
	s.addrs[r.RemoteAddr] = true
	p := s.plan[cid]
	fault := ""
	if p != nil && (p.Always || p.hits == 0) {
		fault = p.Kind
		p.hits++
		if reused {
			s.onReused++
		} else {
			s.onNew++
		}
	}
	conn := "new-connection"
	if reused {
		conn = "reused-connection"
	}
	if fault == "" {
		s.seen[cid] = append(s.seen[cid], "answered/"+conn)
	} else {
		s.seen[cid] = append(s.seen[cid], "processed-then-"+fault+"/"+conn)
	}
	s.mu.Unlock()
	if fault == "" {
		s.inner(w, r)
		return
	}
	// the server side runs completely; its response goes nowhere
	rec := httptest.NewRecorder()
	s.inner(rec, r)
	switch fault {
	case lostBadGateway:
		http.Error(w, "upstream closed the connection", http.StatusBadGateway)
		return
	case lostStall:
		select {
		case <-r.Context().Done(): // the caller gave up and its transport dropped the exchange
		case <-time.After(20 * time.Second):
			s.mu.Lock()
			s.stallWatchdog++
			s.mu.Unlock()
		}
		panic(http.ErrAbortHandler) // no response; the connection is closed
	}
	hj, ok := w.(http.Hijacker)
	if !ok {
		panic(http.ErrAbortHandler)
	}
	c, _, err := hj.Hijack()
	if err != nil {
		panic(http.ErrAbortHandler)
	}
	switch fault {
	case lostReset:
		if tc, ok := c.(*net.TCPConn); ok {
			tc.SetLinger(0)
		}
	case lostInHeaders:
		io.WriteString(c, "HTTP/1.1 200 OK\r\nContent-Le")
	case lostInBody:
		b := rec.Body.Bytes()
		fmt.Fprintf(c, "HTTP/1.1 %d %s\r\nContent-Type: application/x-frugal\r\nContent-Transfer-Encoding: base64\r\nContent-Length: %d\r\n\r\n", rec.Code, http.StatusText(rec.Code), len(b))
		c.Write(b[:len(b)/2])
	}
	c.Close()
}

type lostCase struct {
	Kind   string `json:"response_lost_how"`
	Conn   string `json:"connection"` // new | reused
	Repeat string `json:"fault_applies_to"`
	Method string `json:"method"`
	Token  string `json:"token"`
	got    string
}

var lostMethods = []string{"add", "fire", "echo", "nothing", "getBig", "basePing", "blob", "echoThing"}

// runResponseLost: one configuration of middleware lists, one client object on
// one HTTP transport, one processor behind the lossy server.
func (mon *monitor) runResponseLost(idx int) {
	rng := mon.run.Rand(fmt.Sprintf("c16-response-lost-%d", idx))
	cfg := genConfig(rng, idx*4) // rpc kind
	for _, sp := range cfg.all() {
		if sp.Pad > 2000 {
			sp.Pad = 2000
		}
	}
	proto := rig.Protocols[idx%len(rig.Protocols)]
	cc := &concConfig{Index: idx, Kind: "rpc/http/" + proto, Goroutines: 1, Lists: cfg,
		Note: "one client object on one HTTP transport (own http.Transport, keep-alive pool); the server runs the processor for the marked calls and then loses the response"}
	clientRewritesTimeout := false
	for _, sp := range append(append([]*mwSpec(nil), cfg.Provider...), cfg.Ctor...) {
		if sp.RW == rwCtx {
			clientRewritesTimeout = true // the transport then waits 30 s and more: leave the stall out
		}
	}

	kt := &ktracer{by: map[string][]event{}}
	h := &e2e.Handler{}
	h.Behave = func(c *e2e.Call) *e2e.Outcome {
		cid := c.ReqHdrs["_cid"]
		key := tokenOfArgs(c.Method, c.Args)
		if key == "" {
			key = cid
		}
		kt.add(key, event{"handler", "call", c.Method, withCtx(renderList(c.Args), ctxDescOf(time.Duration(c.Timeout), c.ReqHdrs)) + " cid=" + cid})
		res := handlerFn(c.Method, "", c.Args)
		o := &e2e.Outcome{Err: resErr(res)}
		if len(res) == 2 {
			o.Ret = res[0]
		}
		return o
	}
	proc := mainsvc.NewFFooProcessor(h, kt.list(cfg.Proc)...)
	for _, a := range cfg.Added {
		proc.AddMiddleware(kt.middleware(a))
	}
	pf := rig.ProtocolFactory(proto)
	ls := &lossyServer{inner: frugal.NewFrugalHandlerFunc(proc, pf), plan: map[string]*lostPlan{}, seen: map[string][]string{}, addrs: map[string]bool{}}
	hs := httptest.NewUnstartedServer(ls)
	hs.Config.ErrorLog = nil
	hs.Start()
	closed := false
	closeServer := func() {
		if !closed {
			closed = true
			hs.Close()
		}
	}
	defer closeServer()
	ht := &http.Transport{}
	defer ht.CloseIdleConnections()
	ft := frugal.NewFHTTPTransportBuilder(&http.Client{Transport: ht}, hs.URL).Build()
	if err := ft.Open(); err != nil {
		mon.run.Inconclusive(fmt.Sprintf("response-lost configuration %d: client transport: %v", idx, err))
		return
	}
	defer ft.Close()
	client := mainsvc.NewFFooClient(frugal.NewFServiceProvider(ft, pf, kt.list(cfg.Provider)...), kt.list(cfg.Ctor)...)
	specs := cfg.specs()
	clientChain := chain(cfg.Provider, cfg.Ctor)
	serverChain := chain(cfg.Added, cfg.Proc)
	mon.run.Eval(1)

	n := 0
	// ordinary: an ordinary call (answered), judged completely
	ordinary := func(where string) bool {
		n++
		tok := fmt.Sprintf("T%d", n)
		call := tokenCall(concurrentMethods[(idx+n)%len(concurrentMethods)], n)
		args := call.Args()
		var exp []event
		cm := &ctxModel{TO: 8 * time.Second}
		a := foldIn(&exp, clientChain, call.Method, cm, args)
		a = foldIn(&exp, serverChain, call.Method, cm, a)
		exp = append(exp, event{"handler", "call", call.Method, withCtx(renderList(a), cm.String()) + " cid=" + tok})
		res := handlerFn(call.Method, "", a)
		res = foldOut(&exp, serverChain, call.Method, res)
		res = cross(call.Method, res)
		res = foldOut(&exp, clientChain, call.Method, res)
		want := renderList(res)
		ctx := frugal.NewFContext(tok)
		ctx.SetTimeout(8 * time.Second)
		got := renderList(call.Invoke(client, ctx, args))
		act := kt.take(tok)
		mon.run.Add("response_lost_neighbour_calls", 1)
		class := "http-call-" + where + "-a-lost-response"
		if !mon.j.compare(cc, call.Name+" "+tok, class, specs, exp, act) {
			return false
		}
		if got != want {
			mon.run.Violation("C16:caller-results:"+class, "an ordinary call made "+where+" a call whose response was lost: the caller got results that are not those of its own call",
				map[string]interface{}{"configuration": cc, "call": call.Name, "token": tok, "expected": want, "observed": got, "observed_trace": evStrings(act),
					"arrivals_of_this_call_at_the_server": ls.arrivals(tok)})
			return false
		}
		mon.run.Add("calls_conforming", 1)
		return true
	}

	var cases []*lostCase
	for _, k := range lostKinds {
		for _, conn := range []string{"new", "reused"} {
			for _, rep := range []string{"first-arrival-only", "every-arrival"} {
				if k == lostStall && (clientRewritesTimeout || rep == "every-arrival") {
					continue
				}
				cases = append(cases, &lostCase{Kind: k, Conn: conn, Repeat: rep})
			}
		}
	}
	rng.Shuffle(len(cases), func(i, j int) { cases[i], cases[j] = cases[j], cases[i] })
	if !mon.run.Thorough() && len(cases) > 12 {
		cases = cases[:12] // the configurations of a run cover every combination between them
	}
	if !ordinary("before") {
		return
	}
	for ci, lc := range cases {
		if lc.Conn == "reused" {
			// the previous call was answered: its connection is in the pool
		} else {
			ht.CloseIdleConnections()
		}
		n++
		lc.Token = fmt.Sprintf("T%d", n)
		lc.Method = lostMethods[(idx+ci)%len(lostMethods)]
		call := tokenCall(lc.Method, n)
		args := call.Args()
		ls.expect(lc.Token, &lostPlan{Kind: lc.Kind, Always: lc.Repeat == "every-arrival"})
		ctx := frugal.NewFContext(lc.Token)
		ctx.SetTimeout(8 * time.Second)
		if lc.Kind == lostStall {
			ctx.SetTimeout(300 * time.Millisecond)
		}
		done := make(chan string, 1)
		go func() { done <- renderList(call.Invoke(client, ctx, args)) }()
		select {
		case lc.got = <-done:
		case <-time.After(60 * time.Second):
			mon.run.Inconclusive(fmt.Sprintf("response-lost configuration %d: call %s (%s) did not return within 60 s", idx, lc.Token, lc.Kind))
			return
		}
		mon.run.Add("response_lost_calls", 1)
		if !ordinary("after") {
			return
		}
	}

	// every handler goroutine of the server has finished after Close: nothing
	// can be recorded for these calls any more
	closeServer()
	if ls.stallWatchdog > 0 {
		mon.run.Inconclusive(fmt.Sprintf("response-lost configuration %d: the caller did not give up on a withheld response within 20 s", idx))
	}
	mon.run.Add("responses_lost_on_reused_connection", ls.onReused)
	mon.run.Add("responses_lost_on_new_connection", ls.onNew)
	att := func(id string) string {
		if s, ok := specs[id]; ok {
			return s.Att
		}
		return id
	}
	for _, lc := range cases {
		act := kt.take(lc.Token)
		arr := ls.arrivals(lc.Token)
		counts := map[string]int{}
		for _, e := range act {
			if e.Kind == "enter" || e.Kind == "call" {
				counts[e.MW]++
			}
		}
		// outermost first: the signature names the outermost layer passed twice
		var layers []string
		for _, sp := range clientChain {
			layers = append(layers, sp.ID)
		}
		for _, sp := range serverChain {
			layers = append(layers, sp.ID)
		}
		layers = append(layers, "handler")
		var other []string
		for id := range counts {
			if _, ok := specs[id]; !ok && id != "handler" {
				other = append(other, id)
			}
		}
		sort.Strings(other)
		layers = append(layers, other...)
		class := "response-lost-after-processing/http/" + lc.Kind
		bad := false
		for _, id := range layers {
			if counts[id] > 1 {
				what := fmt.Sprintf("middleware %s (%s) intercepted", id, att(id))
				if id == "handler" {
					what = "the handler was invoked for"
				}
				mon.run.Violation("C16:count:"+att(id)+":"+class,
					fmt.Sprintf("%s ONE client call %d times: the server processed the request and the response was lost (%s), the caller got %s", what, counts[id], lc.Kind, clip(lc.got, 200)),
					map[string]interface{}{"configuration": cc, "case": lc, "caller_results": clip(lc.got, 400), "observed_trace": evStrings(act),
						"arrivals_of_this_call_at_the_server": arr,
						"replay":                              "configuration and case list are a pure function of (VERIF_SEED, tier, index); the fault is keyed on the correlation id in the received frame"})
				bad = true
				break
			}
		}
		if bad {
			return
		}
		if counts["handler"] == 1 {
			mon.run.Add("response_lost_calls_processed_once", 1)
			mon.run.Add("calls_conforming", 1)
		}
		mon.run.Add("response_lost_caller_outcome/"+outcomeClass(lc.got), 1)
		mon.run.Distinct(fmt.Sprintf("response-lost|%s|%s|%s|%s|%s", proto, lc.Kind, lc.Conn, lc.Repeat, lc.Method))
		if idx == 0 {
			mon.run.Sample(map[string]interface{}{"case": lc, "caller_results": clip(lc.got, 300), "arrivals_of_this_call_at_the_server": arr, "layers_passed": counts})
		}
	}
	mon.strays(cc, "http-call-next-to-a-lost-response", kt)
}

func clip(s string, n int) string {
	if len(s) > n {
		return s[:n] + "..."
	}
	return s
}

// outcomeClass is a coarse label of what the caller got (evidence only).
func outcomeClass(got string) string {
	switch {
	case strings.Contains(got, "EOF"):
		return "eof"
	case strings.Contains(got, "reset"):
		return "reset"
	case strings.Contains(got, "timed out"):
		return "timed-out"
	case strings.Contains(got, "502"):
		return "status-502"
	case strings.Contains(got, "malformed") || strings.Contains(got, "broken"):
		return "malformed-response"
	}
	return "other"
}
