package main

import (
	"fmt"
	"math/rand"
	"sort"
	"strings"
)

// config is one generated configuration of middleware lists.
type config struct {
	Index int    `json:"index"`
	Kind  string `json:"kind"` // rpc | scope

	// rpc
	Provider []*mwSpec `json:"service_provider_list,omitempty"`
	Ctor     []*mwSpec `json:"client_constructor_list,omitempty"`
	Proc     []*mwSpec `json:"processor_constructor_list,omitempty"`
	Added    []*mwSpec `json:"processor_AddMiddleware_sequence,omitempty"`

	// scope
	PubProv   []*mwSpec `json:"publisher_scope_provider_list,omitempty"`
	PubCtor   []*mwSpec `json:"publisher_constructor_list,omitempty"`
	SubProv   []*mwSpec `json:"subscriber_scope_provider_list,omitempty"`
	SubCtor   []*mwSpec `json:"subscriber_constructor_list,omitempty"`
	Errorable bool      `json:"errorable_subscriber,omitempty"`

	Spare [4]int `json:"spare_capacity"` // spare capacity of the slices handed over
	Mode  string `json:"mode"`           // observing | rewriting
}

func (c *config) all() []*mwSpec {
	var out []*mwSpec
	for _, l := range [][]*mwSpec{c.Provider, c.Ctor, c.Proc, c.Added, c.PubProv, c.PubCtor, c.SubProv, c.SubCtor} {
		out = append(out, l...)
	}
	return out
}

func (c *config) specs() map[string]*mwSpec {
	m := map[string]*mwSpec{}
	for _, s := range c.all() {
		m[s.ID] = s
	}
	return m
}

// shape is the distinctness key of a configuration + call.
func (c *config) shape(call string) string {
	kinds := map[string]bool{}
	for _, s := range c.all() {
		kinds[s.RW] = true
	}
	var ks []string
	for k := range kinds {
		ks = append(ks, k)
	}
	sort.Strings(ks)
	lens := fmt.Sprintf("p%dc%ds%da%d", len(c.Provider), len(c.Ctor), len(c.Proc), len(c.Added))
	if c.Kind == "scope" {
		lens = fmt.Sprintf("pp%dpc%dsp%dsc%d/err%v", len(c.PubProv), len(c.PubCtor), len(c.SubProv), len(c.SubCtor), c.Errorable)
	}
	return c.Kind + "|" + lens + "|" + strings.Join(ks, "+") + "|" + call
}

func genLen(rng *rand.Rand, max int) int {
	switch k := rng.Intn(10); {
	case k < 2:
		return 0
	case k < 4:
		return max
	default:
		return rng.Intn(max + 1)
	}
}

func genList(rng *rand.Rand, n int, prefix, att, side, mode string, k *int64) []*mwSpec {
	var out []*mwSpec
	for i := 1; i <= n; i++ {
		*k++
		s := &mwSpec{ID: fmt.Sprintf("%s%d", prefix, i), Att: att, Side: side, RW: rwObserve, K: *k}
		if mode == "rewriting" {
			switch r := rng.Intn(27); {
			case r < 5:
				s.RW = rwObserve
			case r < 11:
				s.RW = rwArg
			case r < 17:
				s.RW = rwResult
			case r < 19:
				s.RW = rwAnnotate
			case r < 21:
				s.RW = rwInject
			case r < 24:
				s.RW = rwCtx
			case r < 26:
				s.RW = rwInjectInPlace
			default:
				s.RW = rwClear
			}
		}
		if s.RW == rwAnnotate || s.RW == rwInject || s.RW == rwInjectInPlace {
			s.Pad = []int{0, 0, 40, 200, 256, 257, 300, 2000, 70000}[rng.Intn(9)]
		}
		out = append(out, s)
	}
	return out
}

func genConfig(rng *rand.Rand, index int) *config {
	c := &config{Index: index, Kind: "rpc", Mode: "rewriting"}
	if index%4 == 3 {
		c.Kind = "scope"
	}
	if rng.Intn(10) < 3 {
		c.Mode = "observing"
	}
	for i := range c.Spare {
		if rng.Intn(3) == 0 {
			c.Spare[i] = 1 + rng.Intn(6)
		}
	}
	var k int64
	if c.Kind == "rpc" {
		c.Provider = genList(rng, genLen(rng, 4), "p", attProvider, "client", c.Mode, &k)
		c.Ctor = genList(rng, genLen(rng, 4), "c", attClientCtor, "client", c.Mode, &k)
		c.Proc = genList(rng, genLen(rng, 4), "s", attProcessorCtor, "server", c.Mode, &k)
		c.Added = genList(rng, genLen(rng, 2), "a", attAddMiddleware, "server", c.Mode, &k)
	} else {
		c.PubProv = genList(rng, genLen(rng, 4), "pp", attPubProvider, "publisher", c.Mode, &k)
		c.PubCtor = genList(rng, genLen(rng, 4), "pc", attPubCtor, "publisher", c.Mode, &k)
		c.SubProv = genList(rng, genLen(rng, 4), "sp", attSubProvider, "subscriber", c.Mode, &k)
		c.SubCtor = genList(rng, genLen(rng, 4), "sc", attSubCtor, "subscriber", c.Mode, &k)
		c.Errorable = rng.Intn(2) == 0
	}
	return c
}
