package main

import (
	"fmt"

	frugal "github.com/Workiva/frugal/lib/go"

	"verif/rig"
	"vh/gen/mainsvc"
)

// Error replies next to response headers that do not fit the reply buffer:
// FNatsServer (1 MiB output buffer), a server-side middleware puts a response
// header of more than 1 MiB on the context, and the call ends in an error that
// travels through SendError (an undeclared handler error, or a
// TApplicationException a server middleware set).  The error the server side
// produced is what the client-side middleware and the caller must observe,
// type id and text.
func (mon *monitor) runBigHeaderErrors(ns *rig.NatsServer, idx int) {
	rng := mon.run.Rand(fmt.Sprintf("c16-bighdr-%d", idx))
	var k int64
	cfg := &config{Index: idx, Kind: "rpc", Mode: "rewriting"}
	cfg.Ctor = genList(rng, 1+rng.Intn(2), "c", attClientCtor, "client", "observing", &k)
	inj := genList(rng, 1, "s", attProcessorCtor, "server", "observing", &k)
	inj[0].RW, inj[0].Pad = rwInject, []int{0, 300, 2000}[idx%3]
	big := genList(rng, 1, "sbig", attProcessorCtor, "server", "observing", &k)
	big[0].BigRsp = 1<<20 + 4096
	cfg.Proc = append(inj, big...)
	cfg.Added = genList(rng, rng.Intn(2), "a", attAddMiddleware, "server", "observing", &k)
	w := map[string]interface{}{"lists": cfg, "leg": "nats/" + rig.Protocols[idx%3], "note": "FNatsServer reply buffer 1 MiB; middleware sbig1 adds a response header of 1 MiB + 4 KiB"}

	tr := &tracer{}
	h, pings, mode := newTracedHandler(tr)
	proc := mainsvc.NewFFooProcessor(h, tr.list(cfg.Proc, 0)...)
	for _, a := range cfg.Added {
		proc.AddMiddleware(tr.middleware(a))
	}
	leg, err := rig.StartRPCLeg("nats", rig.Protocols[idx%3], proc, ns, rig.LegOptions{NatsWorkers: 1})
	if err != nil {
		mon.run.Inconclusive(fmt.Sprintf("big-header configuration %d: leg did not start: %v", idx, err))
		return
	}
	defer leg.Stop()
	ft, err := leg.NewClient()
	if err != nil {
		mon.run.Inconclusive(fmt.Sprintf("big-header configuration %d: client transport: %v", idx, err))
		return
	}
	defer ft.Close()
	client := mainsvc.NewFFooClient(frugal.NewFServiceProvider(ft, leg.PF), tr.list(cfg.Ctor, 0)...)
	env := &rpcEnv{tr: tr, client: client, pings: pings, mode: mode}
	mon.run.Eval(1)
	// calls that end in an error sent with SendError: add/getBig/basePing get a
	// TApplicationException from middleware s1; echo/throw-plain an undeclared
	// handler error
	for _, cn := range []string{"add", "getBig", "basePing", "echo/throw-plain", "echo/throw-plain-2000"} {
		ok, _, _, fatal := mon.rpcJudge(w, fmt.Sprintf("big-header configuration %d", idx), env, callByName(cn), chain(cfg.Ctor), chain(cfg.Added, cfg.Proc), cfg.specs(), "error-reply-next-to-oversize-response-headers")
		if fatal {
			return
		}
		mon.run.Add("big_header_error_calls", 1)
		mon.run.Distinct(fmt.Sprintf("bighdr|%s|%s|pad%d", rig.Protocols[idx%3], cn, inj[0].Pad))
		_ = ok
	}
}
