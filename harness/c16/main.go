// Monitor for property C16 (DESIGN.md §4 C16): it runs next to the code the
// compiler under test emitted for /verif/fixtures, against the runtime under
// test, and is the check itself (owns the ev.Run, writes evidence/C16.json).
//
// Every configuration gets its own in-memory leg (RPC: generated client ->
// adapter transport over net.Pipe -> FSimpleServer -> generated processor) or
// its own in-process loopback scope transports (pub/sub), tracing middleware at
// every attachment point, and makes every call of the fixture service / every
// scope operation once.  The expected trace and the expected values at the
// handler and at the caller are computed by folding the middleware's rewrite
// functions in the declared order.
package main

import (
	"fmt"
	"os"
	"sync"

	"verif/ev"
	"verif/rig"
)

type monitor struct {
	run *ev.Run
	j   *judge
}

func main() {
	rig.Quiet()
	run := ev.New("C16", ev.ArgTier(), "exploration")
	run.Rule("one evaluation = one configuration drawn from PRNG(VERIF_SEED, index): RPC (3 of 4): service-provider list 0-4, client-constructor list 0-4, processor-constructor list 0-4, processor.AddMiddleware 0-2 calls; scope (1 of 4): publisher scope-provider 0-4, publisher constructor 0-4, subscriber scope-provider 0-4, subscriber constructor 0-4, errorable or plain subscriber; every middleware observing, or (70% of configurations) each drawn from observe / rewrite an argument / rewrite the result / annotate, inject or clear the error; slices handed over with or without spare capacity. Each RPC configuration makes 17 calls (all 10 methods of Foo incl. inherited basePing/echoThing, oneway fire, void nothing, declared Oops/ApiError and undeclared errors, the latter also with reply texts of 257 and ~2000 bytes); error-injecting / annotating middleware use texts of 0-70000 bytes (40, 200, 256, 257, 300, 2000, 70000); each scope configuration publishes Sent, Num, Ping twice (callback ok / failing). distinct = (kind, list lengths, set of rewrite kinds, call). Then multi-step histories (quick 48, thorough 1200; PRNG(VERIF_SEED, index)): a list fetched with GetMiddleware() from a base provider whose list has spare capacity - or a caller-built slice with spare capacity - passed as constructor middleware to objects A and B built from two different providers (clients + processors, or publishers + subscribers), first call / Subscribe only after both constructions; and elements of a GetMiddleware() result overwritten with a stub before a fresh construction; expected traces folded from the lists as declared at construction time. Then 2 same-operation + 1 other-operation subscriptions through ONE FNatsSubscriberFactoryBuilder-built factory on an embedded broker (quick 4, thorough 60 rounds x 15-20 messages), each delivery judged against its own subscription's constructor middleware. Middleware may also replace the FContext (clone with another timeout and one more header); the oracle tracks timeout and those headers through every layer and across the wire. Error-injecting middleware may also set the error IN PLACE with Results.SetError on the slice they got. Then error replies next to a >1 MiB response header on the NATS server leg (the error the server side produced must reach client middleware and caller unchanged). Then first-call races (quick 80, thorough 1000 brand-new client+processor pairs on the HTTP and pipe legs, twice as many publisher+subscriber pairs; full-length lists): 8 goroutines released together make the very first calls (same method / operation), 3 calls each, then 3 sequential calls. Then a concurrent phase (quick 3, thorough 12 rounds): 12 goroutines x hundreds/thousands of calls on ONE client+processor (HTTP leg: overlapping on both sides; pipe leg: on the client) and ONE publisher+subscriber (in-process loopback), every call carrying a token in an argument and in the correlation id, traces kept per token, each call judged on its own values (no order across calls). Then responses lost AFTER the server side ran (quick 8, thorough 160 configurations of random lists on the HTTP leg, protocols in turn, one client on one transport with its own keep-alive pool): for a marked call the server runs the processor and then the response does not arrive - connection closed / reset before the response, closed inside the response headers / inside the body, a gateway 502 in its place, or withheld until the caller gives up - on a new or a reused keep-alive connection, the fault applying to the first arrival of that call's frame only or to every arrival (keyed on the correlation id in the received frame, not on timing), over 8 methods incl. oneway and void; for such a call only AT MOST ONCE per middleware and handler is asserted, whatever the caller got; the ordinary calls before and after it on the same transport are judged completely (exactly once, own values). Then calls made after a call that timed out while its WRITE was stalled (quick 6, thorough 60 configurations of random lists x 4 rounds, protocols in turn; stream leg: adapter transport over an unbuffered pipe whose relay stops reading the client->server direction for a while): one sequential caller on one client makes call A (8 methods incl. oneway and void; timeout 1 s or 250 ms) whose write stalls and which times out, then call B (same method 3 of 4 - a message of the same length - or another one) whose frame queues behind A's, then the relay resumes so that the stalled write completes, then a barrier call C; B and C are judged completely (exactly once, own values, own results), A at most once per layer; the stall is the relay's acknowledged parking and 'handed to the transport' is a count of Write entries, never timing")
	run.Assume("trusted: the tracing middleware and its pure rewrite functions (shared by the real middleware and the oracle's fold), the stub handler harness/e2e, the in-process loopback scope transports (frame minus 4-byte size handed synchronously to the subscribed callbacks, as the NATS/STOMP subscriber transports do), FSimpleServer handling the requests of one connection one after the other (used as barrier after the oneway call); values are compared by value (JSON rendering + error class), never by pointer; the lossy HTTP server of the response-lost phase (the runtime's NewFrugalHandlerFunc run into a recorder, then the fault applied to the hijacked connection) and Go's net/http client not re-sending a POST whose request was written; the pausing relay of the stalled-write phase (forwards every byte it reads unchanged and in order; parked = reads nothing) and net.Pipe (a Write hands over the bytes its slice holds at the moment the peer reads)")
	run.Set("declared_order", "client side, outermost first: service-provider list last..first, then client-constructor list last..first; server side: AddMiddleware calls last..first, then processor-constructor list last..first, then the handler; publisher: scope-provider list last..first, then constructor list last..first; subscriber likewise. Method names compared with the first letter lower-cased (client-side middleware see the internal lower-case method)")
	mon := &monitor{run: run, j: &judge{run: run}}

	n := 200
	workers := 8
	if run.Thorough() {
		n = 10000
		workers = 16
	}
	rest := ev.ArgRest()
	only := -1
	for i := 0; i+1 < len(rest); i++ {
		if rest[i] == "--config" {
			fmt.Sscan(rest[i+1], &only)
		}
	}
	jobs := make(chan int, 64)
	var wg sync.WaitGroup
	for w := 0; w < workers; w++ {
		wg.Add(1)
		go func() {
			defer wg.Done()
			for i := range jobs {
				cfg := genConfig(run.Rand(fmt.Sprintf("c16-config-%d", i)), i)
				if cfg.Kind == "rpc" {
					mon.runRPC(cfg)
					run.Add("rpc_configurations", 1)
				} else {
					mon.runScope(cfg)
					run.Add("scope_configurations", 1)
				}
				for _, s := range cfg.all() {
					run.Add("middleware_at_"+s.Att, 1)
				}
			}
		}()
	}
	for i := 0; i < n; i++ {
		if only >= 0 && i != only {
			continue
		}
		jobs <- i
	}
	close(jobs)
	wg.Wait()

	if only < 0 {
		// multi-step histories (shared / mutated slices), in parallel
		nh := 48
		if run.Thorough() {
			nh = 1200
		}
		hjobs := make(chan int, 64)
		for w := 0; w < workers; w++ {
			wg.Add(1)
			go func() {
				defer wg.Done()
				for i := range hjobs {
					mon.runHistory(i)
				}
			}()
		}
		for i := 0; i < nh; i++ {
			hjobs <- i
		}
		close(hjobs)
		wg.Wait()

		// responses lost after the server side ran (HTTP leg), in parallel
		nl := 8
		if run.Thorough() {
			nl = 160
		}
		ljobs := make(chan int, 64)
		for w := 0; w < workers; w++ {
			wg.Add(1)
			go func() {
				defer wg.Done()
				for i := range ljobs {
					if i >= 100000 {
						mon.runStalledWrite(i-100000, 4)
					} else {
						mon.runResponseLost(i)
					}
				}
			}()
		}
		// calls after a call that timed out with its write stalled (stream
		// leg): mostly waiting, so they share the pool (and go first)
		ns := 6
		if run.Thorough() {
			ns = 60
		}
		for i := 0; i < ns; i++ {
			ljobs <- 100000 + i
		}
		for i := 0; i < nl; i++ {
			ljobs <- i
		}
		close(ljobs)
		wg.Wait()

		// several subscriptions through one builder-built NATS subscriber factory
		if nsrv, err := rig.StartNats(); err != nil {
			run.Inconclusive("embedded nats-server did not start: " + err.Error())
		} else {
			nn, msgs := 4, 15
			if run.Thorough() {
				nn, msgs = 60, 20
			}
			for i := 0; i < nn; i++ {
				mon.runNatsSubscriptions(nsrv, i, msgs)
			}
			nb := 3
			if run.Thorough() {
				nb = 30
			}
			for i := 0; i < nb; i++ {
				mon.runBigHeaderErrors(nsrv, i)
			}
			nsrv.Stop()
		}

		// concurrent phase: one object shared by many goroutines (run one
		// configuration at a time so that the goroutines really overlap)
		nc, per := 3, 400
		if run.Thorough() {
			nc, per = 12, 2500
		}
		for i := 0; i < nc; i++ {
			mon.runConcurrentScope(i, 12, per*4, false)
			mon.runConcurrentRPC(i, "http", 12, per, false)
			mon.runConcurrentRPC(i, "pipe", 12, per, false)
		}
		// first invocations of brand-new objects, issued concurrently: many
		// fresh objects, 8 goroutines released together, 3 calls each, then 3
		// sequential ones
		nf := 40
		if run.Thorough() {
			nf = 500
		}
		for i := 0; i < nf; i++ {
			for j := 0; j < 4; j++ {
				mon.runConcurrentScope(1000+i*4+j, 8, 3, true) // in-process: cheap
			}
			mon.runConcurrentRPC(1000+i, "http", 8, 3, true)
			mon.runConcurrentRPC(3000+i, "pipe", 8, 3, true)
		}
	}
	if run.Count("calls_conforming") == 0 && run.Violations() == 0 {
		run.Inconclusive("no call produced a conforming trace: nothing was observed")
	}
	os.Exit(run.Finish())
}
