package main

import (
	"fmt"
	"math/rand"

	frugal "github.com/Workiva/frugal/lib/go"

	"verif/rig"
	"vh/gen/base"
	"vh/gen/mainsvc"
)

// Multi-step histories: the lists in force for an object are the lists AS
// DECLARED when it was constructed, whatever happens to slices afterwards.
//
//	shared-getmiddleware-list   a list fetched with GetMiddleware() from a base
//	                            provider (whose own list was built with spare
//	                            capacity) is passed as constructor middleware to
//	                            objects A and B built from two different
//	                            providers; first use (Subscribe / call) only
//	                            after both constructions
//	shared-caller-slice         the same with a caller-built slice that has
//	                            spare capacity
//	mutated-getmiddleware-result  elements of a slice returned by
//	                            GetMiddleware() are overwritten, then a fresh
//	                            object is constructed from the same provider
const (
	histSharedGet    = "shared-getmiddleware-list"
	histSharedCaller = "shared-caller-slice"
	histMutated      = "mutated-getmiddleware-result"
)

const attStub = "not-supplied(written into a GetMiddleware() result)"

type history struct {
	Index  int                  `json:"index"`
	Type   string               `json:"type"`
	Object string               `json:"object"` // rpc | scope
	Spare  int                  `json:"spare_capacity"`
	Lists  map[string][]*mwSpec `json:"lists_as_declared"`
	Steps  []string             `json:"steps"`
}

func (h *history) specs() map[string]*mwSpec {
	m := map[string]*mwSpec{}
	for _, l := range h.Lists {
		for _, s := range l {
			m[s.ID] = s
		}
	}
	return m
}

func (h *history) class() string { return "history-" + h.Type + "/" + h.Object }

func histList(rng *rand.Rand, min, max int, prefix, att, side string, k *int64) []*mwSpec {
	return genList(rng, min+rng.Intn(max-min+1), prefix, att, side, "rewriting", k)
}

var historyCalls = []string{"add", "echo", "echoThing", "basePing", "nothing/throw", "fire"}

func callByName(name string) rpcCall {
	for _, c := range rpcCalls {
		if c.Name == name {
			return c
		}
	}
	panic("no call " + name)
}

func (mon *monitor) runHistory(idx int) {
	rng := mon.run.Rand(fmt.Sprintf("c16-history-%d", idx))
	h := &history{Index: idx, Lists: map[string][]*mwSpec{}, Spare: 1 + rng.Intn(4)}
	switch idx % 6 {
	case 0, 1:
		h.Type = histSharedGet
	case 2, 3:
		h.Type = histSharedCaller
	default:
		h.Type = histMutated
	}
	h.Object = []string{"rpc", "scope"}[idx%2]
	mon.run.Eval(1)
	mon.run.Add("histories_"+h.Type+"_"+h.Object, 1)
	switch {
	case h.Type == histMutated && h.Object == "rpc":
		mon.histMutatedRPC(h, rng)
	case h.Type == histMutated:
		mon.histMutatedScope(h, rng)
	case h.Object == "rpc":
		mon.histSharedRPC(h, rng)
	default:
		mon.histSharedScope(h, rng)
	}
}

// shared returns the slice handed to the constructors for the declared list.
func (h *history) shared(tr *tracer, name string, l []*mwSpec, scope bool) []frugal.ServiceMiddleware {
	own := tr.list(l, h.Spare) // built with append: len < cap
	if h.Type == histSharedCaller {
		h.Steps = append(h.Steps, fmt.Sprintf("%s := caller-built slice (len %d, cap %d)", name, len(own), cap(own)))
		return own
	}
	h.Steps = append(h.Steps, fmt.Sprintf("%s := base provider(list of len %d, cap %d).GetMiddleware()", name, len(own), cap(own)))
	if scope {
		return frugal.NewFScopeProvider(nil, nil, nil, own...).GetMiddleware()
	}
	return frugal.NewFServiceProvider(nil, nil, own...).GetMiddleware()
}

// ---- RPC ------------------------------------------------------------------------

type histSide struct {
	env         *rpcEnv
	clientChain []*mwSpec
	serverChain []*mwSpec
	stop        func()
}

func (mon *monitor) histRPCCalls(h *history, name string, s *histSide) bool {
	for _, cn := range historyCalls {
		call := callByName(cn)
		ok, act, _, fatal := mon.rpcJudge(h, fmt.Sprintf("history %d object %s", h.Index, name), s.env, call, s.clientChain, s.serverChain, h.specs(), h.class())
		if fatal {
			return false
		}
		mon.run.Distinct(fmt.Sprintf("%s|%s|%s|c%ds%d|%s", h.class(), name, cn, len(s.clientChain), len(s.serverChain), h.rwKinds()))
		if ok && h.Index < 12 && cn == "add" {
			mon.run.Sample(map[string]interface{}{"history": h, "object": name, "call": cn, "trace": evStrings(act)})
		}
	}
	return true
}

func (h *history) rwKinds() string {
	k := map[string]bool{}
	for _, s := range h.specs() {
		k[s.RW] = true
	}
	out := ""
	for _, n := range []string{rwObserve, rwArg, rwResult, rwAnnotate, rwInject, rwClear} {
		if k[n] {
			out += n[:1]
			if n == rwAnnotate || n == rwArg {
				out += n[len(n)-1:]
			}
		}
	}
	return out
}

func (mon *monitor) histSharedRPC(h *history, rng *rand.Rand) {
	tr := &tracer{}
	var k int64
	lc := histList(rng, 1, 3, "c", attClientCtor, "client", &k)
	ls := histList(rng, 1, 3, "s", attProcessorCtor, "server", &k)
	h.Lists["shared_client_constructor_list"] = lc
	h.Lists["shared_processor_constructor_list"] = ls
	sharedC := h.shared(tr, "sharedC", lc, false)
	sharedS := h.shared(tr, "sharedS", ls, false)
	sides := map[string]*histSide{}
	var order []string
	for _, name := range []string{"A", "B"} {
		pl := histList(rng, 1, 3, "p"+name, attProvider, "client", &k)
		al := histList(rng, 0, 2, "a"+name, attAddMiddleware, "server", &k)
		h.Lists["service_provider_list_"+name] = pl
		h.Lists["AddMiddleware_sequence_"+name] = al
		hd, pings, mode := newTracedHandler(tr)
		proc := mainsvc.NewFFooProcessor(hd, sharedS...)
		for _, a := range al {
			proc.AddMiddleware(tr.middleware(a))
		}
		leg, err := rig.StartRPCLeg("pipe", "binary", proc, nil, rig.LegOptions{})
		if err != nil {
			mon.run.Inconclusive(fmt.Sprintf("history %d: leg did not start: %v", h.Index, err))
			return
		}
		defer leg.Stop()
		ft, err := leg.NewClient()
		if err != nil {
			mon.run.Inconclusive(fmt.Sprintf("history %d: client transport: %v", h.Index, err))
			return
		}
		defer ft.Close()
		prov := frugal.NewFServiceProvider(ft, leg.PF, tr.list(pl, h.Spare)...)
		client := mainsvc.NewFFooClient(prov, sharedC...)
		h.Steps = append(h.Steps, fmt.Sprintf("processor%s := NewFFooProcessor(handler%s, sharedS...) + %d AddMiddleware; client%s := NewFFooClient(provider%s(%d middleware), sharedC...)", name, name, len(al), name, name, len(pl)))
		sides[name] = &histSide{env: &rpcEnv{tr: tr, client: client, pings: pings, mode: mode}, clientChain: chain(pl, lc), serverChain: chain(al, ls)}
		order = append(order, name)
	}
	h.Steps = append(h.Steps, "first calls only now, on A then B")
	for _, name := range order {
		if !mon.histRPCCalls(h, name, sides[name]) {
			return
		}
	}
}

func (mon *monitor) histMutatedRPC(h *history, rng *rand.Rand) {
	tr := &tracer{}
	var k int64
	pl := histList(rng, 1, 4, "p", attProvider, "client", &k)
	cl := histList(rng, 0, 3, "c", attClientCtor, "client", &k)
	sl := histList(rng, 0, 2, "s", attProcessorCtor, "server", &k)
	stub := &mwSpec{ID: "x1", Att: attStub, Side: "client", RW: rwArg, K: 99}
	h.Lists["service_provider_list"] = pl
	h.Lists["client_constructor_list"] = cl
	h.Lists["processor_constructor_list"] = sl
	h.Lists["stub"] = []*mwSpec{stub}
	hd, pings, mode := newTracedHandler(tr)
	proc := mainsvc.NewFFooProcessor(hd, tr.list(sl, 0)...)
	leg, err := rig.StartRPCLeg("pipe", "binary", proc, nil, rig.LegOptions{})
	if err != nil {
		mon.run.Inconclusive(fmt.Sprintf("history %d: leg did not start: %v", h.Index, err))
		return
	}
	defer leg.Stop()
	ft, err := leg.NewClient()
	if err != nil {
		mon.run.Inconclusive(fmt.Sprintf("history %d: client transport: %v", h.Index, err))
		return
	}
	defer ft.Close()
	prov := frugal.NewFServiceProvider(ft, leg.PF, tr.list(pl, h.Spare)...)
	before := mainsvc.NewFFooClient(prov, tr.list(cl, h.Spare)...)
	g := prov.GetMiddleware()
	i := rng.Intn(len(g))
	g[i] = tr.middleware(stub)
	_ = append(g[:len(g):cap(g)], tr.middleware(stub))
	h.Steps = append(h.Steps, "clientBefore := NewFFooClient(provider, C...)", fmt.Sprintf("g := provider.GetMiddleware(); g[%d] = stub x1", i), "clientAfter := NewFFooClient(provider, C...)", "calls on clientBefore, then clientAfter")
	after := mainsvc.NewFFooClient(prov, tr.list(cl, h.Spare)...)
	for _, o := range []struct {
		name string
		c    *mainsvc.FFooClient
	}{{"clientBefore", before}, {"clientAfter", after}} {
		s := &histSide{env: &rpcEnv{tr: tr, client: o.c, pings: pings, mode: mode}, clientChain: chain(pl, cl), serverChain: chain(sl)}
		if !mon.histRPCCalls(h, o.name, s) {
			return
		}
	}
}

// ---- scope ----------------------------------------------------------------------

type histScopeSide struct {
	b        *bus
	epub     mainsvc.EventsPublisher
	ppub     mainsvc.PlainPublisher
	pubChain []*mwSpec
	subChain []*mwSpec
}

func subscribeAll(tr *tracer, errorable bool, prov *frugal.FScopeProvider, user string, mw func() []frugal.ServiceMiddleware) (subscribe func() error) {
	onDeliver := func(op string, ctx frugal.FContext, v interface{}) error {
		a := []interface{}{v}
		tr.add(event{"callback", "call", "subscribe" + op, withCtx(renderList(a), ctxDesc(ctx))})
		return resErr(subscriberFn(op, errorable, a))
	}
	if errorable {
		es := mainsvc.NewEventsErrorableSubscriber(prov, mw()...)
		ps := mainsvc.NewPlainErrorableSubscriber(prov, mw()...)
		return func() error {
			_, e1 := es.SubscribeSentErrorable(user, func(ctx frugal.FContext, p *mainsvc.Payload) error { return onDeliver("Sent", ctx, p) })
			_, e2 := es.SubscribeNumErrorable(user, func(ctx frugal.FContext, t *base.Thing) error { return onDeliver("Num", ctx, t) })
			_, e3 := ps.SubscribePingErrorable(func(ctx frugal.FContext, t *base.Thing) error { return onDeliver("Ping", ctx, t) })
			return firstErr(e1, e2, e3)
		}
	}
	es := mainsvc.NewEventsSubscriber(prov, mw()...)
	ps := mainsvc.NewPlainSubscriber(prov, mw()...)
	return func() error {
		_, e1 := es.SubscribeSent(user, func(ctx frugal.FContext, p *mainsvc.Payload) { onDeliver("Sent", ctx, p) })
		_, e2 := es.SubscribeNum(user, func(ctx frugal.FContext, t *base.Thing) { onDeliver("Num", ctx, t) })
		_, e3 := ps.SubscribePing(func(ctx frugal.FContext, t *base.Thing) { onDeliver("Ping", ctx, t) })
		return firstErr(e1, e2, e3)
	}
}

func firstErr(es ...error) error {
	for _, e := range es {
		if e != nil {
			return e
		}
	}
	return nil
}

func (mon *monitor) histSharedScope(h *history, rng *rand.Rand) {
	tr := &tracer{}
	pf := rig.ProtocolFactory("binary")
	errorable := rng.Intn(2) == 0
	var k int64
	lp := histList(rng, 1, 3, "pc", attPubCtor, "publisher", &k)
	ls := histList(rng, 1, 3, "sc", attSubCtor, "subscriber", &k)
	h.Lists["shared_publisher_constructor_list"] = lp
	h.Lists["shared_subscriber_constructor_list"] = ls
	sharedP := h.shared(tr, "sharedP", lp, true)
	sharedS := h.shared(tr, "sharedS", ls, true)
	sides := map[string]*histScopeSide{}
	subs := map[string]func() error{}
	for _, name := range []string{"A", "B"} {
		b := newBus()
		pp := histList(rng, 1, 3, "pp"+name, attPubProvider, "publisher", &k)
		sp := histList(rng, 1, 3, "sp"+name, attSubProvider, "subscriber", &k)
		h.Lists["publisher_scope_provider_list_"+name] = pp
		h.Lists["subscriber_scope_provider_list_"+name] = sp
		pubProv := frugal.NewFScopeProvider(busPubFactory{b}, busSubFactory{b}, pf, tr.list(pp, h.Spare)...)
		subProv := frugal.NewFScopeProvider(busPubFactory{b}, busSubFactory{b}, pf, tr.list(sp, h.Spare)...)
		subs[name] = subscribeAll(tr, errorable, subProv, "u1", func() []frugal.ServiceMiddleware { return sharedS })
		s := &histScopeSide{b: b, pubChain: chain(pp, lp), subChain: chain(sp, ls)}
		s.epub = mainsvc.NewEventsPublisher(pubProv, sharedP...)
		s.ppub = mainsvc.NewPlainPublisher(pubProv, sharedP...)
		sides[name] = s
		h.Steps = append(h.Steps, fmt.Sprintf("subscriber%s := New*Subscriber(broker%s(%d middleware), sharedS...); publisher%s := New*Publisher(broker%s(%d middleware), sharedP...)", name, name, len(sp), name, name, len(pp)))
	}
	h.Steps = append(h.Steps, "Subscribe on A, then on B, only now; publish on A, then on B")
	for _, name := range []string{"A", "B"} {
		if err := subs[name](); err != nil {
			mon.run.Inconclusive(fmt.Sprintf("history %d: subscribe: %v", h.Index, err))
			return
		}
		sides[name].epub.Open()
		sides[name].ppub.Open()
	}
	for _, name := range []string{"A", "B"} {
		mon.histScopePublishesWith(h, tr, name, errorable, sides[name])
	}
}

func (mon *monitor) histScopePublishesWith(h *history, tr *tracer, name string, errorable bool, s *histScopeSide) {
	for _, op := range []scopeOp{{"Sent", "tok"}, {"Num", "fail-2"}, {"Ping", "tok"}} {
		ok, act := mon.scopeJudge(h, tr, s.b, op, "u1", s.epub, s.ppub, s.pubChain, s.subChain, h.specs(), errorable, h.class())
		mon.run.Distinct(fmt.Sprintf("%s|%s|%s|p%ds%d|%s", h.class(), name, op.Name, len(s.pubChain), len(s.subChain), h.rwKinds()))
		if ok && h.Index < 12 && op.Name == "Sent" {
			mon.run.Sample(map[string]interface{}{"history": h, "object": name, "call": "publishSent", "trace": evStrings(act)})
		}
	}
}

func (mon *monitor) histMutatedScope(h *history, rng *rand.Rand) {
	tr := &tracer{}
	pf := rig.ProtocolFactory("binary")
	errorable := rng.Intn(2) == 0
	var k int64
	pp := histList(rng, 1, 4, "pp", attPubProvider, "publisher", &k)
	pc := histList(rng, 0, 3, "pc", attPubCtor, "publisher", &k)
	sp := histList(rng, 1, 4, "sp", attSubProvider, "subscriber", &k)
	sc := histList(rng, 0, 3, "sc", attSubCtor, "subscriber", &k)
	stubP := &mwSpec{ID: "x1", Att: attStub, Side: "publisher", RW: rwArg, K: 98}
	stubS := &mwSpec{ID: "x2", Att: attStub, Side: "subscriber", RW: rwArg, K: 99}
	h.Lists["publisher_scope_provider_list"] = pp
	h.Lists["publisher_constructor_list"] = pc
	h.Lists["subscriber_scope_provider_list"] = sp
	h.Lists["subscriber_constructor_list"] = sc
	h.Lists["stubs"] = []*mwSpec{stubP, stubS}
	b := newBus()
	pubProv := frugal.NewFScopeProvider(busPubFactory{b}, busSubFactory{b}, pf, tr.list(pp, h.Spare)...)
	subProv := frugal.NewFScopeProvider(busPubFactory{b}, busSubFactory{b}, pf, tr.list(sp, h.Spare)...)
	gp := pubProv.GetMiddleware()
	i := rng.Intn(len(gp))
	gp[i] = tr.middleware(stubP)
	gs := subProv.GetMiddleware()
	j := rng.Intn(len(gs))
	gs[j] = tr.middleware(stubS)
	h.Steps = append(h.Steps, fmt.Sprintf("g := publisherProvider.GetMiddleware(); g[%d] = stub x1", i), fmt.Sprintf("g := subscriberProvider.GetMiddleware(); g[%d] = stub x2", j),
		"construct publishers and subscribers from the two providers, Subscribe, publish")
	sub := subscribeAll(tr, errorable, subProv, "u1", func() []frugal.ServiceMiddleware { return tr.list(sc, h.Spare) })
	s := &histScopeSide{b: b, pubChain: chain(pp, pc), subChain: chain(sp, sc)}
	s.epub = mainsvc.NewEventsPublisher(pubProv, tr.list(pc, h.Spare)...)
	s.ppub = mainsvc.NewPlainPublisher(pubProv, tr.list(pc, h.Spare)...)
	if err := sub(); err != nil {
		mon.run.Inconclusive(fmt.Sprintf("history %d: subscribe: %v", h.Index, err))
		return
	}
	s.epub.Open()
	s.ppub.Open()
	mon.histScopePublishesWith(h, tr, "after-mutation", errorable, s)
}
