package main

import (
	"bytes"
	"fmt"
	"sync"
	"time"

	frugal "github.com/Workiva/frugal/lib/go"
	"github.com/apache/thrift/lib/go/thrift"

	"verif/rig"
	"vh/gen/base"
	"vh/gen/mainsvc"
)

// bus is an in-process loopback for scope transports: Publish hands the frame
// (without its 4-byte size, like the NATS and STOMP subscriber transports do)
// to every callback subscribed to the topic, synchronously, and keeps what the
// callbacks returned.
type bus struct {
	mu      sync.Mutex
	subs    map[string][]frugal.FAsyncCallback
	results []error
	frames  int
	discard bool // concurrent phase: callback results are not attributed
}

func newBus() *bus { return &bus{subs: map[string][]frugal.FAsyncCallback{}} }

type busPub struct {
	b    *bus
	open bool
}

func (p *busPub) Open() error               { p.open = true; return nil }
func (p *busPub) Close() error              { p.open = false; return nil }
func (p *busPub) IsOpen() bool              { return p.open }
func (p *busPub) GetPublishSizeLimit() uint { return 0 }
func (p *busPub) Publish(topic string, data []byte) error {
	p.b.mu.Lock()
	cbs := append([]frugal.FAsyncCallback(nil), p.b.subs[topic]...)
	p.b.frames++
	p.b.mu.Unlock()
	if len(data) < 4 {
		return fmt.Errorf("bus: frame of %d bytes", len(data))
	}
	for _, cb := range cbs {
		err := cb(&thrift.TMemoryBuffer{Buffer: bytes.NewBuffer(append([]byte(nil), data[4:]...))})
		p.b.mu.Lock()
		if !p.b.discard {
			p.b.results = append(p.b.results, err)
		}
		p.b.mu.Unlock()
	}
	return nil
}

type busSub struct {
	b     *bus
	topic string
	on    bool
}

func (s *busSub) Subscribe(topic string, cb frugal.FAsyncCallback) error {
	s.b.mu.Lock()
	s.b.subs[topic] = append(s.b.subs[topic], cb)
	s.b.mu.Unlock()
	s.topic, s.on = topic, true
	return nil
}
func (s *busSub) Unsubscribe() error { s.on = false; return nil }
func (s *busSub) IsSubscribed() bool { return s.on }

type busPubFactory struct{ b *bus }
type busSubFactory struct{ b *bus }

func (f busPubFactory) GetTransport() frugal.FPublisherTransport  { return &busPub{b: f.b} }
func (f busSubFactory) GetTransport() frugal.FSubscriberTransport { return &busSub{b: f.b} }

// scopeOp is one scope operation of the fixture IDL.
type scopeOp struct {
	Name  string // Sent | Num | Ping
	Token string
}

func (mon *monitor) runScope(cfg *config) {
	tr := &tracer{}
	b := newBus()
	pf := rig.ProtocolFactory("binary")
	pubProvider := frugal.NewFScopeProvider(busPubFactory{b}, busSubFactory{b}, pf, tr.list(cfg.PubProv, cfg.Spare[0])...)
	subProvider := frugal.NewFScopeProvider(busPubFactory{b}, busSubFactory{b}, pf, tr.list(cfg.SubProv, cfg.Spare[2])...)
	user := "u1"

	onDeliver := func(op string, ctx frugal.FContext, v interface{}) error {
		a := []interface{}{v}
		tr.add(event{"callback", "call", "subscribe" + op, withCtx(renderList(a), ctxDesc(ctx))})
		return resErr(subscriberFn(op, cfg.Errorable, a))
	}
	var err1, err2, err3 error
	subCtor := func() []frugal.ServiceMiddleware { return tr.list(cfg.SubCtor, cfg.Spare[3]) }
	if cfg.Errorable {
		es := mainsvc.NewEventsErrorableSubscriber(subProvider, subCtor()...)
		_, err1 = es.SubscribeSentErrorable(user, func(ctx frugal.FContext, p *mainsvc.Payload) error { return onDeliver("Sent", ctx, p) })
		_, err2 = es.SubscribeNumErrorable(user, func(ctx frugal.FContext, t *base.Thing) error { return onDeliver("Num", ctx, t) })
		_, err3 = mainsvc.NewPlainErrorableSubscriber(subProvider, subCtor()...).SubscribePingErrorable(func(ctx frugal.FContext, t *base.Thing) error { return onDeliver("Ping", ctx, t) })
	} else {
		es := mainsvc.NewEventsSubscriber(subProvider, subCtor()...)
		_, err1 = es.SubscribeSent(user, func(ctx frugal.FContext, p *mainsvc.Payload) { onDeliver("Sent", ctx, p) })
		_, err2 = es.SubscribeNum(user, func(ctx frugal.FContext, t *base.Thing) { onDeliver("Num", ctx, t) })
		_, err3 = mainsvc.NewPlainSubscriber(subProvider, subCtor()...).SubscribePing(func(ctx frugal.FContext, t *base.Thing) { onDeliver("Ping", ctx, t) })
	}
	if err1 != nil || err2 != nil || err3 != nil {
		mon.run.Inconclusive(fmt.Sprintf("configuration %d: subscribe failed: %v %v %v", cfg.Index, err1, err2, err3))
		return
	}
	pubCtor := func() []frugal.ServiceMiddleware { return tr.list(cfg.PubCtor, cfg.Spare[1]) }
	epub := mainsvc.NewEventsPublisher(pubProvider, pubCtor()...)
	ppub := mainsvc.NewPlainPublisher(pubProvider, pubCtor()...)
	if err := epub.Open(); err != nil {
		mon.run.Inconclusive(fmt.Sprintf("configuration %d: open: %v", cfg.Index, err))
		return
	}
	ppub.Open()

	specs := cfg.specs()
	pubChain := chain(cfg.PubProv, cfg.PubCtor)
	subChain := chain(cfg.SubProv, cfg.SubCtor)
	mon.run.Eval(1)
	for _, op := range []scopeOp{{"Sent", "tok"}, {"Sent", "fail-1"}, {"Num", "tok"}, {"Num", "fail-2"}, {"Ping", "tok"}, {"Ping", "fail-3"}} {
		ok, act := mon.scopeJudge(cfg, tr, b, op, user, epub, ppub, pubChain, subChain, specs, cfg.Errorable, "publish+deliver")
		mon.run.Distinct(cfg.shape("publish" + op.Name + "/" + op.Token))
		if ok && len(act) > 8 {
			mon.run.Sample(map[string]interface{}{"configuration": cfg, "call": "publish" + op.Name + "/" + op.Token, "trace": evStrings(act)})
		}
	}
}

// scopeJudge publishes one message through the generated publishers on bus b
// and judges the trace (publisher chain, delivery through the subscriber
// chain, callback), what the publishing caller gets and what the generated
// subscriber callback returns to the transport.
func (mon *monitor) scopeJudge(w interface{}, tr *tracer, b *bus, op scopeOp, user string, epub mainsvc.EventsPublisher, ppub mainsvc.PlainPublisher,
	pubChain, subChain []*mwSpec, specs map[string]*mwSpec, errorable bool, class string) (bool, []event) {
	pm, sm := "publish"+op.Name, "subscribe"+op.Name
	var req interface{}
	if op.Name == "Sent" {
		req = payload(op.Token)
	} else {
		req = &base.Thing{AnID: 8, AString: op.Token, At: 5}
	}
	pargs := []interface{}{req}
	if op.Name != "Ping" {
		pargs = []interface{}{user, req}
	}
	// expected
	var exp []event
	cm := &ctxModel{TO: 5 * time.Second} // NewFContext's default, the caller's context below
	a := foldIn(&exp, pubChain, pm, cm, pargs)
	wire := a[len(a)-1]
	sa := foldIn(&exp, subChain, sm, cm, []interface{}{wire})
	exp = append(exp, event{"callback", "call", sm, withCtx(renderList(sa), cm.String())})
	sres := subscriberFn(op.Name, errorable, sa)
	sres = foldOut(&exp, subChain, sm, sres)
	wantCallback := renderErr(resErr(sres))
	pres := foldOut(&exp, pubChain, pm, []interface{}{nil}) // Publish itself succeeded
	wantCaller := renderList(pres)

	// observed
	tr.take()
	b.mu.Lock()
	b.results = nil
	b.mu.Unlock()
	ctx := frugal.NewFContext("")
	var perr error
	switch op.Name {
	case "Sent":
		perr = epub.PublishSent(ctx, user, req.(*mainsvc.Payload))
	case "Num":
		perr = epub.PublishNum(ctx, user, req.(*base.Thing))
	default:
		perr = ppub.PublishPing(ctx, req.(*base.Thing))
	}
	act := tr.take()
	b.mu.Lock()
	results := append([]error(nil), b.results...)
	b.mu.Unlock()
	call := pm + "/" + op.Token
	mon.run.Add("publishes", 1)
	mon.run.Add("deliveries", len(results))
	mon.run.Add("trace_events", len(act))
	ok := mon.j.compare(w, call, class, specs, exp, act)
	if ok {
		if got := renderList([]interface{}{errI(perr)}); got != wantCaller {
			mon.run.Violation("C16:caller-results:"+class, "the publishing caller observes a result other than what the outermost publisher middleware returned",
				map[string]interface{}{"configuration": w, "call": call, "expected": wantCaller, "observed": got, "observed_trace": evStrings(act)})
			ok = false
		}
		if len(results) != 1 {
			mon.run.Violation("C16:callback-result:"+class, fmt.Sprintf("the subscriber transport's callback ran %d times for one publish", len(results)),
				map[string]interface{}{"configuration": w, "call": call, "observed_trace": evStrings(act)})
			ok = false
		} else if got := renderErr(results[0]); got != wantCallback {
			mon.run.Violation("C16:callback-result:"+class, "the generated subscriber callback returns to the transport something other than what the outermost subscriber middleware returned",
				map[string]interface{}{"configuration": w, "call": call, "expected": wantCallback, "observed": got, "observed_trace": evStrings(act)})
			ok = false
		}
	}
	if ok {
		mon.run.Add("calls_conforming", 1)
	}
	return ok, act
}
