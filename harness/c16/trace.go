package main

import (
	"fmt"
	"reflect"
	"sort"
	"sync"

	frugal "github.com/Workiva/frugal/lib/go"

	"verif/ev"
)

// event is one step of a per-call trace.
type event struct {
	MW     string `json:"mw"`   // middleware id, or "handler" / "callback"
	Kind   string `json:"kind"` // enter | exit | call
	Method string `json:"method"`
	Vals   string `json:"values"`
}

func (e event) String() string { return e.MW + "." + e.Kind + "(" + e.Method + ")" + e.Vals }

// tracer collects the events of the calls of one configuration (calls of a
// configuration run one after the other).
type tracer struct {
	mu sync.Mutex
	ev []event
}

func (t *tracer) add(e event) {
	t.mu.Lock()
	t.ev = append(t.ev, e)
	t.mu.Unlock()
}

func (t *tracer) take() []event {
	t.mu.Lock()
	defer t.mu.Unlock()
	out := t.ev
	t.ev = nil
	return out
}

// middleware builds the tracing (and optionally rewriting) middleware for mw.
// All tracing middleware of a run are closures produced by this ONE factory
// (different captured specs): it must not be inlined, or each call site would
// get its own copy of the closure code and the middleware would stop sharing a
// code pointer - which is how middleware built by one constructor function
// look to the runtime (reflect.Value.Pointer of a closure is its code).
//
//go:noinline
func (t *tracer) middleware(mw *mwSpec) frugal.ServiceMiddleware {
	return func(next frugal.InvocationHandler) frugal.InvocationHandler {
		return func(svc reflect.Value, m reflect.Method, args frugal.Arguments) frugal.Results {
			method := lowerFirst(m.Name)
			t.add(event{mw.ID, "enter", method, withCtx(renderList(args), ctxDesc(args.Context()))})
			res := next(svc, m, passOn(mw, method, args))
			t.add(event{mw.ID, "exit", method, renderList(res)})
			return handBack(mw, method, res)
		}
	}
}

// list turns specs into a middleware slice, optionally with spare capacity
// (an append inside generated code then writes into the caller's array).
func (t *tracer) list(specs []*mwSpec, spare int) []frugal.ServiceMiddleware {
	out := make([]frugal.ServiceMiddleware, 0, len(specs)+spare)
	for _, s := range specs {
		out = append(out, t.middleware(s))
	}
	return out
}

// ---- expected traces: fold the declared order ----------------------------------

// chain returns the middleware of one side from outermost to innermost: within
// a list later-listed wraps earlier, and lists[0] wraps lists[1] wraps ...
func chain(lists ...[]*mwSpec) []*mwSpec {
	var out []*mwSpec
	for _, l := range lists {
		for i := len(l) - 1; i >= 0; i-- {
			out = append(out, l[i])
		}
	}
	return out
}

// foldIn appends the enter events of ch (outer to inner) and returns the
// arguments the innermost passes on.
func foldIn(tr *[]event, ch []*mwSpec, method string, cm *ctxModel, args []interface{}) []interface{} {
	for _, mw := range ch {
		*tr = append(*tr, event{mw.ID, "enter", method, withCtx(renderList(args), cm.String())})
		args = rwArgs(mw, method, args)
		cm.apply(mw)
	}
	return args
}

// foldOut appends the exit events of ch (inner to outer) and returns what the
// outermost hands back.
func foldOut(tr *[]event, ch []*mwSpec, method string, res []interface{}) []interface{} {
	for i := len(ch) - 1; i >= 0; i-- {
		*tr = append(*tr, event{ch[i].ID, "exit", method, renderList(res)})
		res = rwRes(ch[i], method, res)
	}
	return res
}

// ---- judging --------------------------------------------------------------------

type judge struct {
	run *ev.Run
}

func ids(evs []event, kind string) []string {
	var out []string
	for _, e := range evs {
		if e.Kind == kind {
			out = append(out, e.MW)
		}
	}
	return out
}

func evStrings(evs []event) []string {
	out := make([]string, len(evs))
	for i, e := range evs {
		s := e.String()
		if len(s) > 400 {
			s = s[:400] + "..."
		}
		out[i] = s
	}
	return out
}

func filterSide(evs []event, specs map[string]*mwSpec, side string) []event {
	var out []event
	for _, e := range evs {
		s := "server"
		if sp, ok := specs[e.MW]; ok {
			s = sp.Side
		}
		if s == side {
			out = append(out, e)
		}
	}
	return out
}

// compare judges one call's trace against the expected one and reports the
// most specific discrepancy.  class is the kind of call (own | inherited |
// oneway | publish+deliver).
func (j *judge) compare(cfg interface{}, call, class string, specs map[string]*mwSpec, exp, act []event) bool {
	if len(exp) == len(act) {
		same := true
		for i := range exp {
			if exp[i] != act[i] {
				same = false
				break
			}
		}
		if same {
			return true
		}
	}
	witness := map[string]interface{}{"configuration": cfg, "call": call, "expected_trace": evStrings(exp), "observed_trace": evStrings(act),
		"replay": "configuration is a pure function of (VERIF_SEED, tier, configuration index)"}
	att := func(id string) string {
		if s, ok := specs[id]; ok {
			return s.Att
		}
		return id
	}
	// 1. every middleware exactly once
	expN, actN := map[string]int{}, map[string]int{}
	for _, id := range ids(exp, "enter") {
		expN[id]++
	}
	for _, id := range ids(act, "enter") {
		actN[id]++
	}
	var keys []string
	for id := range expN {
		keys = append(keys, id)
	}
	for id := range actN {
		if _, ok := expN[id]; !ok {
			keys = append(keys, id)
		}
	}
	sort.Strings(keys)
	for _, id := range keys {
		if expN[id] != actN[id] {
			j.run.Violation("C16:count:"+att(id)+":"+class,
				fmt.Sprintf("middleware %s (%s) intercepted the call %d time(s), expected %d", id, att(id), actN[id], expN[id]), witness)
			return false
		}
	}
	// 2. proper nesting: exits mirror enters
	var stack []string
	for _, e := range act {
		switch e.Kind {
		case "enter":
			stack = append(stack, e.MW)
		case "exit":
			if len(stack) == 0 || stack[len(stack)-1] != e.MW {
				j.run.Violation("C16:nesting:"+att(e.MW)+":"+class, "middleware entries and exits are not properly nested", witness)
				return false
			}
			stack = stack[:len(stack)-1]
		}
	}
	if len(stack) != 0 {
		j.run.Violation("C16:nesting:"+att(stack[len(stack)-1])+":"+class, "a middleware was entered but never returned", witness)
		return false
	}
	// 3. order
	ei, ai := ids(exp, "enter"), ids(act, "enter")
	for i := range ei {
		if i < len(ai) && ei[i] != ai[i] {
			a, b := att(ei[i]), att(ai[i])
			if a > b {
				a, b = b, a
			}
			j.run.Violation("C16:order:"+a+"~"+b+":"+class,
				fmt.Sprintf("nesting order differs from the declared one: position %d is %s (%s), expected %s (%s)", i, ai[i], att(ai[i]), ei[i], att(ei[i])), witness)
			return false
		}
	}
	// 4. the handler's position, then values
	for i := range exp {
		if i >= len(act) {
			break
		}
		if exp[i] != act[i] {
			if exp[i].MW != act[i].MW || exp[i].Kind != act[i].Kind {
				j.run.Violation("C16:sequence:"+att(exp[i].MW)+":"+class, "the sequence of trace events differs from the expected one at "+exp[i].String(), witness)
				return false
			}
			if exp[i].Method != act[i].Method {
				j.run.Violation("C16:method-name:"+att(exp[i].MW)+":"+class, "a middleware saw another method name than the one invoked", witness)
				return false
			}
			what := "arguments other than what its outer neighbour passed"
			if exp[i].Kind == "exit" {
				what = "results other than what its inner neighbour returned"
			}
			j.run.Violation("C16:values:"+att(exp[i].MW)+":"+exp[i].Kind+":"+class,
				fmt.Sprintf("%s saw %s: expected %s observed %s", exp[i].MW, what, exp[i].Vals, act[i].Vals), witness)
			return false
		}
	}
	j.run.Violation("C16:trace-length:"+class, "trace has events beyond / short of the expected ones", witness)
	return false
}
