package main

import (
	"fmt"
	"sync/atomic"
	"time"

	frugal "github.com/Workiva/frugal/lib/go"

	"verif/rig"
	"vh/gen/base"
	"vh/gen/mainsvc"
)

// Several subscriptions made through ONE builder-built NATS subscriber
// transport factory (FNatsSubscriberFactoryBuilder ... Build()), over a real
// embedded broker: two subscribers of the same operation and one of another
// operation, each generated subscriber object with its own constructor
// middleware.  Every delivery must pass through every middleware of ITS
// subscription exactly once and through none of another subscription's.

type natsSubscription struct {
	Name string    `json:"name"`
	Op   string    `json:"operation"`
	List []*mwSpec `json:"subscriber_constructor_list"`
	kt   *ktracer
	seen int64
}

type natsSubConfig struct {
	Index         int                 `json:"index"`
	Proto         string              `json:"protocol"`
	QueueLength   uint                `json:"builder_queue_length"`
	Workers       uint                `json:"builder_worker_count"`
	Messages      int                 `json:"messages"`
	Subscriptions []*natsSubscription `json:"subscriptions"`
}

func (mon *monitor) runNatsSubscriptions(ns *rig.NatsServer, idx, messages int) {
	rng := mon.run.Rand(fmt.Sprintf("c16-natssub-%d", idx))
	proto := rig.Protocols[idx%3]
	cc := &natsSubConfig{Index: idx, Proto: proto, QueueLength: uint(4 + rng.Intn(60)), Workers: 1, Messages: messages}
	conn, err := ns.Connect()
	if err != nil {
		mon.run.Inconclusive("nats subscriptions: connect: " + err.Error())
		return
	}
	defer conn.Close()
	pf := rig.ProtocolFactory(proto)
	factory := frugal.NewFNatsSubscriberFactoryBuilder(conn).WithQueueLength(cc.QueueLength).WithWorkerCount(cc.Workers).Build()
	provider := frugal.NewFScopeProvider(frugal.NewFNatsPublisherTransportFactory(conn), factory, pf)
	user := fmt.Sprintf("n%d", idx)
	var k int64
	specs := map[string]*mwSpec{}
	var subs []*frugal.FSubscription
	for i, op := range []string{"Sent", "Sent", "Num"} {
		s := &natsSubscription{Name: fmt.Sprintf("subscription%d(%s)", i+1, op), Op: op, kt: &ktracer{by: map[string][]event{}}}
		s.List = genList(rng, 1+rng.Intn(3), fmt.Sprintf("n%dc", i+1), attSubCtor, "subscriber", "rewriting", &k)
		for _, sp := range s.List {
			specs[sp.ID] = sp
		}
		cc.Subscriptions = append(cc.Subscriptions, s)
		sub := mainsvc.NewEventsSubscriber(provider, s.kt.list(s.List)...)
		var fs *frugal.FSubscription
		var err error
		if op == "Sent" {
			fs, err = sub.SubscribeSent(user, func(ctx frugal.FContext, p *mainsvc.Payload) {
				a := []interface{}{p}
				s.kt.add(ctx.CorrelationID(), event{"callback", "call", "subscribeSent", withCtx(renderList(a), ctxDesc(ctx))})
				atomic.AddInt64(&s.seen, 1)
			})
		} else {
			fs, err = sub.SubscribeNum(user, func(ctx frugal.FContext, t *base.Thing) {
				a := []interface{}{t}
				s.kt.add(ctx.CorrelationID(), event{"callback", "call", "subscribeNum", withCtx(renderList(a), ctxDesc(ctx))})
				atomic.AddInt64(&s.seen, 1)
			})
		}
		if err != nil {
			mon.run.Inconclusive(fmt.Sprintf("nats subscriptions %d: subscribe: %v", idx, err))
			return
		}
		subs = append(subs, fs)
	}
	defer func() {
		for _, fs := range subs {
			fs.Unsubscribe()
		}
	}()
	pub := mainsvc.NewEventsPublisher(provider)
	if err := pub.Open(); err != nil {
		mon.run.Inconclusive(fmt.Sprintf("nats subscriptions %d: open: %v", idx, err))
		return
	}
	mon.run.Eval(1)
	type sent struct{ tok, op string }
	var msgs []sent
	want := map[string]int64{}
	for i := 0; i < messages; i++ {
		op := []string{"Sent", "Num", "Sent"}[i%3]
		tok := fmt.Sprintf("N%d-%d", idx, i)
		ctx := frugal.NewFContext(tok)
		var perr error
		if op == "Sent" {
			perr = pub.PublishSent(ctx, user, payload(tok))
		} else {
			perr = pub.PublishNum(ctx, user, &base.Thing{AnID: 8, AString: tok, At: 5})
		}
		if perr != nil {
			mon.run.Inconclusive(fmt.Sprintf("nats subscriptions %d: publish: %v", idx, perr))
			return
		}
		msgs = append(msgs, sent{tok, op})
		want[op]++
		mon.run.Add("nats_subscription_publishes", 1)
	}
	// deliveries are asynchronous: wait until every subscription has seen its
	// messages (a delivery that went astray never arrives: bounded wait)
	deadline := time.Now().Add(4 * time.Second)
	for time.Now().Before(deadline) {
		done := true
		for _, s := range cc.Subscriptions {
			if atomic.LoadInt64(&s.seen) < want[s.Op] {
				done = false
			}
		}
		if done {
			break
		}
		time.Sleep(5 * time.Millisecond)
	}
	time.Sleep(30 * time.Millisecond) // let the outermost middleware return
	for _, m := range msgs {
		for _, s := range cc.Subscriptions {
			if s.Op != m.op {
				continue
			}
			sm := "subscribe" + m.op
			var req interface{}
			if m.op == "Sent" {
				req = payload(m.tok)
			} else {
				req = &base.Thing{AnID: 8, AString: m.tok, At: 5}
			}
			var exp []event
			cm := &ctxModel{TO: 5 * time.Second}
			sa := foldIn(&exp, chain(s.List), sm, cm, []interface{}{req})
			exp = append(exp, event{"callback", "call", sm, withCtx(renderList(sa), cm.String())})
			foldOut(&exp, chain(s.List), sm, []interface{}{nil})
			act := s.kt.take(m.tok)
			mon.run.Add("nats_subscription_deliveries_judged", 1)
			mon.run.Distinct(fmt.Sprintf("nats-subscriptions|%s|%s|len%d", proto, s.Name, len(s.List)))
			if mon.j.compare(cc, s.Name+" message "+m.tok, "nats-subscriptions", specs, exp, act) {
				mon.run.Add("calls_conforming", 1)
			}
		}
	}
	for _, s := range cc.Subscriptions {
		s.kt.mu.Lock()
		for tok, evs := range s.kt.by {
			mon.run.Violation("C16:stray-delivery:nats-subscriptions", "a subscription's middleware / callback ran for a message that was not published for it",
				map[string]interface{}{"configuration": cc, "subscription": s.Name, "token": tok, "events": evStrings(evs)})
			break
		}
		s.kt.mu.Unlock()
	}
}
