package main

import (
	"fmt"
	"strings"
	"sync/atomic"
	"time"

	frugal "github.com/Workiva/frugal/lib/go"

	"verif/rig"
	"vh/e2e"
	"vh/gen/base"
	"vh/gen/mainsvc"
)

// rpcCall is one call of a configuration.
type rpcCall struct {
	Name   string // distinct label
	Method string
	Class  string // own | inherited | oneway
	Mode   string // "throw" for nothing()
	Args   func() []interface{}
	Invoke func(c *mainsvc.FFooClient, ctx frugal.FContext, a []interface{}) []interface{}
}

func errI(err error) interface{} {
	if err == nil {
		return nil
	}
	return err
}

func payload(big string) *mainsvc.Payload {
	return &mainsvc.Payload{Last: &mainsvc.BigLast{N: 5, Nums: []int64{1, 2, 3}, Big: big}}
}

func echoCall(name, tag string) rpcCall {
	return rpcCall{name, "echo", "own", "",
		func() []interface{} { return []interface{}{payload("big"), tag} },
		func(c *mainsvc.FFooClient, ctx frugal.FContext, a []interface{}) []interface{} {
			r, err := c.Echo(ctx, a[0].(*mainsvc.Payload), a[1].(string))
			return []interface{}{r, errI(err)}
		}}
}

func echoThingCall(name, s string) rpcCall {
	return rpcCall{name, "echoThing", "inherited", "",
		func() []interface{} { return []interface{}{&base.Thing{AnID: 4, AString: s, At: 99}} },
		func(c *mainsvc.FFooClient, ctx frugal.FContext, a []interface{}) []interface{} {
			r, err := c.EchoThing(ctx, a[0].(*base.Thing))
			return []interface{}{r, errI(err)}
		}}
}

func nothingCall(name, mode string) rpcCall {
	return rpcCall{name, "nothing", "own", mode,
		func() []interface{} { return nil },
		func(c *mainsvc.FFooClient, ctx frugal.FContext, a []interface{}) []interface{} {
			return []interface{}{errI(c.Nothing(ctx))}
		}}
}

// rpcCalls lists every method of the fixture service: own, inherited (through
// the embedded base client / processor), oneway, void, throwing.
var rpcCalls = []rpcCall{
	{"add", "add", "own", "",
		func() []interface{} { return []interface{}{int32(2), int64(40)} },
		func(c *mainsvc.FFooClient, ctx frugal.FContext, a []interface{}) []interface{} {
			r, err := c.Add(ctx, a[0].(int32), a[1].(int64))
			return []interface{}{r, errI(err)}
		}},
	echoCall("echo", "tag"),
	echoCall("echo/throw-oops", "throw-oops"),
	echoCall("echo/throw-api", "throw-api"),
	echoCall("echo/throw-plain", "throw-plain"),
	echoCall("echo/throw-plain-257", "throw-plain-"+strings.Repeat("y", 257-len("Internal error processing echo: h:throw-plain-"))),
	echoCall("echo/throw-plain-2000", "throw-plain-"+strings.Repeat("z", 2000)),
	{"getBig", "getBig", "own", "",
		func() []interface{} { return []interface{}{int32(3), "shape"} },
		func(c *mainsvc.FFooClient, ctx frugal.FContext, a []interface{}) []interface{} {
			r, err := c.GetBig(ctx, a[0].(int32), a[1].(string))
			return []interface{}{r, errI(err)}
		}},
	nothingCall("nothing", ""),
	nothingCall("nothing/throw", "throw"),
	{"things", "things", "own", "",
		func() []interface{} {
			return []interface{}{map[string]*base.Thing{"b": {AnID: 2, AString: "two"}, "a": {AnID: 1, AString: "one"}}, map[int32]bool{7: true, 9: true}}
		},
		func(c *mainsvc.FFooClient, ctx frugal.FContext, a []interface{}) []interface{} {
			r, err := c.Things(ctx, a[0].(map[string]*base.Thing), a[1].(map[int32]bool))
			return []interface{}{r, errI(err)}
		}},
	{"nextColor", "nextColor", "own", "",
		func() []interface{} { return []interface{}{base.Color_GREEN} },
		func(c *mainsvc.FFooClient, ctx frugal.FContext, a []interface{}) []interface{} {
			r, err := c.NextColor(ctx, a[0].(base.Color))
			return []interface{}{r, errI(err)}
		}},
	{"blob", "blob", "own", "",
		func() []interface{} { return []interface{}{[]byte("blob")} },
		func(c *mainsvc.FFooClient, ctx frugal.FContext, a []interface{}) []interface{} {
			r, err := c.Blob(ctx, a[0].([]byte))
			return []interface{}{r, errI(err)}
		}},
	{"basePing", "basePing", "inherited", "",
		func() []interface{} { return nil },
		func(c *mainsvc.FFooClient, ctx frugal.FContext, a []interface{}) []interface{} {
			return []interface{}{errI(c.BasePing(ctx))}
		}},
	echoThingCall("echoThing", "thing"),
	echoThingCall("echoThing/throw-api", "throw-api"),
	{"fire", "fire", "oneway", "",
		func() []interface{} { return []interface{}{"s"} },
		func(c *mainsvc.FFooClient, ctx frugal.FContext, a []interface{}) []interface{} {
			return []interface{}{errI(c.Fire(ctx, a[0].(string)))}
		}},
}

// rpcEnv is one traced server + client pair.
type rpcEnv struct {
	tr     *tracer
	client *mainsvc.FFooClient
	pings  *int64
	mode   *atomic.Value
}

// newTracedHandler returns a stub handler that records its invocation in tr
// and answers with handlerFn.
func newTracedHandler(tr *tracer) (*e2e.Handler, *int64, *atomic.Value) {
	mode := &atomic.Value{}
	mode.Store("")
	h := &e2e.Handler{}
	pings := new(int64)
	h.Behave = func(c *e2e.Call) *e2e.Outcome {
		if c.Method == "basePing" {
			atomic.AddInt64(pings, 1)
		}
		tr.add(event{"handler", "call", c.Method, withCtx(renderList(c.Args), ctxDescOf(time.Duration(c.Timeout), c.ReqHdrs))})
		res := handlerFn(c.Method, mode.Load().(string), c.Args)
		o := &e2e.Outcome{Err: resErr(res)}
		if len(res) == 2 {
			o.Ret = res[0]
		}
		return o
	}
	return h, pings, mode
}

// rpcJudge makes one call through env and judges its trace and the caller's
// results against the fold of clientChain / serverChain (outermost first).
// fatal means the environment cannot be used any further.
func (mon *monitor) rpcJudge(w interface{}, label string, env *rpcEnv, call rpcCall, clientChain, serverChain []*mwSpec, specs map[string]*mwSpec, class string) (ok bool, act []event, got []interface{}, fatal bool) {
	env.mode.Store(call.Mode)
	args := call.Args()
	// expected: fold the declared order
	var exp []event
	cm := &ctxModel{TO: 20 * time.Second} // the caller's context below
	a := foldIn(&exp, clientChain, call.Method, cm, args)
	split := len(exp)
	a = foldIn(&exp, serverChain, call.Method, cm, a)
	exp = append(exp, event{"handler", "call", call.Method, withCtx(renderList(a), cm.String())})
	res := handlerFn(call.Method, call.Mode, a)
	res = foldOut(&exp, serverChain, call.Method, res)
	splitOut := len(exp)
	res = cross(call.Method, res)
	res = foldOut(&exp, clientChain, call.Method, res)
	wantCaller := renderList(res)

	// observed
	env.tr.take()
	ctx := frugal.NewFContext("")
	ctx.SetTimeout(20 * time.Second)
	done := make(chan []interface{}, 1)
	go func() { done <- call.Invoke(env.client, ctx, args) }()
	select {
	case got = <-done:
	case <-time.After(30 * time.Second):
		mon.run.Inconclusive(fmt.Sprintf("%s call %s did not return within 30 s", label, call.Name))
		return false, nil, nil, true
	}
	if call.Class == "oneway" {
		// the server handles one request after the other on a connection: when
		// this two-way call returns the oneway has been processed completely
		// (its own result may be rewritten by the middleware under test; what
		// matters is that it reached the handler)
		bctx := frugal.NewFContext("")
		bctx.SetTimeout(20 * time.Second)
		before := atomic.LoadInt64(env.pings)
		if err := env.client.BasePing(bctx); atomic.LoadInt64(env.pings) != before+1 {
			mon.run.Inconclusive(fmt.Sprintf("%s: barrier call after the oneway did not reach the handler: %v", label, err))
			return false, nil, nil, true
		}
	}
	for _, e := range env.tr.take() {
		if call.Class == "oneway" && e.Method == "basePing" {
			continue
		}
		act = append(act, e)
	}
	mon.run.Add("rpc_calls", 1)
	mon.run.Add("trace_events", len(act))
	if call.Class == "oneway" {
		// client side returns as soon as the frame is sent: the two sides are
		// only ordered by causality, judge them separately
		expClient := append(append([]event(nil), exp[:split]...), exp[splitOut:]...)
		expServer := exp[split:splitOut]
		ok = mon.j.compare(w, call.Name+" (client side)", class, specs, expClient, filterSide(act, specs, "client")) &&
			mon.j.compare(w, call.Name+" (server side)", class, specs, expServer, filterSide(act, specs, "server"))
	} else {
		ok = mon.j.compare(w, call.Name, class, specs, exp, act)
	}
	if gotS := renderList(got); ok && gotS != wantCaller {
		mon.run.Violation("C16:caller-results:"+class, "the caller observes results other than what the outermost client-side middleware returned",
			map[string]interface{}{"configuration": w, "call": call.Name, "expected": wantCaller, "observed": gotS, "observed_trace": evStrings(act)})
		ok = false
	}
	if ok {
		mon.run.Add("calls_conforming", 1)
	}
	return ok, act, got, false
}

// runRPC builds provider, client, processor for cfg on an in-memory leg of
// its own and makes every call once, judging each trace.
func (mon *monitor) runRPC(cfg *config) {
	tr := &tracer{}
	h, pings, mode := newTracedHandler(tr)
	proc := mainsvc.NewFFooProcessor(h, tr.list(cfg.Proc, cfg.Spare[2])...)
	for _, a := range cfg.Added {
		proc.AddMiddleware(tr.middleware(a))
	}
	leg, err := rig.StartRPCLeg("pipe", "binary", proc, nil, rig.LegOptions{})
	if err != nil {
		mon.run.Inconclusive(fmt.Sprintf("configuration %d: leg did not start: %v", cfg.Index, err))
		return
	}
	defer leg.Stop()
	ft, err := leg.NewClient()
	if err != nil {
		mon.run.Inconclusive(fmt.Sprintf("configuration %d: client transport: %v", cfg.Index, err))
		return
	}
	defer ft.Close()
	provider := frugal.NewFServiceProvider(ft, leg.PF, tr.list(cfg.Provider, cfg.Spare[0])...)
	client := mainsvc.NewFFooClient(provider, tr.list(cfg.Ctor, cfg.Spare[1])...)
	env := &rpcEnv{tr: tr, client: client, pings: pings, mode: mode}

	specs := cfg.specs()
	clientChain := chain(cfg.Provider, cfg.Ctor) // provider wraps constructor; later-listed wraps earlier
	serverChain := chain(cfg.Added, cfg.Proc)    // AddMiddleware (applied later) wraps the constructor list
	mon.run.Eval(1)
	for ci, call := range rpcCalls {
		ok, act, got, fatal := mon.rpcJudge(cfg, fmt.Sprintf("configuration %d", cfg.Index), env, call, clientChain, serverChain, specs, call.Class)
		if fatal {
			return
		}
		mon.run.Distinct(cfg.shape(call.Name))
		if ok && len(act) > 6 && ci == cfg.Index%len(rpcCalls) {
			mon.run.Sample(map[string]interface{}{"configuration": cfg, "call": call.Name, "trace": evStrings(act), "caller_results": renderList(got)})
		}
	}
}
