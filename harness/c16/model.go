package main

import (
	"encoding/json"
	"errors"
	"fmt"
	"sort"
	"strings"
	"time"
	"unicode"

	frugal "github.com/Workiva/frugal/lib/go"
	"github.com/apache/thrift/lib/go/thrift"

	"vh/gen/base"
	"vh/gen/mainsvc"
)

// ---- middleware description ---------------------------------------------------

// attachment points
const (
	attProvider      = "service-provider"
	attClientCtor    = "client-constructor"
	attProcessorCtor = "processor-constructor"
	attAddMiddleware = "processor-AddMiddleware"
	attPubProvider   = "publisher-scope-provider"
	attPubCtor       = "publisher-constructor"
	attSubProvider   = "subscriber-scope-provider"
	attSubCtor       = "subscriber-constructor"
)

// rewrite kinds
const (
	rwObserve  = "observe"
	rwArg      = "arg"
	rwResult   = "result"
	rwAnnotate = "err-annotate"
	rwInject   = "err-inject"
	rwClear    = "err-clear"
	rwCtx      = "replace-context"
	// like err-inject, but the middleware sets the error IN PLACE on the
	// Results slice its inner handler returned (Results.SetError) and returns
	// that same slice
	rwInjectInPlace = "err-inject-in-place"
)

// mwSpec describes one tracing middleware.
type mwSpec struct {
	ID   string `json:"id"`
	Att  string `json:"attachment"`
	Side string `json:"side"` // client | server | publisher | subscriber
	RW   string `json:"rewrite"`
	K    int64  `json:"k"`
	// Pad: error-rewriting middleware make their message / annotation this
	// many bytes long (0 = short), to cover texts around and far above 256 bytes
	Pad int `json:"error_text_bytes,omitempty"`
	// BigRsp: the middleware adds a response header of this many bytes to the
	// context of the call before passing it on
	BigRsp int `json:"response_header_bytes,omitempty"`
}

// padTo extends s with filler up to n bytes.
func padTo(s string, n int) string {
	if n > len(s) {
		return s + strings.Repeat("m", n-len(s))
	}
	return s
}

// ---- the FContext a middleware passes on ----------------------------------------

// ctxModel is what the oracle tracks of the FContext travelling with a call:
// its timeout and the request headers context-replacing middleware added.
type ctxModel struct {
	TO time.Duration
	H  []string
}

func (m ctxModel) String() string {
	return fmt.Sprintf("timeout=%dms headers=%v", m.TO/time.Millisecond, m.H)
}

// apply is what a context-replacing middleware does to the context.
func (m *ctxModel) apply(mw *mwSpec) {
	if mw.RW != rwCtx {
		return
	}
	m.TO = ctxTimeout(mw)
	m.H = append(append([]string(nil), m.H...), "x-mw-"+mw.ID+"="+mw.ID)
	sort.Strings(m.H)
}

func ctxTimeout(mw *mwSpec) time.Duration { return time.Duration(30+mw.K) * time.Second }

// replacement builds the context a context-replacing middleware passes on: a
// clone of the one it received with a DIFFERENT timeout and one more header.
func replacement(mw *mwSpec, old frugal.FContext) frugal.FContext {
	repl := frugal.Clone(old)
	repl.SetTimeout(ctxTimeout(mw))
	repl.AddRequestHeader("x-mw-"+mw.ID, mw.ID)
	return repl
}

// ctxDescOf renders the same features of a real context (or of what a handler
// recorded of it).
func ctxDescOf(timeout time.Duration, hdrs map[string]string) string {
	m := ctxModel{TO: timeout}
	for k, v := range hdrs {
		if strings.HasPrefix(k, "x-mw-") {
			m.H = append(m.H, k+"="+v)
		}
	}
	sort.Strings(m.H)
	return m.String()
}

func ctxDesc(c frugal.FContext) string {
	if c == nil {
		return "nil"
	}
	return ctxDescOf(c.Timeout(), c.RequestHeaders())
}

// withCtx appends the context description to rendered values.
func withCtx(vals, desc string) string { return vals + " ctx{" + desc + "}" }

// passOn returns the arguments middleware mw hands to the next handler.
func passOn(mw *mwSpec, method string, args frugal.Arguments) frugal.Arguments {
	if mw.BigRsp > 0 && len(args) > 0 {
		// server side: a large response header on the context of the call
		args.Context().AddResponseHeader("x-big-"+mw.ID, strings.Repeat("r", mw.BigRsp))
	}
	switch {
	case mw.RW == rwArg && len(args) > 0:
		return append(frugal.Arguments{args[0]}, rwArgs(mw, method, []interface{}(args[1:]))...)
	case mw.RW == rwCtx && len(args) > 0:
		pass := append(frugal.Arguments(nil), args...)
		pass.SetContext(replacement(mw, args.Context()))
		return pass
	}
	return args
}

// handBack returns what middleware mw hands back for the results res of its
// inner handler.
func handBack(mw *mwSpec, method string, res frugal.Results) frugal.Results {
	if mw.RW == rwInjectInPlace {
		if len(res) > 0 && res.Error() == nil {
			res.SetError(injected(mw, method))
		}
		return res
	}
	return frugal.Results(rwRes(mw, method, []interface{}(res)))
}

// mwErr is an error type of the monitor's own (client-side injections).
type mwErr struct{ msg string }

func (e *mwErr) Error() string { return e.msg }

func lowerFirst(s string) string {
	if s == "" {
		return s
	}
	r := []rune(s)
	r[0] = unicode.ToLower(r[0])
	return string(r)
}

// ---- value rendering (by value, never by pointer identity) ----------------------

func renderErr(err error) string {
	switch e := err.(type) {
	case nil:
		return "nil"
	case *mainsvc.Oops:
		if e == nil {
			return "Oops(nil)"
		}
		b, _ := json.Marshal(e)
		return "Oops" + string(b)
	case *base.ApiError:
		if e == nil {
			return "ApiError(nil)"
		}
		b, _ := json.Marshal(e)
		return "ApiError" + string(b)
	case *mwErr:
		return fmt.Sprintf("mwErr(%q)", e.msg)
	case thrift.TApplicationException:
		return fmt.Sprintf("TApplicationException(%d,%q)", e.TypeId(), e.Error())
	}
	return fmt.Sprintf("%T(%q)", err, err.Error())
}

func renderVal(v interface{}) string {
	switch x := v.(type) {
	case nil:
		return "nil"
	case frugal.FContext:
		return "fctx"
	case error:
		return renderErr(x)
	}
	b, err := json.Marshal(v)
	if err != nil {
		return fmt.Sprintf("%T:!%v", v, err)
	}
	return fmt.Sprintf("%T:%s", v, b)
}

// renderList renders args (without the FContext) or results.
func renderList(vs []interface{}) string {
	parts := make([]string, 0, len(vs))
	for _, v := range vs {
		if _, ok := v.(frugal.FContext); ok {
			continue
		}
		parts = append(parts, renderVal(v))
	}
	return "[" + strings.Join(parts, ", ") + "]"
}

// ---- copies -------------------------------------------------------------------

func copyPayload(p *mainsvc.Payload) *mainsvc.Payload {
	if p == nil {
		return nil
	}
	q := *p
	if p.Last != nil {
		l := *p.Last
		l.Nums = append([]int64(nil), p.Last.Nums...)
		q.Last = &l
	}
	return &q
}

func copyThing(t *base.Thing) *base.Thing {
	if t == nil {
		return nil
	}
	q := *t
	return &q
}

// ---- rewrite functions: pure functions of (middleware, method, values) ----------

// rwArgs returns the arguments (FContext excluded) middleware mw passes on.
func rwArgs(mw *mwSpec, method string, in []interface{}) []interface{} {
	if mw.RW != rwArg {
		return in
	}
	out := append([]interface{}(nil), in...)
	tag := "<" + mw.ID
	switch method {
	case "add":
		out[1] = out[1].(int64)*3 + mw.K
	case "echo":
		out[1] = out[1].(string) + tag
	case "getBig":
		out[1] = out[1].(string) + tag
	case "fire":
		out[0] = out[0].(string) + tag
	case "things":
		m := map[string]*base.Thing{}
		for k, v := range out[0].(map[string]*base.Thing) {
			m[k] = copyThing(v)
		}
		if t, ok := m["mw"]; ok && t != nil {
			t.AString += tag
		} else {
			m["mw"] = &base.Thing{AnID: 1, AString: tag}
		}
		out[0] = m
	case "nextColor":
		out[0] = base.Color((int64(out[0].(base.Color))*3 + mw.K) % 100003)
	case "blob":
		out[0] = append(append([]byte(nil), out[0].([]byte)...), tag...)
	case "echoThing", "publishPing", "subscribeNum", "subscribePing":
		t := copyThing(out[0].(*base.Thing))
		if t != nil {
			t.AString += tag
		}
		out[0] = t
	case "publishNum":
		t := copyThing(out[1].(*base.Thing))
		if t != nil {
			t.AString += tag
		}
		out[1] = t
	case "publishSent":
		p := copyPayload(out[1].(*mainsvc.Payload))
		if p != nil && p.Last != nil {
			p.Last.Big += tag
		}
		out[1] = p
	case "subscribeSent":
		p := copyPayload(out[0].(*mainsvc.Payload))
		if p != nil && p.Last != nil {
			p.Last.Big += tag
		}
		out[0] = p
	}
	return out
}

func annotate(err error, id string, pad int) error {
	tag := padTo("!"+id, pad)
	switch e := err.(type) {
	case *mainsvc.Oops:
		if e == nil {
			return err
		}
		q := *e
		q.Why += tag
		return &q
	case *base.ApiError:
		if e == nil {
			return err
		}
		q := *e
		q.Message += tag
		return &q
	case *mwErr:
		return &mwErr{e.msg + tag}
	case thrift.TApplicationException:
		return thrift.NewTApplicationException(e.TypeId(), e.Error()+tag)
	}
	return &mwErr{err.Error() + tag}
}

func injected(mw *mwSpec, method string) error {
	msg := padTo("inj:"+mw.ID, mw.Pad)
	if mw.Side == "server" {
		switch method {
		case "echo", "nothing":
			return &mainsvc.Oops{Why: msg}
		case "echoThing":
			return &base.ApiError{Message: msg, Code: int32(mw.K)}
		}
		return thrift.NewTApplicationException(int32(1000+mw.K), msg)
	}
	return &mwErr{msg}
}

// synthetic result used when a middleware clears an error.
func synthetic(mw *mwSpec, method string) interface{} {
	s := "cleared:" + mw.ID
	switch method {
	case "add":
		return int64(7000 + mw.K)
	case "echo":
		return &mainsvc.Payload{Last: &mainsvc.BigLast{N: int32(mw.K), Nums: []int64{mw.K}, Big: s}}
	case "getBig":
		return s
	case "things":
		return []*base.Thing{{AnID: int32(mw.K), AString: s}}
	case "nextColor":
		return base.Color(7000 + mw.K)
	case "blob":
		return []byte(s)
	case "echoThing":
		return &base.Thing{AnID: int32(mw.K), AString: s}
	}
	return nil
}

func resErr(res []interface{}) error {
	if e, ok := res[len(res)-1].(error); ok {
		return e
	}
	return nil
}

// rwRes returns the results middleware mw hands back.
func rwRes(mw *mwSpec, method string, in []interface{}) []interface{} {
	if mw.RW == rwObserve || mw.RW == rwArg || mw.RW == rwCtx {
		return in
	}
	out := append([]interface{}(nil), in...)
	last := len(out) - 1
	err := resErr(out)
	tag := ">" + mw.ID
	switch mw.RW {
	case rwResult:
		if last == 0 || err != nil {
			return in
		}
		switch method {
		case "add":
			out[0] = out[0].(int64)*5 + mw.K
		case "echo":
			p := copyPayload(out[0].(*mainsvc.Payload))
			if p != nil && p.Last != nil {
				p.Last.Big += tag
			}
			out[0] = p
		case "getBig":
			out[0] = out[0].(string) + tag
		case "things":
			l := append([]*base.Thing(nil), out[0].([]*base.Thing)...)
			out[0] = append(l, &base.Thing{AnID: int32(mw.K), AString: tag})
		case "nextColor":
			out[0] = base.Color((int64(out[0].(base.Color))*5 + mw.K) % 100003)
		case "blob":
			out[0] = append(append([]byte(nil), out[0].([]byte)...), tag...)
		case "echoThing":
			t := copyThing(out[0].(*base.Thing))
			if t != nil {
				t.AString += tag
			}
			out[0] = t
		}
	case rwAnnotate:
		if err != nil {
			out[last] = annotate(err, mw.ID, mw.Pad)
		}
	case rwInject, rwInjectInPlace:
		if err == nil {
			out[last] = injected(mw, method)
		}
	case rwClear:
		if err != nil {
			out[last] = nil
			if last == 1 {
				out[0] = synthetic(mw, method)
			}
		}
	}
	return out
}

// ---- the handler's function ----------------------------------------------------

// handlerFn is what the stub handler computes from the arguments it receives
// (FContext excluded); mode "throw" makes the argument-less nothing() throw.
func handlerFn(method, mode string, a []interface{}) []interface{} {
	switch method {
	case "add":
		return []interface{}{int64(a[0].(int32)) + a[1].(int64), nil}
	case "echo":
		tag := a[1].(string)
		switch {
		case strings.HasPrefix(tag, "throw-oops"):
			return []interface{}{(*mainsvc.Payload)(nil), &mainsvc.Oops{Why: "h:" + tag}}
		case strings.HasPrefix(tag, "throw-api"):
			return []interface{}{(*mainsvc.Payload)(nil), &base.ApiError{Message: "h:" + tag, Code: 9}}
		case strings.HasPrefix(tag, "throw-plain"):
			return []interface{}{(*mainsvc.Payload)(nil), errors.New("h:" + tag)}
		}
		p := copyPayload(a[0].(*mainsvc.Payload))
		if p != nil && p.Last != nil {
			p.Last.Big += "|" + tag
		}
		return []interface{}{p, nil}
	case "getBig":
		return []interface{}{fmt.Sprintf("%s:%d", a[1].(string), a[0].(int32)), nil}
	case "fire":
		return []interface{}{nil}
	case "nothing":
		if mode == "throw" {
			return []interface{}{&mainsvc.Oops{Why: "h:nothing"}}
		}
		return []interface{}{nil}
	case "things":
		m := a[0].(map[string]*base.Thing)
		keys := make([]string, 0, len(m))
		for k := range m {
			keys = append(keys, k)
		}
		sort.Strings(keys)
		out := []*base.Thing{}
		for _, k := range keys {
			t := copyThing(m[k])
			if t == nil {
				t = &base.Thing{}
			}
			t.AString = k + "=" + t.AString
			out = append(out, t)
		}
		out = append(out, &base.Thing{AnID: int32(len(a[1].(map[int32]bool))), AString: "ids"})
		return []interface{}{out, nil}
	case "nextColor":
		return []interface{}{a[0].(base.Color) + 1, nil}
	case "blob":
		return []interface{}{append(append([]byte(nil), a[0].([]byte)...), "|h"...), nil}
	case "basePing":
		return []interface{}{nil}
	case "echoThing":
		t := a[0].(*base.Thing)
		if t != nil && strings.HasPrefix(t.AString, "throw-api") {
			return []interface{}{(*base.Thing)(nil), &base.ApiError{Message: "h:" + t.AString, Code: t.AnID}}
		}
		q := copyThing(t)
		if q != nil {
			q.AString += "|h"
		}
		return []interface{}{q, nil}
	}
	panic("handlerFn: " + method)
}

// subscriberFn is what the subscriber callback returns (errorable variant).
func subscriberFn(op string, errorable bool, a []interface{}) []interface{} {
	if !errorable {
		return []interface{}{nil}
	}
	tok := ""
	switch v := a[0].(type) {
	case *mainsvc.Payload:
		if v != nil && v.Last != nil {
			tok = v.Last.Big
		}
	case *base.Thing:
		if v != nil {
			tok = v.AString
		}
	}
	if strings.HasPrefix(tok, "fail") {
		return []interface{}{&mwErr{"sub:" + tok}}
	}
	return []interface{}{nil}
}

// zero value the generated client returns next to an error.
func zeroResult(method string) interface{} {
	switch method {
	case "add":
		return int64(0)
	case "echo":
		return (*mainsvc.Payload)(nil)
	case "getBig":
		return ""
	case "things":
		return []*base.Thing(nil)
	case "nextColor":
		return base.Color(0)
	case "blob":
		return []byte(nil)
	case "echoThing":
		return (*base.Thing)(nil)
	}
	return nil
}

// cross models what the generated client's raw method returns for the results
// the outermost server-side middleware handed to the generated processor:
// declared exceptions and successful results travel by value, a
// TApplicationException keeps type id and message, anything else becomes
// INTERNAL_ERROR "Internal error processing <m>: <msg>"; a oneway returns nil.
func cross(method string, res []interface{}) []interface{} {
	if method == "fire" {
		return []interface{}{nil}
	}
	err := resErr(res)
	if err == nil {
		return append([]interface{}(nil), res...)
	}
	var out error
	declared := false
	switch err.(type) {
	case *mainsvc.Oops:
		declared = method == "echo" || method == "nothing"
	case *base.ApiError:
		declared = method == "echo" || method == "echoThing"
	}
	switch {
	case declared:
		out = err
	default:
		if tae, ok := err.(thrift.TApplicationException); ok {
			out = thrift.NewTApplicationException(tae.TypeId(), tae.Error())
		} else {
			out = thrift.NewTApplicationException(frugal.APPLICATION_EXCEPTION_INTERNAL_ERROR, "Internal error processing "+method+": "+err.Error())
		}
	}
	if len(res) == 1 {
		return []interface{}{out}
	}
	return []interface{}{zeroResult(method), out}
}
