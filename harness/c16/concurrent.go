package main

import (
	"fmt"
	"reflect"
	"strings"
	"sync"
	"sync/atomic"
	"time"

	frugal "github.com/Workiva/frugal/lib/go"

	"verif/rig"
	"vh/e2e"
	"vh/gen/base"
	"vh/gen/mainsvc"
)

// Concurrent phase: many goroutines call through ONE client / processor /
// publisher / subscriber object.  Every call carries a token (in an argument
// where the method has one, and as the FContext's correlation id); traces are
// kept per token and each call is judged on its own: every middleware, the
// handler and the caller must have seen exactly the values folded from THAT
// call's arguments.  No order between calls is asserted.

// ktracer keeps events per call token.
type ktracer struct {
	mu sync.Mutex
	by map[string][]event
}

func (t *ktracer) add(tok string, e event) {
	t.mu.Lock()
	t.by[tok] = append(t.by[tok], e)
	t.mu.Unlock()
}

func (t *ktracer) take(tok string) []event {
	t.mu.Lock()
	defer t.mu.Unlock()
	out := t.by[tok]
	delete(t.by, tok)
	return out
}

// All tracing middleware of a run are closures produced by this ONE factory
// (different captured specs): it must not be inlined, or each call site would
// get its own copy of the closure code and the middleware would stop sharing a
// code pointer - which is how middleware built by one constructor function
// look to the runtime (reflect.Value.Pointer of a closure is its code).
//
//go:noinline
func (t *ktracer) middleware(mw *mwSpec) frugal.ServiceMiddleware {
	return func(next frugal.InvocationHandler) frugal.InvocationHandler {
		return func(svc reflect.Value, m reflect.Method, args frugal.Arguments) frugal.Results {
			method := lowerFirst(m.Name)
			tok := args.Context().CorrelationID()
			t.add(tok, event{mw.ID, "enter", method, withCtx(renderList(args), ctxDesc(args.Context()))})
			res := next(svc, m, passOn(mw, method, args))
			t.add(tok, event{mw.ID, "exit", method, renderList(res)})
			return handBack(mw, method, res)
		}
	}
}

func (t *ktracer) list(specs []*mwSpec) []frugal.ServiceMiddleware {
	var out []frugal.ServiceMiddleware
	for _, s := range specs {
		out = append(out, t.middleware(s))
	}
	return out
}

// releaseTogether is a spinning barrier: the caller has prepared everything
// and makes its call right after; the last arrival releases all n.
func releaseTogether(ready *int32, n int, start chan struct{}) {
	if int(atomic.AddInt32(ready, 1)) == n {
		close(start)
		return
	}
	for spins := 0; ; spins++ {
		select {
		case <-start:
			return
		default:
		}
		if spins > 2000 {
			<-start // the others are slow to arrive: stop burning a core
			return
		}
	}
}

func tokPrefix(s string) string {
	if i := strings.IndexAny(s, "<>|!"); i >= 0 {
		return s[:i]
	}
	return s
}

// tokenOfArgs extracts the call token from the arguments a handler / callback
// received ("" when the method has no token-bearing argument).
func tokenOfArgs(method string, a []interface{}) (tok string) {
	defer func() {
		if recover() != nil {
			tok = "?"
		}
	}()
	switch method {
	case "add":
		return fmt.Sprintf("T%d", a[0].(int32))
	case "echo", "getBig":
		return tokPrefix(a[1].(string))
	case "blob":
		return tokPrefix(string(a[0].([]byte)))
	case "echoThing", "subscribeNum", "subscribePing":
		return tokPrefix(a[0].(*base.Thing).AString)
	case "subscribeSent":
		return tokPrefix(a[0].(*mainsvc.Payload).Last.Big)
	}
	return ""
}

// tokenCall builds the n-th call of a method with token T<n>.
func tokenCall(method string, n int) rpcCall {
	c := callByName(method)
	tok := fmt.Sprintf("T%d", n)
	switch method {
	case "add":
		c.Args = func() []interface{} { return []interface{}{int32(n), int64(40)} }
	case "echo":
		c.Args = func() []interface{} { return []interface{}{payload("big"), tok} }
	case "getBig":
		c.Args = func() []interface{} { return []interface{}{int32(3), tok} }
	case "blob":
		c.Args = func() []interface{} { return []interface{}{[]byte(tok)} }
	case "echoThing":
		c.Args = func() []interface{} { return []interface{}{&base.Thing{AnID: 4, AString: tok, At: 99}} }
	}
	return c
}

var concurrentMethods = []string{"add", "echo", "getBig", "blob", "echoThing", "nothing", "basePing"}

type concConfig struct {
	Index      int     `json:"index"`
	Kind       string  `json:"kind"`
	Goroutines int     `json:"goroutines"`
	Calls      int     `json:"calls_per_goroutine"`
	Lists      *config `json:"lists"`
	Note       string  `json:"note"`
}

func (mon *monitor) crossed(cc *concConfig, class, what string, w map[string]interface{}) {
	w["configuration"] = cc
	mon.run.Violation("C16:concurrent-arguments-crossed:"+class, what, w)
}

// runConcurrentRPC: one generated client (one transport) and one processor,
// shared by all goroutines.  legKind http gives overlapping invocations on the
// processor too (one handler goroutine per request); pipe overlaps on the
// client only (the simple server handles a connection's requests in turn).
//
// cold: the objects are brand new and the goroutines are released together, so
// that the very FIRST invocations of one method overlap (all goroutines start
// with the same method); one more caller makes sequential calls afterwards.
func (mon *monitor) runConcurrentRPC(idx int, legKind string, goroutines, calls int, cold bool) {
	rng := mon.run.Rand(fmt.Sprintf("c16-concurrent-rpc-%d-%v", idx, cold))
	cfg := genConfig(rng, idx*4) // rpc kind
	cfg.Mode = "rewriting"
	for _, sp := range cfg.all() {
		if sp.Pad > 2000 {
			sp.Pad = 2000 // thousands of calls: keep the traces light
		}
	}
	if cold {
		// full-length lists: the window in which first invocations can interleave grows with them
		var k int64 = 100
		for len(cfg.Provider) < 4 {
			cfg.Provider = append(cfg.Provider, genList(rng, 1, fmt.Sprintf("p%dx", len(cfg.Provider)), attProvider, "client", "rewriting", &k)...)
		}
		for len(cfg.Ctor) < 4 {
			cfg.Ctor = append(cfg.Ctor, genList(rng, 1, fmt.Sprintf("c%dx", len(cfg.Ctor)), attClientCtor, "client", "rewriting", &k)...)
		}
		for len(cfg.Proc) < 4 {
			cfg.Proc = append(cfg.Proc, genList(rng, 1, fmt.Sprintf("s%dx", len(cfg.Proc)), attProcessorCtor, "server", "rewriting", &k)...)
		}
		for len(cfg.Added) < 2 {
			cfg.Added = append(cfg.Added, genList(rng, 1, fmt.Sprintf("a%dx", len(cfg.Added)), attAddMiddleware, "server", "rewriting", &k)...)
		}
	}
	cc := &concConfig{Index: idx, Kind: "rpc/" + legKind, Goroutines: goroutines, Calls: calls, Lists: cfg, Note: "one client object and one processor object shared by all goroutines"}
	class := "rpc-" + legKind
	if cold {
		class = "first-calls-rpc-" + legKind
		cc.Note = "brand-new client and processor objects; all goroutines released together, first calls on the same method"
	}
	kt := &ktracer{by: map[string][]event{}}
	h := &e2e.Handler{}
	h.Behave = func(c *e2e.Call) *e2e.Outcome {
		cid := c.ReqHdrs["_cid"]
		key := tokenOfArgs(c.Method, c.Args)
		if key == "" {
			key = cid
		}
		kt.add(key, event{"handler", "call", c.Method, withCtx(renderList(c.Args), ctxDescOf(time.Duration(c.Timeout), c.ReqHdrs)) + " cid=" + cid})
		res := handlerFn(c.Method, "", c.Args)
		o := &e2e.Outcome{Err: resErr(res)}
		if len(res) == 2 {
			o.Ret = res[0]
		}
		return o
	}
	proc := mainsvc.NewFFooProcessor(h, kt.list(cfg.Proc)...)
	for _, a := range cfg.Added {
		proc.AddMiddleware(kt.middleware(a))
	}
	leg, err := rig.StartRPCLeg(legKind, "binary", proc, nil, rig.LegOptions{})
	if err != nil {
		mon.run.Inconclusive(fmt.Sprintf("concurrent configuration %d: leg did not start: %v", idx, err))
		return
	}
	defer leg.Stop()
	ft, err := leg.NewClient()
	if err != nil {
		mon.run.Inconclusive(fmt.Sprintf("concurrent configuration %d: client transport: %v", idx, err))
		return
	}
	defer ft.Close()
	client := mainsvc.NewFFooClient(frugal.NewFServiceProvider(ft, leg.PF, kt.list(cfg.Provider)...), kt.list(cfg.Ctor)...)
	specs := cfg.specs()
	clientChain := chain(cfg.Provider, cfg.Ctor)
	serverChain := chain(cfg.Added, cfg.Proc)
	mon.run.Eval(1)
	var wg sync.WaitGroup
	var stop int32
	start := make(chan struct{})
	var ready int32
	body := func(g int) {
		defer wg.Done()
		for i := 0; i < calls && atomic.LoadInt32(&stop) == 0; i++ {
			n := 1 + g*calls + i
			tok := fmt.Sprintf("T%d", n)
			mi := (g + i) % len(concurrentMethods)
			if cold && i == 0 {
				mi = idx % len(concurrentMethods)
			}
			call := tokenCall(concurrentMethods[mi], n)
			args := call.Args()
			var exp []event
			cm := &ctxModel{TO: 8 * time.Second}
			a := foldIn(&exp, clientChain, call.Method, cm, args)
			a = foldIn(&exp, serverChain, call.Method, cm, a)
			exp = append(exp, event{"handler", "call", call.Method, withCtx(renderList(a), cm.String()) + " cid=" + tok})
			res := handlerFn(call.Method, "", a)
			res = foldOut(&exp, serverChain, call.Method, res)
			res = cross(call.Method, res)
			res = foldOut(&exp, clientChain, call.Method, res)
			want := renderList(res)
			ctx := frugal.NewFContext(tok)
			ctx.SetTimeout(8 * time.Second)
			if cold && g < goroutines && i == 0 {
				releaseTogether(&ready, goroutines, start)
			}
			got := renderList(call.Invoke(client, ctx, args))
			act := kt.take(tok)
			mon.run.Add("concurrent_rpc_calls", 1)
			handlerEvents := 0
			for _, e := range act {
				if e.MW == "handler" {
					handlerEvents++
				}
			}
			ok := true
			if handlerEvents != 1 && len(ids(act, "enter")) == len(ids(exp, "enter")) {
				mon.crossed(cc, class, fmt.Sprintf("with overlapping invocations on one object the handler ran %d time(s) with this call's token (another call's arguments reached it, or this call's arguments reached another invocation)", handlerEvents),
					map[string]interface{}{"call": call.Name, "token": tok, "expected_trace": evStrings(exp), "observed_trace": evStrings(act), "caller_results": got})
				ok = false
			} else {
				ok = mon.j.compare(cc, call.Name+" "+tok, "concurrent-"+class, specs, exp, act)
			}
			if ok && got != want {
				mon.run.Violation("C16:caller-results:concurrent-"+class, "with overlapping invocations on one object the caller got results that are not those of its own call",
					map[string]interface{}{"configuration": cc, "call": call.Name, "token": tok, "expected": want, "observed": got, "observed_trace": evStrings(act)})
				ok = false
			}
			if ok {
				mon.run.Add("calls_conforming", 1)
			} else {
				atomic.StoreInt32(&stop, 1)
			}
		}
	}
	for g := 0; g < goroutines; g++ {
		wg.Add(1)
		go body(g)
	}
	wg.Wait()
	if cold && atomic.LoadInt32(&stop) == 0 {
		wg.Add(1)
		body(goroutines) // sequential calls on the now warmed-up objects
	}
	mon.strays(cc, class, kt)
	mon.run.Distinct(fmt.Sprintf("concurrent|%s|p%dc%ds%da%d|g%d", class, len(cfg.Provider), len(cfg.Ctor), len(cfg.Proc), len(cfg.Added), goroutines))
}

// strays reports events recorded under tokens whose calls were already judged.
func (mon *monitor) strays(cc *concConfig, class string, kt *ktracer) {
	kt.mu.Lock()
	defer kt.mu.Unlock()
	for tok, evs := range kt.by {
		mon.crossed(cc, class, "events were recorded under a token after that call had completed: an invocation ran with another call's arguments",
			map[string]interface{}{"token": tok, "stray_events": evStrings(evs)})
		return
	}
}

// runConcurrentScope: one generated publisher and one generated subscriber on
// the in-process loopback, shared by all goroutines.
func (mon *monitor) runConcurrentScope(idx, goroutines, calls int, cold bool) {
	rng := mon.run.Rand(fmt.Sprintf("c16-concurrent-scope-%d-%v", idx, cold))
	cfg := genConfig(rng, idx*4+3) // scope kind
	cfg.Mode = "rewriting"
	for _, sp := range cfg.all() {
		if sp.Pad > 2000 {
			sp.Pad = 2000 // thousands of calls: keep the traces light
		}
	}
	if cold {
		// full-length lists: the window in which first invocations can interleave grows with them
		var k int64 = 100
		for len(cfg.PubProv) < 4 {
			cfg.PubProv = append(cfg.PubProv, genList(rng, 1, fmt.Sprintf("pp%dx", len(cfg.PubProv)), attPubProvider, "publisher", "rewriting", &k)...)
		}
		for len(cfg.PubCtor) < 4 {
			cfg.PubCtor = append(cfg.PubCtor, genList(rng, 1, fmt.Sprintf("pc%dx", len(cfg.PubCtor)), attPubCtor, "publisher", "rewriting", &k)...)
		}
		for len(cfg.SubProv) < 4 {
			cfg.SubProv = append(cfg.SubProv, genList(rng, 1, fmt.Sprintf("sp%dx", len(cfg.SubProv)), attSubProvider, "subscriber", "rewriting", &k)...)
		}
		for len(cfg.SubCtor) < 4 {
			cfg.SubCtor = append(cfg.SubCtor, genList(rng, 1, fmt.Sprintf("sc%dx", len(cfg.SubCtor)), attSubCtor, "subscriber", "rewriting", &k)...)
		}
	}
	cc := &concConfig{Index: idx, Kind: "scope", Goroutines: goroutines, Calls: calls, Lists: cfg, Note: "one publisher object and one subscriber object per scope shared by all goroutines"}
	class := "scope"
	if cold {
		class = "first-calls-scope"
		cc.Note = "brand-new publisher and subscriber objects; all goroutines released together, first publishes on the same operation"
	}
	kt := &ktracer{by: map[string][]event{}}
	b := newBus()
	b.discard = true
	pf := rig.ProtocolFactory("binary")
	pubProvider := frugal.NewFScopeProvider(busPubFactory{b}, busSubFactory{b}, pf, kt.list(cfg.PubProv)...)
	subProvider := frugal.NewFScopeProvider(busPubFactory{b}, busSubFactory{b}, pf, kt.list(cfg.SubProv)...)
	user := "u1"
	onDeliver := func(op string, ctx frugal.FContext, v interface{}) error {
		a := []interface{}{v}
		cid := ctx.CorrelationID()
		key := tokenOfArgs("subscribe"+op, a)
		kt.add(key, event{"callback", "call", "subscribe" + op, withCtx(renderList(a), ctxDesc(ctx)) + " cid=" + cid})
		return resErr(subscriberFn(op, true, a))
	}
	es := mainsvc.NewEventsErrorableSubscriber(subProvider, kt.list(cfg.SubCtor)...)
	_, e1 := es.SubscribeSentErrorable(user, func(ctx frugal.FContext, p *mainsvc.Payload) error { return onDeliver("Sent", ctx, p) })
	_, e2 := es.SubscribeNumErrorable(user, func(ctx frugal.FContext, t *base.Thing) error { return onDeliver("Num", ctx, t) })
	_, e3 := mainsvc.NewPlainErrorableSubscriber(subProvider, kt.list(cfg.SubCtor)...).SubscribePingErrorable(func(ctx frugal.FContext, t *base.Thing) error { return onDeliver("Ping", ctx, t) })
	if err := firstErr(e1, e2, e3); err != nil {
		mon.run.Inconclusive(fmt.Sprintf("concurrent scope configuration %d: subscribe: %v", idx, err))
		return
	}
	epub := mainsvc.NewEventsPublisher(pubProvider, kt.list(cfg.PubCtor)...)
	ppub := mainsvc.NewPlainPublisher(pubProvider, kt.list(cfg.PubCtor)...)
	epub.Open()
	ppub.Open()
	specs := cfg.specs()
	pubChain := chain(cfg.PubProv, cfg.PubCtor)
	subChain := chain(cfg.SubProv, cfg.SubCtor)
	mon.run.Eval(1)
	var wg sync.WaitGroup
	var stop int32
	start := make(chan struct{})
	var ready int32
	body := func(g int) {
		defer wg.Done()
		for i := 0; i < calls && atomic.LoadInt32(&stop) == 0; i++ {
			n := 1 + g*calls + i
			tok := fmt.Sprintf("T%d", n)
			op := []string{"Sent", "Num", "Ping"}[(g+i)%3]
			if cold && i == 0 {
				op = []string{"Sent", "Num", "Ping"}[idx%3]
			}
			pm, sm := "publish"+op, "subscribe"+op
			var req interface{}
			if op == "Sent" {
				req = payload(tok)
			} else {
				req = &base.Thing{AnID: 8, AString: tok, At: 5}
			}
			pargs := []interface{}{req}
			if op != "Ping" {
				pargs = []interface{}{user, req}
			}
			var exp []event
			cm := &ctxModel{TO: 5 * time.Second}
			a := foldIn(&exp, pubChain, pm, cm, pargs)
			sa := foldIn(&exp, subChain, sm, cm, []interface{}{a[len(a)-1]})
			exp = append(exp, event{"callback", "call", sm, withCtx(renderList(sa), cm.String()) + " cid=" + tok})
			sres := foldOut(&exp, subChain, sm, subscriberFn(op, true, sa))
			_ = sres
			want := renderList(foldOut(&exp, pubChain, pm, []interface{}{nil}))
			ctx := frugal.NewFContext(tok)
			if cold && g < goroutines && i == 0 {
				releaseTogether(&ready, goroutines, start)
			}
			var perr error
			switch op {
			case "Sent":
				perr = epub.PublishSent(ctx, user, req.(*mainsvc.Payload))
			case "Num":
				perr = epub.PublishNum(ctx, user, req.(*base.Thing))
			default:
				perr = ppub.PublishPing(ctx, req.(*base.Thing))
			}
			got := renderList([]interface{}{errI(perr)})
			act := kt.take(tok)
			mon.run.Add("concurrent_publishes", 1)
			cbs := 0
			for _, e := range act {
				if e.MW == "callback" {
					cbs++
				}
			}
			ok := true
			if cbs != 1 && len(ids(act, "enter")) == len(ids(exp, "enter")) {
				mon.crossed(cc, class, fmt.Sprintf("with overlapping publishes on one publisher / deliveries on one subscriber the callback ran %d time(s) with this message's token", cbs),
					map[string]interface{}{"call": pm, "token": tok, "expected_trace": evStrings(exp), "observed_trace": evStrings(act)})
				ok = false
			} else {
				ok = mon.j.compare(cc, pm+" "+tok, "concurrent-"+class, specs, exp, act)
			}
			if ok && got != want {
				mon.run.Violation("C16:caller-results:concurrent-"+class, "with overlapping publishes the publishing caller got a result that is not that of its own publish",
					map[string]interface{}{"configuration": cc, "call": pm, "token": tok, "expected": want, "observed": got})
				ok = false
			}
			if ok {
				mon.run.Add("calls_conforming", 1)
			} else {
				atomic.StoreInt32(&stop, 1)
			}
		}
	}
	for g := 0; g < goroutines; g++ {
		wg.Add(1)
		go body(g)
	}
	wg.Wait()
	if cold && atomic.LoadInt32(&stop) == 0 {
		wg.Add(1)
		body(goroutines) // sequential calls on the now warmed-up objects
	}
	mon.strays(cc, class, kt)
	mon.run.Distinct(fmt.Sprintf("concurrent|scope|pp%dpc%dsp%dsc%d|g%d", len(cfg.PubProv), len(cfg.PubCtor), len(cfg.SubProv), len(cfg.SubCtor), goroutines))
}
