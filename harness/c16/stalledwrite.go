package main

import (
	"errors"
	"fmt"
	"io"
	"net"
	"os"
	"sync"
	"time"

	frugal "github.com/Workiva/frugal/lib/go"
	"github.com/apache/thrift/lib/go/thrift"

	"verif/rig"
	"vh/e2e"
	"vh/gen/mainsvc"
)

// Calls made after a call that timed out while its write was stalled.
//
// Stream leg: generated client -> adapter transport -> TSocket over net.Pipe ->
// relay -> net.Pipe -> FSimpleServer -> generated processor.  The relay stops
// reading the client->server direction for a while (a peer / network element
// that does not drain): the pipe is unbuffered, so the Write of the next frame
// blocks.  One round, all on ONE client object from ONE sequential caller:
//
//	relay paused (it acknowledged being parked, nothing is read any more)
//	call A, short timeout: its Write entered the transport and is stalled; the
//	        caller gets its timeout
//	call B, long timeout, right behind A from the same goroutine: its Write
//	        entered the transport (it queues behind A's on the connection)
//	relay resumed: the stalled write completes, then B's; B is answered
//	call C: an ordinary call, answered (the simple server handles the frames
//	        of a connection in turn: everything sent before C has been handled)
//
// Oracle (per call token, as everywhere in this monitor): B and C are ordinary
// calls - exactly once through everything, their own values, their own
// results.  A was seen to time out by its caller: its request may or may not
// have been processed afterwards, so only AT MOST ONCE per layer is asserted
// for it.  Nothing is keyed on time: the stall is established by the relay's
// acknowledgement, "A / B handed to the transport" by counting Write entries.

// stallRelay relays c (client side) <-> s (server side); the c->s direction
// can be parked.
type stallRelay struct {
	c, s   net.Conn
	mu     sync.Mutex
	paused bool
	resume chan struct{}
	parked chan struct{}
}

func newStallRelay(c, s net.Conn) *stallRelay {
	r := &stallRelay{c: c, s: s, parked: make(chan struct{}, 1)}
	go func() { // server -> client: immediate
		io.Copy(c, s)
		c.Close()
		s.Close()
	}()
	go r.forward()
	return r
}

func (r *stallRelay) forward() {
	buf := make([]byte, 64*1024)
	for {
		n, err := r.c.Read(buf)
		if n > 0 {
			if _, werr := r.s.Write(buf[:n]); werr != nil {
				break
			}
		}
		if err != nil {
			r.mu.Lock()
			paused, resume := r.paused, r.resume
			r.mu.Unlock()
			if paused && errors.Is(err, os.ErrDeadlineExceeded) {
				r.parked <- struct{}{}
				<-resume
				r.c.SetReadDeadline(time.Time{})
				continue
			}
			break
		}
	}
	r.c.Close()
	r.s.Close()
}

// pause returns once the relay is parked outside Read (false: watchdog).
func (r *stallRelay) pause() bool {
	r.mu.Lock()
	r.paused = true
	r.resume = make(chan struct{})
	r.mu.Unlock()
	r.c.SetReadDeadline(time.Now())
	select {
	case <-r.parked:
		return true
	case <-time.After(30 * time.Second):
		return false
	}
}

func (r *stallRelay) unpause() {
	r.mu.Lock()
	if r.paused {
		r.paused = false
		close(r.resume)
	}
	r.mu.Unlock()
}

// writeCounter counts the Writes that entered the client's byte transport.
type writeCounter struct {
	thrift.TTransport
	mu     sync.Mutex
	n      int
	notify chan struct{}
}

func (w *writeCounter) Write(p []byte) (int, error) {
	w.mu.Lock()
	w.n++
	w.mu.Unlock()
	select {
	case w.notify <- struct{}{}:
	default:
	}
	return w.TTransport.Write(p)
}

func (w *writeCounter) count() int {
	w.mu.Lock()
	defer w.mu.Unlock()
	return w.n
}

// await waits until at least k Writes were entered (false: watchdog).
func (w *writeCounter) await(k int) bool {
	dl := time.After(30 * time.Second)
	for w.count() < k {
		select {
		case <-w.notify:
		case <-time.After(50 * time.Millisecond):
		case <-dl:
			return w.count() >= k
		}
	}
	return true
}

// oneConnServer is a thrift.TServerTransport handing out prepared connections.
type oneConnServer struct {
	conns chan net.Conn
	quit  chan struct{}
	once  sync.Once
}

func (p *oneConnServer) Listen() error { return nil }
func (p *oneConnServer) Accept() (thrift.TTransport, error) {
	select {
	case c := <-p.conns:
		return thrift.NewTSocketFromConnConf(c, nil), nil
	case <-p.quit:
		return nil, thrift.NewTTransportException(thrift.NOT_OPEN, "server transport closed")
	}
}
func (p *oneConnServer) Close() error     { p.once.Do(func() { close(p.quit) }); return nil }
func (p *oneConnServer) Interrupt() error { return p.Close() }

type stalledRound struct {
	Round    int    `json:"round"`
	AMethod  string `json:"timed_out_call_method"`
	AToken   string `json:"timed_out_call_token"`
	ATimeout string `json:"timed_out_call_timeout"`
	BMethod  string `json:"next_call_method"`
	BToken   string `json:"next_call_token"`
	CToken   string `json:"barrier_call_token"`
	AGot     string `json:"timed_out_call_caller_results"`
}

// expectOrdinary folds the expected trace and caller results of an answered call.
func expectOrdinary(clientChain, serverChain []*mwSpec, call rpcCall, args []interface{}, tok string, to time.Duration) ([]event, string) {
	var exp []event
	cm := &ctxModel{TO: to}
	a := foldIn(&exp, clientChain, call.Method, cm, args)
	a = foldIn(&exp, serverChain, call.Method, cm, a)
	exp = append(exp, event{"handler", "call", call.Method, withCtx(renderList(a), cm.String()) + " cid=" + tok})
	res := handlerFn(call.Method, "", a)
	res = foldOut(&exp, serverChain, call.Method, res)
	res = cross(call.Method, res)
	res = foldOut(&exp, clientChain, call.Method, res)
	return exp, renderList(res)
}

// passedTwice returns the outermost layer (of layers, outermost first; then any
// other id) that recorded more than one entry, and the counts.
func passedTwice(act []event, layers []string) (string, map[string]int) {
	counts := map[string]int{}
	for _, e := range act {
		if e.Kind == "enter" || e.Kind == "call" {
			counts[e.MW]++
		}
	}
	for _, id := range layers {
		if counts[id] > 1 {
			return id, counts
		}
	}
	for id, n := range counts {
		if n > 1 {
			return id, counts
		}
	}
	return "", counts
}

func (mon *monitor) runStalledWrite(idx, rounds int) {
	rng := mon.run.Rand(fmt.Sprintf("c16-stalled-write-%d", idx))
	cfg := genConfig(rng, idx*4) // rpc kind
	for _, sp := range cfg.all() {
		if sp.Pad > 2000 {
			sp.Pad = 2000
		}
		if sp.Side == "client" && sp.RW == rwCtx {
			sp.RW = rwObserve // it would replace the short timeout of the stalled call by 30 s and more
		}
	}
	proto := rig.Protocols[idx%len(rig.Protocols)]
	cc := &concConfig{Index: idx, Kind: "rpc/pipe/" + proto, Goroutines: 1, Calls: rounds * 3, Lists: cfg,
		Note: "one client object on one adapter transport over an unbuffered stream whose relay stops reading for a while; one sequential caller"}
	class := "stalled-write/pipe"

	kt := &ktracer{by: map[string][]event{}}
	h := &e2e.Handler{}
	h.Behave = func(c *e2e.Call) *e2e.Outcome {
		cid := c.ReqHdrs["_cid"]
		key := tokenOfArgs(c.Method, c.Args)
		if key == "" {
			key = cid
		}
		kt.add(key, event{"handler", "call", c.Method, withCtx(renderList(c.Args), ctxDescOf(time.Duration(c.Timeout), c.ReqHdrs)) + " cid=" + cid})
		res := handlerFn(c.Method, "", c.Args)
		o := &e2e.Outcome{Err: resErr(res)}
		if len(res) == 2 {
			o.Ret = res[0]
		}
		return o
	}
	proc := mainsvc.NewFFooProcessor(h, kt.list(cfg.Proc)...)
	for _, a := range cfg.Added {
		proc.AddMiddleware(kt.middleware(a))
	}
	pf := rig.ProtocolFactory(proto)
	st := &oneConnServer{conns: make(chan net.Conn, 1), quit: make(chan struct{})}
	srv := frugal.NewFSimpleServer(proc, st, pf)
	go srv.Serve()
	defer srv.Stop()
	c1, r1 := net.Pipe() // client <-> relay
	r2, s2 := net.Pipe() // relay <-> server
	st.conns <- s2
	relay := newStallRelay(r1, r2)
	defer func() {
		relay.unpause()
		c1.Close()
		r1.Close()
		r2.Close()
		s2.Close()
	}()
	wc := &writeCounter{TTransport: thrift.NewTSocketFromConnConf(c1, nil), notify: make(chan struct{}, 1)}
	ft := frugal.NewAdapterTransport(wc)
	if err := ft.Open(); err != nil {
		mon.run.Inconclusive(fmt.Sprintf("stalled-write configuration %d: client transport: %v", idx, err))
		return
	}
	defer ft.Close()
	client := mainsvc.NewFFooClient(frugal.NewFServiceProvider(ft, pf, kt.list(cfg.Provider)...), kt.list(cfg.Ctor)...)
	specs := cfg.specs()
	clientChain := chain(cfg.Provider, cfg.Ctor)
	serverChain := chain(cfg.Added, cfg.Proc)
	var layers []string // outermost first
	for _, sp := range clientChain {
		layers = append(layers, sp.ID)
	}
	for _, sp := range serverChain {
		layers = append(layers, sp.ID)
	}
	layers = append(layers, "handler")
	att := func(id string) string {
		if s, ok := specs[id]; ok {
			return s.Att
		}
		return id
	}
	mon.run.Eval(1)
	inconclusive := func(what string) {
		mon.run.Inconclusive(fmt.Sprintf("stalled-write configuration %d: %s", idx, what))
	}

	const long = 8 * time.Second
	n := 9 // tokens T10..T99: the same number of digits in every call of a configuration
	type made struct {
		call rpcCall
		tok  string
		exp  []event
		want string
		got  string
	}
	prepare := func(method string) *made {
		n++
		m := &made{call: tokenCall(method, n), tok: fmt.Sprintf("T%d", n)}
		return m
	}
	invoke := func(m *made, to time.Duration) {
		args := m.call.Args()
		m.exp, m.want = expectOrdinary(clientChain, serverChain, m.call, args, m.tok, to)
		ctx := frugal.NewFContext(m.tok)
		ctx.SetTimeout(to)
		m.got = renderList(m.call.Invoke(client, ctx, args))
	}
	// judgeOrdinary: an answered call, exactly once through everything
	judgeOrdinary := func(m *made, where string, rd *stalledRound) bool {
		act := kt.take(m.tok)
		w := map[string]interface{}{"configuration": cc, "round": rd, "call": m.call.Name, "token": m.tok, "caller_results": clip(m.got, 400),
			"expected_trace": evStrings(m.exp), "observed_trace": evStrings(act),
			"replay": "configuration and rounds are a pure function of (VERIF_SEED, tier, index); the stall is the relay not reading, established by its acknowledgement, not by timing"}
		if id, counts := passedTwice(act, layers); id != "" {
			what := fmt.Sprintf("middleware %s (%s) intercepted", id, att(id))
			if id == "handler" {
				what = "the handler was invoked for"
			}
			mon.run.Violation("C16:count:"+att(id)+":"+where+"/"+class,
				fmt.Sprintf("%s ONE client call %d times: the call was made on the same client right after a call that timed out while its write was stalled, and the stalled write completed afterwards", what, counts[id]), w)
			return false
		}
		if outcomeClass(m.got) == "timed-out" && len(filterSide(act, specs, "server")) == 0 {
			inconclusive(fmt.Sprintf("call %s (%s, 8 s timeout) was not answered in time after the stall had ended", m.tok, where))
			return false
		}
		if !mon.j.compare(cc, m.call.Name+" "+m.tok, where+"/"+class, specs, m.exp, act) {
			return false
		}
		if m.got != m.want {
			w["expected"] = m.want
			mon.run.Violation("C16:caller-results:"+where+"/"+class, "an ordinary call made after a call that timed out with its write stalled: the caller got results that are not those of its own call", w)
			return false
		}
		mon.run.Add("calls_conforming", 1)
		return true
	}

	// warm-up: an ordinary call on the healthy connection
	warm := prepare(concurrentMethods[idx%len(concurrentMethods)])
	invoke(warm, long)
	if !judgeOrdinary(warm, "call-before-any-stall", nil) {
		return
	}
	for r := 0; r < rounds; r++ {
		rd := &stalledRound{Round: r}
		rd.AMethod = lostMethods[rng.Intn(len(lostMethods))]
		rd.BMethod = rd.AMethod
		if rd.AMethod == "fire" || rng.Intn(4) == 0 {
			rd.BMethod = concurrentMethods[rng.Intn(len(concurrentMethods))]
		}
		short := time.Second // "1000": as many digits as the later calls' "8000"
		if rng.Intn(4) == 0 {
			short = 250 * time.Millisecond
		}
		rd.ATimeout = short.String()
		a, b := prepare(rd.AMethod), prepare(rd.BMethod)
		c := prepare(concurrentMethods[(idx+r)%len(concurrentMethods)])
		rd.AToken, rd.BToken, rd.CToken = a.tok, b.tok, c.tok

		if !relay.pause() {
			inconclusive("the relay did not park within 30 s")
			return
		}
		base := wc.count()
		aDone, bDone := make(chan struct{}), make(chan struct{})
		go func() { // ONE sequential caller: A, then B right behind it
			invoke(a, short)
			close(aDone)
			invoke(b, long)
			close(bDone)
		}()
		select {
		case <-aDone:
		case <-time.After(60 * time.Second):
			relay.unpause()
			inconclusive(fmt.Sprintf("round %d: call %s (timeout %s) did not return within 60 s while its write was stalled", r, a.tok, short))
			return
		}
		rd.AGot = clip(a.got, 300)
		// A's frame and B's frame were handed to the byte transport (B's queues behind A's)
		if !wc.await(base + 2) {
			relay.unpause()
			inconclusive(fmt.Sprintf("round %d: the writes of calls %s and %s did not both enter the transport within 30 s (%d of 2)", r, a.tok, b.tok, wc.count()-base))
			return
		}
		select {
		case <-bDone:
			relay.unpause()
			inconclusive(fmt.Sprintf("round %d: call %s returned while the connection was stalled", r, b.tok))
			return
		default:
		}
		relay.unpause() // the stalled write completes
		select {
		case <-bDone:
		case <-time.After(60 * time.Second):
			inconclusive(fmt.Sprintf("round %d: call %s did not return within 60 s after the stall ended", r, b.tok))
			return
		}
		invoke(c, long) // barrier: every frame sent before has been handled when this one is answered
		mon.run.Add("stalled_write_rounds", 1)
		mon.run.Add("stalled_write_timed_out_caller_outcome/"+outcomeClass(a.got), 1)

		// A: its caller saw it time out; at most once anywhere
		actA := kt.take(a.tok)
		if id, counts := passedTwice(actA, layers); id != "" {
			mon.run.Violation("C16:count:"+att(id)+":call-timed-out-with-stalled-write/"+class,
				fmt.Sprintf("%s (%s) was passed %d times by ONE client call (the call timed out while its write was stalled; the write completed later)", id, att(id), counts[id]),
				map[string]interface{}{"configuration": cc, "round": rd, "observed_trace": evStrings(actA)})
			return
		}
		if len(filterSide(actA, specs, "server")) > 0 {
			mon.run.Add("stalled_write_timed_out_call_processed_later", 1)
		} else {
			mon.run.Add("stalled_write_timed_out_call_never_processed", 1)
		}
		if !judgeOrdinary(b, "call-after-timed-out-call", rd) {
			return
		}
		if !judgeOrdinary(c, "call-after-stall-ended", rd) {
			return
		}
		same := "other-method"
		if rd.AMethod == rd.BMethod {
			same = "same-method"
		}
		mon.run.Distinct(fmt.Sprintf("stalled-write|%s|%s|%s|%s|%s", proto, rd.AMethod, same, rd.ATimeout, rd.BMethod))
		if idx == 0 && r < 2 {
			mon.run.Sample(map[string]interface{}{"stalled_write_round": rd, "protocol": proto})
		}
	}
	mon.strays(cc, class, kt)
}
