package main

import (
	"fmt"
	"sync/atomic"
	"time"

	frugal "github.com/Workiva/frugal/lib/go"

	"verif/rig"
	"verif/wire"
	"vh/e2e"
)

// Reuse dimension: 2-4 calls made one after the other on the SAME FContext
// (allowed once a request has completed: retry loops, a handler propagating
// its inbound context to several downstream calls).  Between the calls user
// request headers and the timeout change; the handler sets response headers
// whose names overlap across the calls with different values, and some names
// only in an earlier call.  Asserted per step: the handler sees the context as
// it is at that call, and every header the handler set in THIS call is on the
// caller's context with THIS call's value afterwards (names set only by
// earlier calls may legally still be there).

var reuseMethods = []string{"add", "echo", "echoThing", "nothing", "basePing", "getBig", "blob"}

func (m *monitor) runReuse(ns *rig.NatsServer, spec legSpec, legIdx, sequences int) {
	lr := &legRun{m: m, spec: spec, name: spec.String(), issued: map[string]bool{}}
	leg, err := e2e.StartLeg(spec.Kind, spec.Proto, ns, rig.LegOptions{})
	if err != nil {
		m.run.Inconclusive("leg " + lr.name + " did not start: " + err.Error())
		return
	}
	defer leg.Stop()
	lr.leg = leg
	leg.Handler.OnCall = lr.onCall
	leg.Handler.Behave = lr.behave
	serial := 0
	for q := 0; q < sequences && atomic.LoadInt32(&lr.abort) == 0; q++ {
		rng := m.run.Rand(fmt.Sprintf("c09-reuse-%s-%d", lr.name, q))
		seqID := fmt.Sprintf("%s#%d", lr.name, q)
		steps := 2 + rng.Intn(3)
		cid, _ := genCID(rng, fmt.Sprintf("r%d-%d", legIdx, q))
		ctx := frugal.NewFContext(cid)
		req := genHeaders(rng, 6, nil, 4096)
		for _, p := range req.Pairs {
			ctx.AddRequestHeader(p.Name, p.Value)
		}
		// pool of response header names reused across the steps
		var pool []string
		for len(pool) < 3+rng.Intn(3) {
			n, _ := genName(rng, true)
			dup := false
			for _, o := range pool {
				dup = dup || o == n
			}
			if !dup {
				pool = append(pool, n)
			}
		}
		if len(req.Pairs) > 0 && rng.Intn(2) == 0 {
			pool = append(pool, req.Pairs[0].Name) // shadows a request header name
		}
		last := map[string]string{}
		var earlier []map[string]string
		outcomes := ""
		m.run.Add("reuse_sequences", 1)
		for step := 1; step <= steps; step++ {
			serial++
			cs := &callCase{Leg: lr.name, Index: 2000000 + q*10 + step, ID: int64(legIdx)*100000 + 70000 + int64(serial), handlerDone: make(chan struct{}),
				Outcome: "ok", CIDCls: "reused", TOCls: "reused", ctx: ctx, Step: step, SeqID: seqID, Earlier: earlier,
				Req: headerSet{Classes: map[string]bool{}}, Rsp: headerSet{Classes: map[string]bool{}}}
			cs.Token = fmt.Sprintf("k%d", cs.ID)
			cs.Method = reuseMethods[rng.Intn(len(reuseMethods))]
			switch k := rng.Intn(10); {
			case k < 3 && (cs.Method == "echo" || cs.Method == "nothing" || cs.Method == "echoThing"):
				cs.Outcome = "declared"
			case k < 6:
				cs.Outcome = "undeclared" // application exception at the caller
			}
			outcomes += cs.Outcome[:1]
			// request side changes between the calls
			if step > 1 {
				for _, p := range req.Pairs {
					if rng.Intn(3) == 0 {
						v, _ := genValue(rng, false, 0)
						ctx.AddRequestHeader(p.Name, v+fmt.Sprint(step))
					}
				}
				for i := rng.Intn(3); i > 0; i-- {
					n, _ := genName(rng, true)
					v, _ := genValue(rng, false, 0)
					ctx.AddRequestHeader(n, v)
				}
				if rng.Intn(2) == 0 {
					ms, _ := genTimeoutMS(rng)
					if ms > 0 {
						ctx.SetTimeout(time.Duration(ms) * time.Millisecond)
					}
					if (spec.Kind == "pipe" || spec.Kind == "tcp") && rng.Intn(4) == 0 {
						d, _ := genNoDeadline(rng)
						ctx.SetTimeout(d)
						m.run.Add("reuse_no_deadline_timeouts", 1)
					}
				}
			}
			// response headers of this step: the first pool name always, with a
			// value that differs from the previous step's
			now := map[string]string{}
			for i, n := range pool {
				if i > 0 && rng.Intn(5) < 2 {
					continue // absent in this step
				}
				v, _ := genValue(rng, false, 0)
				if prev, ok := last[n]; ok && prev == v {
					v += fmt.Sprintf("#%d", step)
				}
				if _, ok := last[n]; ok {
					m.run.Add("reuse_overlapping_response_names", 1)
				}
				cs.Rsp.Pairs = append(cs.Rsp.Pairs, wire.Pair{Name: n, Value: v})
				now[n] = v
				last[n] = v
			}
			cc := lr.current()
			if cc == nil {
				return
			}
			m.run.Add("reuse_calls", 1)
			lr.oneCallOn(cc, cs)
			if !cs.completed {
				break // lost / rejected call: already reported; do not go on with this context
			}
			earlier = append(earlier, now)
		}
		m.run.Distinct(fmt.Sprintf("reuse|%s|steps=%d|%s", lr.name, steps, outcomes))
		// keep the tap and the recorder small; the per-step checks are complete
		leg.Tap.Reset()
		leg.Handler.Reset()
		lr.sumMu.Lock()
		lr.summary = nil
		lr.sumMu.Unlock()
	}
}

// verifyReuseStep judges the caller's response headers after one step of a
// reuse sequence.
func (lr *legRun) verifyReuseStep(cs *callCase, hFinal map[string]string) {
	m := lr.m
	m.run.Add("reuse_steps_verified", 1)
	extra := map[string]interface{}{"sequence": cs.SeqID, "step": cs.Step, "headers_set_by_earlier_steps": qmaps(cs.Earlier)}
	want := cs.Rsp.asMap()
	want["_cid"] = cs.callerCID
	for name, v := range want {
		got, ok := cs.callerRspAfter[name]
		if ok && got == v {
			continue
		}
		kind := "reused-context-response-header-missing"
		what := "a header the handler set in this call is not on the (reused) caller FContext after the call returned"
		if ok {
			kind = "reused-context-response-header-altered"
			what = "a header the handler set in this call has another value on the (reused) caller FContext after the call returned"
			for _, e := range cs.Earlier {
				if ev, set := e[name]; set && ev == got {
					kind = "reused-context-response-header-stale"
					what = "after a later call on the same FContext the caller still reads the value an EARLIER call's handler had set for this header, not this call's"
				}
			}
		}
		extra["header"] = qs(name)
		extra["expected_value"] = qs(v)
		extra["observed_value"] = qs(got)
		lr.violation(kind, what, cs, extra)
		return
	}
	// the reply on the wire carried exactly the handler's final map (this call's)
	if rp := without(hFinal, "_opid"); !mapsEqual(rp, want) {
		lr.violation("reused-context-handler-response-differs", "the handler's context of this step did not end with {_cid} + the headers set in this step (it is a new context per request)", cs, extra)
	}
}

func qmaps(ms []map[string]string) []map[string]string {
	var out []map[string]string
	for _, m := range ms {
		out = append(out, qmap(m))
	}
	return out
}
